(* C16: the fraction-free elimination of Model/C16Matcher.v maintains  x = d*a - m.B  with d <> 0.
   Consequence: whenever it reduces a row to zero, the certificate it hands to [cert_ok] is valid, i.e. the
   certificate check never rejects; [row_in_span B a = true] iff the elimination reduces a to zero. *)
From Snax Require Import Base.Prelude Base.ListAux Model.C03Schedule Model.C16Matcher Proofs.C16MatcherProofs.

Lemma vsub_length a b : length a = length b -> length (vsub a b) = length a.
Proof. intros H. unfold vsub. apply vadd_length. rewrite vscale_length. exact H. Qed.

Lemma vsub_nth j a b : length a = length b -> nth j (vsub a b) 0 = nth j a 0 - nth j b 0.
Proof. intros H. unfold vsub. rewrite vadd_nth by (rewrite vscale_length; exact H). rewrite vscale_nth. lia. Qed.

Lemma lincomb_vadd j m1 m2 B : length m1 = length m2 ->
  lincomb j (vadd m1 m2) B = lincomb j m1 B + lincomb j m2 B.
Proof.
  revert m2 B; induction m1 as [|x m1 IH]; intros [|y m2] B H; try discriminate; [reflexivity|].
  destruct B as [|bk B]; cbn [vadd lincomb]; [reflexivity|]. rewrite IH by (injection H; auto). lia.
Qed.

Lemma lincomb_vscale j k m B : lincomb j (vscale k m) B = k * lincomb j m B.
Proof.
  revert B; induction m as [|x m IH]; intros B; cbn [vscale map lincomb]; [lia|].
  destruct B as [|bk B]; [lia|]. fold (vscale k m). rewrite IH. lia.
Qed.

Lemma lincomb_zero j n B : lincomb j (repeat 0 n) B = 0.
Proof.
  revert B; induction n as [|n IH]; intros B; cbn [repeat lincomb]; [reflexivity|].
  destruct B as [|bk B]; [reflexivity|]. rewrite IH. lia.
Qed.

Lemma lincomb_unit j B : forall i off, (i < length B)%nat ->
  lincomb j (map (fun k => if Nat.eqb k (off + i) then 1 else 0) (seq off (length B))) B = nth j (nth i B []) 0.
Proof.
  induction B as [|bk B IH]; intros i off Hi; [cbn in Hi; lia|].
  cbn [length seq map lincomb]. destruct i as [|i].
  - rewrite Nat.add_0_r, Nat.eqb_refl. cbn [nth].
    assert (Hz : forall l o, (off < o)%nat -> lincomb j (map (fun k => if Nat.eqb k off then 1 else 0) (seq o (length l))) l = 0).
    { induction l as [|b l IHl]; intros o Ho; [reflexivity|]. cbn [length seq map lincomb].
      destruct (Nat.eqb o off) eqn:E; [apply Nat.eqb_eq in E; lia|]. rewrite IHl by lia. lia. }
    rewrite Hz by lia. lia.
  - destruct (Nat.eqb off (off + S i)) eqn:E; [apply Nat.eqb_eq in E; lia|].
    replace (off + S i)%nat with (S off + i)%nat by lia. rewrite IH by (cbn in Hi; lia). cbn [nth]. lia.
Qed.

Lemma lincomb_unit_vec j B i : (i < length B)%nat -> lincomb j (unit_vec (length B) i) B = nth j (nth i B []) 0.
Proof. intros H. unfold unit_vec. apply (lincomb_unit j B i 0%nat H). Qed.

Lemma unit_vec_length n i : length (unit_vec n i) = n.
Proof. unfold unit_vec. rewrite map_length, seq_length. reflexivity. Qed.

Lemma pivot_nonzero v : vzerob v = false -> nth (pivot v) v 0 <> 0.
Proof.
  induction v as [|x v IH]; [discriminate|]. cbn [vzerob forallb pivot].
  destruct (x =? 0) eqn:E; cbn [andb nth]; [exact IH | intros _; lia].
Qed.

Lemma vzerob_nth v : vzerob v = true -> forall j, nth j v 0 = 0.
Proof.
  induction v as [|x v IH]; intros H j; [destruct j; reflexivity|]. cbn in H. apply andb_true_iff in H as [Hx Hv].
  destruct j; cbn [nth]; [lia|]. apply IH. exact Hv.
Qed.

Section Elim.
  Variable B : list vec.
  Variable n : nat.
  Hypothesis HB : Forall (fun r => length r = n) B.
  Let nB := length B.

  (* (x, d, m) represents  x = d*a - m.B *)
  Definition rep (a x : vec) (d : Z) (m : vec) : Prop :=
    length x = n /\ length m = nB /\ d <> 0 /\ forall j, nth j x 0 = d * nth j a 0 - lincomb j m B.
  Definition belem_ok (e : belem) : Prop :=
    match e with (pc, v, c) => length v = n /\ length c = nB /\ nth pc v 0 <> 0 /\ forall j, nth j v 0 = lincomb j c B end.

  Lemma reduce_rep a basis : Forall belem_ok basis -> forall x d m, rep a x d m ->
    match reduce basis x d m with (x', d', m') => rep a x' d' m' end.
  Proof.
    induction 1 as [|[[pc v] c] basis (Hv & Hc & Hp & Hvc) _ IH]; intros x d m Hr; [exact Hr|].
    cbn [reduce]. destruct (nth pc x 0 =? 0); [apply IH; exact Hr|]. apply IH.
    destruct Hr as (Hx & Hm & Hd & Hxj). unfold rep.
    split; [rewrite vsub_length; rewrite !vscale_length; congruence|].
    split; [rewrite vadd_length; rewrite !vscale_length; congruence|].
    split; [nia|]. intros j.
    rewrite vsub_nth by (rewrite !vscale_length; congruence). rewrite !vscale_nth.
    rewrite lincomb_vadd by (rewrite !vscale_length; congruence). rewrite !lincomb_vscale, Hxj, Hvc. lia.
  Qed.

  Lemma rep_init a : length a = n -> rep a a 1 (repeat 0 nB).
  Proof.
    intros Ha. unfold rep. split; [exact Ha|]. split; [apply repeat_length|]. split; [lia|].
    intros j. rewrite lincomb_zero. lia.
  Qed.

  Lemma build_basis_ok : forall rows i basis,
    (forall k r, nth_error rows k = Some r -> nth_error B (i + k) = Some r) ->
    Forall belem_ok basis -> Forall belem_ok (build_basis nB rows i basis).
  Proof.
    induction rows as [|r rest IH]; intros i basis Hrows Hb; [exact Hb|]. cbn [build_basis].
    assert (Hri : nth_error B i = Some r) by (rewrite <- (Nat.add_0_r i); apply Hrows; reflexivity).
    assert (Hlen : length r = n) by (rewrite Forall_forall in HB; apply HB; eapply nth_error_In; exact Hri).
    pose proof (reduce_rep r basis Hb r 1 (repeat 0 nB) (rep_init r Hlen)) as Hr.
    destruct (reduce basis r 1 (repeat 0 nB)) as [[x d] m].
    assert (Hrest : forall k r0, nth_error rest k = Some r0 -> nth_error B (S i + k) = Some r0).
    { intros k r0 Hk. replace (S i + k)%nat with (i + S k)%nat by lia. apply Hrows. exact Hk. }
    destruct (vzerob x) eqn:Hz; [apply IH; assumption|]. apply IH; [assumption|].
    apply Forall_app. split; [exact Hb|]. constructor; [|constructor].
    destruct Hr as (Hx & Hm & Hd & Hxj). unfold belem_ok.
    split; [exact Hx|].
    split; [rewrite vsub_length; rewrite vscale_length, unit_vec_length; congruence|].
    split; [apply pivot_nonzero; exact Hz|]. intros j.
    assert (Hi : (i < length B)%nat) by (apply nth_error_Some; congruence).
    unfold vsub. rewrite lincomb_vadd by (rewrite !vscale_length, unit_vec_length; congruence).
    rewrite !lincomb_vscale. unfold nB. rewrite lincomb_unit_vec by exact Hi.
    rewrite Hxj. erewrite (nth_error_nth B i [] Hri). lia.
  Qed.

  Lemma nth_ext_Z (u v : vec) : length u = length v -> (forall j, nth j u 0 = nth j v 0) -> u = v.
  Proof.
    revert v; induction u as [|x u IH]; intros [|y v] Hl Hj; try discriminate; [reflexivity|].
    f_equal; [exact (Hj 0%nat) | apply IH; [injection Hl; auto | intros j; exact (Hj (S j))]].
  Qed.

  (* whatever the elimination returns is a valid certificate *)
  Theorem find_coeffs_valid a d m : length a = n -> find_coeffs B a = Some (d, m) -> cert_ok B a d m = true.
  Proof.
    intros Ha H. unfold find_coeffs in H. fold nB in H.
    assert (Hbasis : Forall belem_ok (build_basis nB B 0 [])) by (apply build_basis_ok; [intros k r Hk; exact Hk | constructor]).
    pose proof (reduce_rep a _ Hbasis a 1 (repeat 0 nB) (rep_init a Ha)) as Hr.
    destruct (reduce (build_basis nB B 0 []) a 1 (repeat 0 nB)) as [[x d'] m'].
    destruct (vzerob x) eqn:Hz; [|discriminate]. injection H as -> ->.
    destruct Hr as (Hx & Hm & Hd & Hxj). unfold cert_ok. apply andb_true_iff. split; [lia|].
    apply list_eqb_eq; [intros; apply Z.eqb_eq|].
    apply nth_ext_Z; [rewrite vscale_length, vecmat_length; [reflexivity | rewrite Ha; exact HB]|].
    intros j. rewrite vscale_nth, vecmat_nth by (rewrite Ha; exact HB).
    pose proof (Hxj j) as E. rewrite (vzerob_nth x Hz) in E. lia.
  Qed.

  (* hence acceptance is exactly "the elimination reduces the row to zero" *)
  Corollary row_in_span_iff a : length a = n -> (row_in_span B a = true <-> find_coeffs B a <> None).
  Proof.
    intros Ha. unfold row_in_span. destruct (find_coeffs B a) as [[d m]|] eqn:E.
    - rewrite (find_coeffs_valid a d m Ha E). split; [discriminate|reflexivity].
    - split; [discriminate|congruence].
  Qed.
End Elim.
