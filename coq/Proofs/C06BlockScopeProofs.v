(* C06 — block_overlap_scoped for arbitrary programs: under the side condition of the block rule every operand is
   still defined before its use after the rewrite (wf_scope is preserved). *)
From Snax Require Import Base.Prelude Model.AccIR Model.AccSem Model.AccWeave Model.AccRules
  Proofs.AccSemProofs.
From Snax Require Import Model.C06Overlap Model.C06BlockSide Proofs.C06SimProofs Proofs.C06BlockGenProofs.

Definition sub (d d' : list val) : Prop := forall x, mem_nat x d = true -> mem_nat x d' = true.

Lemma sub_refl d : sub d d. Proof. intros x H; exact H. Qed.
Lemma sub_trans a b c : sub a b -> sub b c -> sub a c. Proof. intros H1 H2 x H. apply H2, H1, H. Qed.
Lemma mem_app x l1 l2 : mem_nat x (l1 ++ l2) = mem_nat x l1 || mem_nat x l2.
Proof. unfold mem_nat. apply existsb_app. Qed.
Lemma sub_app_r e d d' : sub d d' -> sub (e ++ d) (e ++ d').
Proof. intros H x. rewrite !mem_app. intros Hx. apply orb_true_iff in Hx as [Hx|Hx]; [rewrite Hx; reflexivity|rewrite (H x Hx); apply orb_true_r]. Qed.
Lemma sub_cons v d d' : sub d d' -> sub (v :: d) (v :: d').
Proof. apply (sub_app_r [v]). Qed.
Lemma all_in_sub xs d d' : sub d d' -> all_in xs d = true -> all_in xs d' = true.
Proof. unfold all_in. rewrite !forallb_forall. intros H Ha x Hx. apply H. apply Ha. exact Hx. Qed.

Lemma scope_stmt_for d iv lb ub sp iters rs body ys :
  scope_stmt d (SFor iv lb ub sp iters rs body ys) =
  if negb (all_in (stmt_uses (SFor iv lb ub sp iters rs body ys)) d) then None else
  match scope_block (iv :: map it_arg iters ++ d) body with
  | Some d' => if all_in ys d' then Some (rs ++ d) else None
  | None => None
  end.
Proof. reflexivity. Qed.
Lemma scope_stmt_if d c rs th thy el ely :
  scope_stmt d (SIf c rs th thy el ely) =
  if negb (all_in (stmt_uses (SIf c rs th thy el ely)) d) then None else
  match scope_block d th, scope_block d el with
  | Some d1, Some d2 => if all_in thy d1 && all_in ely d2 then Some (map fst rs ++ d) else None
  | _, _ => None
  end.
Proof. reflexivity. Qed.

(* relation between two blocks: whenever the first is well scoped in d, the second is in any larger d' *)
Definition SB (b b1 : block) : Prop :=
  forall d e, scope_block d b = Some e -> forall d', sub d d' -> exists e', scope_block d' b1 = Some e' /\ sub e e'.
Definition SSt (s s1 : stmt) : Prop :=
  forall d e, scope_stmt d s = Some e -> forall d', sub d d' -> exists e', scope_stmt d' s1 = Some e' /\ sub e e'.

Lemma for_SB iv lb ub sp iters rs ys body body1 :
  SB body body1 -> SSt (SFor iv lb ub sp iters rs body ys) (SFor iv lb ub sp iters rs body1 ys).
Proof.
  intros Hb d e H d' Hs. rewrite scope_stmt_for in *. cbn [stmt_uses] in *.
  destruct (negb (all_in (lb :: ub :: sp :: map it_init iters) d)) eqn:E1; [discriminate|].
  apply negb_false_iff in E1. rewrite (all_in_sub _ _ _ Hs E1). cbn [negb].
  destruct (scope_block (iv :: map it_arg iters ++ d) body) as [db|] eqn:E2; [|discriminate].
  destruct (all_in ys db) eqn:E3; [|discriminate]. inversion H; subst.
  destruct (Hb _ _ E2 (iv :: map it_arg iters ++ d')) as (e' & He' & Hse).
  { apply sub_cons. apply sub_app_r. exact Hs. }
  rewrite He', (all_in_sub _ _ _ Hse E3). eexists. split; [reflexivity|apply sub_app_r; exact Hs].
Qed.

Lemma if_SB c rs thy ely th th1 el el1 :
  SB th th1 -> SB el el1 -> SSt (SIf c rs th thy el ely) (SIf c rs th1 thy el1 ely).
Proof.
  intros Ht He d e H d' Hs. rewrite scope_stmt_if in *. cbn [stmt_uses] in *.
  destruct (negb (all_in [c] d)) eqn:E1; [discriminate|].
  apply negb_false_iff in E1. rewrite (all_in_sub _ _ _ Hs E1). cbn [negb].
  destruct (scope_block d th) as [d1|] eqn:E2; [|discriminate].
  destruct (scope_block d el) as [d2|] eqn:E3; [|discriminate].
  destruct (all_in thy d1 && all_in ely d2) eqn:E4; [|discriminate]. injection H as <-.
  apply andb_true_iff in E4 as [E4 E5].
  destruct (Ht _ _ E2 d' Hs) as (e1 & He1 & Hs1). destruct (He _ _ E3 d' Hs) as (e2 & He2 & Hs2).
  rewrite He1, He2, (all_in_sub _ _ _ Hs1 E4), (all_in_sub _ _ _ Hs2 E5). cbn [andb].
  eexists. split; [reflexivity|apply sub_app_r; exact Hs].
Qed.

Definition flat_stmt (s : stmt) : Prop := match s with SFor _ _ _ _ _ _ _ _ | SIf _ _ _ _ _ _ => False | _ => True end.
Lemma scope_flat d s : flat_stmt s ->
  scope_stmt d s = if negb (all_in (stmt_uses s) d) then None else Some (stmt_defs s ++ d).
Proof. destruct s; cbn [flat_stmt]; intros H; try contradiction; reflexivity. Qed.

Lemma SSt_flat s : flat_stmt s -> SSt s s.
Proof.
  intros Hf d e H d' Hs. rewrite (scope_flat d s Hf) in H. rewrite (scope_flat d' s Hf).
  destruct (all_in (stmt_uses s) d) eqn:E; cbn [negb] in H; [|discriminate].
  rewrite (all_in_sub _ _ _ Hs E). cbn [negb]. injection H as <-. eexists. split; [reflexivity|apply sub_app_r; exact Hs].
Qed.

(* every statement / block is related to itself: scoping is monotone *)
Lemma SB_refl : forall b, SB b b.
Proof.
  apply (block_ind2 (fun s => SSt s s) (fun b => SB b b)); try (intros; apply SSt_flat; exact Logic.I).
  - intros iv lb ub sp its rs body ys IH. apply for_SB. exact IH.
  - intros c rs th thy el ely IHt IHe. apply if_SB; assumption.
  - intros d e H d' Hs. cbn in *. inversion H; subst. eexists. split; [reflexivity|exact Hs].
  - intros s b Hs Hb d e H d' Hsub. cbn [scope_block] in *.
    destruct (scope_stmt d s) as [d1|] eqn:E; [|discriminate].
    destruct (Hs _ _ E d' Hsub) as (e1 & He1 & Hs1). rewrite He1. apply (Hb _ _ H e1 Hs1).
Qed.

Lemma SSt_refl s : SSt s s.
Proof.
  intros d e H d' Hs. pose proof (SB_refl [s] d e) as Hb. cbn [scope_block] in Hb. rewrite H in Hb.
  destruct (Hb eq_refl d' Hs) as (e' & He' & Hse). destruct (scope_stmt d' s) as [x|]; [|discriminate].
  inversion He'; subst. eexists. split; [reflexivity|exact Hse].
Qed.

Lemma scope_stmt_result d s e : scope_stmt d s = Some e -> e = stmt_defs s ++ d.
Proof.
  destruct s as [| | | | | |iv lb ub sp iters rs body ys|c rs th thy el ely];
    try (rewrite scope_flat by exact Logic.I; destruct (negb _); [discriminate|]; intros H; injection H as <-; reflexivity).
  - rewrite scope_stmt_for. destruct (negb _); [discriminate|]. destruct (scope_block _ body); [|discriminate].
    destruct (all_in _ _); [|discriminate]. intros H; injection H as <-; reflexivity.
  - rewrite scope_stmt_if. destruct (negb _); [discriminate|]. destruct (scope_block d th); [|discriminate].
    destruct (scope_block d el); [|discriminate]. destruct (_ && _); [|discriminate]. intros H; injection H as <-; reflexivity.
Qed.

(* ---- moved ops (arith ops / the setup) in front of a statement they used to follow ------------------------------------ *)
Definition movable (s : stmt) : Prop := match s with SPure _ _ | SSetup _ _ _ _ => True | _ => False end.
Lemma movable_flat s : movable s -> flat_stmt s.
Proof. destruct s; cbn; tauto. Qed.

Lemma all_in_drop xs ex d0 d : all_in xs (d0 ++ ex ++ d) = true -> noneb xs ex = true -> all_in xs (d0 ++ d) = true.
Proof.
  unfold all_in, noneb. rewrite !forallb_forall. intros H Hn x Hx. specialize (H x Hx). specialize (Hn x Hx).
  rewrite !mem_app in *. apply negb_true_iff in Hn. rewrite Hn in H. cbn [orb] in H. exact H.
Qed.

(* a list of movable ops scoped behind y's definitions, none of which they use, is scoped without them *)
Lemma scope_sel_strengthen ex : forall xs d0 d e,
  Forall movable xs -> forallb (fun x => noneb (stmt_uses x) ex) xs = true ->
  scope_block (d0 ++ ex ++ d) xs = Some e ->
  exists D, scope_block (d0 ++ d) xs = Some (D ++ d0 ++ d) /\ e = D ++ d0 ++ ex ++ d.
Proof.
  induction xs as [|x xs IH]; intros d0 d e Hm Hn H.
  - cbn in *. inversion H; subst. exists []. split; reflexivity.
  - inversion Hm as [|? ? Hmx Hmxs]; subst. cbn [forallb] in Hn. apply andb_true_iff in Hn as [Hn1 Hn2].
    cbn [scope_block] in *. rewrite (scope_flat (d0 ++ ex ++ d) x (movable_flat _ Hmx)) in H.
    rewrite (scope_flat (d0 ++ d) x (movable_flat _ Hmx)).
    destruct (all_in (stmt_uses x) (d0 ++ ex ++ d)) eqn:E; cbn [negb] in H; [|discriminate].
    rewrite (all_in_drop _ _ _ _ E Hn1). cbn [negb].
    rewrite app_assoc in H. destruct (IH (stmt_defs x ++ d0) d e Hmxs Hn2 H) as (D & H1 & H2).
    exists (D ++ stmt_defs x). rewrite <- !app_assoc in *. split; [exact H1|exact H2].
Qed.

Lemma sel_movable a : forall l, part_okb a l = true -> Forall movable (sel_part l).
Proof.
  induction l as [|[t s] l IH]; intros H; [constructor|]. cbn [part_okb] in H. destruct t; apply andb_true_iff in H as [H1 H2].
  - unfold sel_part. cbn [filter fst map snd]. constructor; [|apply IH; exact H2]. destruct s; try discriminate; exact Logic.I.
  - unfold sel_part. cbn [filter fst map snd]. apply IH. exact H2.
Qed.

Lemma swap_okb_uses a x y : swap_okb a x y = true -> noneb (stmt_uses x) (stmt_defs y) = true.
Proof. destruct x; cbn [swap_okb]; try discriminate; intros H; apply andb_true_iff in H as [_ H]; exact H. Qed.

Lemma scope_block_app b1 : forall b2 d, scope_block d (b1 ++ b2) =
  match scope_block d b1 with Some d1 => scope_block d1 b2 | None => None end.
Proof.
  induction b1 as [|s b1 IH]; intros b2 d; cbn [app scope_block]; [reflexivity|].
  destruct (scope_stmt d s); [apply IH|reflexivity].
Qed.

Lemma sub_perm_mid (D ex d : list val) : sub (D ++ ex ++ d) (ex ++ D ++ d).
Proof. intros x. rewrite !mem_app. destruct (mem_nat x D), (mem_nat x ex), (mem_nat x d); cbn; auto. Qed.

(* stable partition keeps scoping *)
Theorem part_scope a : forall l, part_okb a l = true -> SB (map snd l) (sel_part l ++ uns_part l).
Proof.
  induction l as [|[t s] l IH]; intros H; [apply SB_refl|].
  cbn [part_okb] in H. destruct t; apply andb_true_iff in H as [H1 H2].
  - unfold sel_part, uns_part. cbn [map snd filter fst negb app]. fold (sel_part l) (uns_part l).
    intros d e Hsc d' Hs. cbn [scope_block] in *.
    destruct (scope_stmt d s) as [d1|] eqn:E; [|discriminate].
    destruct (SSt_refl s _ _ E d' Hs) as (e1 & He1 & Hs1). rewrite He1. apply (IH H2 _ _ Hsc e1 Hs1).
  - unfold sel_part, uns_part. cbn [map snd filter fst negb]. fold (sel_part l) (uns_part l).
    intros d e Hsc d' Hs. cbn [scope_block] in Hsc.
    destruct (scope_stmt d s) as [dy|] eqn:E; [|discriminate].
    pose proof (scope_stmt_result _ _ _ E) as Hdy. subst dy.
    (* new order from d : sel ; s ; uns *)
    destruct (IH H2 _ _ Hsc (stmt_defs s ++ d) (sub_refl _)) as (e2 & He2 & Hs2).
    rewrite scope_block_app in He2.
    destruct (scope_block (stmt_defs s ++ d) (sel_part l)) as [dsel|] eqn:Esel; [|discriminate].
    assert (Hn : forallb (fun x => noneb (stmt_uses x) (stmt_defs s)) (sel_part l) = true).
    { rewrite forallb_forall in *. intros x Hx. apply (swap_okb_uses a x s). apply H1. exact Hx. }
    destruct (scope_sel_strengthen (stmt_defs s) (sel_part l) [] d dsel (sel_movable a l H2) Hn Esel) as (D & HD1 & HD2).
    cbn [app] in HD1, HD2. subst dsel.
    (* now in d' *)
    destruct (SB_refl (sel_part l) _ _ HD1 d' Hs) as (e3 & He3 & Hs3).
    rewrite scope_block_app, He3. cbn [scope_block].
    assert (Hsd : sub d e3) by (intros x Hx; apply Hs3; rewrite mem_app, Hx; apply orb_true_r).
    destruct (SSt_refl s _ _ E e3 Hsd) as (e4 & He4 & Hs4). rewrite He4.
    pose proof (scope_stmt_result _ _ _ He4) as He4'. subst e4.
    assert (Hsub5 : sub (D ++ stmt_defs s ++ d) (stmt_defs s ++ e3)).
    { eapply sub_trans; [apply sub_perm_mid|]. apply sub_app_r. exact Hs3. }
    destruct (SB_refl (uns_part l) _ _ He2 _ Hsub5) as (e5 & He5 & Hs5).
    exists e5. split; [exact He5|]. eapply sub_trans; [exact Hs2|exact Hs5].
Qed.

(* ---- any context ------------------------------------------------------------------------------------------------------------ *)
Lemma SB_app_l pre t t' : SB t t' -> SB (pre ++ t) (pre ++ t').
Proof.
  intros H d e Hsc d' Hs. rewrite scope_block_app in *.
  destruct (scope_block d pre) as [d1|] eqn:E; [|discriminate].
  destruct (SB_refl pre _ _ E d' Hs) as (e1 & He1 & Hs1). rewrite He1. apply (H _ _ Hsc e1 Hs1).
Qed.

Lemma SB_cons_stmt s s1 b : SSt s s1 -> SB (s :: b) (s1 :: b).
Proof.
  intros H d e Hsc d' Hs. cbn [scope_block] in *. destruct (scope_stmt d s) as [d1|] eqn:E; [|discriminate].
  destruct (H _ _ E d' Hs) as (e1 & He1 & Hs1). rewrite He1. apply (SB_refl b _ _ Hsc e1 Hs1).
Qed.
Lemma SB_cons_blk s b b1 : SB b b1 -> SB (s :: b) (s :: b1).
Proof.
  intros H d e Hsc d' Hs. cbn [scope_block] in *. destruct (scope_stmt d s) as [d1|] eqn:E; [|discriminate].
  destruct (SSt_refl s _ _ E d' Hs) as (e1 & He1 & Hs1). rewrite He1. apply (H _ _ Hsc e1 Hs1).
Qed.

Section ScopeCtx.
Variable f : block -> option block.
Definition tgt_sc (tg : option block) (goal : Prop) : Prop :=
  exists bb bb1, tg = Some bb /\ f bb = Some bb1 /\ (SB bb bb1 -> goal).

Lemma rw_block_tgt_sc b b' (IH : forall b1, rw_inner f b = Some b1 -> tgt_sc (rw_target_inner f b) (SB b b1)) :
  rw_block f b = Some b' -> tgt_sc (rw_target f b) (SB b b').
Proof.
  unfold rw_block, rw_target. destruct (f b) as [b1|] eqn:E; intros H.
  - inversion H; subst. exists b, b'. split; [reflexivity|]. split; [exact E|]. intros Hs. exact Hs.
  - apply IH. exact H.
Qed.

Lemma rw_scope : forall b b', rw_inner f b = Some b' -> tgt_sc (rw_target_inner f b) (SB b b').
Proof.
  apply (block_ind2 (fun s => forall s', rw_stmt f s = Some s' -> tgt_sc (rw_target_stmt f s) (SSt s s'))
                    (fun b => forall b', rw_inner f b = Some b' -> tgt_sc (rw_target_inner f b) (SB b b')));
    try (intros; discriminate).
  - intros iv lb ub sp its rs body ys IH s' H. rewrite rw_stmt_for in H. rewrite rw_target_for.
    destruct (rw_block f body) as [b1|] eqn:Eb; [|discriminate]. inversion H; subst.
    destruct (rw_block_tgt_sc body b1 IH Eb) as (bb & bb1 & H1 & H2 & H3).
    exists bb, bb1. split; [exact H1|]. split; [exact H2|]. intros Hs. apply for_SB. apply H3. exact Hs.
  - intros c rs th thy el ely IHt IHe s' H. rewrite rw_stmt_if in H. rewrite rw_target_if.
    destruct (rw_block f th) as [t1|] eqn:Et.
    + inversion H; subst. destruct (rw_block_tgt_sc th t1 IHt Et) as (bb & bb1 & H1 & H2 & H3).
      exists bb, bb1. rewrite H1. split; [reflexivity|]. split; [exact H2|].
      intros Hs. apply if_SB; [apply H3; exact Hs|apply SB_refl].
    + destruct (rw_block f el) as [e1|] eqn:Ee; [|discriminate]. inversion H; subst.
      destruct (rw_block_tgt_sc el e1 IHe Ee) as (bb & bb1 & H1 & H2 & H3).
      rewrite (rw_none_blk f th Et). exists bb, bb1. split; [exact H1|]. split; [exact H2|].
      intros Hs. apply if_SB; [apply SB_refl|apply H3; exact Hs].
  - intros s b Hs Hb b' H. cbn [rw_inner] in H. cbn [rw_target_inner]. destruct (rw_stmt f s) as [s1|] eqn:Es.
    + inversion H; subst. destruct (Hs s1 eq_refl) as (bb & bb1 & H1 & H2 & H3). rewrite H1.
      exists bb, bb1. split; [reflexivity|]. split; [exact H2|]. intros Hq. apply SB_cons_stmt. apply H3. exact Hq.
    + destruct (rw_inner f b) as [b1|] eqn:Eb; [|discriminate]. inversion H; subst.
      rewrite (rw_none_stmt f s Es). destruct (Hb b1 eq_refl) as (bb & bb1 & H1 & H2 & H3).
      exists bb, bb1. split; [exact H1|]. split; [exact H2|]. intros Hq. apply SB_cons_blk. apply H3. exact Hq.
Qed.

Lemma rw_block_scope b b' : rw_block f b = Some b' -> tgt_sc (rw_target f b) (SB b b').
Proof. apply rw_block_tgt_sc. intros b1. apply rw_scope. Qed.
End ScopeCtx.

(* block_overlap_scoped *)
Theorem block_overlap_scoped p o p' :
  block_overlap p o = Some p' ->
  block_overlap_side_ok p o = true ->
  wf_scope p = true -> wf_scope p' = true.
Proof.
  intros Hov Hside Hwf. unfold block_overlap in Hov.
  destruct (rw_block (block_overlap_at (p_body p) o) (p_body p)) as [b'|] eqn:Erw; [|discriminate].
  inversion Hov; subst. clear Hov.
  destruct (rw_block_scope _ _ _ Erw) as (bb & bb1 & Ht & Hfb & Hsim).
  unfold block_overlap_side_ok in Hside. rewrite Ht in Hside.
  rewrite block_overlap_at_plan in Hfb.
  destruct (block_plan (p_body p) o bb) as [[[ip a] moved]|] eqn:Ep; [|discriminate]. inversion Hfb; subst.
  unfold block_side_ok in Hside.
  apply andb_true_iff in Hside as [Hside H3]. apply andb_true_iff in Hside as [H1 H2].
  apply Nat.leb_le in H1. apply (list_eqb_eq Nat.eqb Nat.eqb_eq) in H2.
  destruct (apply_plan_partition bb ip moved H1 H2) as [Hb Hp].
  assert (HSB : SB bb (apply_plan bb ip moved)).
  { rewrite Hp. rewrite Hb at 1. apply SB_app_l. apply (part_scope a). exact H3. }
  specialize (Hsim HSB).
  unfold wf_scope in *. cbn [p_params p_body].
  destruct (scope_block (p_params p) (p_body p)) as [e|] eqn:E; [|discriminate].
  destruct (Hsim _ _ E (p_params p) (sub_refl _)) as (e' & He' & _). rewrite He'. reflexivity.
Qed.
