(* Basic lemmas about AccIR / AccSem shared by C01 C04 C06 C07:
   - [stmt_ind2]: induction principle for the nested [stmt]/[list stmt] type,
   - unfolding equations of [exec_stmt] in terms of the top-level [exec_block],
   - [upd]/[bind_list]/[write_fields] algebra, [iter_n] peeling in both directions. *)
From Snax Require Import Base.Prelude Model.AccIR Model.AccSem.

Section StmtInd.
Variable P : stmt -> Prop.
Variable Q : block -> Prop.
Hypothesis Hpure : forall d e, P (SPure d e).
Hypothesis Hcall : forall g ef pu ds ar, P (SCall g ef pu ds ar).
Hypothesis Hsetup : forall a o i fs, P (SSetup a o i fs).
Hypothesis Hlaunch : forall a k st fs, P (SLaunch a k st fs).
Hypothesis Hawait : forall a k, P (SAwait a k).
Hypothesis Hreset : forall a st, P (SReset a st).
Hypothesis Hfor : forall iv lb ub sp its rs body ys, Q body -> P (SFor iv lb ub sp its rs body ys).
Hypothesis Hif : forall c rs th thy el ely, Q th -> Q el -> P (SIf c rs th thy el ely).
Hypothesis Hnil : Q [].
Hypothesis Hcons : forall s b, P s -> Q b -> Q (s :: b).

Fixpoint stmt_ind2 (s : stmt) : P s :=
  let blk := fix blk (b : list stmt) : Q b :=
    match b with
    | [] => Hnil
    | x :: b' => Hcons x b' (stmt_ind2 x) (blk b')
    end in
  match s with
  | SPure d e => Hpure d e
  | SCall g ef pu ds ar => Hcall g ef pu ds ar
  | SSetup a o i fs => Hsetup a o i fs
  | SLaunch a k st fs => Hlaunch a k st fs
  | SAwait a k => Hawait a k
  | SReset a st => Hreset a st
  | SFor iv lb ub sp its rs body ys => Hfor iv lb ub sp its rs body ys (blk body)
  | SIf c rs th thy el ely => Hif c rs th thy el ely (blk th) (blk el)
  end.

Fixpoint block_ind2 (b : block) : Q b :=
  match b with
  | [] => Hnil
  | x :: b' => Hcons x b' (stmt_ind2 x) (block_ind2 b')
  end.
End StmtInd.

(* ---- unfolding equations ----------------------------------------------------------- *)
Section Unfold.
Variable orc : oracle.

Lemma exec_stmt_for iv lb ub st iters results body yields m :
  exec_stmt orc (SFor iv lb ub st iters results body yields) m
  = exec_for (exec_block orc body) iv lb ub st iters results yields m.
Proof. reflexivity. Qed.

Lemma exec_stmt_if c results thn thn_y els els_y m :
  exec_stmt orc (SIf c results thn thn_y els els_y) m
  = exec_if (exec_block orc thn) (exec_block orc els) c results thn_y els_y m.
Proof. reflexivity. Qed.

Lemma exec_block_cons s b m : exec_block orc (s :: b) m = exec_block orc b (exec_stmt orc s m).
Proof. reflexivity. Qed.

Lemma exec_block_app b1 b2 m : exec_block orc (b1 ++ b2) m = exec_block orc b2 (exec_block orc b1 m).
Proof. revert m; induction b1 as [|s b1 IH]; intros m; simpl; [reflexivity|apply IH]. Qed.
End Unfold.

(* ---- upd / bind_list ------------------------------------------------------------------ *)
Lemma upd_same {A} (m : nat -> A) k v : upd m k v k = v.
Proof. unfold upd. rewrite Nat.eqb_refl. reflexivity. Qed.

Lemma upd_other {A} (m : nat -> A) k v k' : k' <> k -> upd m k v k' = m k'.
Proof. intros H. unfold upd. destruct (Nat.eqb k' k) eqn:E; [apply Nat.eqb_eq in E; congruence|reflexivity]. Qed.

Lemma mem_nat_In x l : mem_nat x l = true <-> In x l.
Proof.
  unfold mem_nat. rewrite existsb_exists. split.
  - intros [y [Hy E]]. apply Nat.eqb_eq in E. subst. exact Hy.
  - intros H. exists x. split; [exact H|apply Nat.eqb_refl].
Qed.

Lemma mem_nat_false x l : mem_nat x l = false <-> ~ In x l.
Proof.
  rewrite <- mem_nat_In. destruct (mem_nat x l); split; intros H; try congruence; try reflexivity;
    try (exfalso; apply H; reflexivity).
Qed.

Lemma bind_list_other ks : forall vs e x, ~ In x ks -> bind_list ks vs e x = e x.
Proof.
  induction ks as [|k ks IH]; intros vs e x Hx; [reflexivity|].
  destruct vs as [|v vs]; [reflexivity|]. simpl.
  rewrite IH by (intros H; apply Hx; right; exact H).
  apply upd_other. intros E; apply Hx; left; congruence.
Qed.

Lemma call_results_other orc pure n tag : forall dsts i argv e x,
  ~ In x dsts -> call_results orc pure n tag i dsts argv e x = e x.
Proof.
  induction dsts as [|d ds IH]; intros i argv e x Hx; [reflexivity|]. simpl.
  rewrite IH by (intros H; apply Hx; right; exact H).
  apply upd_other. intros E; apply Hx; left; congruence.
Qed.

(* ---- write_fields ------------------------------------------------------------------- *)
(* the value a field holds after a setup: the LAST binding of the field wins *)
Fixpoint last_binding (f : field) (fs : list (field * val)) : option val :=
  match fs with
  | [] => None
  | (g, v) :: fs' => match last_binding f fs' with
                     | Some w => Some w
                     | None => if Nat.eqb g f then Some v else None
                     end
  end.

Lemma write_fields_spec e fs : forall r f,
  write_fields e fs r f = match last_binding f fs with Some v => e v | None => r f end.
Proof.
  induction fs as [|[g v] fs IH]; intros r f; [reflexivity|]. simpl.
  rewrite IH. destruct (last_binding f fs) as [w|]; [reflexivity|].
  unfold upd. rewrite Nat.eqb_sym. destruct (Nat.eqb g f); reflexivity.
Qed.

(* ---- iter_n ---------------------------------------------------------------------------- *)
Lemma iter_n_S {A} n (f : nat -> A -> A) a : iter_n (S n) f a = f n (iter_n n f a).
Proof. reflexivity. Qed.

(* peeling the FIRST iteration *)
Lemma iter_n_first {A} n (f : nat -> A -> A) a :
  iter_n (S n) f a = iter_n n (fun k => f (S k)) (f 0%nat a).
Proof.
  induction n as [|n IH]; [reflexivity|].
  rewrite iter_n_S. rewrite IH. reflexivity.
Qed.

Lemma iter_n_inv {A} (I : nat -> A -> Prop) n (f : nat -> A -> A) a :
  I 0%nat a -> (forall k x, (k < n)%nat -> I k x -> I (S k) (f k x)) -> I n (iter_n n f a).
Proof.
  intros H0 Hs. induction n as [|n IH]; [exact H0|].
  simpl. apply Hs; [lia|]. apply IH. intros k x Hk. apply Hs. lia.
Qed.

Lemma trip_count_nonpos lb ub step : step <= 0 -> trip_count lb ub step = 0%nat.
Proof. intros H. unfold trip_count. destruct (step <=? 0) eqn:E; [reflexivity|lia]. Qed.

Lemma trip_count_empty lb ub step : ub <= lb -> trip_count lb ub step = 0%nat.
Proof.
  intros H. unfold trip_count. destruct (step <=? 0) eqn:E; [reflexivity|].
  apply Z.leb_gt in E.
  assert ((ub - lb + step - 1) / step < 1) by (apply Z.div_lt_upper_bound; lia).
  lia.
Qed.
