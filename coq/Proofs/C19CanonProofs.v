(* C19 (a) — theorems about the GENERATED model Gen/CanonAffine.v of snaxc/util/canonicalize_affine.py
   (regenerated from $SNAX_REPO on every run by translator/py2coq.py).  The proofs run the generated
   code symbolically (py_step) so that harmless rewrites inside the subset keep them green, while a
   change that breaks evaluation-preservation leaves an unprovable goal. *)
From Snax Require Import Base.Prelude Model.PyLib Model.XdslAffine Proofs.XdslAffineProofs Gen.CanonAffine.

(* symbolic execution of generated code *)
Ltac py_cbn H :=
  cbn [e_kind e_lhs e_rhs e_value e_position is_ECst is_EBin is_EDim is_ESym akind_eqb is_some is_none] in H.

Ltac py_inner H :=
  match type of H with
  | context[match ?x with _ => _ end] =>
      lazymatch x with
      | context[match _ with _ => _ end] => fail
      | _ => idtac
      end;
      first
        [ is_var x; destruct x
        | match x with
          | ?f ?v => is_var v; first [unify f e_kind|unify f e_lhs|unify f e_rhs|unify f e_value|unify f e_position
                                      |unify f is_ECst|unify f is_EBin|unify f is_EDim|unify f is_ESym]; destruct v
          | akind_eqb ?v _ => is_var v; destruct v
          | ?f ?v => first [unify f e_kind|unify f e_lhs|unify f e_rhs|unify f e_value|unify f e_position
                            |unify f is_ECst|unify f is_EBin|unify f is_EDim|unify f is_ESym]; destruct v eqn:?
          end
        | destruct x eqn:? ]
  end.

Ltac py_step H :=
  repeat rewrite xadd_nonconst in H by reflexivity;
  py_cbn H;
  first
    [ discriminate H
    | match type of H with Some _ = Some _ => injection H as H end
    | py_inner H ].


Lemma get_dim_cst fuel v o : get_dim fuel (ECst v) = Some o -> o = None.
Proof. destruct fuel; cbn; congruence. Qed.

Ltac get_dim_contra :=
  match goal with
  | H : get_dim ?f (ECst ?v) = Some ?o, H2 : is_some ?o = true |- _ =>
      rewrite (get_dim_cst _ _ _ H) in H2; discriminate H2
  end.

Ltac eval_facts dv sv :=
  repeat match goal with
  | E : xadd ?a ?b = ?X |- _ => apply (f_equal (eval dv sv)) in E; rewrite !xadd_eval in E
  | E : xmul ?a ?b = Some ?X |- _ => apply (xmul_eval dv sv) in E
  end.

Ltac py_finish dv sv :=
  try get_dim_contra;
  subst; eval_facts dv sv; cbn [eval kind_eval] in *; rewrite ?xadd_eval; cbn [eval kind_eval]; lia.

Lemma canonicalize_addition_eval dv sv fuel e r :
  canonicalize_addition fuel e = Some r -> eval dv sv r = eval dv sv e.
Proof.
  intros H. unfold canonicalize_addition in H.
  repeat py_step H.
  all: py_finish dv sv.
Qed.

Lemma canonicalize_multiplication_eval dv sv e r :
  canonicalize_multiplication e = Some r -> eval dv sv r = eval dv sv e.
Proof.
  intros H. unfold canonicalize_multiplication in H.
  repeat py_step H.
  all: py_finish dv sv.
Qed.

Lemma canonicalize_floordiv_eval dv sv e r :
  canonicalize_floordiv e = Some r -> eval dv sv r = eval dv sv e.
Proof.
  intros H. unfold canonicalize_floordiv in H.
  repeat py_step H.
  all: try py_finish dv sv.
  all: subst; cbn [eval kind_eval]; apply Z.eqb_eq in Heqb; subst; rewrite Z.div_1_r; reflexivity.
Qed.

Lemma canonicalize_mod_eval dv sv e r :
  canonicalize_mod e = Some r -> eval dv sv r = eval dv sv e.
Proof.
  intros H. unfold canonicalize_mod in H.
  repeat py_step H.
  all: try py_finish dv sv.
Qed.

Lemma canon_eval_both dv sv fuel :
  (forall e r, canonicalize_binary_op fuel e = Some r -> eval dv sv r = eval dv sv e) /\
  (forall e r, canonicalize_expr fuel e = Some r -> eval dv sv r = eval dv sv e).
Proof.
  induction fuel as [|f [IHb IHe]]; [split; intros e r H; discriminate H|].
  split; intros e r H.
  - cbn [canonicalize_binary_op] in H.
    destruct e as [p|p|v|k l r0]; cbn [e_kind e_lhs e_rhs] in H; try discriminate H.
    destruct (canonicalize_expr f l) as [l'|] eqn:El; [|discriminate H].
    destruct (canonicalize_expr f r0) as [r'|] eqn:Er; [|discriminate H].
    apply IHe in El. apply IHe in Er.
    assert (Hk : eval dv sv (EBin k l' r') = eval dv sv (EBin k l r0)) by (cbn [eval]; congruence).
    rewrite <- Hk. clear Hk El Er.
    destruct k; cbn [akind_eqb] in H.
    + apply (canonicalize_addition_eval dv sv) in H. exact H.
    + apply (canonicalize_multiplication_eval dv sv) in H. exact H.
    + apply (canonicalize_mod_eval dv sv) in H. exact H.
    + apply (canonicalize_floordiv_eval dv sv) in H. exact H.
    + injection H as <-. reflexivity.
  - cbn [canonicalize_expr] in H.
    destruct (is_EBin e) eqn:Eb.
    + destruct (canonicalize_binary_op f e) as [n|] eqn:En; [|discriminate H].
      apply IHb in En.
      destruct (aexpr_eqb n e) eqn:Eq.
      * injection H as <-. exact En.
      * apply IHe in H. congruence.
    + rewrite aexpr_eqb_refl in H. injection H as <-. reflexivity.
Qed.

Theorem canon_eval fuel e r :
  canonicalize_expr fuel e = Some r -> forall dv sv, eval dv sv r = eval dv sv e.
Proof. intros H dv sv. exact (proj2 (canon_eval_both dv sv fuel) e r H). Qed.

Lemma mapM_Forall2 {A B} (f : A -> option B) l : forall l', mapM f l = Some l' -> Forall2 (fun x y => f x = Some y) l l'.
Proof.
  induction l as [|x xs IH]; intros l' H; cbn [mapM] in H.
  - injection H as <-. constructor.
  - destruct (f x) as [y|] eqn:Ex; [|discriminate H].
    destruct (mapM f xs) as [ys|] eqn:Exs; [|discriminate H].
    injection H as <-. constructor; [exact Ex|apply IH; reflexivity].
Qed.

(* pointwise for maps: same dims/symbols, every result evaluates identically *)
Theorem canon_map_eval fuel m m' :
  canonicalize_map fuel m = Some m' ->
  num_dims m' = num_dims m /\ num_symbols m' = num_symbols m /\
  forall dv sv, map_eval dv sv m' = map_eval dv sv m.
Proof.
  unfold canonicalize_map. intros H.
  destruct (mapM _ (results m)) as [rs|] eqn:E; [|discriminate H].
  injection H as <-. cbn [num_dims num_symbols results]. split; [reflexivity|]. split; [reflexivity|].
  intros dv sv. unfold map_eval. cbn [results].
  apply mapM_Forall2 in E. induction E as [|x y xs ys Hxy _ IH]; [reflexivity|].
  cbn [map]. rewrite IH. f_equal. exact (canon_eval fuel x y Hxy dv sv).
Qed.

(* Idempotence.  Python has no fuel: "canonicalize_expr(r) terminates and returns r" is
   "there is a recursion budget f0 with canonicalize_expr f0 r = Some r".  The result of a terminating
   run is such a fixed point (the function only returns an expression it has just seen unchanged). *)
Theorem canon_idempotent fuel : forall e r,
  canonicalize_expr fuel e = Some r ->
  exists f0, (f0 <= fuel)%nat /\ canonicalize_expr f0 r = Some r.
Proof.
  induction fuel as [|f IH]; intros e r H; [discriminate H|].
  cbn [canonicalize_expr] in H. destruct (is_EBin e) eqn:Eb.
  - destruct (canonicalize_binary_op f e) as [n|] eqn:En; [|discriminate H].
    destruct (aexpr_eqb n e) eqn:Eq.
    + injection H as <-. apply aexpr_eqb_eq in Eq. subst n. exists (S f). split; [lia|].
      cbn [canonicalize_expr]. rewrite Eb, En, aexpr_eqb_refl. reflexivity.
    + destruct (IH n r H) as [f0 [Hle Hf0]]. exists f0. split; [lia|exact Hf0].
  - rewrite aexpr_eqb_refl in H. injection H as <-. exists (S f). split; [lia|].
    cbn [canonicalize_expr]. rewrite Eb, aexpr_eqb_refl. reflexivity.
Qed.
