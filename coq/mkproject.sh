#!/bin/bash
# Regenerates _CoqProject and Makefile from the directory listing (no shared file to edit).
cd "$(dirname "$0")"
{
  echo "-Q . Snax"
  find Base Model Gen Proofs Props -name '*.v' | sort
} > _CoqProject.new
if ! cmp -s _CoqProject.new _CoqProject 2>/dev/null; then
  mv _CoqProject.new _CoqProject
  coq_makefile -f _CoqProject -o Makefile > /dev/null
else
  rm -f _CoqProject.new
  [ -f Makefile ] || coq_makefile -f _CoqProject -o Makefile > /dev/null
fi
