(* Common header: arithmetic automation that lets lia decide boolean models. *)
From Coq Require Export ZArith List Bool Lia Arith.
From Coq Require Export ZifyBool ZifyNat.
Export ListNotations.
Global Open Scope Z_scope.
Ltac Zify.zify_post_hook ::= Z.to_euclidean_division_equations.

(* Python truthiness of an `int | None`. *)
Definition truthy (o : option Z) : bool :=
  match o with Some z => negb (z =? 0) | None => false end.

Definition optZ_eqb (a b : option Z) : bool :=
  match a, b with
  | Some x, Some y => x =? y
  | None, None => true
  | _, _ => false
  end.

Lemma optZ_eqb_eq a b : optZ_eqb a b = true <-> a = b.
Proof.
  destruct a, b; simpl; split; intros H; try congruence.
  - apply Z.eqb_eq in H; congruence.
  - inversion H; subst; apply Z.eqb_refl.
Qed.

Fixpoint list_eqb {A} (eqb : A -> A -> bool) (l1 l2 : list A) : bool :=
  match l1, l2 with
  | [], [] => true
  | x :: xs, y :: ys => eqb x y && list_eqb eqb xs ys
  | _, _ => false
  end.

Lemma list_eqb_eq {A} (eqb : A -> A -> bool) :
  (forall x y, eqb x y = true <-> x = y) ->
  forall l1 l2, list_eqb eqb l1 l2 = true <-> l1 = l2.
Proof.
  intros Heq l1; induction l1 as [|x xs IH]; intros [|y ys]; simpl; split; intros H;
    try congruence; try reflexivity.
  - apply andb_true_iff in H as [H1 H2]. apply Heq in H1. apply IH in H2. congruence.
  - inversion H; subst. apply andb_true_iff; split; [apply Heq|apply IH]; reflexivity.
Qed.

(* Correspondence helper: indices (from 0) of the cases on which `f` is false. *)
Fixpoint failing_from {A} (f : A -> bool) (n : nat) (l : list A) : list nat :=
  match l with
  | [] => []
  | x :: xs => if f x then failing_from f (S n) xs else n :: failing_from f (S n) xs
  end.
Definition failing {A} (f : A -> bool) (l : list A) : list nat := failing_from f 0%nat l.

Definition zprod (l : list Z) : Z := fold_right Z.mul 1 l.
Definition zsum (l : list Z) : Z := fold_right Z.add 0 l.

(* [zrange n] = [0; 1; ...; n-1] *)
Definition zrange (n : Z) : list Z := map Z.of_nat (seq 0 (Z.to_nat n)).
