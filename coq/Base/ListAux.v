(* List / range lemmas shared by the layout family (C02 C05 C09 C10 C11 C12 C19). *)
From Snax Require Import Base.Prelude.

Lemma flat_map_singleton {A} (l : list A) : flat_map (fun x => [x]) l = l.
Proof. induction l as [|x xs IH]; simpl; congruence. Qed.

Lemma flat_map_map {A B C} (f : B -> list C) (g : A -> B) (l : list A) :
  flat_map f (map g l) = flat_map (fun x => f (g x)) l.
Proof. induction l as [|x xs IH]; simpl; congruence. Qed.

Lemma map_flat_map {A B C} (f : B -> C) (g : A -> list B) (l : list A) :
  map f (flat_map g l) = flat_map (fun x => map f (g x)) l.
Proof. induction l as [|x xs IH]; simpl; rewrite ?map_app; congruence. Qed.

Lemma flat_map_flat_map {A B C} (f : B -> list C) (g : A -> list B) (l : list A) :
  flat_map f (flat_map g l) = flat_map (fun x => flat_map f (g x)) l.
Proof. induction l as [|x xs IH]; simpl; rewrite ?flat_map_app; congruence. Qed.

Lemma flat_map_ext_in {A B} (f g : A -> list B) (l : list A) :
  (forall x, In x l -> f x = g x) -> flat_map f l = flat_map g l.
Proof.
  induction l as [|x xs IH]; simpl; intros H; [reflexivity|].
  rewrite H by (left; reflexivity). rewrite IH; [reflexivity|]. intros y Hy; apply H; right; exact Hy.
Qed.

(* ---- zrange ---------------------------------------------------------------- *)
Lemma zrange_0 : zrange 0 = [].
Proof. reflexivity. Qed.

Lemma zrange_neg n : n <= 0 -> zrange n = [].
Proof. intros H. unfold zrange. destruct n; try reflexivity. lia. Qed.

Lemma zrange_length n : length (zrange n) = Z.to_nat n.
Proof. unfold zrange. rewrite map_length, seq_length. reflexivity. Qed.

Lemma in_zrange n x : In x (zrange n) <-> 0 <= x < n.
Proof.
  unfold zrange. rewrite in_map_iff. split.
  - intros [k [Hk Hin]]. apply in_seq in Hin. lia.
  - intros H. exists (Z.to_nat x). split; [lia|]. apply in_seq. lia.
Qed.

Lemma seq_shift_add a n : seq a n = map (fun k => (a + k)%nat) (seq 0 n).
Proof.
  revert a; induction n as [|n IH]; intros a; simpl; [reflexivity|].
  f_equal; [lia|]. rewrite (IH (S a)), (IH 1%nat). rewrite map_map. apply map_ext. intros; lia.
Qed.

Lemma zrange_add a c : 0 <= a -> 0 <= c -> zrange (a + c) = zrange a ++ map (fun y => a + y) (zrange c).
Proof.
  intros Ha Hc. unfold zrange.
  rewrite Z2Nat.inj_add by lia. rewrite seq_app, map_app. f_equal.
  simpl. rewrite (seq_shift_add (Z.to_nat a)). rewrite !map_map. apply map_ext. intros k. lia.
Qed.

Lemma zrange_1 : zrange 1 = [0].
Proof. reflexivity. Qed.

Lemma zrange_succ n : 0 <= n -> zrange (n + 1) = zrange n ++ [n].
Proof. intros H. rewrite zrange_add by lia. rewrite zrange_1. simpl. rewrite Z.add_0_r. reflexivity. Qed.

(* mixed radix: [0, b*p) enumerated as i*p + y *)
Lemma zrange_mul b p : 0 <= b -> 0 <= p ->
  zrange (b * p) = flat_map (fun i => map (fun y => i * p + y) (zrange p)) (zrange b).
Proof.
  intros Hb Hp. pattern b. apply natlike_ind; [| |exact Hb].
  - reflexivity.
  - intros x Hx IH. replace (Z.succ x * p) with (x * p + p) by lia.
    rewrite zrange_add by nia. rewrite IH. unfold Z.succ. rewrite zrange_succ by lia.
    rewrite flat_map_app. simpl. rewrite app_nil_r. reflexivity.
Qed.

Lemma zprod_app l1 l2 : zprod (l1 ++ l2) = zprod l1 * zprod l2.
Proof. unfold zprod. induction l1 as [|x xs IH]; cbn [app fold_right]; [lia|]. rewrite IH. lia. Qed.

Lemma zprod_pos l : Forall (fun x => 0 < x) l -> 0 < zprod l.
Proof. unfold zprod. induction 1 as [|x xs Hx _ IH]; cbn [fold_right]; [lia|nia]. Qed.

Lemma fold_left_rev_right {A B} (f : B -> A -> B) (l : list A) (b : B) :
  fold_left f (rev l) b = fold_right (fun x acc => f acc x) b l.
Proof. rewrite <- fold_left_rev_right. rewrite rev_involutive. reflexivity. Qed.
