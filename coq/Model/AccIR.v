(* AccIR — the shared abstract accfg IR (C01 C04 C06 C07).  Executable definitions only.

   ============================ THE AST ==========================================
   One function of an MLIR module becomes a [prog] = parameters + a block ([list stmt]).
   SSA values, accelerators, fields and callees are small natural numbers assigned by
   the trusted converter harness/accir.py:

     val    SSA value ids: numbered in definition order over the whole function
            (function parameters first, then op results / block arguments in a pre-order
            walk).  ONE namespace for integer-, state- and token-typed values.  Ids are
            unique (SSA), so the semantics can use one flat environment.
     acc    accelerator ids: index in the sorted list of accelerator names of the module
     field  field ids: index in the sorted list of all field names (setup and launch
            fields share the namespace) of the module
     tag    callee / opaque-op ids: index in the sorted list of callee names / op names

   Statements (constructor : meaning; the MLIR op it renders)

     SPure dst e                         dst := e                       arith.constant/addi/subi/muli/
         e ::= PConst z | PId a | PBin o a b | PCmp c a b | PSelect c a b      index_cast/extsi/... (integers are
                                                                               mathematical: no wrap-around)
     SCall tag eff pure dsts args        any other region-free op (func.call, llvm.call, "test.op", ...):
                                         [eff]  = may reconfigure accelerators behind the compiler's back:
                                                  attribute accfg.effects present -> (it is not <none>),
                                                  absent -> (op is func.call or llvm.call)
                                         [pure] = xDSL is_side_effect_free(op)
                                         results come from the oracle; an ECall event is recorded
     SSetup a out ins fs                 out = accfg.setup a (from ins)? to (f = v ...)   fs : list (field*val)
     SLaunch a tok st fs                 tok = accfg.launch a (st) (lf = v ...)
     SAwait a tok                        accfg.await tok            (a from the token type)
     SReset a st                         accfg.reset st
     SFor iv lb ub step iters results body yields
                                         scf.for iv = lb to ub step step iter_args(...)
                                         iters : list (val*val*ty) = (block argument, init operand, type)
                                         results : list val  (same length/order as iters)
                                         yields : list val   (operands of the terminating scf.yield)
     SIf c results thn thn_y els els_y   scf.if c ; results : list (val*ty); an absent else-region is
                                         rendered as els = [] , els_y = []
   ty ::= TInt | TState a  (TInt = anything that is not !accfg.state)

   ======================= THE COQ-LITERAL FORMAT =================================
   harness/accir.py `to_coq(prog)` prints exactly the constructor applications above with
   every nat written `N%nat`, every Z written `N%Z` / `(-N)%Z`, lists `[a; b]`, pairs
   `(a, b)`, triples `(a, b, c)`, options `None` / `(Some x)`, booleans `true/false`, e.g.

     mkProg [0%nat; 1%nat]
       [SSetup 0%nat 2%nat None [(0%nat, 0%nat)];
        SLaunch 0%nat 3%nat 2%nat [];
        SAwait 0%nat 3%nat;
        SFor 4%nat 0%nat 1%nat 1%nat [(5%nat, 2%nat, TState 0%nat)] [9%nat]
          [SSetup 0%nat 6%nat (Some 5%nat) [(0%nat, 1%nat)]] [6%nat]]

   The same structure as JSON (`to_json`): {"params":[..], "body":[{"op":"setup","acc":0,
   "out":2,"in":null,"fields":[[0,0]]}, ...]} with keys op/acc/out/in/fields/tok/state/
   tag/eff/pure/dsts/args/iv/lb/ub/step/iters/results/body/yields/cond/then/then_y/else/
   else_y/dst/exp; names tables under "names".
   ============================================================================== *)
From Snax Require Import Base.Prelude.

Definition val := nat.
Definition acc := nat.
Definition field := nat.

Inductive ty := TInt | TState (a : acc).

Inductive binop := BAdd | BSub | BMul | BDivS | BRemS | BFloorDiv | BMin | BMax | BAnd | BOr | BXor | BShl | BShrS.
Inductive cmpop := CEq | CNe | CLt | CLe | CGt | CGe.

Inductive pexp :=
| PConst (z : Z)
| PId (a : val)
| PBin (o : binop) (a b : val)
| PCmp (c : cmpop) (a b : val)
| PSelect (c a b : val).

Inductive stmt :=
| SPure (dst : val) (e : pexp)
| SCall (tag : nat) (eff pure : bool) (dsts : list val) (args : list val)
| SSetup (a : acc) (out : val) (ins : option val) (fs : list (field * val))
| SLaunch (a : acc) (tok : val) (st : val) (fs : list (field * val))
| SAwait (a : acc) (tok : val)
| SReset (a : acc) (st : val)
| SFor (iv lb ub step : val) (iters : list (val * val * ty)) (results : list val)
       (body : list stmt) (yields : list val)
| SIf (c : val) (results : list (val * ty)) (thn : list stmt) (thn_y : list val)
      (els : list stmt) (els_y : list val).

Definition block := list stmt.

Record prog := mkProg { p_params : list val; p_body : block }.

(* projections of an iter_args entry *)
Definition it_arg (x : val * val * ty) : val := fst (fst x).
Definition it_init (x : val * val * ty) : val := snd (fst x).
Definition it_ty (x : val * val * ty) : ty := snd x.

(* ---- boolean equalities (used by L1 comparisons) ------------------------------ *)
Definition ty_eqb (a b : ty) : bool :=
  match a, b with
  | TInt, TInt => true
  | TState x, TState y => Nat.eqb x y
  | _, _ => false
  end.

Definition binop_eqb (a b : binop) : bool :=
  match a, b with
  | BAdd, BAdd | BSub, BSub | BMul, BMul | BDivS, BDivS | BRemS, BRemS | BFloorDiv, BFloorDiv
  | BMin, BMin | BMax, BMax | BAnd, BAnd | BOr, BOr | BXor, BXor | BShl, BShl | BShrS, BShrS => true
  | _, _ => false
  end.

Definition cmpop_eqb (a b : cmpop) : bool :=
  match a, b with
  | CEq, CEq | CNe, CNe | CLt, CLt | CLe, CLe | CGt, CGt | CGe, CGe => true
  | _, _ => false
  end.

Definition pexp_eqb (a b : pexp) : bool :=
  match a, b with
  | PConst x, PConst y => Z.eqb x y
  | PId x, PId y => Nat.eqb x y
  | PBin o x1 x2, PBin p y1 y2 => binop_eqb o p && Nat.eqb x1 y1 && Nat.eqb x2 y2
  | PCmp o x1 x2, PCmp p y1 y2 => cmpop_eqb o p && Nat.eqb x1 y1 && Nat.eqb x2 y2
  | PSelect x0 x1 x2, PSelect y0 y1 y2 => Nat.eqb x0 y0 && Nat.eqb x1 y1 && Nat.eqb x2 y2
  | _, _ => false
  end.

Definition optnat_eqb (a b : option nat) : bool :=
  match a, b with
  | Some x, Some y => Nat.eqb x y
  | None, None => true
  | _, _ => false
  end.

Definition fv_eqb (a b : field * val) : bool := Nat.eqb (fst a) (fst b) && Nat.eqb (snd a) (snd b).
Definition iter_eqb (a b : val * val * ty) : bool :=
  Nat.eqb (it_arg a) (it_arg b) && Nat.eqb (it_init a) (it_init b) && ty_eqb (it_ty a) (it_ty b).
Definition res_eqb (a b : val * ty) : bool := Nat.eqb (fst a) (fst b) && ty_eqb (snd a) (snd b).

Fixpoint stmt_eqb (s t : stmt) {struct s} : bool :=
  let block_eqb := fix block_eqb (b1 b2 : list stmt) {struct b1} : bool :=
    match b1, b2 with
    | [], [] => true
    | x :: b1', y :: b2' => stmt_eqb x y && block_eqb b1' b2'
    | _, _ => false
    end in
  match s, t with
  | SPure d e, SPure d' e' => Nat.eqb d d' && pexp_eqb e e'
  | SCall g ef pu ds ar, SCall g' ef' pu' ds' ar' =>
      Nat.eqb g g' && Bool.eqb ef ef' && Bool.eqb pu pu' && list_eqb Nat.eqb ds ds' && list_eqb Nat.eqb ar ar'
  | SSetup a o i fs, SSetup a' o' i' fs' =>
      Nat.eqb a a' && Nat.eqb o o' && optnat_eqb i i' && list_eqb fv_eqb fs fs'
  | SLaunch a k st fs, SLaunch a' k' st' fs' =>
      Nat.eqb a a' && Nat.eqb k k' && Nat.eqb st st' && list_eqb fv_eqb fs fs'
  | SAwait a k, SAwait a' k' => Nat.eqb a a' && Nat.eqb k k'
  | SReset a st, SReset a' st' => Nat.eqb a a' && Nat.eqb st st'
  | SFor iv lb ub sp its rs body ys, SFor iv' lb' ub' sp' its' rs' body' ys' =>
      Nat.eqb iv iv' && Nat.eqb lb lb' && Nat.eqb ub ub' && Nat.eqb sp sp' && list_eqb iter_eqb its its'
      && list_eqb Nat.eqb rs rs' && block_eqb body body' && list_eqb Nat.eqb ys ys'
  | SIf c rs th thy el ely, SIf c' rs' th' thy' el' ely' =>
      Nat.eqb c c' && list_eqb res_eqb rs rs' && block_eqb th th' && list_eqb Nat.eqb thy thy'
      && block_eqb el el' && list_eqb Nat.eqb ely ely'
  | _, _ => false
  end.

Definition block_eqb (b1 b2 : block) : bool := list_eqb stmt_eqb b1 b2.
Definition prog_eqb (p q : prog) : bool :=
  list_eqb Nat.eqb (p_params p) (p_params q) && block_eqb (p_body p) (p_body q).

(* number of statements, all nesting levels (used as fuel / measure) *)
Fixpoint stmt_size (s : stmt) : nat :=
  let block_size := fix block_size (b : list stmt) : nat :=
    match b with [] => O | x :: b' => (stmt_size x + block_size b')%nat end in
  match s with
  | SFor _ _ _ _ _ _ body _ => S (block_size body)
  | SIf _ _ th _ el _ => S (block_size th + block_size el)
  | _ => 1%nat
  end.
Definition block_size (b : block) : nat := fold_right (fun s n => (stmt_size s + n)%nat) O b.

(* has_accfg_effects of snaxc/inference/helpers.py on the abstract IR:
   a call-like op carries its own flag; control flow recurses. *)
Fixpoint stmt_has_effects (s : stmt) : bool :=
  let block_has := fix block_has (b : list stmt) : bool :=
    match b with [] => false | x :: b' => stmt_has_effects x || block_has b' end in
  match s with
  | SCall _ eff _ _ _ => eff
  | SFor _ _ _ _ _ _ body _ => block_has body
  | SIf _ _ th _ el _ => block_has th || block_has el
  | _ => false
  end.
Definition block_has_effects (b : block) : bool := existsb stmt_has_effects b.
