(* C19 (b) — data view and semantics for snax_stream.StridePattern (snaxc/dialects/snax_stream.py).
   The canonicalize method itself is GENERATED (Gen/StrideCanon.v, translator/specs/stride_pattern.py);
   this file holds the record the generated code builds and the meaning of a pattern: the sequence of
   temporal addresses the streamer's nested loops produce.  Definitions only. *)
From Snax Require Import Base.Prelude.

(* ArrayAttr[IntAttr] viewed as list Z *)
Record spattern := SP { sp_ub : list Z; sp_ts : list Z; sp_ss : list Z }.
Definition is_SP (p : spattern) : bool := true.
Definition spattern_eqb (a b : spattern) : bool :=
  list_eqb Z.eqb (sp_ub a) (sp_ub b) && list_eqb Z.eqb (sp_ts a) (sp_ts b) && list_eqb Z.eqb (sp_ss a) (sp_ss b).
Definition opt_spattern_eqb (a b : option spattern) : bool :=
  match a, b with Some x, Some y => spattern_eqb x y | None, None => true | _, _ => false end.

(* Loop nest over (bound, stride) pairs, index 0 = innermost (fastest) loop — this is the order in which
   canonicalize merges (`new_ub[-1] * new_ts[-1] == ts`: the next dimension continues the previous one).
   `nest dims base`: for every offset of the enclosing loops, in order, run this nest. *)
Fixpoint nest (dims : list (Z * Z)) (base : list Z) : list Z :=
  match dims with
  | [] => base
  | (b, s) :: rest => flat_map (fun o => map (fun i => i * s + o) (zrange b)) (nest rest base)
  end.

(* the sequence of temporal addresses (relative to the base pointer), in time order;
   zip(upper_bounds, temporal_strides) truncates to the shorter list, as in the Python *)
Definition taddrs (p : spattern) : list Z := nest (combine (sp_ub p) (sp_ts p)) [0].

(* reference (specification-level) form of one loop iteration of canonicalize, on (bound, stride) pairs *)
Definition sp_step (acc : list (Z * Z)) (d : Z * Z) : list (Z * Z) :=
  let '(ub, ts) := d in
  if ub =? 0 then acc ++ [(0, 0)]
  else if ub =? 1 then acc
  else match rev acc with
       | (pb, ps) :: r => if pb * ps =? ts then rev ((pb * ub, ps) :: r) else acc ++ [(ub, ts)]
       | [] => acc ++ [(ub, ts)]
       end.
