(* C18 — expansion of a kernel op that sits in a linalg body with ARBITRARY wiring (executable model, no
   proofs).  Mirrors snaxc/transforms/convert_kernel_to_linalg.py:LowerLinalgBody after the repair
   (known/C18.json, F-C18-2): the kernel's equivalent region is inlined with its block arguments mapped to the
   values the kernel op actually reads (its operands, then the output block argument of the linalg body),
   and the body keeps yielding what it yielded (the kernel result is replaced by the region's value).
   Added by the audit.  Operands of the kernel op are block arguments of the body (values captured from
   outside the linalg op are not modelled). *)
From Snax Require Import Base.Prelude Model.C18FixedWidth Model.C18Kernel.

(* a linalg body holding exactly one kernel op followed by the yield *)
Record kbody := mkKBody {
  kargtys : list Z;             (* widths of the block arguments (inputs ..., output) *)
  kk : kernel;
  kres : Z;                     (* result width of the kernel op *)
  koperands : list nat;         (* the block arguments the kernel op reads, in operand order *)
  kyielded : list (option nat)  (* None = the kernel result, Some i = block argument i *)
}.

Definition out_arg (kb : kbody) : nat := (length (kargtys kb) - 1)%nat.
(* the types the equivalent region is built for: operand types ++ [result type] *)
Definition ktys (kb : kbody) : list Z := map (fun i => nth i (kargtys kb) 0) (koperands kb) ++ [kres kb].

(* argument i of the equivalent region stands for operand i of the kernel op; the argument after the last
   operand stands for the output block argument *)
Definition wire (kb : kbody) (s : src) : src :=
  match s with
  | SArg i => SArg (nth i (koperands kb) (out_arg kb))
  | _ => s
  end.

Definition expand_kbody (kb : kbody) : body :=
  let r := equivalent_region (kk kb) (ktys kb) in
  mkBody (kargtys kb)
         (map (fun o => mkOp (kind o) (rty o) (map (wire kb) (operands o))) (ops r))
         (map (fun y => match y with
                        | None => wire kb (hd (SRes 0) (yielded r))
                        | Some i => SArg i
                        end) (kyielded kb)).

(* the code before the repair: the body is replaced by the equivalent region as it is (arguments positional,
   the region's own yield) *)
Definition expand_kbody_positional (kb : kbody) : body := equivalent_region (kk kb) (ktys kb).

(* what the body means before the expansion: the kernel formula on the values the kernel op reads *)
Definition kvals (kb : kbody) (args : list Z) : list Z :=
  map (fun i => nth i args 0) (koperands kb ++ [out_arg kb]).
Definition eval_kbody (kb : kbody) (args : list Z) : list Z :=
  let r := eval_kernel (kk kb) (ktys kb) (kvals kb args) in
  map (fun y => match y with None => r | Some i => nth i args 0 end) (kyielded kb).

(* canonical wiring: what convert-linalg-to-kernel produces *)
Definition canonical (kb : kbody) : bool :=
  list_eqb Nat.eqb (koperands kb) (seq 0 (length (kargtys kb) - 1)) &&
  match kyielded kb with [None] => true | _ => false end.

(* ---------------------------------------------------------------- LowerRescale and the result type *)
(* LowerRescale (after the repair of F-C18-3, /repo 97622cd) converts the clamped i32 value to the result type
   of the kernel.rescale op: arith.trunci for a narrower type, nothing for i32, arith.extsi for a wider one.
   `wout` = width of the result / output block argument.  Before the repair the body always ended in
   `trunci ... to i8` (`rescale_region_for_old`). *)
Definition rescale_core_ops (p : rparams) : list bop := firstn 8 (ops (rescale_region p)).
Definition rescale_region_for (wout : Z) (p : rparams) : body :=
  if wout <? 32 then mkBody [32; wout] (rescale_core_ops p ++ [mkOp KTrunc wout [SRes 7]]) [SRes 8]
  else if wout =? 32 then mkBody [32; wout] (rescale_core_ops p) [SRes 7]
  else mkBody [32; wout] (rescale_core_ops p ++ [mkOp KExt wout [SRes 7]]) [SRes 8].
Definition rescale_region_for_old (wout : Z) (p : rparams) : body :=
  mkBody [32; wout] (ops (rescale_region p)) (yielded (rescale_region p)).
(* class of the former finding F-C18-3 *)
Definition rescale_result_not_i8 (wout : Z) : bool := negb (wout =? 8).
(* the clamped i32 value, and when it is the golden model's value for a result of width wout *)
Definition rescale_core (p : rparams) (x : Z) : Z :=
  let v := wrap 32 (x - zp_in p) in
  let m := wrap 64 (v * mult p) in
  let s := Z.shiftr m (shift p) in
  let t := wrap 32 s in
  let o := wrap 32 (t + zp_out p) in
  Z.max (Z.min o (max_int p)) (min_int p).
Definition rescale_safe_w (wout : Z) (p : rparams) (x : Z) : bool :=
  negb (double_round p) &&
  (1 <=? shift p) && (shift p <? 64) &&
  in_rangeb 32 (x - zp_in p) &&
  in_rangeb 64 ((x - zp_in p) * mult p) &&
  in_rangeb 32 (Z.shiftr ((x - zp_in p) * mult p) (shift p - 1)) &&
  in_rangeb 32 (Z.shiftr ((x - zp_in p) * mult p) (shift p) + zp_out p) &&
  (min_int p <=? max_int p) && (0 <? wout) &&
  in_rangeb (Z.min wout 32) (min_int p) && in_rangeb (Z.min wout 32) (max_int p).
(* the yielded value has the type of the output block argument (what a verifier should insist on) *)
Definition yield_typed (b : body) : bool :=
  match yielded b with
  | [y] => optZ_eqb (src_ty (argtys b) (res_types (ops b)) y) (nth_error (argtys b) (length (argtys b) - 1))
  | _ => false
  end.
