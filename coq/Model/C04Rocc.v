(* C04 — instruction-configured (RoCC) accelerators: snaxc/accelerators/rocc.py
   (RoCCAccelerator.lower_acc_setup / lower_acc_launch / lower_acc_await, create_pairs,
   combine_pairs_to_ops) over the model of infer_state_of (Model/AccInfer.v).
   Executable definitions only; proofs in Proofs/C04RoccProofs.v.

   A RoCC field "<instr>.rs1" / "<instr>.rs2" is one source operand of the instruction <instr>; the
   declared "address" of the field is the instruction's func7.  The harness numbers the instruction names
   (name[:-4]) and tells the half from the suffix. *)
From Snax Require Import Base.Prelude Model.AccIR Model.AccSem Model.AccInfer Model.C04Csr.

Record rfield := mkRF { rf_field : field; rf_instr : nat; rf_rs1 : bool; rf_func7 : Z }.
Definition rdecl := list rfield.                       (* declaration order of the dictionary *)
Record rinfo := mkRInfo { ri_fields : rdecl; ri_launch : rdecl }.

(* the field id of one half of an instruction *)
Fixpoint half_field (d : rdecl) (i : nat) (rs1 : bool) : option field :=
  match d with
  | [] => None
  | rf :: d' => if Nat.eqb (rf_instr rf) i && Bool.eqb (rf_rs1 rf) rs1 then Some (rf_field rf) else half_field d' i rs1
  end.

Fixpoint instr_of (d : rdecl) (f : field) : option nat :=
  match d with
  | [] => None
  | rf :: d' => if Nat.eqb (rf_field rf) f then Some (rf_instr rf) else instr_of d' f
  end.

(* dict(op.iter_params())[f]: the last binding wins *)
Fixpoint dict_last (f : field) (fs : list (field * val)) : option val :=
  match fs with
  | [] => None
  | (g, v) :: fs' => match dict_last f fs' with
                     | Some w => Some w
                     | None => if Nat.eqb g f then Some v else None
                     end
  end.

(* set([name[:-4] for name, _ in op.iter_params()]); a parameter that is no declared field is a KeyError later *)
Definition touched (d : rdecl) (fs : list (field * val)) : list nat :=
  flat_map (fun fv => match instr_of d (fst fv) with Some i => [i] | None => [] end) fs.
Definition all_declared (d : rdecl) (fs : list (field * val)) : bool :=
  forallb (fun fv => match instr_of d (fst fv) with Some _ => true | None => false end) fs.

(* create_pairs: the value of one half — set by this op, else retraced through the inferred input state,
   else (first setup: no input state) the materialised default 0.  [None] = KeyError / failed assert. *)
Definition half_val (fs : list (field * val)) (prev : option astate) (f : field) : option cval :=
  match dict_last f fs with
  | Some v => Some (VRef v)
  | None =>
      match prev with
      | None => Some (VConst 0)
      | Some st => match st_lookup f st with Some v => Some (VRef v) | None => None end
      end
  end.

(* combine_pairs_to_ops over the declared fields of the touched instructions, in declaration order:
   one instruction per ".rs1" entry *)
Fixpoint rocc_emit (whole d : rdecl) (tch : list nat) (hv : field -> option cval) : option cblock :=
  match d with
  | [] => Some []
  | rf :: d' =>
      if rf_rs1 rf && mem_nat (rf_instr rf) tch then
        match half_field whole (rf_instr rf) false with
        | None => None
        | Some f2 =>
            match hv (rf_field rf), hv f2, rocc_emit whole d' tch hv with
            | Some v1, Some v2, Some r => Some (CInsn (rf_func7 rf) v1 v2 :: r)
            | _, _, _ => None
            end
        end
      else rocc_emit whole d' tch hv
  end.

Definition lower_rocc_setup (ri : rinfo) (T : tbl) (ins : option val) (fs : list (field * val)) : option cblock :=
  let d := ri_fields ri in
  if negb (all_declared d fs) then None else
  rocc_emit d d (touched d fs) (half_val fs (match ins with Some i => Some (tlook T i) | None => None end)).

(* launch ops are not deduplicated: both halves must be given (assert) *)
Definition lower_rocc_launch (ri : rinfo) (fs : list (field * val)) : option cblock :=
  let d := ri_launch ri in
  if negb (all_declared d fs) then None else
  rocc_emit d d (touched d fs) (fun f => match dict_last f fs with Some v => Some (VRef v) | None => None end).

(* the whole pass on a module whose accelerators are all RoCC; [rm] indexed by accelerator id *)
Section RLower.
Variable rm : list rinfo.
Variable T : tbl.

Fixpoint rlower_stmt (s : stmt) {struct s} : option cblock :=
  let blk := fix blk (b : list stmt) {struct b} : option cblock :=
    match b with
    | [] => Some []
    | x :: b' => match rlower_stmt x, blk b' with Some cx, Some cb => Some (cx ++ cb) | _, _ => None end
    end in
  match s with
  | SPure d e => Some [CPure d e]
  | SCall g ef pu ds ar => Some [CCall g ef pu ds ar]
  | SSetup a _ ins fs => match nth_error rm a with Some ri => lower_rocc_setup ri T ins fs | None => None end
  | SLaunch a _ _ fs => match nth_error rm a with Some ri => lower_rocc_launch ri fs | None => None end
  | SAwait a _ => match nth_error rm a with Some _ => Some [] | None => None end
  | SReset _ _ => None
  | SFor iv lb ub st iters results body yields =>
      match blk body with
      | Some cb => let tys := map it_ty iters in
                   Some [CFor iv lb ub st (int_iters iters) (keep_int tys results) cb (keep_int tys yields)]
      | None => None
      end
  | SIf c results thn thn_y els els_y =>
      match blk thn, blk els with
      | Some ct, Some ce => let tys := map snd results in
          Some [CIf c (keep_int tys (map fst results)) ct (keep_int tys thn_y) ce (keep_int tys els_y)]
      | _, _ => None
      end
  end.

Fixpoint rlower_block (b : block) : option cblock :=
  match b with
  | [] => Some []
  | x :: b' => match rlower_stmt x, rlower_block b' with Some cx, Some cb => Some (cx ++ cb) | _, _ => None end
  end.
End RLower.

Definition rlower_prog (rm : list rinfo) (p : prog) : option cblock := rlower_block rm (ainfer p) (p_body p).

(* ---- what "the values currently in effect" means: the source-level instruction stream -------------------
   [rrun]: the accfg program executed on AccSem's registers; every setup / launch reports, for each touched
   instruction (declaration order), func7 and the CURRENT contents of its two source fields after the op's
   writes (for a launch: the launch values). Used by L2 against the instruction stream of the real output. *)
Definition insn_now (d : rdecl) (tch : list nat) (r : field -> Z) : list cev :=
  flat_map (fun rf => if rf_rs1 rf && mem_nat (rf_instr rf) tch
                      then match half_field d (rf_instr rf) false with
                           | Some f2 => [CI (rf_func7 rf) (r (rf_field rf)) (r f2)]
                           | None => []
                           end
                      else []) d.

(* ---- reference run: which instructions a RoCC program has to issue ------------------------------------------
   The accfg program is executed with a register file [acc -> field -> option Z] (None = never written since
   the last reconfiguring call).  Each setup reports, for every instruction it touches (declaration order),
   func7 and the contents of both source fields AFTER its writes; each launch reports its launch values. *)
Inductive rexp :=
| RI (func7 : Z) (v1 v2 : option Z)
| RCall (tag n : nat) (args : list Z).

Record rstate := mkRSt { renv : envT; rregs : acc -> field -> option Z; rncalls : nat; rtr : list rexp }.
Definition rset_env (m : rstate) (e : envT) : rstate := mkRSt e (rregs m) (rncalls m) (rtr m).

Fixpoint owrite (e : envT) (fs : list (field * val)) (r : field -> option Z) : field -> option Z :=
  match fs with
  | [] => r
  | (f, v) :: fs' => owrite e fs' (fun g => if Nat.eqb g f then Some (e v) else r g)
  end.

Definition exp_insns (d : rdecl) (tch : list nat) (r : field -> option Z) : list rexp :=
  flat_map (fun rf => if rf_rs1 rf && mem_nat (rf_instr rf) tch
                      then match half_field d (rf_instr rf) false with
                           | Some f2 => [RI (rf_func7 rf) (r (rf_field rf)) (r f2)]
                           | None => []
                           end
                      else []) d.

Section RExec.
Variable rm : list rinfo.
Variable orc : oracle.

Definition rexec_setup (a : acc) (fs : list (field * val)) (m : rstate) : rstate :=
  match nth_error rm a with
  | None => m
  | Some ri =>
      let r' := owrite (renv m) fs (rregs m a) in
      mkRSt (renv m) (fun a' => if Nat.eqb a' a then r' else rregs m a') (rncalls m)
            (rev (exp_insns (ri_fields ri) (touched (ri_fields ri) fs) r') ++ rtr m)
  end.

Definition rexec_launch (a : acc) (fs : list (field * val)) (m : rstate) : rstate :=
  match nth_error rm a with
  | None => m
  | Some ri =>
      let r' := owrite (renv m) fs (fun _ => None) in
      mkRSt (renv m) (rregs m) (rncalls m)
            (rev (exp_insns (ri_launch ri) (touched (ri_launch ri) fs) r') ++ rtr m)
  end.

Definition rexec_call (tag : nat) (eff pure : bool) (dsts args : list val) (m : rstate) : rstate :=
  let argv := map (renv m) args in
  let n := rncalls m in
  mkRSt (call_results orc pure n tag 0%nat dsts argv (renv m))
        (if eff then (fun _ _ => None) else rregs m) (S n) (RCall tag n argv :: rtr m).

Fixpoint rexec_stmt (s : stmt) (m : rstate) {struct s} : rstate :=
  let exec_blk := fix exec_blk (b : list stmt) (m : rstate) {struct b} : rstate :=
    match b with [] => m | x :: b' => exec_blk b' (rexec_stmt x m) end in
  match s with
  | SPure d e => rset_env m (upd (renv m) d (eval_pexp (renv m) e))
  | SCall tag eff pure dsts args => rexec_call tag eff pure dsts args m
  | SSetup a _ _ fs => rexec_setup a fs m
  | SLaunch a _ _ fs => rexec_launch a fs m
  | SAwait _ _ => m
  | SReset _ _ => m
  | SFor iv lb ub st iters results body yields =>
      let l := renv m lb in let u := renv m ub in let sp := renv m st in
      let tys := map it_ty iters in
      let bargs := keep_int tys (map it_arg iters) in
      let ys := keep_int tys yields in
      let m0 := rset_env m (bind_list bargs (map (renv m) (keep_int tys (map it_init iters))) (renv m)) in
      let mN := iter_n (trip_count l u sp)
                  (fun k mk => let m1 := rset_env mk (upd (renv mk) iv (l + Z.of_nat k * sp)) in
                               let m2 := exec_blk body m1 in
                               rset_env m2 (bind_list bargs (map (renv m2) ys) (renv m2))) m0 in
      rset_env mN (bind_list (keep_int tys results) (map (renv mN) bargs) (renv mN))
  | SIf c results thn thn_y els els_y =>
      let tys := map snd results in
      let rs := keep_int tys (map fst results) in
      if renv m c =? 0
      then let m' := exec_blk els m in rset_env m' (bind_list rs (map (renv m') (keep_int tys els_y)) (renv m'))
      else let m' := exec_blk thn m in rset_env m' (bind_list rs (map (renv m') (keep_int tys thn_y)) (renv m'))
  end.

Fixpoint rexec_block (b : block) (m : rstate) : rstate :=
  match b with [] => m | x :: b' => rexec_block b' (rexec_stmt x m) end.

Definition rrun (p : prog) (args : list Z) : list rexp :=
  rev (rtr (rexec_block (p_body p) (mkRSt (bind_list (p_params p) args (fun _ => 0)) (fun _ _ => None) 1%nat []))).
End RExec.

(* an issued instruction is right when it carries every operand value that is currently in effect *)
Definition oz_match (o : option Z) (z : Z) : bool := match o with Some x => x =? z | None => true end.
Definition rexp_match (e : rexp) (c : cev) : bool :=
  match e, c with
  | RI f o1 o2, CI f' z1 z2 => (f =? f') && oz_match o1 z1 && oz_match o2 z2
  | RCall g n ar, CCallE g' n' ar' => Nat.eqb g g' && Nat.eqb n n' && list_eqb Z.eqb ar ar'
  | _, _ => false
  end.
Fixpoint rtrace_match (e : list rexp) (c : list cev) : bool :=
  match e, c with
  | [], [] => true
  | x :: e', y :: c' => rexp_match x y && rtrace_match e' c'
  | _, _ => false
  end.
