(* C18 — kernel recognition, expansion and dispatch (executable model, no proofs).
   Mirrors (after the repairs of F16/F17, see known/C18.json):
     snaxc/transforms/convert_linalg_to_kernel.py   check_kernel_equivalence, ParseLinalgBody
     snaxc/dialects/kernel.py                        equivalent_region of MulOp/AddOp/MacOp/QMacOp
     snaxc/transforms/convert_kernel_to_linalg.py   LowerLinalgBody (= equivalent_region), LowerRescale
     snaxc/transforms/dispatch_kernels.py           the kernel / operand-type matching loops
     util/gemmx/simd_golden_model.py                 the repo's golden model of the rescale
   A linalg body is a straight-line block: typed block arguments, a list of ops each reading block
   arguments / earlier results / constants defined outside, and the yielded values. *)
From Snax Require Import Base.Prelude Model.C18FixedWidth.

(* provenance of an operand *)
Inductive src :=
| SArg (i : nat)          (* i-th block argument *)
| SRes (i : nat)          (* result of the op at position i of the block *)
| SCst (z : Z).           (* a constant defined outside the block *)

Inductive opkind := KAdd | KMul | KSub | KExt | KTrunc | KShrS | KMinS | KMaxS.

Record bop := mkOp { kind : opkind; rty : Z; operands : list src }.
Record body := mkBody { argtys : list Z; ops : list bop; yielded : list src }.

(* ---------------------------------------------------------------- evaluation *)
Definition get (args res : list Z) (s : src) : Z :=
  match s with SArg i => nth i args 0 | SRes i => nth i res 0 | SCst z => z end.

Definition eval_op (args res : list Z) (o : bop) : Z :=
  match kind o, operands o with
  | KAdd, [a; b] => wrap (rty o) (get args res a + get args res b)
  | KSub, [a; b] => wrap (rty o) (get args res a - get args res b)
  | KMul, [a; b] => wrap (rty o) (get args res a * get args res b)
  | KExt, [a] => get args res a                    (* extsi keeps the signed value *)
  | KTrunc, [a] => wrap (rty o) (get args res a)
  | KShrS, [a; b] => Z.shiftr (get args res a) (get args res b)
  | KMinS, [a; b] => Z.min (get args res a) (get args res b)
  | KMaxS, [a; b] => Z.max (get args res a) (get args res b)
  | _, _ => 0
  end.

Fixpoint eval_ops (args res : list Z) (l : list bop) : list Z :=
  match l with
  | [] => res
  | o :: r => eval_ops args (res ++ [eval_op args res o]) r
  end.

Definition eval_body (b : body) (args : list Z) : list Z :=
  map (get args (eval_ops args [] (ops b))) (yielded b).

(* ---------------------------------------------------------------- kernel ops *)
Inductive kernel := KMulK | KAddK | KMacK | KQMacK | KRescaleK.

Definition kernel_eqb (a b : kernel) : bool :=
  match a, b with
  | KMulK, KMulK | KAddK, KAddK | KMacK, KMacK | KQMacK, KQMacK | KRescaleK, KRescaleK => true
  | _, _ => false
  end.

(* number of operands in the IRDL definition (Parsable ops only) *)
Definition kernel_arity (k : kernel) : option nat :=
  match k with
  | KMulK | KAddK | KMacK => Some 2%nat
  | KQMacK => Some 4%nat
  | KRescaleK => None                      (* not Parsable *)
  end.

Definition ty (tys : list Z) (i : nat) : Z := nth i tys 0.

(* kernel.py: equivalent_region, for the block argument types `tys` = operand types ++ [result type].
   xDSL's arith binary ops take the type of their first operand as result type. *)
Definition equivalent_region (k : kernel) (tys : list Z) : body :=
  match k with
  | KMulK => mkBody tys [mkOp KMul (ty tys 0) [SArg 0; SArg 1]] [SRes 0]
  | KAddK => mkBody tys [mkOp KAdd (ty tys 0) [SArg 0; SArg 1]] [SRes 0]
  | KMacK =>
    if ty tys 0 =? ty tys 2
    then mkBody tys [mkOp KMul (ty tys 0) [SArg 0; SArg 1];
                     mkOp KAdd (ty tys 2) [SArg 2; SRes 0]] [SRes 1]
    else mkBody tys [mkOp KExt (ty tys 2) [SArg 0];
                     mkOp KExt (ty tys 2) [SArg 1];
                     mkOp KMul (ty tys 2) [SRes 0; SRes 1];
                     mkOp KAdd (ty tys 2) [SArg 2; SRes 2]] [SRes 3]
  | KQMacK =>
    mkBody tys [mkOp KExt (ty tys 2) [SArg 0];
                mkOp KSub (ty tys 2) [SRes 0; SArg 2];
                mkOp KExt (ty tys 3) [SArg 1];
                mkOp KSub (ty tys 3) [SRes 2; SArg 3];
                mkOp KMul (ty tys 2) [SRes 1; SRes 3];
                mkOp KAdd (ty tys 4) [SArg 4; SRes 4]] [SRes 5]
  | KRescaleK => mkBody tys [] []
  end.

(* what the kernel op means: a closed arithmetic formula on the scalar inputs *)
Definition eval_kernel (k : kernel) (tys args : list Z) : Z :=
  let a i := nth i args 0 in
  match k with
  | KMulK => wrap (ty tys 2) (a 0%nat * a 1%nat)
  | KAddK => wrap (ty tys 2) (a 0%nat + a 1%nat)
  | KMacK => wrap (ty tys 2) (a 2%nat + a 0%nat * a 1%nat)
  | KQMacK => wrap (ty tys 4) (a 4%nat + (a 0%nat - a 2%nat) * (a 1%nat - a 3%nat))
  | KRescaleK => 0
  end.

(* the operand / result types for which the equivalent region is valid IR *)
Definition well_typed (k : kernel) (tys : list Z) : bool :=
  match k with
  | KMulK | KAddK => (length tys =? 3)%nat && (ty tys 0 =? ty tys 1) && (ty tys 0 =? ty tys 2) && (0 <? ty tys 0)
  | KMacK => (length tys =? 3)%nat && (0 <? ty tys 0) && (0 <? ty tys 1) &&
             (((ty tys 0 =? ty tys 2) && (ty tys 1 =? ty tys 2)) || ((ty tys 0 <? ty tys 2) && (ty tys 1 <? ty tys 2)))
  | KQMacK => (length tys =? 5)%nat && (0 <? ty tys 0) && (0 <? ty tys 1) &&
              (ty tys 0 <? ty tys 2) && (ty tys 1 <? ty tys 3) && (ty tys 2 =? ty tys 3) && (ty tys 2 =? ty tys 4)
  | KRescaleK => false
  end.

(* ---------------------------------------------------------------- typing (what the xDSL verifier accepts) *)
Definition src_ty (argt res_tys : list Z) (s : src) : option Z :=
  match s with SArg i => nth_error argt i | SRes i => nth_error res_tys i | SCst _ => None end.
Definition op_typed (argt res_tys : list Z) (o : bop) : bool :=
  match kind o, operands o with
  | KAdd, [a; b] | KMul, [a; b] | KSub, [a; b] =>
    optZ_eqb (src_ty argt res_tys a) (Some (rty o)) && optZ_eqb (src_ty argt res_tys b) (Some (rty o)) && (0 <? rty o)
  | KExt, [a] => match src_ty argt res_tys a with Some w => (0 <? w) && (w <? rty o) | None => false end
  | _, _ => false
  end.
Fixpoint ops_typed (argt res_tys : list Z) (l : list bop) : bool :=
  match l with
  | [] => true
  | o :: r => op_typed argt res_tys o && ops_typed argt (res_tys ++ [rty o]) r
  end.
Definition res_types (l : list bop) : list Z := map rty l.
(* a body over add/mul/sub/extsi is valid IR: operand types agree, extsi widens, the yielded value has
   the type of the output block argument *)
Definition body_typed (b : body) : bool :=
  ops_typed (argtys b) [] (ops b) &&
  match yielded b with
  | [y] => optZ_eqb (src_ty (argtys b) (res_types (ops b)) y) (nth_error (argtys b) (length (argtys b) - 1))
           && (0 <? length (argtys b))%nat
  | _ => false
  end.

(* ---------------------------------------------------------------- recognition *)
Definition src_eqb (a b : src) : bool :=
  match a, b with
  | SArg i, SArg j => Nat.eqb i j
  | SRes i, SRes j => Nat.eqb i j
  | _, _ => false                (* a value defined outside the block never has a counterpart *)
  end.
Definition kind_eqb (a b : opkind) : bool :=
  match a, b with
  | KAdd, KAdd | KMul, KMul | KSub, KSub | KExt, KExt | KTrunc, KTrunc | KShrS, KShrS
  | KMinS, KMinS | KMaxS, KMaxS => true
  | _, _ => false
  end.
(* check_kernel_equivalence after the repair: op type, result types and provenance of every operand *)
Definition op_equiv (a b : bop) : bool :=
  kind_eqb (kind a) (kind b) && (rty a =? rty b) && list_eqb src_eqb (operands a) (operands b).
Definition body_equiv (a b : body) : bool :=
  list_eqb Z.eqb (argtys a) (argtys b) && list_eqb op_equiv (ops a) (ops b) &&
  list_eqb src_eqb (yielded a) (yielded b).
(* ... and before the repair (F16): only the sequence of op types *)
Definition body_equiv_optypes (a b : body) : bool :=
  list_eqb (fun x y => kind_eqb (kind x) (kind y)) (ops a) (ops b) &&
  (length (yielded a) =? length (yielded b))%nat.

(* literal equality of bodies, constants included (correspondence check of the expansions) *)
Definition src_eqb_full (a b : src) : bool :=
  match a, b with SCst x, SCst y => x =? y | _, _ => src_eqb a b end.
Definition body_eqb_full (a b : body) : bool :=
  list_eqb Z.eqb (argtys a) (argtys b) &&
  list_eqb (fun x y => kind_eqb (kind x) (kind y) && (rty x =? rty y) && list_eqb src_eqb_full (operands x) (operands y))
           (ops a) (ops b) &&
  list_eqb src_eqb_full (yielded a) (yielded b).
Definition optk_eqb (a b : option kernel) : bool :=
  match a, b with Some x, Some y => kernel_eqb x y | None, None => true | _, _ => false end.

Definition parsable : list kernel := [KMulK; KAddK; KMacK; KQMacK].   (* order of Kernel.operations *)

Definition recognise_with (eqv : body -> body -> bool) (b : body) : option kernel :=
  find (fun k => match kernel_arity k with
                 | Some n => Nat.eqb n (length (argtys b) - 1) && eqv b (equivalent_region k (argtys b))
                 | None => false
                 end) parsable.
Definition recognise := recognise_with body_equiv.
Definition recognise_optypes := recognise_with body_equiv_optypes.

(* ---------------------------------------------------------------- dispatch *)
Record supported := mkSup { sk_kernel : kernel; sk_types : list Z }.
Record accel := mkAcc { acc_name : nat; acc_supported : list supported }.

Inductive dres (A : Type) := DOk (a : A) | DErr.   (* DErr: zip(..., strict=True) raised *)
Arguments DOk {A}. Arguments DErr {A}.

(* `any(t != k.type for t, k in zip(declared, actual, strict=True))`: the pairs are visited until the first
   mismatch; zip raises ValueError only when one list ends before the other and no mismatch was seen before.
   (corrected by the audit: the model raised whenever the lengths differ) *)
Inductive tcheck := TEq | TMismatch | TRaise.
Fixpoint types_check (a b : list Z) : tcheck :=
  match a, b with
  | [], [] => TEq
  | x :: a', y :: b' => if x =? y then types_check a' b' else TMismatch
  | _, _ => TRaise
  end.

(* check_types = false is the code before the repair of F17: every pair is visited (the inner `continue` does
   nothing), so zip raises iff the lengths differ, and the first supported kernel of that kind matches *)
Fixpoint find_supported_with (check_types : bool) (sks : list supported) (k : kernel) (tys : list Z) : dres bool :=
  match sks with
  | [] => DOk false
  | sk :: r =>
    if kernel_eqb (sk_kernel sk) k then
      if check_types then
        match types_check (sk_types sk) tys with
        | TEq => DOk true
        | TMismatch => find_supported_with check_types r k tys
        | TRaise => DErr
        end
      else if negb (length (sk_types sk) =? length tys)%nat then DErr else DOk true
    else find_supported_with check_types r k tys
  end.

Fixpoint dispatch_with (check_types : bool) (accs : list accel) (k : kernel) (tys : list Z) : dres (option nat) :=
  match accs with
  | [] => DOk None
  | a :: r =>
    match find_supported_with check_types (acc_supported a) k tys with
    | DErr => DErr
    | DOk true => DOk (Some (acc_name a))
    | DOk false => dispatch_with check_types r k tys
    end
  end.
Definition dispatch := dispatch_with true.
Definition dispatch_old := dispatch_with false.     (* before the repair of F17 *)

(* ---------------------------------------------------------------- rescale *)
Record rparams := mkR { zp_in : Z; zp_out : Z; mult : Z; shift : Z; max_int : Z; min_int : Z; double_round : bool }.

(* LowerRescale: the body the kernel.rescale op (i32 -> i8) is expanded to *)
Definition rescale_region (p : rparams) : body :=
  mkBody [32; 8]
    [mkOp KSub 32 [SArg 0; SCst (zp_in p)];
     mkOp KExt 64 [SRes 0];
     mkOp KMul 64 [SRes 1; SCst (mult p)];
     mkOp KShrS 64 [SRes 2; SCst (shift p)];
     mkOp KTrunc 32 [SRes 3];
     mkOp KAdd 32 [SRes 4; SCst (zp_out p)];
     mkOp KMinS 32 [SRes 5; SCst (max_int p)];
     mkOp KMaxS 32 [SRes 6; SCst (min_int p)];
     mkOp KTrunc 8 [SRes 7]]
    [SRes 8].

Definition expand_rescale (p : rparams) (x : Z) : Z :=
  let v := wrap 32 (x - zp_in p) in
  let m := wrap 64 (v * mult p) in
  let s := Z.shiftr m (shift p) in
  let t := wrap 32 s in
  let o := wrap 32 (t + zp_out p) in
  wrap 8 (Z.max (Z.min o (max_int p)) (min_int p)).

(* util/gemmx/simd_golden_model.py: postprocessing_simd_golden_model on one element (int64 input array) *)
Definition golden_rescale (p : rparams) (x : Z) : Z :=
  let v := x - zp_in p in
  let m := wrap 64 (v * mult p) in
  let s1 := wrap 32 (Z.shiftr m (shift p - 1)) in
  let r := if double_round p then (if 0 <=? s1 then wrap 32 (s1 + 1) else wrap 32 (s1 - 1)) else s1 in
  let s2 := Z.shiftr r 1 in
  let o := wrap 32 (s2 + zp_out p) in
  Z.min (Z.max o (min_int p)) (max_int p).

(* the inputs on which the "limited lowering" is meant to agree with the golden model *)
Definition rescale_safe (p : rparams) (x : Z) : bool :=
  negb (double_round p) &&
  (1 <=? shift p) && (shift p <? 64) &&
  in_rangeb 32 (x - zp_in p) &&
  in_rangeb 64 ((x - zp_in p) * mult p) &&
  in_rangeb 32 (Z.shiftr ((x - zp_in p) * mult p) (shift p - 1)) &&
  in_rangeb 32 (Z.shiftr ((x - zp_in p) * mult p) (shift p) + zp_out p) &&
  (-128 <=? min_int p) && (min_int p <=? max_int p) && (max_int p <=? 127).

(* ---- per-channel rescale parameters: kernel.rescale carries arrays `multiplier` / `shift`; the golden model
   broadcasts them over the channels (element c uses multiplier[c], shift[c]); LowerRescale reads element 0 *)
Record rparams_pc := mkRpc { pc_zp_in : Z; pc_zp_out : Z; pc_mults : list Z; pc_shifts : list Z;
                            pc_max : Z; pc_min : Z; pc_dr : bool }.
Definition chan (q : rparams_pc) (c : nat) : rparams :=
  mkR (pc_zp_in q) (pc_zp_out q) (nth c (pc_mults q) 0) (nth c (pc_shifts q) 0) (pc_max q) (pc_min q) (pc_dr q).
Definition golden_rescale_pc (q : rparams_pc) (c : nat) (x : Z) : Z := golden_rescale (chan q c) x.
Definition expand_rescale_pc (q : rparams_pc) (x : Z) : Z := expand_rescale (chan q 0) x.
(* the whole class of F18 as one Gallina predicate: channel c of the golden model is reproduced when the
   channel uses the parameters of channel 0 and the single-channel input is safe *)
Definition rescale_safe_pc (q : rparams_pc) (c : nat) (x : Z) : bool :=
  rescale_safe (chan q c) x &&
  (nth c (pc_mults q) 0 =? nth 0 (pc_mults q) 0) && (nth c (pc_shifts q) 0 =? nth 0 (pc_shifts q) 0).
