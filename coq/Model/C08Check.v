(* C08 — executable comparison helpers used by the L1 cases files (no proofs). *)
From Snax Require Import Base.Prelude Base.ListAux Model.C08StreamerCfg.
From Coq Require Import String.

Definition optvals_eqb (a b : option (list value)) : bool :=
  match a, b with
  | Some x, Some y => list_eqb value_eqb x y
  | None, None => true
  | _, _ => false end.

Definition fields_ok (got : list fname) (want : list string) : bool :=
  list_eqb String.eqb (map render got) want.

(* regular system: (cfg, op, real field names, real value list or None when the generator raised) *)
Definition chk_regular (c : config * sop * list string * option (list value)) : bool :=
  match c with
  | (cfg, op, fs, vs) =>
      fields_ok (setup_fields cfg) fs
      && optvals_eqb (option_map (map snd) (setup_vals cfg op)) vs
  end.

Definition chk_len (c : ekind * nat) : bool := Nat.eqb (std_len (fst c)) (snd c).
