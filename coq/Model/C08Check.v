(* C08 — executable comparison helpers used by the L1 cases files (no proofs). *)
From Snax Require Import Base.Prelude Base.ListAux Model.C08StreamerCfg.
From Coq Require Import String.

Definition optvals_eqb (a b : option (list value)) : bool :=
  match a, b with
  | Some x, Some y => list_eqb value_eqb x y
  | None, None => true
  | _, _ => false end.

(* None = the field names of this configuration are compared in another case *)
Definition fields_ok (got : list fname) (want : option (list string)) : bool :=
  match want with Some w => list_eqb String.eqb (map render got) w | None => true end.

(* regular system: (cfg, op, real field names, real value list or None when the generator raised) *)
Definition chk_regular (c : config * sop * option (list string) * option (list value)) : bool :=
  match c with
  | (cfg, op, fs, vs) =>
      fields_ok (setup_fields cfg) fs
      && optvals_eqb (option_map (map snd) (setup_vals cfg op)) vs
  end.

Definition chk_len (c : ekind * nat) : bool := Nat.eqb (std_len (fst c)) (snd c).

(* ---- accelerators ------------------------------------------------------------------------------ *)
From Snax Require Import Model.C08Accels.

(* xDMA: (cfg, op, body, real field names, real values) *)
Definition chk_xdma (c : config * sop * xbody * option (list string) * option (list value)) : bool :=
  match c with
  | (cfg, op, b, fs, vs) =>
      fields_ok (xdma_fields std_len cfg) fs
      && optvals_eqb (option_map (map snd) (xdma_vals std_len cfg op b)) vs
  end.

Definition chk_alu (c : config * sop * option (list string) * option (list value)) : bool :=
  match c with
  | (cfg, op, fs, vs) =>
      fields_ok (alu_fields cfg) fs && optvals_eqb (option_map (map snd) (alu_vals cfg op)) vs
  end.

(* gemmx: values are compared after evaluation; zp = (zp_a, zp_b) are the SSA zero points *)
Definition gval_matches (zp : Z * Z) (g : gval) (v : value) : bool :=
  let env := fun i => if Nat.eqb i 1000 then fst zp else if Nat.eqb i 1001 then snd zp else 0 in
  match g, v with
  | GOperand k, VOperand k' => Nat.eqb k k'
  | GOperand _, _ => false
  | _, VConst z => geval env g =? z
  | _, _ => false
  end.
Definition chk_gemmx (c : config * Z * sop * gbody * (Z * Z) * option (list string) * option (list value)) : bool :=
  match c with
  | (cfg, n, op, gb, zp, fs, vs) =>
      fields_ok (gemmx_fields cfg n) fs
      && match gemmx_vals cfg n op gb, vs with
         | Some l, Some r => list_eqb (fun a b => a) (map (fun _ => true) l) (map (fun _ => true) r)
                             && forallb (fun gv => gval_matches zp (snd (fst gv)) (snd gv)) (combine l r)
         | None, None => true
         | _, _ => false
         end
  end.

(* snax_phs: (cfg, op, number of phs_switch fields, decoded switch values, real field names, real values) *)
Definition chk_phs (c : config * sop * nat * list Z * option (list string) * option (list value)) : bool :=
  match c with
  | (cfg, op, nsw, sw, fs, vs) =>
      fields_ok (phs_fields cfg nsw) fs && optvals_eqb (option_map (map snd) (phs_vals cfg op sw)) vs
  end.

Definition hval_eqb (a b : hval) : bool :=
  match a, b with
  | HPtr x, HPtr y => Nat.eqb x y | HDim0, HDim0 => true | HOne, HOne => true | _, _ => false end.
Definition chk_hwpe (c : list string * list hval) : bool :=
  fields_ok hwpe_fields (Some (fst c)) && list_eqb hval_eqb (map snd hwpe_vals) (snd c).

(* extension CSR values: rescale = [input_zp; multiplier[0]; output_zp; shift[0]] *)
Definition std_csr (e : ekind) (r : rescale) : list Z :=
  match e with
  | ERescaleDown | ERescaleUp => [r_zpin r; nth 0 (r_mult r) 0; r_zpout r; nth 0 (r_shift r) 0]
  | EAdd | EAddLong => [2] | ETranspose => [3] | EMemSet => [0] | EMaxPool => [1]
  end.
Definition chk_extcsr (c : ekind * rescale * list Z) : bool :=
  match c with (e, r, vs) => list_eqb Z.eqb (std_csr e r) vs && Nat.eqb (List.length vs) (std_len e) end.
