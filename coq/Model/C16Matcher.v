(* Hand model (H) of the template matcher and the extra checks of the dart scheduler:
     snaxc/ir/dart/access_pattern.py  same_nonzero_singular_vectors, TemplatePattern.matches,
                                      Template.matches
     snaxc/ir/dart/scheduler.py       is_pure_output_stationary, is_memory_flexible_enough,
                                      is_output_channel_stationary
   The SVD-based subspace comparison (float, tol = 1e-10) is modelled by EXACT row-space
   equality over the rationals, decided by a fraction-free elimination that produces, for every
   row, an integer certificate (d, m) with d <> 0 and d * row = m . Other; the definition
   CHECKS the certificate, so its soundness does not depend on the elimination.
   Executable definitions only; proofs live in Proofs/C16*Proofs.v. *)
From Snax Require Import Base.Prelude Base.ListAux Model.C03Schedule.

Set Implicit Arguments.

(* ---- integer vectors ---------------------------------------------------------------- *)
Definition vec := list Z.
Definition vscale (k : Z) (v : vec) : vec := map (Z.mul k) v.
Fixpoint vadd (a b : vec) : vec :=
  match a, b with
  | x :: a', y :: b' => (x + y) :: vadd a' b'
  | _, _ => []
  end.
Definition vsub (a b : vec) : vec := vadd a (vscale (-1) b).
Definition vzerob (v : vec) : bool := forallb (fun x => x =? 0) v.
Fixpoint pivot (v : vec) : nat :=
  match v with
  | [] => 0
  | x :: r => if x =? 0 then S (pivot r) else 0
  end.
(* m . B = sum_k m_k * B_k, a vector of length n *)
Fixpoint vecmat (n : nat) (m : vec) (B : list vec) : vec :=
  match m, B with
  | mk :: m', bk :: B' => vadd (vscale mk bk) (vecmat n m' B')
  | _, _ => repeat 0 n
  end.

(* ---- fraction-free elimination with combination tracking ---------------------------- *)
(* a basis element (pc, v, c): v = c . B, v[pc] <> 0, and v is 0 on the pivots of the
   earlier basis elements *)
Definition belem : Type := (nat * vec * vec)%type.

(* invariant: x = d * a - m . B *)
Fixpoint reduce (basis : list belem) (x : vec) (d : Z) (m : vec) : vec * Z * vec :=
  match basis with
  | [] => (x, d, m)
  | (pc, v, c) :: r =>
      let xp := nth pc x 0 in
      let vp := nth pc v 0 in
      if xp =? 0 then reduce r x d m
      else reduce r (vsub (vscale vp x) (vscale xp v)) (vp * d) (vadd (vscale vp m) (vscale xp c))
  end.

Definition unit_vec (n i : nat) : vec := map (fun k => if Nat.eqb k i then 1 else 0) (seq 0 n).

Fixpoint build_basis (nB : nat) (rows : list vec) (i : nat) (basis : list belem) : list belem :=
  match rows with
  | [] => basis
  | r :: rest =>
      match reduce basis r 1 (repeat 0 nB) with
      | (x, d, m) =>
          if vzerob x then build_basis nB rest (S i) basis
          else build_basis nB rest (S i) (basis ++ [(pivot x, x, vsub (vscale d (unit_vec nB i)) m)])
      end
  end.

(* candidate certificate for "a is in the rational row space of B" *)
Definition find_coeffs (B : list vec) (a : vec) : option (Z * vec) :=
  let nB := length B in
  match reduce (build_basis nB B 0 []) a 1 (repeat 0 nB) with
  | (x, d, m) => if vzerob x then Some (d, m) else None
  end.

Definition cert_ok (B : list vec) (a : vec) (d : Z) (m : vec) : bool :=
  negb (d =? 0) && list_eqb Z.eqb (vscale d a) (vecmat (length a) m B).

Definition row_in_span (B : list vec) (a : vec) : bool :=
  match find_coeffs B a with
  | Some (d, m) => cert_ok B a d m
  | None => false
  end.

(* same_nonzero_singular_vectors(A, B): the row spaces coincide *)
Definition rowspace_eqb (A B : list vec) : bool :=
  forallb (row_in_span B) A && forallb (row_in_span A) B.

(* ---- matcher ------------------------------------------------------------------------ *)
(* rows of A from its columns *)
Definition rows_of (nres : nat) (cols : list (list Z)) : list vec :=
  map (fun i => map (fun c => nth i c 0) cols) (seq 0 nres).

(* TemplatePattern.matches(sp) *)
Definition p_matches (tp : tpat) (sp : spat) : bool :=
  let td := pndims tp in
  let sd := pndims sp in
  if Nat.ltb sd td then false
  else if Nat.eqb td 0 && Nat.ltb 0 sd then false      (* sp.inner_dims(0) raises; outside the model's domain *)
  else
    let scols := if Nat.ltb td sd then lastn td (pcols sp) else pcols sp in
    let nt := length (pb tp) in
    let ns := length (pb sp) in
    let trows := skipn (nt - ns) (rows_of nt (pcols tp)) in   (* A[broadcast:, :] when broadcast > 0 *)
    rowspace_eqb trows (rows_of ns scols).

(* Template.matches(schedule) *)
Fixpoint all2 {A B} (f : A -> B -> bool) (la : list A) (lb : list B) : bool :=
  match la, lb with
  | [], [] => true
  | a :: la', b :: lb' => f a b && all2 f la' lb'
  | _, _ => false
  end.
Definition matches (T : tmpl) (s : sched) : bool := all2 p_matches T s.

(* ---- extra checks ------------------------------------------------------------------- *)
(* A[:, :-m] as columns (note: `:-0` is empty) *)
Definition outer_cols {A} (m : nat) (cols : list A) : list A :=
  if Nat.eqb m 0 then [] else firstn (length cols - m) cols.
(* A[:, -m:] as columns (note: `-0:` is everything) *)
Definition inner_cols {A} (m : nat) (cols : list A) : list A :=
  if Nat.eqb m 0 then cols else lastn m cols.

Definition col_nonzero (c : list Z) : bool := existsb (fun v => negb (v =? 0)) c.

Fixpoint first_idx (b : bool) (l : list bool) : nat :=
  match l with
  | [] => 0
  | x :: r => if Bool.eqb x b then 0 else S (first_idx b r)
  end.
(* len - 1 - reversed.index(b), for a list that contains b *)
Definition last_idx (b : bool) (l : list bool) : nat := length l - 1 - first_idx b (rev l).

Definition tndims (T : tmpl) : nat := match T with [] => 0 | tp :: _ => pndims tp end.

(* is_pure_output_stationary(template, schedule) *)
Definition is_pure_output_stationary (T : tmpl) (s : sched) : bool :=
  let out := last s (mkPat [] [] []) in
  let types := map col_nonzero (outer_cols (tndims T) (pcols out)) in
  if negb (existsb (fun x => x) types && existsb negb types) then true
  else Nat.ltb (last_idx true types) (first_idx false types).

(* ceil(8 / size) for size >= 1 *)
Definition bank_ratio (size : Z) : Z := (8 + size - 1) / size.

Definition row_flexible (q : Z) (m : nat) (cols : list (list Z)) (i : nat) : bool :=
  let temporal := existsb (fun c => negb (nth i c 0 mod q =? 0)) (outer_cols m cols) in
  let spatial := existsb (fun c => nth i c 0 =? 1) (inner_cols m cols) in
  negb temporal && spatial.

Fixpoint zip_forall {A B} (f : A -> B -> bool) (la : list A) (lb : list B) : bool :=
  match la, lb with
  | a :: la', b :: lb' => f a b && zip_forall f la' lb'
  | _, _ => true
  end.

(* is_memory_flexible_enough(template, schedule, element_sizes), element sizes >= 1 *)
Definition is_memory_flexible_enough (sizes : list Z) (T : tmpl) (s : sched) : bool :=
  let m := tndims T in
  let n := match s with [] => 0%nat | p :: _ => pndims p end in
  if negb (Nat.ltb m n) then true
  else zip_forall (fun (p : spat) size =>
         existsb (row_flexible (bank_ratio size) m (pcols p)) (seq 0 (length (pb p)))) s sizes.

(* is_output_channel_stationary(template, schedule, channel_dim), channel_dim < min 2 nres *)
Definition is_output_channel_stationary (ch : nat) (T : tmpl) (s : sched) : bool :=
  let out := last s (mkPat [] [] []) in
  let arr := map (fun c => nth ch c 0) (outer_cols (tndims T) (pcols out)) in
  match arr with
  | [] => true
  | x :: _ => if existsb (fun v => negb (v =? 0)) arr then negb (x =? 0) else true
  end.

(* the two checks the dart-scheduler pass requests *)
Definition pass_checks (sizes : list Z) : list (tmpl -> sched -> bool) :=
  [is_pure_output_stationary; is_memory_flexible_enough sizes].
