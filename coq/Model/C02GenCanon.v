(* C02 — StridePattern.canonicalize is NOT modelled by hand: the definition GENERATED from
   snaxc/dialects/snax_stream.py on every run (Gen/StrideCanon.v, translator/py2coq.py,
   translator/specs/stride_pattern.py; owned by C19) is wrapped for the C02 pattern record. *)
From Snax Require Import Base.Prelude Model.PyLib Model.C02Stream.
From Snax Require Model.C19Stride Gen.StrideCanon.

Definition to19 (p : spattern) : C19Stride.spattern := C19Stride.SP (sp_ub p) (sp_ts p) (sp_ss p).
Definition of19 (p : C19Stride.spattern) : spattern :=
  mkSP (C19Stride.sp_ub p) (C19Stride.sp_ts p) (C19Stride.sp_ss p).

(* the canonicalize the compiler runs, as generated from its source *)
Definition gen_canonicalize (p : spattern) : option spattern :=
  match StrideCanon.StridePattern_canonicalize (to19 p) with Some q => Some (of19 q) | None => None end.
