(* Specification-side executable definitions for C16: what it means for a returned schedule to
   fit the accelerator template, and the decidable class of the known finding F12. *)
From Snax Require Import Base.Prelude Base.ListAux Model.C03Schedule Model.C16Matcher.

(* template[0].bounds : the bounds the scheduler consults *)
Definition tbounds (T : tmpl) : list (option Z) := match T with [] => [] | tp :: _ => pbounds tp end.

(* a schedule bound under a template bound: unbounded (None / 0) template dims accept anything *)
Definition bound_ok (tb : option Z) (sb : Z) : bool :=
  if truthy tb then match tb with Some t => sb <=? t | None => true end else true.

(* bounds compared dimension by dimension, aligned at the innermost dimension *)
Definition bfit (tbs : list (option Z)) (sbs : list Z) : bool :=
  forallb (fun p => bound_ok (fst p) (snd p)) (combine tbs sbs).
Definition bounds_fitb (T : tmpl) (r : sched) : bool := bfit (rev (tbounds T)) (rev (sbounds r)).

(* class invariant of a Template: every operand pattern has the same number of dims (>= 1) and
   as many columns as bounds *)
Definition wf_tmplb (T : tmpl) : bool :=
  Nat.leb 1 (tndims T) &&
  forallb (fun tp : tpat => Nat.eqb (length (pbounds tp)) (tndims T) && Nat.eqb (length (pcols tp)) (tndims T)) T.

(* the post-condition of C16 on a returned schedule r, for a matcher and a list of requested checks *)
Definition fitsb (matcher : tmpl -> sched -> bool) (checks : list (tmpl -> sched -> bool))
  (T : tmpl) (r : sched) : bool :=
  matcher T r && bounds_fitb T r && forallb (fun c => c T r) checks.

(* known finding F12, class `fewer_dims_than_template`: the returned schedule has fewer dims
   than the template, so it was only ever compared with a truncated template *)
Definition fewer_dims_than_template (T : tmpl) (r : sched) : bool :=
  Nat.ltb (length (sbounds r)) (tndims T).

(* known finding F-C16-2, class `large_entries_float_tolerance`: a decidable predicate on the pair of matrices handed
   to same_nonzero_singular_vectors.  The implementation compares the two projection matrices with
   np.allclose(P_A, P_B, atol = 1e-10), whose DEFAULT rtol = 1e-5 dominates: two distinct subspaces whose principal
   angle is below ~5e-6 are accepted as equal.  For integer rows that needs nearly parallel rows with large entries
   (rank 1: sin(angle) >= 1 / (|u| |v|); first observed deviation at entries 318/317 vs 317/316).  Inside the class the
   exact model [rowspace_eqb] and the float code may disagree; outside it L1 requires exact agreement. *)
Definition large_entry_bound : Z := 300.
Definition has_large_entry (M : list vec) : bool :=
  existsb (existsb (fun x => large_entry_bound <? Z.abs x)) M.
Definition large_entries_float_tolerance (A B : list vec) : bool :=
  has_large_entry A || has_large_entry B.
