(* Hand model (H) of xDSL 0.70 `xdsl/ir/affine/affine_expr.py`: the AffineExpr storage classes, `eval`,
   and the smart constructors __add__ / __mul__ / __floordiv__ / __mod__ / ceil_div / __neg__ / __sub__
   with their _simplify_add / _simplify_mul / _try_fold_constant logic.
   The code generated from snaxc/util/canonicalize_affine.py (Gen/CanonAffine.v) calls these: it
   inspects the *shape* of the sums/products it has just built, so they are modelled concretely.
   L1-checked against the installed xDSL on generated expressions on every run (harness/props/c19_affine.py).
   Executable definitions only; lemmas are in Proofs/XdslAffineProofs.v. *)
From Snax Require Import Base.Prelude.

Inductive akind := KAdd | KMul | KMod | KFloorDiv | KCeilDiv.          (* AffineBinaryOpKind *)
Inductive aexpr :=
  | EDim (position : Z)                                                  (* AffineDimExpr *)
  | ESym (position : Z)                                                  (* AffineSymExpr *)
  | ECst (value : Z)                                                     (* AffineConstantExpr *)
  | EBin (kind : akind) (lhs rhs : aexpr).                               (* AffineBinaryOpExpr *)

Definition akind_eqb (a b : akind) : bool :=
  match a, b with
  | KAdd, KAdd | KMul, KMul | KMod, KMod | KFloorDiv, KFloorDiv | KCeilDiv, KCeilDiv => true
  | _, _ => false
  end.

(* dataclass __eq__: same class and equal fields *)
Fixpoint aexpr_eqb (a b : aexpr) : bool :=
  match a, b with
  | EDim p, EDim q => p =? q
  | ESym p, ESym q => p =? q
  | ECst v, ECst u => v =? u
  | EBin k l r, EBin k' l' r' => akind_eqb k k' && aexpr_eqb l l' && aexpr_eqb r r'
  | _, _ => false
  end.

(* isinstance tests *)
Definition is_EDim (e : aexpr) : bool := match e with EDim _ => true | _ => false end.
Definition is_ESym (e : aexpr) : bool := match e with ESym _ => true | _ => false end.
Definition is_ECst (e : aexpr) : bool := match e with ECst _ => true | _ => false end.
Definition is_EBin (e : aexpr) : bool := match e with EBin _ _ _ => true | _ => false end.

(* attribute access; None = AttributeError *)
Definition e_position (e : aexpr) : option Z := match e with EDim p | ESym p => Some p | _ => None end.
Definition e_value (e : aexpr) : option Z := match e with ECst v => Some v | _ => None end.
Definition e_kind (e : aexpr) : option akind := match e with EBin k _ _ => Some k | _ => None end.
Definition e_lhs (e : aexpr) : option aexpr := match e with EBin _ l _ => Some l | _ => None end.
Definition e_rhs (e : aexpr) : option aexpr := match e with EBin _ _ r => Some r | _ => None end.

(* AffineExpr.eval(dims, symbols): dims/symbols as total functions of the position.
   Python // and % are floor division / modulo = Z.div / Z.modulo (x // 0 raises in Python, is 0 here). *)
Definition kind_eval (k : akind) (a b : Z) : Z :=
  match k with
  | KAdd => a + b
  | KMul => a * b
  | KMod => a mod b
  | KFloorDiv => a / b
  | KCeilDiv => - ((- a) / b)
  end.

Fixpoint eval (dv sv : Z -> Z) (e : aexpr) : Z :=
  match e with
  | EDim p => dv p
  | ESym p => sv p
  | ECst v => v
  | EBin k l r => kind_eval k (eval dv sv l) (eval dv sv r)
  end.

(* ---- __add__ -------------------------------------------------------------------------------
   def __add__(self, other):
       if isinstance(self, AffineConstantExpr): self, other = other, self
       if simplified := self._simplify_add(other): return simplified
       return AffineBinaryOpExpr(Add, self, other)
   _simplify_add(self, other) (other constant, else it returns None):
       both constant -> constant(self.value + other.value)
       other == 0 -> self
       self = (l + constant v) -> l + constant(v + other.value)          [recursive __add__]
   `addc s k` = `s.__add__(constant k)` for the already swapped pair. *)
Fixpoint addc (s : aexpr) (k : Z) : aexpr :=
  match s with
  | ECst v => ECst (v + k)
  | EBin KAdd l (ECst v) => if k =? 0 then s else addc l (v + k)
  | _ => if k =? 0 then s else EBin KAdd s (ECst k)
  end.

Definition xadd (a b : aexpr) : aexpr :=
  let '(s, o) := if is_ECst a then (b, a) else (a, b) in
  match o with
  | ECst k => addc s k
  | _ => EBin KAdd s o
  end.

(* `expr + 3`: __add__ wraps a Python int into a constant first *)
Definition xadd_int (a : aexpr) (k : Z) : aexpr := xadd a (ECst k).

(* ---- __mul__ -------------------------------------------------------------------------------
   _simplify_mul(self, other) (other constant):
       both constant -> constant(self.value * other.value)
       other == 1 -> self
       self = (l * constant v) -> l * constant(v * other.value)           [recursive __mul__]
       self = (l + r) -> l * other + r * other
   otherwise AffineBinaryOpExpr(Mul, self, other); a non-constant `other` raises NotImplementedError. *)
Fixpoint mulc (s : aexpr) (c : Z) : aexpr :=
  match s with
  | ECst v => ECst (v * c)
  | EBin KMul l (ECst v) => if c =? 1 then s else mulc l (v * c)
  | EBin KAdd l r => if c =? 1 then s else xadd (mulc l c) (mulc r c)
  | _ => if c =? 1 then s else EBin KMul s (ECst c)
  end.

Definition xmul (a b : aexpr) : option aexpr :=
  let '(s, o) := if is_ECst a then (b, a) else (a, b) in
  match o with
  | ECst c => Some (mulc s c)
  | _ => None
  end.

(* __neg__ and __sub__ (self + (-1 * other); int.__mul__ defers to other.__rmul__(-1)) *)
Definition xneg (a : aexpr) : aexpr :=
  match a with ECst v => ECst (- v) | _ => mulc a (-1) end.
Definition xsub (a b : aexpr) : aexpr := xadd a (mulc b (-1)).

(* __floordiv__, __mod__, ceil_div: fold two constants (ZeroDivisionError -> None), otherwise a raw
   node; a non-constant divisor raises NotImplementedError -> None *)
Definition xdivlike (k : akind) (a b : aexpr) : option aexpr :=
  match a, b with
  | ECst x, ECst y => if y =? 0 then None else Some (ECst (kind_eval k x y))
  | _, ECst _ => Some (EBin k a b)
  | _, _ => None
  end.
Definition xfloordiv := xdivlike KFloorDiv.
Definition xmod := xdivlike KMod.
Definition xceildiv := xdivlike KCeilDiv.

Definition opt_aexpr_eqb (a b : option aexpr) : bool :=
  match a, b with
  | Some x, Some y => aexpr_eqb x y
  | None, None => true
  | _, _ => false
  end.

(* AffineMap(num_dims, num_symbols, results) *)
Record amap := AMap { num_dims : Z; num_symbols : Z; results : list aexpr }.
Definition is_AMap (m : amap) : bool := true.
Definition amap_eqb (a b : amap) : bool :=
  (num_dims a =? num_dims b) && (num_symbols a =? num_symbols b) && list_eqb aexpr_eqb (results a) (results b).
Definition map_eval (dv sv : Z -> Z) (m : amap) : list Z := map (eval dv sv) (results m).
