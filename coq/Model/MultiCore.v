(* Shared multi-core theory (definitions only; proofs in Proofs/MultiCoreCommute.v).

   An executed operation instance [mop] carries the core that executes it and its read / write
   footprints over buffer ids (aliases already resolved to allocation ids by whoever builds
   the trace).  Memory is interpreted in the free ("Herbrand") algebra: a write stores the
   term  name(slot, values read) , so equality of two memories here implies equality under
   every concrete interpretation of the operations.

   A phase is the list of op instances executed between two cluster barriers, in the order
   of the sequential program.  A schedule of a phase is any list that, core by core, has the
   same ops in the same order (= any interleaving of the cores).  *)
From Snax Require Import Base.Prelude Base.ListAux.

Record mop := mkOp {
  o_name : list Z;      (* identity of the computation: static op id :: iteration tags *)
  o_core : Z;           (* the core executing this instance *)
  o_reads : list Z;     (* buffer ids read *)
  o_writes : list Z     (* buffer ids written *)
}.

Inductive val :=
| VInit (b : Z)
| VApp (name : list Z) (slot : nat) (args : list val).

Definition mem := Z -> val.
Definition mem0 : mem := VInit.

Fixpoint index_of (x : Z) (l : list Z) : option nat :=
  match l with
  | [] => None
  | y :: r => if x =? y then Some 0%nat else option_map S (index_of x r)
  end.

Definition exec_op (o : mop) (m : mem) : mem :=
  fun x => match index_of x (o_writes o) with
           | Some k => VApp (o_name o) k (map m (o_reads o))
           | None => m x
           end.

Definition exec (l : list mop) (m : mem) : mem := fold_left (fun m o => exec_op o m) l m.

Definition meq (m m' : mem) : Prop := forall x, m x = m' x.

Definition memb (x : Z) (l : list Z) : bool := existsb (Z.eqb x) l.
Definition disjointb (a b : list Z) : bool := forallb (fun x => negb (memb x b)) a.

(* two op instances conflict when one writes what the other reads or writes *)
Definition conflictb (a b : mop) : bool :=
  negb (disjointb (o_writes a) (o_reads b ++ o_writes b) && disjointb (o_writes b) (o_reads a)).

Definition on_core (c : Z) (o : mop) : bool := o_core o =? c.

(* every pair of ops of different cores inside the phase is conflict free *)
Fixpoint phase_drfb (p : list mop) : bool :=
  match p with
  | [] => true
  | a :: r => forallb (fun b => (o_core a =? o_core b) || negb (conflictb a b)) r && phase_drfb r
  end.

(* the first racing pair of a phase (for diagnostics / L2) *)
Fixpoint phase_race (p : list mop) : option (mop * mop) :=
  match p with
  | [] => None
  | a :: r =>
      match find (fun b => negb (o_core a =? o_core b) && conflictb a b) r with
      | Some b => Some (a, b)
      | None => phase_race r
      end
  end.

Definition schedule_of (p s : list mop) : Prop :=
  forall c, filter (on_core c) s = filter (on_core c) p.

(* --- values: decidable equality (used by the L2 checks through vm_compute) ------------- *)
Fixpoint val_eqb (a b : val) : bool :=
  match a, b with
  | VInit x, VInit y => x =? y
  | VApp n s xs, VApp n' s' ys =>
      list_eqb Z.eqb n n' && Nat.eqb s s' &&
      (fix go (xs ys : list val) : bool :=
         match xs, ys with
         | [], [] => true
         | x :: xs', y :: ys' => val_eqb x y && go xs' ys'
         | _, _ => false
         end) xs ys
  | _, _ => false
  end.

Definition mem_eq_on (bufs : list Z) (m m' : mem) : bool :=
  forallb (fun b => val_eqb (m b) (m' b)) bufs.

(* --- barrier-synchronised machine ------------------------------------------------------
   Per-core instruction streams: [Some o] an operation, [None] a cluster barrier.
   A configuration is the list of the cores' remaining streams plus memory.  A core whose
   next instruction is an operation may execute it at any time; when every core is at a
   barrier all cores pass it together.  A core that has finished never arrives at a barrier:
   if another core still waits at one, the machine is stuck (deadlock).  *)
Definition instr := option mop.
Definition streams := list (list instr).

Definition at_barrier (s : list instr) : bool :=
  match s with None :: _ => true | _ => false end.
Definition finished (s : list instr) : bool :=
  match s with [] => true | _ => false end.
Definition is_barrier (i : instr) : bool := match i with None => true | Some _ => false end.

Definition all_at_barrier (ss : streams) : bool := forallb at_barrier ss.
Definition all_finished (ss : streams) : bool := forallb finished ss.
Definition pass_barrier (ss : streams) : streams := map (@tl instr) ss.
Definition nbarriers (s : list instr) : nat := length (filter is_barrier s).

Inductive step : streams * mem -> streams * mem -> Prop :=
| step_op : forall pre o s post m,
    step (pre ++ (Some o :: s) :: post, m) (pre ++ s :: post, exec_op o m)
| step_bar : forall ss m,
    ss <> [] -> all_at_barrier ss = true -> step (ss, m) (pass_barrier ss, m).

Inductive steps : streams * mem -> streams * mem -> Prop :=
| steps_refl : forall c, steps c c
| steps_cons : forall a b c, step a b -> steps b c -> steps a c.

(* ops of a stream before its first barrier / the stream after that barrier *)
Fixpoint upto_barrier (s : list instr) : list mop :=
  match s with
  | Some o :: r => o :: upto_barrier r
  | _ => []
  end.
Fixpoint after_barrier (s : list instr) : list instr :=
  match s with
  | Some _ :: r => after_barrier r
  | None :: r => r
  | [] => []
  end.

(* ---- canonical order and positional conflict freedom of per-core streams ------------------------ *)
Definition has_barrier (s : list instr) : bool := existsb is_barrier s.

(* the ops of the current phase, core after core *)
Definition cur_phase (ss : streams) : list mop := flat_map upto_barrier ss.

(* phase after phase, inside a phase core after core (fuel > number of barriers) *)
Fixpoint seq_order (fuel : nat) (ss : streams) : list mop :=
  match fuel with
  | O => []
  | S f => cur_phase ss ++ (if existsb has_barrier ss then seq_order f (map after_barrier ss) else [])
  end.

(* ops of different streams (cores) do not conflict *)
Definition free2 (p q : list mop) : bool := forallb (fun a => forallb (fun b => negb (conflictb a b)) q) p.
Fixpoint xfree (l : list (list mop)) : bool :=
  match l with
  | [] => true
  | p :: r => forallb (free2 p) r && xfree r
  end.
Fixpoint xfree_all (fuel : nat) (ss : streams) : bool :=
  match fuel with
  | O => true
  | S f => xfree (map upto_barrier ss) &&
           (if existsb has_barrier ss then xfree_all f (map after_barrier ss) else true)
  end.
