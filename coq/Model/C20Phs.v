(* C20 — model of the PHS processing-element graphs (snaxc/dialects/phs.py), of
   convert_generic_body_to_phs (snaxc/phs/encode.py), append_to_abstract_graph / uncollide_inputs
   (snaxc/phs/combine.py), decode_abstract_graph / search_mapping / valid_mapping
   (snaxc/phs/decode.py), PEOp.get_true_switches, and an evaluator for PE graphs.
   Executable definitions only; proofs are in Proofs/C20*Proofs.v.

   Representation.  A PE body is a block of phs.choose ops (one region per alternative operation),
   phs.mux ops and one phs.yield.  Every mux is created by uncollide_inputs for exactly one operand of
   one choose/yield op, so an operand is a tree: block argument | result of the choose op @id |
   mux(switch, lhs, rhs).  Switches are the trailing block arguments, numbered 0.. in creation order.
   Exceptions / failed asserts of the Python are [None]. *)
From Snax Require Import Base.Prelude.

(* ---------------------------------------------------------------- identifiers *)
(* get_id: "i_<operand types>_o_<result types>_<occurrence>"; a type is a code (converter table). *)
Definition sig := (list Z * list Z)%type.
Definition ident := (sig * nat)%type.

Definition sig_eqb (a b : sig) : bool :=
  list_eqb Z.eqb (fst a) (fst b) && list_eqb Z.eqb (snd a) (snd b).
Definition ident_eqb (a b : ident) : bool := sig_eqb (fst a) (fst b) && Nat.eqb (snd a) (snd b).

(* an operation alternative: the op name (= its Python class) and a code for its
   attributes/properties; 0 = what the default constructor of the op class on the operands constructs *)
Record opk := mkOp { oname : Z; oattr : Z }.
Definition opk_eqb (a b : opk) : bool := (oname a =? oname b) && (oattr a =? oattr b).
(* ---------------------------------------------------------------- PE graphs *)
Inductive src :=
| SArg (i : nat)
| SChoose (id : ident)
| SMux (sw : nat) (l r : src).

Record node := mkNode { nid : ident; nsw : nat; nops : list opk; nargs : list src }.
Record pe := mkPe { pdata : nat; pnsw : nat; pnodes : list node; pout : list src }.

Inductive leaf := LArg (i : nat) | LId (id : ident).
Definition leaf_eqb (a b : leaf) : bool :=
  match a, b with
  | LArg i, LArg j => Nat.eqb i j
  | LId x, LId y => ident_eqb x y
  | _, _ => false
  end.

Fixpoint map_opt {A B} (f : A -> option B) (l : list A) : option (list B) :=
  match l with
  | [] => Some []
  | x :: xs => match f x with
               | None => None
               | Some y => match map_opt f xs with None => None | Some ys => Some (y :: ys) end
               end
  end.

(* PEOp.get_choose_op: symbol lookup, first op with that name *)
Fixpoint find_node (ns : list node) (id : ident) : option node :=
  match ns with
  | [] => None
  | n :: r => if ident_eqb (nid n) id then Some n else find_node r id
  end.

Fixpoint replace_node (ns : list node) (id : ident) (n' : node) : list node :=
  match ns with
  | [] => []
  | n :: r => if ident_eqb (nid n) id then n' :: r else n :: replace_node r id n'
  end.

(* get_abstract_possibilities *)
Fixpoint leaves (s : src) : list leaf :=
  match s with
  | SArg i => [LArg i]
  | SChoose id => [LId id]
  | SMux _ l r => leaves l ++ leaves r
  end.

Definition src_leaf (s : src) : option leaf :=
  match s with SArg i => Some (LArg i) | SChoose id => Some (LId id) | SMux _ _ _ => None end.
Definition src_is_leaf (s : src) : bool := match s with SMux _ _ _ => false | _ => true end.

Fixpoint src_muxes (s : src) : list nat :=
  match s with SMux sw l r => sw :: src_muxes l ++ src_muxes r | _ => [] end.

Definition all_srcs (G : pe) : list src := flat_map nargs (pnodes G) ++ pout G.
Definition all_muxes (G : pe) : list nat := flat_map src_muxes (all_srcs G).

(* ---------------------------------------------------------------- kernel bodies and encode *)
Inductive ksrc := KArg (i : nat) | KOp (j : nat).
Record kop := mkKop { ksig : sig; kkind : opk; kargs : list ksrc }.
(* block arguments (incl. the linalg `out` argument), ops, operands of the yield *)
Record body := mkBody { bnargs : nat; bops : list kop; byield : list ksrc }.

Definition ksrc_is_arg (i : nat) (s : ksrc) : bool := match s with KArg j => Nat.eqb i j | _ => false end.
Definition arg_used (b : body) (i : nat) : bool :=
  existsb (fun o => existsb (ksrc_is_arg i) (kargs o)) (bops b) || existsb (ksrc_is_arg i) (byield b).
(* index of block argument i after the unused ones have been erased *)
Definition new_index (b : body) (i : nat) : nat := length (filter (arg_used b) (seq 0 i)).

(* get_id with its running count: occurrence = number of earlier ops with the same key *)
Fixpoint ids_from (seen : list sig) (ops : list kop) : list ident :=
  match ops with
  | [] => []
  | o :: r => (ksig o, length (filter (sig_eqb (ksig o)) seen)) :: ids_from (seen ++ [ksig o]) r
  end.
Definition body_ids (b : body) : list ident := ids_from [] (bops b).

Definition conv_ksrc (b : body) (ids : list ident) (s : ksrc) : option src :=
  match s with
  | KArg i => if (i <? bnargs b)%nat then Some (SArg (new_index b i)) else None
  | KOp j => match nth_error ids j with Some id => Some (SChoose id) | None => None end
  end.

Fixpoint encode_nodes (b : body) (ids : list ident) (j : nat) (ops : list kop) : option (list node) :=
  match ops with
  | [] => Some []
  | o :: r =>
      match nth_error ids j, map_opt (conv_ksrc b ids) (kargs o), encode_nodes b ids (S j) r with
      | Some id, Some args, Some ns => Some (mkNode id j [kkind o] args :: ns)
      | _, _, _ => None
      end
  end.

(* convert_generic_body_to_phs *)
Definition encode (b : body) : option pe :=
  let ids := body_ids b in
  match encode_nodes b ids 0 (bops b), byield b with
  | Some ns, y :: _ =>
      match conv_ksrc b ids y with
      | Some o => Some (mkPe (length (filter (arg_used b) (seq 0 (bnargs b)))) (length (bops b)) ns [o])
      | None => None
      end
  | _, _ => None
  end.

(* ---------------------------------------------------------------- combine *)
(* are_equivalent *)
Definition are_equivalent (o a : src) : bool :=
  match src_leaf o with Some l => existsb (leaf_eqb l) (leaves a) | None => false end.

(* get_equivalent_owner.  Deviation: an argument index beyond the data arguments of the abstract graph
   is an error here; the Python returns a switch argument (or IndexError). *)
Definition equiv_owner (G : pe) (o : src) : option src :=
  match o with
  | SArg i => if (i <? pdata G)%nat then Some (SArg i) else None
  | SChoose id => match find_node (pnodes G) id with Some _ => Some (SChoose id) | None => None end
  | SMux _ _ _ => None
  end.

(* uncollide_inputs: [n] is the running number of switches *)
Fixpoint uncollide_args (G : pe) (n : nat) (os as_ : list src) : option (list src * nat) :=
  match os, as_ with
  | [], [] => Some ([], n)
  | o :: os', a :: as' =>
      if are_equivalent o a then
        match uncollide_args G n os' as' with Some (r, n') => Some (a :: r, n') | None => None end
      else
        match equiv_owner G o with
        | None => None
        | Some e =>
            match uncollide_args G (S n) os' as' with
            | Some (r, n') => Some (SMux n a e :: r, n')
            | None => None
            end
        end
  | _, _ => None
  end.

(* ChooseOp.insert_operations (after fix 61ae0b2): an operation that is not yet among the alternatives — same
   name AND same attributes/properties (phs.same_operation) — is appended as a clone *)
Fixpoint insert_ops (cur new : list opk) : list opk :=
  match new with
  | [] => cur
  | k :: ks => if existsb (opk_eqb k) cur then insert_ops cur ks else insert_ops (cur ++ [k]) ks
  end.

Definition append_node (G : pe) (c : node) : option pe :=
  match find_node (pnodes G) (nid c) with
  | None =>
      match map_opt (equiv_owner G) (nargs c), nops c with
      | Some es, _ :: _ =>
          Some (mkPe (pdata G) (S (pnsw G)) (pnodes G ++ [mkNode (nid c) (pnsw G) (nops c) es]) (pout G))
      | _, _ => None
      end
  | Some a =>
      match uncollide_args G (pnsw G) (nargs c) (nargs a) with
      | None => None
      | Some (args', n') =>
          Some (mkPe (pdata G) n'
                     (replace_node (pnodes G) (nid c) (mkNode (nid a) (nsw a) (insert_ops (nops a) (nops c)) args'))
                     (pout G))
      end
  end.

Definition append_nodes (cs : list node) (G : pe) : option pe :=
  fold_left (fun acc c => match acc with Some G' => append_node G' c | None => None end) cs (Some G).

(* append_to_abstract_graph graph abstract_graph *)
Definition append (g G : pe) : option pe :=
  match append_nodes (pnodes g) G with
  | None => None
  | Some G1 =>
      match uncollide_args G1 (pnsw G1) (pout g) (pout G1) with
      | None => None
      | Some (o', n') => Some (mkPe (pdata G1) n' (pnodes G1) o')
      end
  end.

(* the history: the first kernel's PE is inserted as is, every further one is appended *)
Definition merge_all (gs : list pe) : option pe :=
  match gs with
  | [] => None
  | g :: r => fold_left (fun acc g' => match acc with Some G => append g' G | None => None end) r (Some g)
  end.

(* ---------------------------------------------------------------- decode *)
Inductive user := UChoose (n : node) | UMux.
(* switch.get_user_of_unique_use() + the assertion: exactly one use *)
Definition switch_user (G : pe) (i : nat) : option user :=
  match filter (fun n => Nat.eqb (nsw n) i) (pnodes G), count_occ Nat.eq_dec (all_muxes G) i with
  | [n], O => Some (UChoose n)
  | [], S O => Some UMux
  | _, _ => None
  end.

Definition is_concrete (g : pe) : bool :=
  forallb (fun n => Nat.eqb (length (nops n)) 1 && forallb src_is_leaf (nargs n)) (pnodes g)
  && forallb src_is_leaf (pout g).

(* _follow_operand *)
Fixpoint follow (mu : nat -> Z) (s : src) : leaf :=
  match s with
  | SArg i => LArg i
  | SChoose id => LId id
  | SMux sw l r => if mu sw =? 1 then follow mu r else follow mu l
  end.

Fixpoint valid_args (mu : nat -> Z) (os as_ : list src) : option bool :=
  match os, as_ with
  | [], [] => Some true
  | o :: os', a :: as' =>
      match src_leaf o with
      | None => None
      | Some l => if leaf_eqb l (follow mu a) then valid_args mu os' as' else Some false
      end
  | _, _ => None
  end.

Fixpoint valid_nodes (mu : nat -> Z) (Gn : list node) (cs : list node) : option bool :=
  match cs with
  | [] => Some true
  | c :: cs' =>
      match find_node Gn (nid c) with
      | None => None
      | Some a => match valid_args mu (nargs c) (nargs a) with
                  | Some true => valid_nodes mu Gn cs'
                  | r => r
                  end
      end
  end.

Definition valid_mapping (g G : pe) (mu : nat -> Z) : option bool :=
  match valid_nodes mu (pnodes G) (pnodes g) with
  | Some true => valid_args mu (pout g) (pout G)
  | r => r
  end.

Definition upd (mu : nat -> Z) (m : nat) (v : Z) : nat -> Z := fun x => if Nat.eqb x m then v else mu x.

(* search_mapping: outer None = an exception escaped, inner None = no valid mapping *)
Fixpoint search (g G : pe) (muxes : list nat) (mu : nat -> Z) : option (option (nat -> Z)) :=
  match muxes with
  | [] => match valid_mapping g G mu with
          | None => None
          | Some true => Some (Some mu)
          | Some false => Some None
          end
  | m :: ms =>
      match search g G ms (upd mu m 0) with
      | None => None
      | Some (Some r) => Some (Some r)
      | Some None => search g G ms (upd mu m 1)
      end
  end.

(* decode's local choice: the first alternative that is the same operation (phs.same_operation) *)
Fixpoint index_of_op (k0 : opk) (ops : list opk) : option nat :=
  match ops with
  | [] => None
  | k :: r => if opk_eqb k k0 then Some O
              else match index_of_op k0 r with Some j => Some (S j) | None => None end
  end.

Inductive entry := ESkip | EVal (v : Z) | EMux (i : nat).

Definition decode_switch (G g : pe) (i : nat) : option entry :=
  match switch_user G i with
  | None => None
  | Some UMux => Some (EMux i)
  | Some (UChoose n) =>
      if Nat.eqb (length (nops n)) 1 then Some ESkip
      else match find_node (pnodes g) (nid n) with
           | None => Some (EVal 0)
           | Some c =>
               match nops c with
               | [] => None
               | k :: _ => match index_of_op k (nops n) with
                           | Some j => Some (EVal (Z.of_nat j))
                           | None => None
                           end
               end
           end
  end.

Definition entry_muxes (es : list entry) : list nat :=
  flat_map (fun e => match e with EMux i => [i] | _ => [] end) es.
Definition entry_vals (mu : nat -> Z) (es : list entry) : list Z :=
  flat_map (fun e => match e with ESkip => [] | EVal v => [v] | EMux i => [mu i] end) es.

(* decode_abstract_graph abstract_graph graph *)
Definition decode (G g : pe) : option (list Z) :=
  if negb (is_concrete g) then None
  else if negb (Nat.eqb (pdata g) (pdata G)) then None
  else match map_opt (decode_switch G g) (seq 0 (pnsw G)) with
       | None => None
       | Some es =>
           match search g G (entry_muxes es) (fun _ => 0) with
           | Some (Some mu) => Some (entry_vals mu es)
           | _ => None
           end
       end.

(* PEOp.get_true_switches *)
Definition is_true_switch (G : pe) (i : nat) : bool :=
  match switch_user G i with
  | Some UMux => true
  | Some (UChoose n) => (1 <? length (nops n))%nat
  | None => false
  end.
Definition true_switches (G : pe) : option nat :=
  if forallb (fun i => match switch_user G i with Some _ => true | None => false end) (seq 0 (pnsw G))
  then Some (length (filter (is_true_switch G) (seq 0 (pnsw G))))
  else None.

(* ---------------------------------------------------------------- evaluation *)
(* the call passes one value per true switch (phs_switch_<k> fields); switch block argument i
   receives the value at the position of i among the true switches *)
Definition sw_pos (G : pe) (i : nat) : nat := length (filter (is_true_switch G) (seq 0 i)).
Definition sigma (G : pe) (sw : list Z) : nat -> Z := fun i => nth (sw_pos G i) sw 0.

Section Sem.
  (* the meaning of the scalar operations is left open: any function of the operand values *)
  Variable opsem : opk -> list Z -> Z.

  Fixpoint eval_src (ev : ident -> option Z) (sg : nat -> Z) (ins : list Z) (s : src) : option Z :=
    match s with
    | SArg i => nth_error ins i
    | SChoose id => ev id
    | SMux sw l r => if sg sw =? 1 then eval_src ev sg ins r else eval_src ev sg ins l
    end.

  (* phs.choose: region 0 is the default (also taken for an out-of-range switch value); a choose with a
     single region has had its switch removed *)
  Definition node_choice (sg : nat -> Z) (n : node) : option opk :=
    if (length (nops n) <=? 1)%nat then nth_error (nops n) 0
    else match nth_error (nops n) (Z.to_nat (sg (nsw n))) with
         | Some k => Some k
         | None => nth_error (nops n) 0
         end.

  (* demand-driven evaluation of the choose op @id *)
  Fixpoint eval_id (fuel : nat) (G : pe) (sg : nat -> Z) (ins : list Z) (id : ident) : option Z :=
    match fuel with
    | O => None
    | S f =>
        match find_node (pnodes G) id with
        | None => None
        | Some n =>
            match map_opt (eval_src (eval_id f G sg ins) sg ins) (nargs n) with
            | None => None
            | Some vs => match node_choice sg n with Some k => Some (opsem k vs) | None => None end
            end
        end
    end.

  Definition eval_pe_fuel (fuel : nat) (G : pe) (sg : nat -> Z) (ins : list Z) : option (list Z) :=
    map_opt (eval_src (eval_id fuel G sg ins) sg ins) (pout G).

  (* every path of an acyclic configuration visits each choose op at most once *)
  Definition eval_pe (G : pe) (sw : list Z) (ins : list Z) : option (list Z) :=
    eval_pe_fuel (S (length (pnodes G))) G (sigma G sw) ins.

  (* the kernel body itself: ops in order *)
  Definition eval_ksrc (ins vals : list Z) (s : ksrc) : option Z :=
    match s with KArg i => nth_error ins i | KOp j => nth_error vals j end.

  Fixpoint eval_kops (ops : list kop) (ins vals : list Z) : option (list Z) :=
    match ops with
    | [] => Some vals
    | o :: r => match map_opt (eval_ksrc ins vals) (kargs o) with
                | None => None
                | Some vs => eval_kops r ins (vals ++ [opsem (kkind o) vs])
                end
    end.

  (* value of the first yield operand (the one convert_generic_body_to_phs keeps) *)
  Definition eval_body (b : body) (ins : list Z) : option (list Z) :=
    match eval_kops (bops b) ins [], byield b with
    | Some vals, y :: _ => match eval_ksrc ins vals y with Some v => Some [v] | None => None end
    | _, _ => None
    end.

  (* the data inputs the PE of a body receives: the used block arguments, in order *)
  Definition used_inputs (b : body) (ins : list Z) : list Z :=
    flat_map (fun i => if arg_used b i then match nth_error ins i with Some v => [v] | None => [] end else [])
             (seq 0 (bnargs b)).
End Sem.

(* ---------------------------------------------------------------- equality tests for L1 *)
Fixpoint src_eqb (a b : src) : bool :=
  match a, b with
  | SArg i, SArg j => Nat.eqb i j
  | SChoose x, SChoose y => ident_eqb x y
  | SMux s l r, SMux s' l' r' => Nat.eqb s s' && src_eqb l l' && src_eqb r r'
  | _, _ => false
  end.
Definition node_eqb (a b : node) : bool :=
  ident_eqb (nid a) (nid b) && Nat.eqb (nsw a) (nsw b) && list_eqb opk_eqb (nops a) (nops b)
  && list_eqb src_eqb (nargs a) (nargs b).
Definition pe_eqb (a b : pe) : bool :=
  Nat.eqb (pdata a) (pdata b) && Nat.eqb (pnsw a) (pnsw b) && list_eqb node_eqb (pnodes a) (pnodes b)
  && list_eqb src_eqb (pout a) (pout b).
Definition opt_eqb {A} (eqb : A -> A -> bool) (a b : option A) : bool :=
  match a, b with Some x, Some y => eqb x y | None, None => true | _, _ => false end.

(* ---------------------------------------------------------------- decidable side conditions *)
Fixpoint find_op (k0 : opk) (ops : list opk) : option opk :=
  match ops with
  | [] => None
  | k :: r => if opk_eqb k k0 then Some k else find_op k0 r
  end.

(* the kernel's operation is among the alternatives of the abstract choose op (needed by decode_sound because
   decode does not look at one-alternative choose ops at all); always true for a merged kernel *)
Definition alt_agree (c a : node) : bool :=
  match nops c with
  | k :: _ => match find_op k (nops a) with Some _ => true | None => false end
  | [] => false
  end.
Definition ops_agree (g G : pe) : bool :=
  forallb (fun c => match find_node (pnodes G) (nid c) with Some a => alt_agree c a | None => true end) (pnodes g).

Fixpoint nodup_ids (l : list ident) : bool :=
  match l with
  | [] => true
  | x :: r => negb (existsb (ident_eqb x) r) && nodup_ids r
  end.

(* structural well-formedness of a PE graph: every choose op has an alternative, choose ids are unique, every
   switch operand is one of the pnsw switch arguments and every switch argument has exactly one user *)
Definition pe_wf (G : pe) : bool :=
  forallb (fun n => negb (Nat.eqb (length (nops n)) 0) && (nsw n <? pnsw G)%nat) (pnodes G)
  && forallb (fun m => (m <? pnsw G)%nat) (all_muxes G)
  && nodup_ids (map nid (pnodes G))
  && forallb (fun i => match switch_user G i with Some _ => true | None => false end) (seq 0 (pnsw G)).

(* what convert_generic_body_to_phs produces *)
Definition kernel_ok (g : pe) : bool := is_concrete g && nodup_ids (map nid (pnodes g)).

(* a kernel body in SSA form: operands are block arguments or results of earlier operations, the yield has
   an operand *)
Definition ksrc_ok (na j : nat) (s : ksrc) : bool :=
  match s with KArg i => (i <? na)%nat | KOp j' => (j' <? j)%nat end.
Fixpoint kops_ok (na j : nat) (ops : list kop) : bool :=
  match ops with
  | [] => true
  | o :: r => forallb (ksrc_ok na j) (kargs o) && kops_ok na (S j) r
  end.
Definition body_ok (b : body) : bool :=
  kops_ok (bnargs b) 0 (bops b)
  && match byield b with y :: _ => ksrc_ok (bnargs b) (length (bops b)) y | [] => false end.
