(* C08 — hand model (H) of the streamer configuration field lists and value lists:
     snaxc/accelerators/snax.py        SNAXStreamer.get_streamer_setup_fields,
                                       SNAXStreamer._generate_streamer_setup_vals,
                                       SNAXStreamer.get_xdma_streamer_setup_fields
     snaxc/accelerators/snax_xdma.py   SNAXXDMAAccelerator._generate_stream_setup_vals
     snaxc/accelerators/streamers/streamers.py, streamers/extensions/*.py (csr_length, names)
   Executable definitions only; proofs in Proofs/C08StreamerProofs.v.
   Tied to the code by the L1 correspondence of harness/props/c08.py (field names rendered to the
   real strings, value lists compared exactly). *)
From Snax Require Import Base.Prelude Base.ListAux.
From Coq Require Import String Ascii DecimalString.

(* ---- configuration --------------------------------------------------------------- *)
Inductive flag := FNormal | FIrrelevant | FReuse.
(* StreamerExtension subclasses (XDMA_EXT_SET) *)
Inductive ekind := EMaxPool | EMemSet | ETranspose | ERescaleDown | ERescaleUp | EAdd | EAddLong.
Inductive opt := OAddrRemap | OChanMask | OByteMask | OBroadcast | OExt (e : ekind).
Record streamer := mkStreamer { temporal_dims : list flag; spatial_dims : list Z; opts : list opt }.
Definition config := list streamer.

Definition flag_eqb (a b : flag) : bool :=
  match a, b with FNormal, FNormal | FIrrelevant, FIrrelevant | FReuse, FReuse => true | _, _ => false end.
Definition ekind_eqb (a b : ekind) : bool :=
  match a, b with
  | EMaxPool, EMaxPool | EMemSet, EMemSet | ETranspose, ETranspose | ERescaleDown, ERescaleDown
  | ERescaleUp, ERescaleUp | EAdd, EAdd | EAddLong, EAddLong => true
  | _, _ => false end.

(* csr_length class attribute of each extension *)
Definition std_len (e : ekind) : nat :=
  match e with ERescaleDown | ERescaleUp => 4%nat | _ => 1%nat end.

(* any(isinstance(opt, X) for opt in streamer.opts) *)
Definition is_remap o := match o with OAddrRemap => true | _ => false end.
Definition is_chanmask o := match o with OChanMask => true | _ => false end.
Definition is_bytemask o := match o with OByteMask => true | _ => false end.
Definition is_broadcast o := match o with OBroadcast => true | _ => false end.
Definition is_transpose o := match o with OExt ETranspose => true | _ => false end.
Definition has (p : opt -> bool) (s : streamer) : bool := existsb p (opts s).
Definition temporal_dim (s : streamer) : nat := List.length (temporal_dims s).
Definition spatial_dim (s : streamer) : nat := List.length (spatial_dims s).
(* [e for e in opts if isinstance(e, StreamerExtension)] in order *)
Fixpoint exts_of (os : list opt) : list ekind :=
  match os with [] => [] | OExt e :: r => e :: exts_of r | _ :: r => exts_of r end.

(* ---- field names (structured; `render` gives the real string) -------------------------- *)
Inductive fkind :=
| KPtrLow | KPtrHigh | KSStride (i : nat) | KBound (i : nat) | KTStride (i : nat)
| KAddressRemap | KChannelMask | KTranspose | KBroadcast            (* regular system *)
| KEnabledChan | KEnabledByte | KBypass | KExtCsr (e : ekind) (i : nat). (* xDMA *)
(* accelerator-level (non-streamer) fields *)
Inductive kfield :=
| AluMode | LoopBoundAlu
| GK | GN | GM | GSubtractions | GCsr0 | GCsr1 | GShift (i : nat) | GMult (i : nat)
| GTemporalLoopBound | GBypassSIMD
| PhsSwitch (i : nat)
| HwA | HwB | HwO | HwVectorLength | HwNrIters | HwMode.
Inductive fname := FStream (s : nat) (k : fkind) | FKern (k : kfield).

(* ---- semantic tags: what a value MEANS ---------------------------------------------- *)
Inductive tag :=
| TPtrLo (s : nat) | TPtrHi (s : nat) | TSStride (s i : nat) | TBound (s i : nat) | TTStride (s i : nat)
| TAddrRemap (s : nat) | TChanMask (s : nat) | TByteMask (s : nat) | TBypass (s : nat)
| TExt (s : nat) (e : ekind) (i : nat) | TTranspose (s : nat) | TBroadcast (s : nat)
| TKern (k : kfield).

Definition tag_of_name (f : fname) : tag :=
  match f with
  | FStream s KPtrLow => TPtrLo s
  | FStream s KPtrHigh => TPtrHi s
  | FStream s (KSStride i) => TSStride s i
  | FStream s (KBound i) => TBound s i
  | FStream s (KTStride i) => TTStride s i
  | FStream s KAddressRemap => TAddrRemap s
  | FStream s KChannelMask => TChanMask s
  | FStream s KEnabledChan => TChanMask s
  | FStream s KEnabledByte => TByteMask s
  | FStream s KBypass => TBypass s
  | FStream s (KExtCsr e i) => TExt s e i
  | FStream s KTranspose => TTranspose s
  | FStream s KBroadcast => TBroadcast s
  | FKern k => TKern k
  end.

(* ---- rendering to the real field-name strings ----------------------------------------- *)
Local Open Scope string_scope.
Definition dec (n : nat) : string := NilZero.string_of_uint (Nat.to_uint n).
(* string.ascii_lowercase[s] *)
Definition letter (s : nat) : string := String (ascii_of_nat (97 + s)) EmptyString.
Definition ext_name (e : ekind) : string :=
  match e with
  | EMaxPool => "maxpool_ext" | EMemSet => "memset_ext" | ETranspose => "t"
  | ERescaleDown => "rescale_down_ext" | ERescaleUp => "rescale_up_ext"
  | EAdd => "add_ext" | EAddLong => "add_ext_long" end.
Definition render_kind (k : fkind) : string :=
  match k with
  | KPtrLow => "ptr_low" | KPtrHigh => "ptr_high"
  | KSStride i => "sstride_" ++ dec i | KBound i => "bound_" ++ dec i | KTStride i => "tstride_" ++ dec i
  | KAddressRemap => "address_remap" | KChannelMask => "channel_mask"
  | KTranspose => "transpose" | KBroadcast => "broadcast"
  | KEnabledChan => "enabled_chan" | KEnabledByte => "enabled_byte" | KBypass => "bypass"
  | KExtCsr e i => ext_name e ++ "_" ++ dec i
  end.
Definition render_kfield (k : kfield) : string :=
  match k with
  | AluMode => "alu_mode" | LoopBoundAlu => "loop_bound_alu"
  | GK => "K" | GN => "N" | GM => "M" | GSubtractions => "subtractions" | GCsr0 => "csr0" | GCsr1 => "csr1"
  | GShift i => "shift_" ++ dec i | GMult i => "mult_" ++ dec i
  | GTemporalLoopBound => "temporal_loop_bound" | GBypassSIMD => "bypassSIMD"
  | PhsSwitch i => "phs_switch_" ++ dec i
  | HwA => "A" | HwB => "B" | HwO => "O" | HwVectorLength => "vector_length" | HwNrIters => "nr_iters"
  | HwMode => "mode"
  end.
Definition render (f : fname) : string :=
  match f with FStream s k => letter s ++ "_" ++ render_kind k | FKern k => render_kfield k end.
Local Close Scope string_scope.

(* ---- helpers ---------------------------------------------------------------------------- *)
(* for i, x in enumerate(l, k): result.extend(f i x) *)
Fixpoint iflat {A B} (f : nat -> A -> list B) (k : nat) (l : list A) : list B :=
  match l with [] => [] | x :: r => f k x ++ iflat f (S k) r end.
(* the same with a failing body *)
Fixpoint oiflat {A B} (f : nat -> A -> option (list B)) (k : nat) (l : list A) : option (list B) :=
  match l with
  | [] => Some []
  | x :: r => match f k x, oiflat f (S k) r with
              | Some a, Some b => Some (a ++ b) | _, _ => None end
  end.
Fixpoint omap {A B} (f : A -> option B) (l : list A) : option (list B) :=
  match l with
  | [] => Some []
  | x :: r => match f x, omap f r with Some a, Some b => Some (a :: b) | _, _ => None end
  end.
Definition when {A} (b : bool) (l : list A) : list A := if b then l else [].

(* ---- get_streamer_setup_fields (regular system) ------------------------------------------ *)
(* streamer_names = ascii_lowercase[:size]; every loop is `zip(names, streamers)`, which stops
   after 26 streamers. *)
Definition named (cfg : config) : config := firstn 26 cfg.

Definition fields_streamer (s : nat) (st : streamer) : list fname :=
  [FStream s KPtrLow; FStream s KPtrHigh]
  ++ map (fun i => FStream s (KSStride i)) (seq 0 (spatial_dim st))
  ++ map (fun i => FStream s (KBound i)) (seq 0 (temporal_dim st))
  ++ map (fun i => FStream s (KTStride i)) (seq 0 (temporal_dim st))
  ++ when (has is_remap st) [FStream s KAddressRemap]
  ++ when (has is_chanmask st) [FStream s KChannelMask].
Definition fields_transpose (s : nat) (st : streamer) : list fname :=
  when (has is_transpose st) [FStream s KTranspose].
Definition fields_broadcast (s : nat) (st : streamer) : list fname :=
  when (has is_broadcast st) [FStream s KBroadcast].

Definition setup_fields (cfg : config) : list fname :=
  iflat fields_streamer 0 (named cfg) ++ iflat fields_transpose 0 (named cfg)
  ++ iflat fields_broadcast 0 (named cfg).

(* ---- the operation ------------------------------------------------------------------------ *)
Record pattern := mkPat { p_ub : list Z; p_ts : list Z; p_ss : list Z }.
(* s_zero k = operand k is the result of `arith.constant 0 : index` (zero pattern) *)
Record sop := mkSop { s_pats : list pattern; s_zero : list bool }.

Inductive value := VOperand (k : nat) | VConst (z : Z).
Definition zero_address : Z := 268435520.   (* 0x1000_0040 *)

Definition value_eqb (a b : value) : bool :=
  match a, b with
  | VOperand x, VOperand y => Nat.eqb x y
  | VConst x, VConst y => x =? y
  | _, _ => false end.

(* upper_bounds + (IntAttr(1),) * (temporal_dim - len(upper_bounds)) *)
Definition pad {A} (l : list A) (d : A) (n : nat) : list A := l ++ repeat d (n - List.length l).

Definition ptr_vals (s : nat) (z : bool) : list (tag * value) :=
  [(TPtrLo s, if z then VConst zero_address else VOperand s); (TPtrHi s, VConst 0)].

(* for dim, flag in enumerate(streamer.spatial_dims): stride = spatial_strides.data[dim].data *)
Definition sstride_vals (s : nat) (st : streamer) (p : pattern) : option (list (tag * value)) :=
  omap (fun i => match nth_error (p_ss p) i with
                 | Some v => Some (TSStride s i, VConst v) | None => None end)
       (seq 0 (spatial_dim st)).

Definition bound_val (f : flag) (b st : Z) : Z :=
  if flag_eqb f FReuse && (1 <? b) && (st =? 0) then 1 else b.

(* for dim, flag in enumerate(streamer.temporal_dims): bound = upper_bounds[dim] ... *)
Definition bound_vals (s : nat) (st : streamer) (p : pattern) : option (list (tag * value)) :=
  let ubs := pad (p_ub p) 1 (temporal_dim st) in
  let tss := pad (p_ts p) 0 (temporal_dim st) in
  oiflat (fun i f => match nth_error ubs i, nth_error tss i with
                     | Some b, Some t => Some [(TBound s i, VConst (bound_val f b t))]
                     | _, _ => None end) 0 (temporal_dims st).

(* if flag == Irrelevant: assert stride == 0 *)
Definition tstride_vals (s : nat) (st : streamer) (p : pattern) : option (list (tag * value)) :=
  let tss := pad (p_ts p) 0 (temporal_dim st) in
  oiflat (fun i f => match nth_error tss i with
                     | Some t => if flag_eqb f FIrrelevant && negb (t =? 0) then None
                                 else Some [(TTStride s i, VConst t)]
                     | None => None end) 0 (temporal_dims st).

Definition mask_val (z : bool) : value := VConst (if z then 0 else -1).

Definition oapp {A} (a b : option (list A)) : option (list A) :=
  match a, b with Some x, Some y => Some (x ++ y) | _, _ => None end.

Definition vals_streamer (op : sop) (s : nat) (st : streamer) : option (list (tag * value)) :=
  match nth_error (s_zero op) s, nth_error (s_pats op) s with
  | Some z, Some p =>
      oapp (Some (ptr_vals s z))
      (oapp (sstride_vals s st p)
      (oapp (bound_vals s st p)
      (oapp (tstride_vals s st p)
      (Some (when (has is_remap st) [(TAddrRemap s, VConst 0)]
             ++ when (has is_chanmask st) [(TChanMask s, mask_val z)])))))
  | _, _ => None
  end.

(* do_broadcast[operand]: some programmed spatial stride is 0 and the streamer HasBroadcast *)
Definition do_broadcast (op : sop) (s : nat) (st : streamer) : bool :=
  match nth_error (s_pats op) s with
  | Some p => has is_broadcast st && existsb (fun v => v =? 0) (firstn (spatial_dim st) (p_ss p))
  | None => false
  end.

Definition vals_transpose (s : nat) (st : streamer) : list (tag * value) :=
  when (has is_transpose st) [(TTranspose s, VConst 0)].
Definition vals_broadcast (op : sop) (s : nat) (st : streamer) : list (tag * value) :=
  when (has is_broadcast st) [(TBroadcast s, VConst (if do_broadcast op s st then 1 else 0))].

(* SNAXStreamer._generate_streamer_setup_vals: enumerate(self.streamer_config.data.streamers),
   all streamers (no zip with the names). *)
Definition setup_vals (cfg : config) (op : sop) : option (list (tag * value)) :=
  oapp (oiflat (vals_streamer op) 0 cfg)
       (Some (iflat vals_transpose 0 cfg ++ iflat (vals_broadcast op) 0 cfg)).

(* ---- specification: the value a register with meaning `t` must receive --------------------- *)
Definition nthZ (l : list Z) (i : nat) (d : Z) : Z := nth i l d.
Definition flag_at (st : streamer) (i : nat) : flag := nth i (temporal_dims st) FNormal.

Definition spec_value (cfg : config) (op : sop) (t : tag) : option value :=
  let pat s := nth s (s_pats op) (mkPat [] [] []) in
  let st s := nth s cfg (mkStreamer [] [] []) in
  let zero s := nth s (s_zero op) false in
  match t with
  | TPtrLo s => Some (if zero s then VConst zero_address else VOperand s)
  | TPtrHi s => Some (VConst 0)
  | TSStride s i => Some (VConst (nthZ (p_ss (pat s)) i 0))
  | TBound s i => Some (VConst (bound_val (flag_at (st s) i) (nthZ (p_ub (pat s)) i 1) (nthZ (p_ts (pat s)) i 0)))
  | TTStride s i => Some (VConst (nthZ (p_ts (pat s)) i 0))
  | TAddrRemap s => Some (VConst 0)
  | TChanMask s => Some (mask_val (zero s))
  | TTranspose s => Some (VConst 0)
  | TBroadcast s => Some (VConst (if do_broadcast op s (st s) then 1 else 0))
  | _ => None
  end.

(* Which (cfg, op) pairs the generic value generator accepts (everything else raises). *)
Fixpoint iforallb {A} (f : nat -> A -> bool) (k : nat) (l : list A) : bool :=
  match l with [] => true | x :: r => f k x && iforallb f (S k) r end.
Definition pat_okb (st : streamer) (p : pattern) : bool :=
  (spatial_dim st <=? List.length (p_ss p))%nat
  && iforallb (fun i f => negb (flag_eqb f FIrrelevant && negb (nthZ (p_ts p) i 0 =? 0))) 0 (temporal_dims st).
(* accepted by StreamingRegionOp.verify_ / StridePattern.verify: no more dims than the hardware has *)
Definition pat_fitsb (st : streamer) (p : pattern) : bool :=
  (List.length (p_ub p) =? List.length (p_ts p))%nat && (List.length (p_ts p) <=? temporal_dim st)%nat
  && (List.length (p_ss p) <=? spatial_dim st)%nat.

Fixpoint op_okb_from (k : nat) (cfg : config) (op : sop) : bool :=
  match cfg with
  | [] => true
  | st :: r => match nth_error (s_zero op) k, nth_error (s_pats op) k with
               | Some _, Some p => pat_okb st p && op_okb_from (S k) r op
               | _, _ => false end
  end.
Definition op_okb (cfg : config) (op : sop) : bool := op_okb_from 0 cfg op.
