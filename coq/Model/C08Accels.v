(* C08 — hand model (H) of the accelerator-specific field/value generators built on top of the
   generic streamer part (Model/C08StreamerCfg.v):
     snaxc/accelerators/snax.py       get_xdma_streamer_setup_fields
     snaxc/accelerators/snax_xdma.py  _generate_stream_setup_vals
     snaxc/accelerators/snax_alu.py   fields / _generate_stream_setup_vals
     snaxc/accelerators/snax_phs.py   fields / _generate_stream_setup_vals
     snaxc/accelerators/snax_gemmx.py fields / _generate_setup_vals
     snaxc/accelerators/snax_hwpe_mult.py fields / _generate_setup_vals
   Executable definitions only. *)
From Snax Require Import Base.Prelude Base.ListAux Model.C08StreamerCfg.

(* ======================= xDMA ============================================================= *)
(* Body of the streaming region as the xDMA generator sees it:
   not a dart.generic, or a dart.generic whose kernel matches the `supported_kernel` of some
   extension kinds; for a matching kind the list is `ext.get_csr_values(kernel_op)`. *)
Inductive xbody := XOther | XGeneric (matches : list (ekind * list Z)).

Fixpoint lookup_ext (e : ekind) (l : list (ekind * list Z)) : option (list Z) :=
  match l with
  | [] => None
  | (e', v) :: r => if ekind_eqb e e' then Some v else lookup_ext e r
  end.

Definition ext_fields (elen : ekind -> nat) (s : nat) (e : ekind) : list fname :=
  map (fun i => FStream s (KExtCsr e i)) (seq 0 (elen e)).

Definition xdma_fields_streamer (elen : ekind -> nat) (s : nat) (st : streamer) : list fname :=
  map (fun i => FStream s (KSStride i)) (seq 0 (spatial_dim st))
  ++ map (fun i => FStream s (KBound i)) (seq 0 (temporal_dim st))
  ++ map (fun i => FStream s (KTStride i)) (seq 0 (temporal_dim st))
  ++ [FStream s KEnabledChan]
  ++ when (has is_bytemask st) [FStream s KEnabledByte]
  ++ [FStream s KBypass]
  ++ flat_map (ext_fields elen s) (exts_of (opts st)).

Definition xdma_fields (elen : ekind -> nat) (cfg : config) : list fname :=
  iflat (fun s _ => [FStream s KPtrLow; FStream s KPtrHigh]) 0 (named cfg)
  ++ iflat (xdma_fields_streamer elen) 0 (named cfg).

(* bypass += 2**i for the i-th StreamerExtension whose kernel matches (generic bodies only) *)
Fixpoint bypass_of (b : xbody) (es : list ekind) (i : Z) : Z :=
  match es with
  | [] => 0
  | e :: r => (match b with
               | XGeneric m => match lookup_ext e m with Some _ => 2 ^ i | None => 0 end
               | XOther => 0 end) + bypass_of b r (i + 1)
  end.

Definition tagged_ext (s : nat) (e : ekind) (vs : list Z) : list (tag * value) :=
  map (fun iv => (TExt s e (fst iv), VConst (snd iv))) (combine (seq 0 (List.length vs)) vs).

Definition ext_vals (elen : ekind -> nat) (b : xbody) (s : nat) (e : ekind) : list (tag * value) :=
  match b with
  | XGeneric m => match lookup_ext e m with
                  | Some vs => tagged_ext s e vs
                  | None => tagged_ext s e (repeat 0 (elen e)) end
  | XOther => [(TExt s e 0, VConst 0)]
  end.

Definition xdma_vals_streamer (elen : ekind -> nat) (op : sop) (b : xbody) (zlast : bool)
  (s : nat) (st : streamer) : option (list (tag * value)) :=
  match nth_error (s_pats op) s with
  | Some p =>
      oapp (sstride_vals s st p)
      (oapp (bound_vals s st p)
      (oapp (tstride_vals s st p)
      (Some (when (has is_chanmask st) [(TChanMask s, mask_val zlast)]
             ++ when (has is_bytemask st) [(TByteMask s, mask_val zlast)]
             ++ [(TBypass s, VConst (bypass_of b (exts_of (opts st)) 0))]
             ++ flat_map (ext_vals elen b s) (exts_of (opts st))))))
  | None => None
  end.

(* `is_zero_pattern` is assigned in the first loop and read in the second: the second loop sees
   the value of the LAST streamer. *)
Definition zlast_of (cfg : config) (op : sop) : bool :=
  nth (List.length cfg - 1) (s_zero op) false.

Definition xdma_vals (elen : ekind -> nat) (cfg : config) (op : sop) (b : xbody)
  : option (list (tag * value)) :=
  oapp (oiflat (fun s _ => match nth_error (s_zero op) s with
                           | Some z => Some (ptr_vals s z) | None => None end) 0 cfg)
       (oiflat (xdma_vals_streamer elen op b (zlast_of cfg op)) 0 cfg).

(* Safe class for F7: every streamer has HasChannelMask; extension values have the declared length *)
Definition ext_len_okb (elen : ekind -> nat) (b : xbody) (e : ekind) : bool :=
  match b with
  | XGeneric m => match lookup_ext e m with
                  | Some vs => Nat.eqb (List.length vs) (elen e) | None => true end
  | XOther => Nat.eqb (elen e) 1
  end.
Definition safe_xdmab (elen : ekind -> nat) (cfg : config) (b : xbody) : bool :=
  forallb (fun st => has is_chanmask st && forallb (ext_len_okb elen b) (exts_of (opts st))) cfg.

(* specification of the xDMA-only tags *)
Definition xdma_spec_value (cfg : config) (op : sop) (b : xbody) (t : tag) : option value :=
  let st s := nth s cfg (mkStreamer [] [] []) in
  let zero s := nth s (s_zero op) false in
  match t with
  | TChanMask s => Some (mask_val (zero s))
  | TByteMask s => Some (mask_val (zero s))
  | TBypass s => Some (VConst (bypass_of b (exts_of (opts (st s))) 0))
  | TExt s e i => Some (VConst (match b with
                                | XGeneric m => match lookup_ext e m with Some vs => nth i vs 0 | None => 0 end
                                | XOther => 0 end))
  | TTranspose _ | TBroadcast _ | TAddrRemap _ | TKern _ => None
  | _ => spec_value cfg op t
  end.
(* the mask values are right when no operand's zero flag differs from the last one *)
Definition zero_uniformb (cfg : config) (op : sop) : bool :=
  forallb (fun z => Bool.eqb z (zlast_of cfg op)) (firstn (List.length cfg) (s_zero op)).

(* ======================= snax_alu / snax_phs ================================================ *)
Definition alu_fields (cfg : config) : list fname :=
  setup_fields cfg ++ [FKern AluMode; FKern LoopBoundAlu].
(* loop_bound = op.stride_patterns.data[0].upper_bounds.data[0] *)
Definition first_bound (op : sop) : option Z :=
  match nth_error (s_pats op) 0 with Some p => nth_error (p_ub p) 0 | None => None end.
Definition alu_vals (cfg : config) (op : sop) : option (list (tag * value)) :=
  match first_bound op with
  | Some b => oapp (setup_vals cfg op) (Some [(TKern AluMode, VConst 0); (TKern LoopBoundAlu, VConst b)])
  | None => None
  end.

(* phs: n switch fields, the decoder returns `switches` values *)
Definition phs_fields (cfg : config) (nsw : nat) : list fname :=
  setup_fields cfg ++ map (fun i => FKern (PhsSwitch i)) (seq 0 nsw) ++ [FKern LoopBoundAlu].
Definition phs_vals (cfg : config) (op : sop) (switches : list Z) : option (list (tag * value)) :=
  match first_bound op with
  | Some b => oapp (setup_vals cfg op)
                (Some (map (fun iv => (TKern (PhsSwitch (fst iv)), VConst (snd iv)))
                           (combine (seq 0 (List.length switches)) switches)
                       ++ [(TKern LoopBoundAlu, VConst b)]))
  | None => None
  end.

(* ======================= snax_hwpe_mult ===================================================== *)
(* fields = ("A","B","O","vector_length","nr_iters","mode");
   return ptrs + [nr_iters] + [vector_length] + [mode]  — values tagged by what they ARE *)
Inductive hval := HPtr (k : nat) | HDim0 | HOne.
Definition hwpe_fields : list fname :=
  [FKern HwA; FKern HwB; FKern HwO; FKern HwVectorLength; FKern HwNrIters; FKern HwMode].
Definition hwpe_vals : list (tag * hval) :=
  [(TKern HwA, HPtr 0); (TKern HwB, HPtr 1); (TKern HwO, HPtr 2);
   (TKern HwNrIters, HOne); (TKern HwVectorLength, HDim0); (TKern HwMode, HOne)].

(* ======================= snax_gemmx ========================================================== *)
(* value expressions: constants, opaque SSA values, `& 255`, pack_bitlist *)
Inductive gval :=
| GC (z : Z) | GOperand (k : nat) | GSsa (k : nat)
| GAnd255 (v : gval) | GPack (parts : list (gval * Z)).

Fixpoint geval (env : nat -> Z) (v : gval) : Z :=
  match v with
  | GC z => z
  | GOperand k => env k
  | GSsa k => env (1000 + k)%nat
  | GAnd255 a => Z.land (geval env a) 255
  | GPack parts =>
      (fix go (l : list (gval * Z)) : Z :=
         match l with [] => 0 | (a, off) :: r => Z.lor (Z.shiftl (geval env a) off) (go r) end) parts
  end.

Record rescale := mkRescale {
  r_max : Z; r_min : Z; r_dround : Z; r_shift : list Z; r_mult : list Z; r_zpin : Z; r_zpout : Z }.

Inductive gbody :=
| GBMac (qmac : bool) (i8_out : bool) (resc : option rescale)
| GBRescale (r : rescale)
| GBOther.

Definition cdiv4 (n : Z) : Z := (n + 3) / 4.     (* ceil(n / 4) for n >= 0 *)

Definition gemmx_kernel_fields (n : Z) : list fname :=
  [FKern GK; FKern GN; FKern GM; FKern GSubtractions; FKern GCsr0; FKern GCsr1]
  ++ map (fun i => FKern (GShift i)) (seq 0 (Z.to_nat (cdiv4 n)))
  ++ map (fun i => FKern (GMult i)) (seq 0 (Z.to_nat n))
  ++ [FKern GTemporalLoopBound; FKern GBypassSIMD].
Definition gemmx_fields (cfg : config) (n : Z) : list fname := setup_fields cfg ++ gemmx_kernel_fields n.

(* prod(bound for bound, stride in zip(ub, ts) if stride != 0) *)
Definition prod_nonreducing (p : pattern) : Z :=
  zprod (map fst (filter (fun bs => negb (snd bs =? 0)) (combine (p_ub p) (p_ts p)))).

Fixpoint chunks4 (fuel : nat) (l : list Z) : list (list Z) :=
  match fuel, l with
  | O, _ | _, [] => []
  | S f, _ => firstn 4 l :: chunks4 f (skipn 4 l)
  end.
(* pack_bitlist(shifts[i:i+4][::-1], (24,16,8,0)) — zip(strict=True): a short chunk raises *)
Definition pack_shift_chunk (c : list Z) : option gval :=
  if Nat.eqb (List.length c) 4
  then Some (GPack (combine (map GC (rev c)) [24; 16; 8; 0]))
  else None.

Definition pack_csr0 (mn mx zo zi : Z) : gval :=
  GPack [(GAnd255 (GC mn), 24); (GAnd255 (GC mx), 16); (GAnd255 (GC zo), 8); (GAnd255 (GC zi), 0)].

Definition expand1 (n : Z) (l : list Z) : list Z :=
  match l with [x] => repeat x (Z.to_nat n) | _ => l end.

Definition tag_seq (mk : nat -> kfield) (vs : list gval) : list (tag * gval) :=
  map (fun iv => (TKern (mk (fst iv)), snd iv)) (combine (seq 0 (List.length vs)) vs).

Definition gemmx_kernel_vals (n : Z) (op : sop) (gb : gbody) : option (list (tag * gval)) :=
  let finish (k nn m : Z) (subtr csr0 csr1 : gval) (shifts mults : list gval) (lb byp : gval) :=
    [(TKern GK, GC k); (TKern GN, GC nn); (TKern GM, GC m);
     (TKern GSubtractions, subtr); (TKern GCsr0, csr0); (TKern GCsr1, csr1)]
    ++ tag_seq GShift shifts ++ tag_seq GMult mults
    ++ [(TKern GTemporalLoopBound, lb); (TKern GBypassSIMD, byp)] in
  match gb with
  | GBMac qmac i8 resc =>
      let last_pattern := if i8 then nth_error (s_pats op) 2
                          else nth_error (s_pats op) (List.length (s_pats op) - 1) in
      match last_pattern, nth_error (s_pats op) 0 with
      | Some lp, Some p0 =>
          let m := prod_nonreducing lp / 1 in
          if m =? 0 then None else     (* ZeroDivisionError *)
          let k := zprod (p_ub p0) / m in
          let subtr := if qmac then GPack [(GAnd255 (GSsa 0), 0); (GAnd255 (GSsa 1), 8)]
                       else GPack [(GAnd255 (GC 0), 0); (GAnd255 (GC 0), 8)] in
          if i8 then
            let r := match resc with
                     | Some r => mkRescale (r_max r) (r_min r) (r_dround r) (expand1 n (r_shift r))
                                           (expand1 n (r_mult r)) (r_zpin r) (r_zpout r)
                     | None => mkRescale 127 (-128) 0 (repeat 9 (Z.to_nat n)) (repeat 1 (Z.to_nat n)) 0 0
                     end in
            match omap pack_shift_chunk (chunks4 (List.length (r_shift r)) (r_shift r)) with
            | Some shift_vals =>
                Some (finish k 1 m subtr (pack_csr0 (r_min r) (r_max r) (r_zpout r) (r_zpin r)) (GC (r_dround r))
                        (firstn (Z.to_nat (cdiv4 n)) shift_vals)
                        (firstn (Z.to_nat n) (map GC (r_mult r)))
                        (GC m) (GC 0))
            | None => None
            end
          else
            Some (finish k 1 m subtr (GC 0) (GC 0)
                    (repeat (GC 0) (Z.to_nat (cdiv4 n))) (repeat (GC 1) (Z.to_nat n)) (GC 0) (GC 1))
      | _, _ => None
      end
  | GBRescale r =>
      match nth_error (s_pats op) 0, nth_error (r_shift r) 0, nth_error (r_mult r) 0 with
      | Some p0, Some sh, Some mu =>
          let m := zprod (p_ub p0) in
          let shift := GPack [(GC sh, 24); (GC sh, 16); (GC sh, 8); (GC sh, 0)] in
          Some (finish 1 1 m (GC 0) (pack_csr0 (r_min r) (r_max r) (r_zpout r) (r_zpin r)) (GC (r_dround r))
                  (repeat shift (Z.to_nat (cdiv4 n)))
                  (repeat (GC mu) (Z.to_nat n))      (* after fix F8: range(self.n) *)
                  (GC m) (GC 0))
      | _, _, _ => None
      end
  | GBOther => None
  end.

Definition lift_val (v : value) : gval := match v with VOperand k => GOperand k | VConst z => GC z end.

Definition gemmx_vals (cfg : config) (n : Z) (op : sop) (gb : gbody) : option (list (tag * gval)) :=
  oapp (option_map (map (fun tv => (fst tv, lift_val (snd tv)))) (setup_vals cfg op))
       (gemmx_kernel_vals n op gb).

(* the value lists have the declared lengths: per-channel shift/mult arrays are either a single value
   or at least n values (longer ones are truncated and re-programmed at launch) *)
Definition resc_okb (n : Z) (r : rescale) : bool :=
  let sh := expand1 n (r_shift r) in
  let mu := expand1 n (r_mult r) in
  (Z.to_nat (cdiv4 n) <=? List.length (chunks4 (List.length sh) sh))%nat
  && (Z.to_nat n <=? List.length mu)%nat.
Definition gbody_okb (n : Z) (gb : gbody) : bool :=
  match gb with
  | GBMac _ true (Some r) => resc_okb n r
  | _ => true
  end.
