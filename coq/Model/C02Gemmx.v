(* C02 — hand model (H) of SNAXGEMMXAccelerator.set_stride_patterns (snaxc/accelerators/snax_gemmx.py):
   how the per-operand stride patterns of an operation are placed on the five gemmx streamers
   A, B, D8, C, D32, with the pointer each slot receives.  Executable definitions only. *)
From Snax Require Import Base.Prelude Base.ListAux Model.C02Stream.

Inductive gkind := G3_i32 | G3_i8 | G4_i32 | G4_i8 | GSimd.
Inductive src := SOp (k : nat) | SZero.       (* operand k of the op / arith.constant 0 : index *)

Definition empty1 : spattern := mkSP [0; 0; 0] [0; 0; 0] [0].
Definition empty2 : spattern := mkSP [0; 0; 0] [0; 0; 0] [0; 0].

(* ser = self.serializer_ratio, sd2 = streamers[2].spatial_dims[-1] *)
Definition gemmx_customise (k : gkind) (ser sd2 : Z) (ps : list spattern) : option (list (spattern * src)) :=
  match k, ps with
  | G3_i32, [a; b; d] =>
      Some [(a, SOp 0); (b, SOp 1); (empty1, SOp 2); (d, SZero); (d, SOp 2)]
  | G3_i8, [a; b; d8] =>
      Some [(a, SOp 0); (b, SOp 1); (d8, SOp 2);
            (mkSP (sp_ub d8 ++ [ser]) (sp_ts d8 ++ [0]) [8 * sd2; 8], SZero); (empty2, SOp 2)]
  | G4_i32, [a; b; c; d] =>
      Some [(a, SOp 0); (b, SOp 1); (empty1, SOp 2); (c, SOp 2); (d, SOp 3)]
  | G4_i8, [a; b; c; d8] =>
      Some [(a, SOp 0); (b, SOp 1); (d8, SOp 3); (c, SOp 2); (empty2, SOp 2)]
  | GSimd, [c; d8] =>
      let z := mkSP (sp_ub c) (map (fun _ => 0) (sp_ub c)) [8] in
      Some [(z, SZero); (z, SZero); (d8, SOp 1); (mkSP (sp_ub c) (sp_ts c) [8; 64], SOp 0);
            (mkSP (sp_ub empty1) (sp_ts empty1) [8; 64], SOp 0)]
  | _, _ => None
  end.

Definition src_eqb (a b : src) : bool :=
  match a, b with SOp x, SOp y => Nat.eqb x y | SZero, SZero => true | _, _ => false end.

(* a slot is disabled when one of its temporal bounds is 0: the streamer performs no step *)
Definition disabledb (p : spattern) : bool := existsb (fun b => b =? 0) (sp_ub p) && (Nat.eqb (List.length (sp_ub p)) (List.length (sp_ts p))).
