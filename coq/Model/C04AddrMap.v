(* C04 part A — register maps of the CSR-configured accelerators.

   Mirrors, as functions of a streamer-configuration record:
     snaxc/accelerators/snax.py        SNAXStreamer.__init__, get_streamer_setup_fields,
                                        get_xdma_streamer_setup_fields, get_streamer_launch_fields,
                                        get_xdma_streamer_launch_fields, get_streamer_setup_dict,
                                        get_streamer_launch_dict
     snaxc/accelerators/snax_alu.py    __init__ (fields / launch_fields), generate_acc_op
     snaxc/accelerators/snax_gemmx.py  __init__, generate_acc_op
     snaxc/accelerators/snax_xdma.py   __init__, get_xdma_streamer_setup_dict, get_xdma_streamer_launch_dict,
                                        generate_acc_op
     snaxc/accelerators/snax_phs.py    __init__, get_phs_switch_setup_dict, generate_acc_op
     snaxc/accelerators/snax_hwpe_mult.py  fields, launch_fields, generate_acc_op
   Definitions only; proofs are in Proofs/C04AddrMapProofs.v. *)
From Snax Require Import Base.Prelude.
From Coq Require Import String Ascii DecimalString.

(* ---- streamer configuration (snaxc/accelerators/streamers/streamers.py) ------------------- *)
Inductive sflag := FlNormal | FlIrrelevant | FlReuse.

(* StreamerOpts.  [OExt name csr_length is_transpose] is a StreamerExtension; TransposeExtension is
   [OExt "t" 1 true] (isinstance(opt, TransposeExtension) is the boolean). *)
Inductive sopt :=
| OAddrRemap | OChanMask | OByteMask | OBroadcast
| OExt (name : string) (csr_len : nat) (is_transpose : bool).

Record streamer := mkStreamer {
  s_temporal : list sflag;      (* temporal_dims *)
  s_spatial : list Z;           (* spatial_dims *)
  s_opts : list sopt }.

Record scfg := mkCfg {
  c_streamers : list streamer;
  c_xdma : bool }.              (* system_type() == DmaExt *)

Definition is_addr_remap (o : sopt) := match o with OAddrRemap => true | _ => false end.
Definition is_chan_mask (o : sopt) := match o with OChanMask => true | _ => false end.
Definition is_byte_mask (o : sopt) := match o with OByteMask => true | _ => false end.
Definition is_broadcast (o : sopt) := match o with OBroadcast => true | _ => false end.
Definition is_transpose (o : sopt) := match o with OExt _ _ t => t | _ => false end.
(* any(isinstance(opt, X) for opt in streamer.opts) *)
Definition has (p : sopt -> bool) (s : streamer) : bool := existsb p (s_opts s).

(* ---- field names ---------------------------------------------------------------------------- *)
(* Structured names; [render] gives the Python string. [k] is the index of the streamer name in
   string.ascii_lowercase. *)
Inductive fname :=
| FPtrLow (k : nat) | FPtrHigh (k : nat)
| FSstride (k i : nat) | FBound (k i : nat) | FTstride (k i : nat)
| FAddrRemap (k : nat) | FChanMask (k : nat) | FTranspose (k : nat) | FBroadcast (k : nat)
| FEnabledChan (k : nat) | FEnabledByte (k : nat) | FBypass (k : nat)
| FExt (k : nat) (name : string) (i : nat)
| FIdx (prefix : string) (i : nat)        (* shift_<i>, mult_<i>, phs_switch_<i> *)
| FName (s : string).                     (* every other fixed name *)

Local Open Scope string_scope.
Definition dec (n : nat) : string := NilEmpty.string_of_uint (Nat.to_uint n).
Definition letter (k : nat) : string := String (ascii_of_nat (97 + k)) EmptyString.
Definition render (f : fname) : string :=
  match f with
  | FPtrLow k => letter k ++ "_ptr_low"
  | FPtrHigh k => letter k ++ "_ptr_high"
  | FSstride k i => letter k ++ "_sstride_" ++ dec i
  | FBound k i => letter k ++ "_bound_" ++ dec i
  | FTstride k i => letter k ++ "_tstride_" ++ dec i
  | FAddrRemap k => letter k ++ "_address_remap"
  | FChanMask k => letter k ++ "_channel_mask"
  | FTranspose k => letter k ++ "_transpose"
  | FBroadcast k => letter k ++ "_broadcast"
  | FEnabledChan k => letter k ++ "_enabled_chan"
  | FEnabledByte k => letter k ++ "_enabled_byte"
  | FBypass k => letter k ++ "_bypass"
  | FExt k nm i => letter k ++ "_" ++ nm ++ "_" ++ dec i
  | FIdx p i => p ++ "_" ++ dec i
  | FName s => s
  end.
Local Close Scope string_scope.

(* ---- SNAXStreamer ----------------------------------------------------------------------------- *)
(* zip(self.streamer_names, streamers) with streamer_names = ascii_lowercase[:size]: the zip stops
   after 26 streamers. *)
Definition named (c : scfg) : list (nat * streamer) := combine (seq 0 26) (c_streamers c).

Definition idxs {A} (l : list A) : list nat := seq 0 (List.length l).

(* get_streamer_setup_fields *)
Definition reg_fields_of (ks : nat * streamer) : list fname :=
  let k := fst ks in let s := snd ks in
  [FPtrLow k; FPtrHigh k]
  ++ map (FSstride k) (idxs (s_spatial s))
  ++ map (FBound k) (idxs (s_temporal s))
  ++ map (FTstride k) (idxs (s_temporal s))
  ++ (if has is_addr_remap s then [FAddrRemap k] else [])
  ++ (if has is_chan_mask s then [FChanMask k] else []).

Definition reg_setup_fields (c : scfg) : list fname :=
  flat_map reg_fields_of (named c)
  ++ flat_map (fun ks => if has is_transpose (snd ks) then [FTranspose (fst ks)] else []) (named c)
  ++ flat_map (fun ks => if has is_broadcast (snd ks) then [FBroadcast (fst ks)] else []) (named c).

(* get_xdma_streamer_setup_fields *)
Definition ext_fields (k : nat) (o : sopt) : list fname :=
  match o with
  | OExt nm len _ => map (FExt k nm) (seq 0 len)
  | _ => []
  end.

Definition xdma_fields_of (ks : nat * streamer) : list fname :=
  let k := fst ks in let s := snd ks in
  map (FSstride k) (idxs (s_spatial s))
  ++ map (FBound k) (idxs (s_temporal s))
  ++ map (FTstride k) (idxs (s_temporal s))
  ++ [FEnabledChan k]
  ++ (if has is_byte_mask s then [FEnabledByte k] else [])
  ++ [FBypass k]
  ++ flat_map (ext_fields k) (s_opts s).

Definition xdma_setup_fields (c : scfg) : list fname :=
  flat_map (fun ks => [FPtrLow (fst ks); FPtrHigh (fst ks)]) (named c)
  ++ flat_map xdma_fields_of (named c).

(* SNAXStreamer.__init__ *)
Definition streamer_setup_fields (c : scfg) : list fname :=
  if c_xdma c then xdma_setup_fields c else reg_setup_fields c.
Definition streamer_launch_fields (c : scfg) : list fname :=
  if c_xdma c then [FName "launch_start"] else [FName "launch_streamer"].

(* {key: base + i for i, key in enumerate(fields)} as an association list in insertion order *)
Fixpoint enum_from {A} (base : Z) (l : list A) : list (A * Z) :=
  match l with
  | [] => []
  | x :: xs => (x, base) :: enum_from (base + 1) xs
  end.

Definition len {A} (l : list A) : Z := Z.of_nat (List.length l).

(* ---- the accelerator declaration ---------------------------------------------------------------- *)
Record accmap := mkAccMap {
  am_fields : list (fname * Z);     (* accfg.accelerator `fields` *)
  am_launch : list (fname * Z);     (* `launch_fields` *)
  am_barrier : Z;                   (* `barrier` *)
  am_reserved : list Z }.           (* status registers the code skips (busy + perf counter,
                                       xdma multicast pointers, hwpe clear register) *)

Definition BASE : Z := 960.   (* 0x3C0 *)

(* get_streamer_setup_dict(base) -> (next, dict) *)
Definition streamer_setup_dict (c : scfg) (base : Z) : Z * list (fname * Z) :=
  (base + len (streamer_setup_fields c), enum_from base (streamer_setup_fields c)).
(* get_streamer_launch_dict(base) -> (next, dict); "1 busy register + 1 performance counter after
   launch field" *)
Definition streamer_launch_dict (c : scfg) (base : Z) : Z * list (fname * Z) :=
  (base + len (streamer_launch_fields c) + 2, enum_from base (streamer_launch_fields c)).
Definition streamer_reserved (c : scfg) (base : Z) : list Z :=
  [base + len (streamer_launch_fields c); base + len (streamer_launch_fields c) + 1].

(* SNAXAluAccelerator *)
Definition alu_fields (c : scfg) : list fname :=
  streamer_setup_fields c ++ [FName "alu_mode"; FName "loop_bound_alu"].
Definition alu_launch_fields (c : scfg) : list fname :=
  streamer_launch_fields c ++ [FName "launch_alu"].
Definition alu_map (c : scfg) : accmap :=
  let '(n1, setup) := streamer_setup_dict c BASE in
  let '(n2, launch) := streamer_launch_dict c n1 in
  mkAccMap (setup ++ [(FName "alu_mode", n2 + 0); (FName "loop_bound_alu", n2 + 1)])
           (launch ++ [(FName "launch_alu", n2 + 2)])
           (n2 + 3)
           (streamer_reserved c n1).

(* SNAXGEMMXAccelerator; ceil(n / 4) on Python ints = (n + 3) // 4 *)
Definition nb_shifts (n : Z) : Z := (n + 3) / 4.
Definition gemmx_fields (c : scfg) (n : Z) : list fname :=
  streamer_setup_fields c
  ++ [FName "K"; FName "N"; FName "M"; FName "subtractions"; FName "csr0"; FName "csr1"]
  ++ map (fun i => FIdx "shift" (Z.to_nat i)) (zrange (nb_shifts n))
  ++ map (fun i => FIdx "mult" (Z.to_nat i)) (zrange n)
  ++ [FName "temporal_loop_bound"; FName "bypassSIMD"].
Definition gemmx_launch_fields (c : scfg) : list fname :=
  streamer_launch_fields c ++ [FName "launch_gemmx"].
Definition gemmx_map (c : scfg) (n : Z) : accmap :=
  let '(n1, setup) := streamer_setup_dict c BASE in
  let '(n2, launch) := streamer_launch_dict c n1 in
  let nbs := nb_shifts n in
  mkAccMap (setup
            ++ [(FName "K", n2 + 0); (FName "N", n2 + 1); (FName "M", n2 + 2);
                (FName "subtractions", n2 + 3); (FName "csr0", n2 + 4); (FName "csr1", n2 + 5)]
            ++ map (fun i => (FIdx "shift" (Z.to_nat i), n2 + 6 + i)) (zrange nbs)
            ++ map (fun i => (FIdx "mult" (Z.to_nat i), n2 + 6 + nbs + i)) (zrange n)
            ++ [(FName "temporal_loop_bound", n2 + 6 + nbs + n); (FName "bypassSIMD", n2 + 7 + nbs + n)])
           (launch ++ [(FName "launch_gemmx", n2 + 8 + nbs + n)])
           (n2 + 9 + nbs + n)
           (streamer_reserved c n1).

(* SNAXXDMAAccelerator; max_multicast_dest = 16 *)
Definition MCAST : Z := 16.
Definition xdma_setup_dict (c : scfg) (base : Z) : Z * list (fname * Z) :=
  let f := streamer_setup_fields c in
  (base + len f + 2 * MCAST - 2,
   enum_from base (firstn 4 f) ++ enum_from (base + 2 + 2 * MCAST) (skipn 4 f)).
Definition xdma_launch_dict (c : scfg) (base : Z) : Z * list (fname * Z) :=
  (base + len (streamer_launch_fields c), enum_from base (streamer_launch_fields c)).
Definition xdma_fields (c : scfg) : list fname := streamer_setup_fields c.
Definition xdma_launch_fields (c : scfg) : list fname := streamer_launch_fields c.
Definition xdma_map (c : scfg) : accmap :=
  let '(n1, setup) := xdma_setup_dict c BASE in
  let '(n2, launch) := xdma_launch_dict c n1 in
  mkAccMap setup launch (n2 + 2)
           (* multicast destination pointers skipped behind the first four fields, and the two
              registers between the launch field and the barrier *)
           (map (fun i => BASE + 4 + i) (zrange (2 * MCAST - 2)) ++ [n2; n2 + 1]).

(* SNAXPHSAccelerator; nsw = pe.get_true_switches() *)
Definition phs_switch_fields (nsw : nat) : list fname := map (FIdx "phs_switch") (seq 0 nsw).
Definition phs_fields (c : scfg) (nsw : nat) : list fname :=
  streamer_setup_fields c ++ phs_switch_fields nsw ++ [FName "loop_bound_alu"].
Definition phs_launch_fields (c : scfg) : list fname :=
  streamer_launch_fields c ++ [FName "launch_alu"].
Definition phs_map (c : scfg) (nsw : nat) : accmap :=
  let '(n1, setup) := streamer_setup_dict c BASE in
  let '(n2, launch) := streamer_launch_dict c n1 in
  let n3 := n2 + len (phs_switch_fields nsw) in
  mkAccMap (setup ++ enum_from n2 (phs_switch_fields nsw) ++ [(FName "loop_bound_alu", n3 + 0)])
           (launch ++ [(FName "launch_alu", n3 + 1)])
           (n3 + 2)
           (streamer_reserved c n1).

(* SNAXHWPEMultAccelerator; 0x3c5 is the clear register written by SNAXPollingBarrier *)
Definition hwpe_fields : list fname :=
  [FName "A"; FName "B"; FName "O"; FName "vector_length"; FName "nr_iters"; FName "mode"].
Definition hwpe_launch_fields : list fname := [FName "launch"].
Definition hwpe_map : accmap :=
  mkAccMap [(FName "A", 976); (FName "B", 977); (FName "O", 979);
            (FName "vector_length", 980); (FName "nr_iters", 981); (FName "mode", 982)]
           [(FName "launch", 960)]
           963
           [965].

(* every address an accelerator declaration talks about *)
Definition all_addrs (m : accmap) : list Z :=
  map snd (am_fields m) ++ map snd (am_launch m) ++ [am_barrier m] ++ am_reserved m.

(* ---- well-formed configurations ------------------------------------------------------------------- *)
(* at most 26 streamers (names beyond ascii_lowercase are silently dropped by the zip), extension
   names distinct inside one streamer. Needed for *name* distinctness only. *)
Definition ext_names (s : streamer) : list string :=
  flat_map (fun o => match o with OExt nm (S _) _ => [nm] | _ => [] end) (s_opts s).
Fixpoint nodup_strb (l : list string) : bool :=
  match l with
  | [] => true
  | x :: xs => negb (existsb (String.eqb x) xs) && nodup_strb xs
  end.
Definition wf_cfgb (c : scfg) : bool :=
  (List.length (c_streamers c) <=? 26)%nat && forallb (fun s => nodup_strb (ext_names s)) (c_streamers c).

(* ---- rendered dictionaries (for the correspondence check) ---------------------------------------- *)
(* Python dict semantics for a sequence of insertions: an existing key keeps its position and gets
   the new value. *)
Fixpoint dict_set (d : list (string * Z)) (k : string) (v : Z) : list (string * Z) :=
  match d with
  | [] => [(k, v)]
  | (k', v') :: r => if String.eqb k k' then (k, v) :: r else (k', v') :: dict_set r k v
  end.
Definition dict_of (l : list (fname * Z)) : list (string * Z) :=
  fold_left (fun d kv => dict_set d (render (fst kv)) (snd kv)) l [].

Definition spair_eqb (a b : string * Z) : bool := String.eqb (fst a) (fst b) && (snd a =? snd b).
(* order-insensitive dictionary equality (== on Python dicts) *)
Definition dict_eqb (a b : list (string * Z)) : bool :=
  Nat.eqb (List.length a) (List.length b)
  && forallb (fun x => existsb (spair_eqb x) b) a
  && forallb (fun y => existsb (spair_eqb y) a) b.

Definition names_eqb (a : list fname) (b : list string) : bool :=
  list_eqb String.eqb (map render a) b.

(* one accelerator instance as the harness sees it *)
Record accview := mkAView {
  v_fields_tuple : list string;          (* acc.fields *)
  v_launch_tuple : list string;          (* acc.launch_fields *)
  v_fields : list (string * Z);          (* generate_acc_op().fields *)
  v_launch : list (string * Z);
  v_barrier : Z }.

(* A cases file carries each distinct name once in a table [T]; raw views refer to names by index
   (Coq parses string literals slowly). *)
Record rawview := mkView {
  r_fields_tuple : list Z; r_launch_tuple : list Z;
  r_fields : list (Z * Z); r_launch : list (Z * Z); r_barrier : Z }.
Definition tbl_get (T : list string) (i : Z) : string := nth (Z.to_nat i) T EmptyString.
Definition decode_view (T : list string) (v : rawview) : accview :=
  mkAView (map (tbl_get T) (r_fields_tuple v)) (map (tbl_get T) (r_launch_tuple v))
          (map (fun p => (tbl_get T (fst p), snd p)) (r_fields v))
          (map (fun p => (tbl_get T (fst p), snd p)) (r_launch v))
          (r_barrier v).

Definition view_matches (ft lt : list fname) (m : accmap) (v : accview) : bool :=
  names_eqb ft (v_fields_tuple v) && names_eqb lt (v_launch_tuple v)
  && dict_eqb (dict_of (am_fields m)) (v_fields v)
  && dict_eqb (dict_of (am_launch m)) (v_launch v)
  && (am_barrier m =? v_barrier v).

Fixpoint nodupZb (l : list Z) : bool :=
  match l with
  | [] => true
  | x :: xs => negb (existsb (Z.eqb x) xs) && nodupZb xs
  end.
