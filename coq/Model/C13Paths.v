(* C13 — path semantics.  The structured program ([rstmt]: leaves, scf.for, scf.if) has one
   execution path per oracle (trip counts and branch outcomes at every iteration context); the
   trace [rrunl o prog ctx] is the sequence of ops and barriers on that path.  "Every path from
   X to U crosses a barrier" is the safety property checked by [scanb]: scanning a trace, once X
   has been executed no U may be executed before a barrier. *)
From Snax Require Import Base.Prelude Base.ListAux Model.MultiCore Model.C13SyncBarrier.

Definition opid (o : mop) : Z := hd 0 (o_name o).

(* None = a path from X to U without barrier; Some armed = fine, [armed]: an X is pending *)
Fixpoint scanb (X U : Z) (armed : bool) (l : list instr) : option bool :=
  match l with
  | [] => Some armed
  | None :: r => scanb X U false r
  | Some o :: r =>
      if (opid o =? U) && armed then None
      else scanb X U (armed || (opid o =? X)) r
  end.

(* the siblings that follow X in its block are plain ops other than U, up to a barrier *)
Fixpoint bar_follows (U : Z) (l : list rstmt) : bool :=
  match l with
  | RLeaf id _ bar _ _ :: r => if bar then true else if id =? U then false else bar_follows U r
  | _ => false
  end.

(* structural guard: wherever the op X occurs (at any depth), a barrier of the same block follows
   it before U, before any nested construct and before the end of the block *)
Fixpoint guarded (X U : Z) (s : rstmt) : bool :=
  let fix gl (l : list rstmt) : bool :=
    match l with
    | [] => true
    | x :: r =>
        (match x with
         | RLeaf id _ bar _ _ => if (id =? X) && negb bar then bar_follows U r else true
         | _ => guarded X U x
         end) && gl r
    end in
  match s with
  | RLeaf _ _ _ _ _ => true
  | RFor _ b => gl b
  | RIf _ t e => gl t && gl e
  end.

Fixpoint guardedl (X U : Z) (l : list rstmt) : bool :=
  match l with
  | [] => true
  | x :: r =>
      (match x with
       | RLeaf id _ bar _ _ => if (id =? X) && negb bar then bar_follows U r else true
       | _ => guarded X U x
       end) && guardedl X U r
  end.

(* the outermost block is executed once: after X, reaching the end of the program without a
   barrier is fine; only plain ops other than U may follow up to a barrier or the end *)
Fixpoint mentions (U : Z) (s : rstmt) : bool :=
  let fix ml (l : list rstmt) : bool := match l with [] => false | x :: r => mentions U x || ml r end in
  match s with
  | RLeaf id _ bar _ _ => negb bar && (id =? U)
  | RFor _ b => ml b
  | RIf _ t e => ml t || ml e
  end.
Definition mentionsl (U : Z) (l : list rstmt) : bool := existsb (mentions U) l.

Fixpoint bar_follows_top (U : Z) (l : list rstmt) : bool :=
  match l with
  | [] => true
  | RLeaf id _ bar _ _ :: r => if bar then true else if id =? U then false else bar_follows_top U r
  | s :: r => negb (mentions U s) && bar_follows_top U r      (* a construct in which U does not occur *)
  end.

Fixpoint guardedl_top (X U : Z) (l : list rstmt) : bool :=
  match l with
  | [] => true
  | x :: r =>
      (match x with
       | RLeaf id _ bar _ _ => if (id =? X) && negb bar then bar_follows_top U r else true
       | _ => guarded X U x
       end) && guardedl_top X U r
  end.

(* all leaves of a program (static ops with their core and footprint) *)
Fixpoint leaves (s : rstmt) : list (Z * Z * list Z * list Z) :=
  let fix ll (l : list rstmt) := match l with [] => [] | x :: r => leaves x ++ ll r end in
  match s with
  | RLeaf id core bar rd wr => if bar then [] else [(id, core, rd, wr)]
  | RFor _ b => ll b
  | RIf _ t e => ll t ++ ll e
  end.
Definition leavesl (l : list rstmt) : list (Z * Z * list Z * list Z) := flat_map leaves l.

Definition static_conflict (a b : Z * Z * list Z * list Z) : bool :=
  match a, b with
  | (_, ca, ra, wa), (_, cb, rb, wb) =>
      (0 <=? ca) && (0 <=? cb) && negb (ca =? cb) && conflictb (mkOp [] ca ra wa) (mkOp [] cb rb wb)
  end.

(* every pair of static ops on two different specific cores with conflicting footprints is
   guarded in both directions *)
Definition all_guarded (prog : list rstmt) : bool :=
  forallb (fun a => forallb (fun b =>
     negb (static_conflict a b) || guardedl_top (fst (fst (fst a))) (fst (fst (fst b))) prog)
     (leavesl prog)) (leavesl prog).

(* a straight-line function as a program: every op of the pre-order list is a leaf; DM ops run on
   core 1, compute ops on core 0, everything else on all cores; the footprint of an op is the set of
   SSA values it uses (no aliasing: one value = one buffer), conservatively all written *)
Definition core_of (y : opinfo) : Z :=
  match oi_kind y with BDM => 1 | BCompute => 0 | _ => -1 end.
Definition leaf_of (y : opinfo) : rstmt :=
  RLeaf (oi_id y) (core_of y) (is_sync y) [] (oi_operands y).

(* a function whose body is: straight-line ops, ONE scf.for with a straight-line body, straight-line
   ops (the shape of a tiled kernel); the pre-order list and the program tree of the pass output
   (the scf.yield is not an op of the tree) *)
Record loopprog := mkLoop {
  lp_pre : list opinfo; lp_for : opinfo; lp_body : list opinfo; lp_yield : opinfo; lp_post : list opinfo }.

Definition lp_flat (q : loopprog) : list opinfo :=
  lp_pre q ++ lp_for q :: lp_body q ++ lp_yield q :: lp_post q.

Definition maybe_sync (bars : list Z) (y : opinfo) : list opinfo :=
  if memb (oi_id y) bars then [sync_before y] else [].

Definition lp_tree (bars : list Z) (q : loopprog) : list rstmt :=
  map leaf_of (insert_syncs bars (lp_pre q) ++ maybe_sync bars (lp_for q)) ++
  RFor (oi_id (lp_for q)) (map leaf_of (insert_syncs bars (lp_body q) ++ maybe_sync bars (lp_yield q))) ::
  map leaf_of (insert_syncs bars (lp_post q)).
