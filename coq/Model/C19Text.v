(* C19 (e) — token-level hand model (H) of the custom syntax of
     snax_stream.StridePattern            print_parameters / parse_parameters   (snaxc/dialects/snax_stream.py)
     snax.StreamerConfigurationAttr       print_parameter  / parse_parameter    (snaxc/dialects/snax.py)
   Lexing (xDSL's MLIR lexer, integer literal values) is trusted; L1 compares the tokens of the real
   printed text with `print_*` and the real parser on (damaged) token strings with `parse_*`
   (harness/props/c19_text.py).  Definitions only. *)
From Snax Require Import Base.Prelude Model.C19Stride.

Inductive ident :=
  | IdUb | IdTs | IdSs | IdOpts | IdTemp | IdSpat | IdR | IdW | IdN | IdI | IdA | IdC | IdBm | IdB
  | IdMaxpool | IdMemset | IdT | IdAddExt | IdAddExtLong | IdRescaleDown | IdRescaleUp   (* xDMA extension options *)
  | IdTrue | IdFalse | IdOther.
Inductive stok :=
  | KLt | KGt | KLSq | KRSq | KEq | KComma | KMinus | KId (i : ident) | KInt (z : Z) | KOther.

Definition ident_eqb (a b : ident) : bool :=
  match a, b with
  | IdUb, IdUb | IdTs, IdTs | IdSs, IdSs | IdOpts, IdOpts | IdTemp, IdTemp | IdSpat, IdSpat | IdR, IdR
  | IdW, IdW | IdN, IdN | IdI, IdI | IdA, IdA | IdC, IdC | IdBm, IdBm | IdB, IdB | IdTrue, IdTrue
  | IdMaxpool, IdMaxpool | IdMemset, IdMemset | IdT, IdT | IdAddExt, IdAddExt | IdAddExtLong, IdAddExtLong
  | IdRescaleDown, IdRescaleDown | IdRescaleUp, IdRescaleUp
  | IdFalse, IdFalse | IdOther, IdOther => true
  | _, _ => false
  end.
Definition stok_eqb (a b : stok) : bool :=
  match a, b with
  | KLt, KLt | KGt, KGt | KLSq, KLSq | KRSq, KRSq | KEq, KEq | KComma, KComma | KMinus, KMinus | KOther, KOther => true
  | KId i, KId j => ident_eqb i j
  | KInt x, KInt y => x =? y
  | _, _ => false
  end.

(* ---- integers ---------------------------------------------------------------------------------
   print_int: str(z);  the lexer gives MINUS INTEGER_LIT for a negative number.
   parse_optional_integer(allow_boolean, allow_negative). *)
Definition print_int (z : Z) : list stok := if z <? 0 then [KMinus; KInt (- z)] else [KInt z].

Definition parse_int (allow_bool allow_neg : bool) (toks : list stok) : option (Z * list stok) :=
  match toks with
  | KId IdTrue :: r => if allow_bool then Some (1, r) else None
  | KId IdFalse :: r => if allow_bool then Some (0, r) else None
  | KMinus :: KInt z :: r => if allow_neg then Some (- z, r) else None
  | KInt z :: r => Some (z, r)
  | _ => None
  end.

(* ---- StridePattern ---------------------------------------------------------------------------- *)
(* printer.print_list(xs, print_int): ", " separated *)
Fixpoint print_int_list (l : list Z) : list stok :=
  match l with
  | [] => []
  | [z] => print_int z
  | z :: r => print_int z ++ KComma :: print_int_list r
  end.

Definition print_sp (p : spattern) : list stok :=
  [KLt; KId IdUb; KEq; KLSq] ++ print_int_list (sp_ub p) ++
  [KRSq; KComma; KId IdTs; KEq; KLSq] ++ print_int_list (sp_ts p) ++
  [KRSq; KComma; KId IdSs; KEq; KLSq] ++ print_int_list (sp_ss p) ++ [KRSq; KGt].

(* parse_comma_separated_list(SQUARE, parse_integer): `[` (`]` | elem (`,` elem)* `]`) *)
Fixpoint parse_elems (fuel : nat) (toks : list stok) : option (list Z * list stok) :=
  match fuel with
  | O => None
  | S f =>
      match parse_int true true toks with
      | None => None
      | Some (v, r) =>
          match r with
          | KComma :: r' => match parse_elems f r' with Some (vs, rest) => Some (v :: vs, rest) | None => None end
          | KRSq :: r' => Some ([v], r')
          | _ => None
          end
      end
  end.
Definition parse_int_list (toks : list stok) : option (list Z * list stok) :=
  match toks with
  | KLSq :: KRSq :: r => Some ([], r)
  | KLSq :: r => parse_elems (length r) r
  | _ => None
  end.

(* parse_identifier("ub") takes ANY identifier (its argument is only an error-message suffix) *)
Definition parse_field (toks : list stok) : option (list Z * list stok) :=
  match toks with
  | KId _ :: KEq :: r => parse_int_list r
  | _ => None
  end.

(* in_angle_brackets; the attribute is then verified: len(ub) == len(ts) *)
Definition parse_sp (toks : list stok) : option (spattern * list stok) :=
  match toks with
  | KLt :: r0 =>
      match parse_field r0 with
      | Some (ub, KComma :: r1) =>
          match parse_field r1 with
          | Some (ts, KComma :: r2) =>
              match parse_field r2 with
              | Some (ss, KGt :: r3) =>
                  if (length ub =? length ts)%nat then Some (SP ub ts ss, r3) else None
              | _ => None
              end
          | _ => None
          end
      | _ => None
      end
  | _ => None
  end.

(* ---- StreamerConfiguration --------------------------------------------------------------------- *)
Inductive stype := SReader | SWriter.
Inductive sflag := FNormal | FIrrelevant | FReuse.
(* every key of STREAMER_OPT_MAP (snaxc/accelerators/streamers/extensions/__init__.py): the four streamer
   options a c bm b and the seven xDMA extensions maxpool_ext memset_ext t add_ext add_ext_long
   rescale_down_ext rescale_up_ext (all parameterless classes: print = .name, parse = MAP[name]()) *)
Inductive sopt := OAddrRemap | OChanMask | OByteMask | OBroadcast
  | OMaxpool | OMemset | OTranspose | OAddExt | OAddExtLong | ORescaleDown | ORescaleUp.
Inductive ssys := SysRegular | SysXdma.
Record streamer := Streamer { st_type : stype; st_temp : list sflag; st_spat : list Z; st_opts : list sopt }.
Record sconfig := SConfig { sc_streamers : list streamer; sc_sys : ssys }.

Definition id_of_type (t : stype) : ident := match t with SReader => IdR | SWriter => IdW end.
Definition id_of_flag (f : sflag) : ident := match f with FNormal => IdN | FIrrelevant => IdI | FReuse => IdR end.
Definition id_of_opt (o : sopt) : ident :=
  match o with
  | OAddrRemap => IdA | OChanMask => IdC | OByteMask => IdBm | OBroadcast => IdB
  | OMaxpool => IdMaxpool | OMemset => IdMemset | OTranspose => IdT | OAddExt => IdAddExt
  | OAddExtLong => IdAddExtLong | ORescaleDown => IdRescaleDown | ORescaleUp => IdRescaleUp
  end.
Definition type_of_id (i : ident) : option stype := match i with IdR => Some SReader | IdW => Some SWriter | _ => None end.
Definition flag_of_id (i : ident) : option sflag :=
  match i with IdN => Some FNormal | IdI => Some FIrrelevant | IdR => Some FReuse | _ => None end.
Definition opt_of_id (i : ident) : option sopt :=
  match i with
  | IdA => Some OAddrRemap | IdC => Some OChanMask | IdBm => Some OByteMask | IdB => Some OBroadcast
  | IdMaxpool => Some OMaxpool | IdMemset => Some OMemset | IdT => Some OTranspose | IdAddExt => Some OAddExt
  | IdAddExtLong => Some OAddExtLong | IdRescaleDown => Some ORescaleDown | IdRescaleUp => Some ORescaleUp
  | _ => None
  end.

(* '-'.join(items) *)
Fixpoint print_dashed {A} (pr : A -> list stok) (l : list A) : list stok :=
  match l with
  | [] => []
  | [x] => pr x
  | x :: r => pr x ++ KMinus :: print_dashed pr r
  end.

(* f"{type}[" + (f"opts={'-'.join(opts)}, " if opts else "") + f"temp={'-'.join(temp)}, " + f"spat={'-'.join(spat)}]" *)
Definition print_streamer (s : streamer) : list stok :=
  [KId (id_of_type (st_type s)); KLSq] ++
  (match st_opts s with
   | [] => []
   | os => [KId IdOpts; KEq] ++ print_dashed (fun o => [KId (id_of_opt o)]) os ++ [KComma]
   end) ++
  [KId IdTemp; KEq] ++ print_dashed (fun f => [KId (id_of_flag f)]) (st_temp s) ++ [KComma] ++
  [KId IdSpat; KEq] ++ print_dashed print_int (st_spat s) ++ [KRSq].

Fixpoint print_streamers (l : list streamer) : list stok :=
  match l with
  | [] => []
  | [s] => print_streamer s
  | s :: r => print_streamer s ++ KComma :: print_streamers r
  end.

(* the system type is not printed *)
Definition print_cfg (c : sconfig) : list stok := KLt :: print_streamers (sc_streamers c) ++ [KGt].

(* while not optional(stop): item; optional("-") *)
Fixpoint parse_ids {A} (of_id : ident -> option A) (stop : stok) (toks : list stok) : option (list A * list stok) :=
  match toks with
  | [] => None
  | t :: rest =>
      if stok_eqb t stop then Some ([], rest)
      else match t with
           | KId i =>
               match of_id i with
               | None => None
               | Some v =>
                   match (match rest with
                          | KMinus :: r => parse_ids of_id stop r
                          | _ => parse_ids of_id stop rest
                          end) with
                   | Some (vs, rest') => Some (v :: vs, rest')
                   | None => None
                   end
               end
           | _ => None
           end
  end.

(* while not optional("]"): parse_integer(allow_boolean=False, allow_negative=False); optional("-") *)
Fixpoint parse_spat (toks : list stok) : option (list Z * list stok) :=
  match toks with
  | [] => None
  | KRSq :: rest => Some ([], rest)
  | KInt z :: rest =>
      match (match rest with
             | KMinus :: r => parse_spat r
             | _ => parse_spat rest
             end) with
      | Some (vs, rest') => Some (z :: vs, rest')
      | None => None
      end
  | _ => None
  end.

Definition parse_streamer (toks : list stok) : option (streamer * list stok) :=
  match toks with
  | KId ti :: KLSq :: r0 =>
      match type_of_id ti with
      | None => None
      | Some ty =>
          let after_opts :=
            match r0 with
            | KId IdOpts :: KEq :: r => parse_ids opt_of_id KComma r
            | KId IdOpts :: _ => None
            | _ => Some ([], r0)
            end in
          match after_opts with
          | Some (opts, KId IdTemp :: KEq :: r1) =>
              match parse_ids flag_of_id KComma r1 with
              | Some (temp, KId IdSpat :: KEq :: r2) =>
                  match parse_spat r2 with
                  | Some (spat, r3) => Some (Streamer ty temp spat opts, r3)
                  | None => None
                  end
              | _ => None
              end
          | _ => None
          end
      end
  | _ => None
  end.

(* while True: streamer; if not optional(","): break *)
Fixpoint parse_streamers (fuel : nat) (toks : list stok) : option (list streamer * list stok) :=
  match fuel with
  | O => None
  | S f =>
      match parse_streamer toks with
      | None => None
      | Some (s, KComma :: r) =>
          match parse_streamers f r with Some (ss, rest) => Some (s :: ss, rest) | None => None end
      | Some (s, r) => Some ([s], r)
      end
  end.

(* StreamerConfiguration(streamers): the system type defaults to Regular *)
Definition parse_cfg (toks : list stok) : option (sconfig * list stok) :=
  match toks with
  | KLt :: r =>
      match parse_streamers (length r) r with
      | Some (ss, KGt :: rest) => Some (SConfig ss SysRegular, rest)
      | _ => None
      end
  | _ => None
  end.

(* ---- equality for L1 --------------------------------------------------------------------------- *)
Definition stype_eqb (a b : stype) := match a, b with SReader, SReader | SWriter, SWriter => true | _, _ => false end.
Definition sflag_eqb (a b : sflag) :=
  match a, b with FNormal, FNormal | FIrrelevant, FIrrelevant | FReuse, FReuse => true | _, _ => false end.
Definition sopt_eqb (a b : sopt) :=
  match a, b with
  | OAddrRemap, OAddrRemap | OChanMask, OChanMask | OByteMask, OByteMask | OBroadcast, OBroadcast
  | OMaxpool, OMaxpool | OMemset, OMemset | OTranspose, OTranspose | OAddExt, OAddExt | OAddExtLong, OAddExtLong
  | ORescaleDown, ORescaleDown | ORescaleUp, ORescaleUp => true
  | _, _ => false
  end.
Definition ssys_eqb (a b : ssys) := match a, b with SysRegular, SysRegular | SysXdma, SysXdma => true | _, _ => false end.
Definition streamer_eqb (a b : streamer) : bool :=
  stype_eqb (st_type a) (st_type b) && list_eqb sflag_eqb (st_temp a) (st_temp b)
  && list_eqb Z.eqb (st_spat a) (st_spat b) && list_eqb sopt_eqb (st_opts a) (st_opts b).
Definition sconfig_eqb (a b : sconfig) : bool :=
  list_eqb streamer_eqb (sc_streamers a) (sc_streamers b) && ssys_eqb (sc_sys a) (sc_sys b).
Definition opt_cfg_eqb (a b : option sconfig) : bool :=
  match a, b with Some x, Some y => sconfig_eqb x y | None, None => true | _, _ => false end.
Definition toks_eqb := list_eqb stok_eqb.
