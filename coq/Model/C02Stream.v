(* C02 — hand model (H) of
     snaxc/transforms/dart/dart_layout_resolution.py   LayoutResolution (unit-response extraction,
                                                       after `fix:` relative to the zero response)
     snaxc/transforms/convert_dart_to_snax_stream.py   ConvertStreamToSnaxStreamPattern (per operand)
     (StridePattern.canonicalize is not modelled by hand: Gen/StrideCanon.v via Model/C02GenCanon.v)
   and of the streamer semantics (8-byte words).  Executable definitions only. *)
From Snax Require Import Base.Prelude Base.ListAux.

(* ======================= layout resolution ================================================== *)
(* generate_one_list(n, i) *)
Definition unit_vec (n i : nat) : list Z := map (fun j => if Nat.eqb j i then 1 else 0) (seq 0 n).
Definition zero_vec (n : nat) : list Z := repeat 0 n.

(* strides[i] = access_mem_map.eval(e_i) - access_mem_map.eval(0)      (repaired code)
   the pre-repair code did not subtract the zero response: *)
Definition resolve (f : list Z -> Z) (n : nat) : list Z :=
  map (fun i => f (unit_vec n i) - f (zero_vec n)) (seq 0 n).
Definition resolve_unrepaired (f : list Z -> Z) (n : nat) : list Z :=
  map (fun i => f (unit_vec n i)) (seq 0 n).

(* the constant term goes to the base pointer: `arith.addi (extract_aligned_pointer m) (f 0)` (repaired F5b) *)
Definition resolve_base (f : list Z -> Z) (n : nat) : Z := f (zero_vec n).

Definition dot (a b : list Z) : Z := zsum (map (fun p => fst p * snd p) (combine a b)).

(* the composed access->memory map for the layouts the compiler produces *)
(* schedule pattern: index_d = sum_j A[d][j] * x_j + b[d] *)
Definition sched_eval (A : list (list Z)) (b : list Z) (x : list Z) : list Z :=
  map (fun rb => dot (fst rb) x + snd rb) (combine A b).
(* strided layout: (sum_d strides_d * idx_d + offset) * elsize *)
Definition strided_bytes (strides : list Z) (offset elsize : Z) (idx : list Z) : Z :=
  (dot strides idx + offset) * elsize.
(* tiled-strided layout, one dim: sum over depths of step * ((i mod prod(bounds[depth:])) / prod(bounds[depth+1:]))
   (depth 0 without the modulo), as TiledStridedLayoutAttr.get_affine_map builds it *)
Fixpoint tsl_dim (first : bool) (tiles : list (Z * Z)) (i : Z) : Z :=   (* (step, bound) outermost first *)
  match tiles with
  | [] => 0
  | (step, bound) :: rest =>
      let fdiv := zprod (map snd rest) in
      let md := bound * fdiv in
      step * ((if first then i else i mod md) / fdiv) + tsl_dim false rest i
  end.
Definition tsl_bytes (tl : list (list (Z * Z))) (elsize : Z) (idx : list Z) : Z :=
  zsum (map (fun ti => tsl_dim true (fst ti) (snd ti)) (combine tl idx)) * elsize.

Inductive mlayout := LStrided (strides : list Z) (offset : Z) | LTsl (tiles : list (list (Z * Z))).
Definition layout_bytes (l : mlayout) (elsize : Z) (idx : list Z) : Z :=
  match l with
  | LStrided s o => strided_bytes s o elsize idx
  | LTsl t => tsl_bytes t elsize idx
  end.
Definition access_mem (l : mlayout) (elsize : Z) (A : list (list Z)) (b : list Z) (x : list Z) : Z :=
  layout_bytes l elsize (sched_eval A b x).

(* the box of a schedule *)
Fixpoint in_box (x bounds : list Z) : Prop :=
  match x, bounds with
  | [], [] => True
  | xi :: x', bi :: b' => 0 <= xi < bi /\ in_box x' b'
  | _, _ => False
  end.

(* ======================= conversion to a StridePattern ========================================= *)
Inductive cerr := EStop | EAssert | EZeroDiv | ENonContig | ENotImpl.
Inductive res (A : Type) := Ok (a : A) | Err (e : cerr).
Arguments Ok {A} a. Arguments Err {A} e.

Record spattern := mkSP { sp_ub : list Z; sp_ts : list Z; sp_ss : list Z }.
Definition dim := (Z * Z)%type.           (* (stride, bound) *)

Definition TCDM : Z := 8.

(* next(access_iter, (None, None)) *)
Definition pop_opt (rest : list dim) : option dim * list dim :=
  match rest with [] => (None, []) | d :: r => (Some d, r) end.

(* Fetch the first stride + bank-width packing *)
Definition first_dim (dims : list dim) : res (dim * list dim) :=
  match dims with
  | [] => Err EStop
  | (s, b) :: rest =>
      if s * b =? TCDM then match rest with [] => Err EStop | d :: r => Ok (d, r) end
      else if s * b <? TCDM then match rest with [] => Err EStop | d :: r => Ok (d, r) end
      else Ok ((TCDM, (s * b) / TCDM), rest)
  end.

(* for spat_size in streamers[operand].spatial_dims *)
Fixpoint fill_spatial (bcast : bool) (spats : list Z) (cur : option dim) (rest : list dim) (ss : list Z)
  : res (list Z * option dim * list dim) :=
  match spats with
  | [] => Ok (ss, cur, rest)
  | sp :: spats' =>
      match cur with
      | None => Err EAssert
      | Some (s, b) =>
          if b =? sp then
            let '(c, r) := pop_opt rest in fill_spatial bcast spats' c r (ss ++ [s])
          else if b <? sp then
            if b =? 0 then Err EZeroDiv
            else if negb (sp mod b =? 0) then Err EAssert
            else
              let astride := s * b in
              let abound := sp / b in
              match rest with
              | [] => Err EStop
              | (ns, nb) :: r =>
                  if negb (astride =? ns) then
                    if (ns =? 0) && bcast then fill_spatial bcast spats' (Some (0, nb / abound)) r (ss ++ [s])
                    else Err ENonContig
                  else fill_spatial bcast spats' (Some (astride * abound, nb / abound)) r (ss ++ [s])
              end
          else Err ENotImpl
      end
  end.

(* dims: the relevant (stride, bound) pairs, innermost first *)
Definition to_pattern (bcast : bool) (spats : list Z) (dims : list dim) : res spattern :=
  match first_dim dims with
  | Err e => Err e
  | Ok (d, rest) =>
      match fill_spatial bcast spats (Some d) rest [] with
      | Err e => Err e
      | Ok (ss, cur, rest') =>
          let temporal := match cur with Some c => c :: rest' | None => [] end in
          Ok (mkSP (map snd temporal) (map fst temporal) ss)
      end
  end.

(* relevance mask: all temporal dims + template dims with a component; then reversed *)
Definition relevant_dims (strides bounds : list Z) (relevant : list bool) : list dim :=
  rev (map fst (filter snd (combine (combine strides bounds) relevant))).

(* StridePattern.canonicalize: see Model/C02GenCanon.v (the generated definition is used) *)

(* ======================= semantics ================================================================ *)
(* loop nest, dimension 0 innermost: addresses in issue order *)
Fixpoint nest (dims : list dim) : list Z :=
  match dims with
  | [] => [0]
  | (s, b) :: r => flat_map (fun o => map (fun i => o + i * s) (zrange b)) (nest r)
  end.
(* bytes of a unit of `w` bytes at address a *)
Definition bytes_at (w a : Z) : list Z := map (fun k => a + k) (zrange w).
Definition byte_stream (w : Z) (addrs : list Z) : list Z := flat_map (bytes_at w) addrs.

(* the words a stride pattern touches, in order: spatial ports innermost, then the temporal nest *)
Definition pattern_dims (p : spattern) (spats : list Z) : list dim :=
  combine (sp_ss p) spats ++ combine (sp_ts p) (sp_ub p).
Definition pattern_words (p : spattern) (spats : list Z) : list Z := nest (pattern_dims p spats).

(* Safe class of the conversion (side conditions of pattern_bytes_eq):
   the innermost relevant dim is contiguous in elements of `elsize` bytes and fills whole words;
   every spatial merge divides; no broadcast-merge *)
Definition first_okb (elsize : Z) (dims : list dim) : bool :=
  match dims with
  | (s, b) :: _ => (s =? elsize) && (0 <? elsize) && (0 <? b) && ((s * b) mod TCDM =? 0)
  | [] => false
  end.

Fixpoint fill_okb (spats : list Z) (cur : option dim) (rest : list dim) : bool :=
  match spats with
  | [] => true
  | sp :: spats' =>
      match cur with
      | None => false
      | Some (s, b) =>
          if b =? sp then let '(c, r) := pop_opt rest in (0 <? b) && fill_okb spats' c r
          else if b <? sp then
            match rest with
            | (ns, nb) :: r =>
                (0 <? b) && (sp mod b =? 0) && (s * b =? ns) && (0 <=? nb) && (nb mod (sp / b) =? 0)
                && fill_okb spats' (Some (s * b * (sp / b), nb / (sp / b))) r
            | [] => false
            end
          else false
      end
  end.

Definition convert_okb (elsize : Z) (spats : list Z) (dims : list dim) : bool :=
  first_okb elsize dims
  && forallb (fun d => 0 <=? snd d) dims
  && match first_dim dims with
     | Ok (d, rest) => fill_okb spats (Some d) rest
     | Err _ => false
     end.
