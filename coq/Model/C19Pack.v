(* C19 (c) — hand model (H) of snaxc/util/pack_bitlist.py.
   pack_bitlist emits a list of arith ops (constants, shli, a queue-shaped ori tree).  The model
   produces the same op list (L1: exact comparison with the ops the real generator yields) and an
   evaluator of such op lists at bit width w.  Executable definitions only. *)
From Snax Require Import Base.Prelude.

(* an input of pack_bitlist: a Python int or an already existing SSA value (numbered by the harness) *)
Inductive pk_operand := PInt (z : Z) | PVal (i : nat).
(* operand of an emitted op: an existing SSA value or the result of the k-th emitted op *)
Inductive pk_ref := RExt (i : nat) | RRes (k : nat).
Inductive pk_op :=
  | OpConst (z : Z)              (* arith.ConstantOp.from_int_and_width(z, dtype) *)
  | OpShl (a b : pk_ref)         (* arith.ShLIOp(value, offset) *)
  | OpOr (a b : pk_ref).         (* arith.OrIOp(a, b) *)

(* xDSL IntegerAttr(value, IntegerType(w)): a signless value must lie in [-2^(w-1), 2^w) (else
   VerifyException) and is normalised to the signed representative. *)
Definition const_in_range (w z : Z) : bool := (- 2 ^ (w - 1) <=? z) && (z <? 2 ^ w).
Definition const_norm (w z : Z) : Z := if 2 ^ (w - 1) <=? z then z - 2 ^ w else z.

(* `if isinstance(x, int): yield (c := ConstantOp.from_int_and_width(x, dtype)) else: c = SSAValue.get(x)` *)
Definition pk_materialize (w : Z) (x : pk_operand) (next : nat) : list pk_op * pk_ref * nat :=
  match x with
  | PInt z => ([OpConst (const_norm w z)], RRes next, S next)
  | PVal i => ([], RExt i, next)
  end.

(* the first loop: per (value, offset) pair: [offset const]; [value const]; shli *)
Fixpoint pack_shifts (w : Z) (vos : list (pk_operand * pk_operand)) (next : nat) : list pk_op * list pk_ref :=
  match vos with
  | [] => ([], [])
  | (v, o) :: rest =>
      let '(ops_o, ro, n1) := pk_materialize w o next in
      let '(ops_v, rv, n2) := pk_materialize w v n1 in
      let '(ops_r, refs) := pack_shifts w rest (S n2) in
      (ops_o ++ ops_v ++ OpShl rv ro :: ops_r, RRes n2 :: refs)
  end.

(* while len(shifted_vals) > 1: a, b, *rest = shifted_vals; yield or(a,b); shifted_vals = [*rest, or]
   fuel = len(shifted_vals): the queue shrinks by one each round *)
Fixpoint pack_ors (fuel : nat) (q : list pk_ref) (next : nat) : list pk_op :=
  match fuel with
  | O => []
  | S f =>
      match q with
      | a :: b :: rest => OpOr a b :: pack_ors f (rest ++ [RRes next]) (S next)
      | _ => []
      end
  end.

Definition operand_in_range (w : Z) (x : pk_operand) : bool :=
  match x with PInt z => const_in_range w z | PVal _ => true end.

(* zip(values, offsets, strict=True) raises on a length mismatch, from_int_and_width on an integer
   that does not fit dtype -> None (the generator is consumed with list(...)) *)
Definition pack_bitlist (vs os : list pk_operand) (w : Z) : option (list pk_op) :=
  if (length vs =? length os)%nat
     && forallb (fun vo => operand_in_range w (fst vo) && operand_in_range w (snd vo)) (combine vs os) then
    let '(ops, refs) := pack_shifts w (combine vs os) 0 in
    Some (ops ++ pack_ors (length refs) refs (length ops))
  else None.

(* ---- evaluation of an emitted op list at width w -------------------------------------------- *)
Definition wrap (w z : Z) : Z := z mod 2 ^ w.

Section Eval.
  Variable w : Z.
  Variable ext : nat -> Z.          (* run-time value of the existing SSA values *)

  Definition ref_val (res : list Z) (r : pk_ref) : Z :=
    match r with RExt i => wrap w (ext i) | RRes k => nth k res 0 end.

  (* shli: shift in Z, keep the low w bits (an amount >= w gives 0; MLIR calls that poison) *)
  Definition eval_op (res : list Z) (op : pk_op) : Z :=
    match op with
    | OpConst z => wrap w z
    | OpShl a b => wrap w (Z.shiftl (ref_val res a) (ref_val res b))
    | OpOr a b => Z.lor (ref_val res a) (ref_val res b)
    end.

  Definition run_ops (ops : list pk_op) (res : list Z) : list Z :=
    fold_left (fun res op => res ++ [eval_op res op]) ops res.

  (* callers use ops[-1].result *)
  Definition pack_result (ops : list pk_op) : Z := last (run_ops ops []) 0.

  Definition operand_val (x : pk_operand) : Z :=
    match x with PInt z => wrap w z | PVal i => wrap w (ext i) end.

  (* the specification: or of the shifted values, low w bits *)
  Definition pack_spec (vs os : list pk_operand) : Z :=
    wrap w (fold_right Z.lor 0
             (map (fun vo => Z.shiftl (operand_val (fst vo)) (operand_val (snd vo))) (combine vs os))).
End Eval.

(* any other shape of or-tree over the same shifted fields (used to state shape independence) *)
Inductive ortree := OLeaf (z : Z) | ONode (l r : ortree).
Fixpoint ot_eval (t : ortree) : Z :=
  match t with OLeaf z => z | ONode l r => Z.lor (ot_eval l) (ot_eval r) end.
Fixpoint ot_leaves (t : ortree) : list Z :=
  match t with OLeaf z => [z] | ONode l r => ot_leaves l ++ ot_leaves r end.

(* decidable equality for L1 *)
Definition pk_ref_eqb (a b : pk_ref) : bool :=
  match a, b with
  | RExt i, RExt j => (i =? j)%nat
  | RRes i, RRes j => (i =? j)%nat
  | _, _ => false
  end.
Definition pk_op_eqb (a b : pk_op) : bool :=
  match a, b with
  | OpConst x, OpConst y => x =? y
  | OpShl a1 b1, OpShl a2 b2 => pk_ref_eqb a1 a2 && pk_ref_eqb b1 b2
  | OpOr a1 b1, OpOr a2 b2 => pk_ref_eqb a1 a2 && pk_ref_eqb b1 b2
  | _, _ => false
  end.
Definition pk_out_eqb (a b : option (list pk_op)) : bool :=
  match a, b with
  | Some x, Some y => list_eqb pk_op_eqb x y
  | None, None => true
  | _, _ => false
  end.
