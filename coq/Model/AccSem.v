(* AccSem — executable big-step semantics of the abstract accfg IR (AccIR.v).
   Executable definitions only (lemmas: Proofs/AccSemProofs.v).

   Machine state [mstate]:
     env    : val -> Z            flat SSA environment (ids are unique; state/token-typed ids are
                                  never read, they are ghosts)
     regs   : acc -> field -> Z   configuration registers of every accelerator
     known  : acc -> list field   fields written by the program since the last clobber (a set)
     ncalls : nat                 number of SCall executed so far + 1 (index into the oracle)
     tr     : list event          observable trace, NEWEST FIRST ([run] reverses it)

   Oracle (everything the program text does not determine; theorems quantify over it):
     o_adv n a f     register contents after the n-th dynamic call if that call has effects
                     (o_adv 0 = initial register contents)
     o_res n tag i args   i-th result of the n-th dynamic call when the op is not pure
     o_pure tag i args    i-th result of a pure opaque op (function of its operands only)

   Events:  ELaunch a kn rg lv  | EAwait a | ECall tag n argvals | EReset a
     kn = fields of [a] written since the last clobber, rg = the whole register function of [a]
     at the launch, lv = launch-field values.

   Loops: trip count = max 0 ceil((ub-lb)/step) for step > 0 (0 otherwise), executed by
   [iter_n] (recursion on the nat trip count, iteration k binds iv := lb + k*step), so
   "for all trip counts" is an induction on nat.  After the loop results := block arguments. *)
From Snax Require Import Base.Prelude Model.AccIR.

Record oracle := mkOracle {
  o_adv : nat -> acc -> field -> Z;
  o_res : nat -> nat -> nat -> list Z -> Z;
  o_pure : nat -> nat -> list Z -> Z
}.

Inductive event :=
| ELaunch (a : acc) (kn : list field) (rg : field -> Z) (lv : list (field * Z))
| EAwait (a : acc)
| ECall (tag : nat) (n : nat) (args : list Z)
| EReset (a : acc).

Definition envT := val -> Z.

Record mstate := mkSt {
  env : envT;
  regs : acc -> field -> Z;
  known : acc -> list field;
  ncalls : nat;
  tr : list event
}.

Definition upd {A} (m : nat -> A) (k : nat) (v : A) : nat -> A :=
  fun k' => if Nat.eqb k' k then v else m k'.

Fixpoint bind_list (ks : list val) (vs : list Z) (e : envT) : envT :=
  match ks, vs with
  | k :: ks', v :: vs' => bind_list ks' vs' (upd e k v)
  | _, _ => e
  end.

Definition set_env (m : mstate) (e : envT) : mstate :=
  mkSt e (regs m) (known m) (ncalls m) (tr m).
Definition emit (m : mstate) (ev : event) : mstate :=
  mkSt (env m) (regs m) (known m) (ncalls m) (ev :: tr m).

(* ---- pure expressions ----------------------------------------------------------- *)
Definition b2z (b : bool) : Z := if b then 1 else 0.

Definition eval_binop (o : binop) (x y : Z) : Z :=
  match o with
  | BAdd => x + y | BSub => x - y | BMul => x * y
  | BDivS => Z.quot x y | BRemS => Z.rem x y | BFloorDiv => x / y
  | BMin => Z.min x y | BMax => Z.max x y
  | BAnd => Z.land x y | BOr => Z.lor x y | BXor => Z.lxor x y
  | BShl => Z.shiftl x y | BShrS => Z.shiftr x y
  end.

Definition eval_cmpop (c : cmpop) (x y : Z) : Z :=
  b2z match c with
      | CEq => x =? y | CNe => negb (x =? y) | CLt => x <? y | CLe => x <=? y
      | CGt => y <? x | CGe => y <=? x
      end.

Definition eval_pexp (e : envT) (p : pexp) : Z :=
  match p with
  | PConst z => z
  | PId a => e a
  | PBin o a b => eval_binop o (e a) (e b)
  | PCmp c a b => eval_cmpop c (e a) (e b)
  | PSelect c a b => if e c =? 0 then e b else e a
  end.

(* ---- registers ------------------------------------------------------------------- *)
Fixpoint write_fields (e : envT) (fs : list (field * val)) (r : field -> Z) : field -> Z :=
  match fs with
  | [] => r
  | (f, v) :: fs' => write_fields e fs' (upd r f (e v))
  end.

Definition mem_nat (x : nat) (l : list nat) : bool := existsb (Nat.eqb x) l.

Fixpoint add_known (fs : list field) (k : list field) : list field :=
  match fs with
  | [] => k
  | f :: fs' => add_known fs' (if mem_nat f k then k else f :: k)
  end.

(* ---- loops ----------------------------------------------------------------------- *)
Definition trip_count (lb ub step : Z) : nat :=
  if step <=? 0 then 0%nat else Z.to_nat ((ub - lb + step - 1) / step).

(* iter_n n f a = f (n-1) (... (f 1 (f 0 a))) *)
Fixpoint iter_n {A} (n : nat) (f : nat -> A -> A) (a : A) : A :=
  match n with
  | 0%nat => a
  | S n' => f n' (iter_n n' f a)
  end.

Fixpoint call_results (orc : oracle) (pure : bool) (n tag : nat) (i : nat) (dsts : list val) (argv : list Z)
         (e : envT) : envT :=
  match dsts with
  | [] => e
  | d :: ds => call_results orc pure n tag (S i) ds argv
                 (upd e d (if pure then o_pure orc tag i argv else o_res orc n tag i argv))
  end.

Section Exec.
Variable orc : oracle.

Definition exec_setup (a : acc) (fs : list (field * val)) (m : mstate) : mstate :=
  mkSt (env m) (upd (regs m) a (write_fields (env m) fs (regs m a)))
       (upd (known m) a (add_known (map fst fs) (known m a))) (ncalls m) (tr m).

Definition exec_call (tag : nat) (eff pure : bool) (dsts args : list val) (m : mstate) : mstate :=
  let argv := map (env m) args in
  let n := ncalls m in
  let e' := call_results orc pure n tag 0%nat dsts argv (env m) in
  mkSt e'
       (if eff then o_adv orc n else regs m)
       (if eff then (fun _ => []) else known m)
       (S n) (ECall tag n argv :: tr m).

(* one loop iteration: bind iv, run the body, rebind the block arguments to the yielded values *)
Definition for_step (exec_body : mstate -> mstate) (iv : val) (bargs : list val) (yields : list val)
           (l s : Z) (k : nat) (mk : mstate) : mstate :=
  let m1 := set_env mk (upd (env mk) iv (l + Z.of_nat k * s)) in
  let m2 := exec_body m1 in
  set_env m2 (bind_list bargs (map (env m2) yields) (env m2)).

Definition exec_for (exec_body : mstate -> mstate) (iv lb ub st : val) (iters : list (val * val * ty))
           (results yields : list val) (m : mstate) : mstate :=
  let l := env m lb in
  let u := env m ub in
  let s := env m st in
  let bargs := map it_arg iters in
  let m0 := set_env m (bind_list bargs (map (fun x => env m (it_init x)) iters) (env m)) in
  let mN := iter_n (trip_count l u s) (for_step exec_body iv bargs yields l s) m0 in
  set_env mN (bind_list results (map (env mN) bargs) (env mN)).

Definition exec_if (exec_thn exec_els : mstate -> mstate) (c : val) (results : list (val * ty))
           (thn_y els_y : list val) (m : mstate) : mstate :=
  if env m c =? 0
  then let m' := exec_els m in set_env m' (bind_list (map fst results) (map (env m') els_y) (env m'))
  else let m' := exec_thn m in set_env m' (bind_list (map fst results) (map (env m') thn_y) (env m')).

Fixpoint exec_stmt (s : stmt) (m : mstate) {struct s} : mstate :=
  let exec_blk := fix exec_blk (b : list stmt) (m : mstate) {struct b} : mstate :=
    match b with
    | [] => m
    | x :: b' => exec_blk b' (exec_stmt x m)
    end in
  match s with
  | SPure d e => set_env m (upd (env m) d (eval_pexp (env m) e))
  | SCall tag eff pure dsts args => exec_call tag eff pure dsts args m
  | SSetup a _ _ fs => exec_setup a fs m
  | SLaunch a _ _ fs =>
      emit m (ELaunch a (known m a) (regs m a) (map (fun fv => (fst fv, env m (snd fv))) fs))
  | SAwait a _ => emit m (EAwait a)
  | SReset a _ => emit m (EReset a)
  | SFor iv lb ub st iters results body yields =>
      exec_for (exec_blk body) iv lb ub st iters results yields m
  | SIf c results thn thn_y els els_y =>
      exec_if (exec_blk thn) (exec_blk els) c results thn_y els_y m
  end.

Fixpoint exec_block (b : block) (m : mstate) : mstate :=
  match b with
  | [] => m
  | x :: b' => exec_block b' (exec_stmt x m)
  end.

Definition init_state (p : prog) (args : list Z) : mstate :=
  mkSt (bind_list (p_params p) args (fun _ => 0)) (o_adv orc 0%nat) (fun _ => []) 1%nat [].

Definition final_state (p : prog) (args : list Z) : mstate := exec_block (p_body p) (init_state p args).

(* the observable trace, oldest event first *)
Definition run (p : prog) (args : list Z) : list event := rev (tr (final_state p args)).

End Exec.

(* ---- comparing traces (executable) -------------------------------------------------
   [ev_sim_b o t]: event [t] of the optimised run simulates event [o] of the original run:
   same kind/accelerator/launch values, and at a launch the registers agree on every field
   the ORIGINAL run has written since the last clobber. *)
Definition lv_eqb (a b : field * Z) : bool := Nat.eqb (fst a) (fst b) && Z.eqb (snd a) (snd b).

Definition ev_sim_b (o t : event) : bool :=
  match o, t with
  | ELaunch a kn rg lv, ELaunch a' _ rg' lv' =>
      Nat.eqb a a' && list_eqb lv_eqb lv lv' && forallb (fun f => rg f =? rg' f) kn
  | EAwait a, EAwait a' => Nat.eqb a a'
  | ECall g n ar, ECall g' n' ar' => Nat.eqb g g' && Nat.eqb n n' && list_eqb Z.eqb ar ar'
  | EReset a, EReset a' => Nat.eqb a a'
  | _, _ => false
  end.

Definition trace_sim_b (o t : list event) : bool := list_eqb ev_sim_b o t.

(* printable form of an event (register function restricted to the known fields, sorted as stored) *)
Inductive pevent :=
| PLaunch (a : acc) (known_regs : list (field * Z)) (lv : list (field * Z))
| PAwait (a : acc)
| PCall (tag n : nat) (args : list Z)
| PReset (a : acc).

Definition show_event (e : event) : pevent :=
  match e with
  | ELaunch a kn rg lv => PLaunch a (map (fun f => (f, rg f)) kn) lv
  | EAwait a => PAwait a
  | ECall g n ar => PCall g n ar
  | EReset a => PReset a
  end.

(* registers of the optimised run shown on the original run's known fields *)
Definition show_against (o t : event) : pevent :=
  match o, t with
  | ELaunch _ kn _ _, ELaunch a' _ rg' lv' => PLaunch a' (map (fun f => (f, rg' f)) kn) lv'
  | _, _ => show_event t
  end.

(* a concrete oracle family for vm_compute runs: values far away from program values *)
Definition test_oracle (seed : Z) : oracle :=
  mkOracle (fun n a f => 1000003 * seed + 7919 * Z.of_nat n + 101 * Z.of_nat a + Z.of_nat f + 500000)
           (fun n g i ar => 900001 * seed + 31 * Z.of_nat n + 7 * Z.of_nat g + Z.of_nat i + zsum ar + 300000)
           (fun g i ar => 13 * Z.of_nat g + Z.of_nat i + 3 * zsum ar + 700000).
