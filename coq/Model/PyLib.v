(* Runtime library of translator/py2coq.py: the option monad (None = a Python exception, a failed
   assert or fuel exhaustion), the outcome of a statement block, and small list helpers.
   Generated files (coq/Gen/*.v) import this. Definitions only. *)
From Snax Require Import Base.Prelude.

(* A statement block either returns from the function or falls through with the rebound locals. *)
Inductive outcome (R L : Type) : Type := Ret (r : R) | Cont (l : L).
Arguments Ret {R L} r.
Arguments Cont {R L} l.

Notation "'bind' x <- e ; k" := (match e with Some x => k | None => None end)
  (at level 200, x pattern, e at level 100, k at level 200, right associativity, only parsing).

Definition is_some {A} (o : option A) : bool := match o with Some _ => true | None => false end.
Definition is_none {A} (o : option A) : bool := match o with Some _ => false | None => true end.

(* tuple(f(x) for x in xs) with a partial f *)
Fixpoint mapM {A B} (f : A -> option B) (l : list A) : option (list B) :=
  match l with
  | [] => Some []
  | x :: xs => match f x with
               | Some y => match mapM f xs with Some ys => Some (y :: ys) | None => None end
               | None => None
               end
  end.

(* xs[-1] (None = IndexError) and xs[-1] = v *)
Definition list_last {A} (l : list A) : option A :=
  match rev l with x :: _ => Some x | [] => None end.
Definition list_set_last {A} (l : list A) (v : A) : option (list A) :=
  match rev l with _ :: r => Some (rev (v :: r)) | [] => None end.
