(* C15 — model of the software pipeliner:
     snaxc/transforms/pipeline/construct_pipeline.py      (stage / ins / outs extraction)
     snaxc/transforms/pipeline/pipeline_duplicate_buffers.py (which buffers get a second copy,
                                                              parity select  idx mod 2)
     snaxc/transforms/pipeline/unroll_pipeline.py          (prologue / steady loop / epilogue)

   A loop of the recognised shape is described by its stages; each stage is a list of ops with
   operand descriptors:
     Fixed b        a loop-invariant buffer (memref.alloc result or function argument) b
     Tile b s       an index-dependent view: buffer b at offset idx*s (computed by the index ops)
   The schedule works on pairs (stage, index value).  All index arithmetic is in Z and mirrors
   the pass literally: the prologue uses the ABSOLUTE constants i-j, the loop starts at the
   ABSOLUTE constant S-1, the epilogue uses ub-(i-j+1): lb and step of the original loop are
   not consulted (the code's own TODO), which is what the refutations exhibit.  Which loops the
   pass touches at all is decided by [recognised] (lb, step, and the scan of the loop body).  *)
From Snax Require Import Base.Prelude Base.ListAux Model.MultiCore.

Inductive operand := Fixed (b : Z) | Tile (b : Z) (stride : Z).

Record sop := mkSop {
  s_vid : Z;                 (* identity of the original op *)
  s_core : Z;                (* 1 = DM core (memref.copy), 0 = compute core *)
  s_ins : list operand;      (* operands ConstructPipeline lists as stage inputs *)
  s_outs : list operand;     (* ... as stage outputs *)
  s_acc : bool               (* the op also reads its outputs (linalg body uses the out value) *)
}.

Definition stage := list sop.

Record pipe := mkPipe {
  p_stages : list stage;
  p_allocs : list Z          (* buffers defined by memref.alloc (the others are arguments) *)
}.

(* ------------------------------------------------------------------ schedule on pairs --- *)
Definition pair := (nat * Z)%type.       (* (stage, index value) *)
Definition phase := list pair.

(* trip count and index values of `scf.for lb to ub step st` (st > 0) *)
Definition trip (lb ub st : Z) : Z := if st <=? 0 then 0 else Z.max 0 ((ub - lb + st - 1) / st).
Definition loop_indices (lb ub st : Z) : list Z := map (fun q => lb + q * st) (zrange (trip lb ub st)).

(* the original loop: per index value, all stages in order *)
Definition seq_pairs (S : nat) (lb ub st : Z) : list phase :=
  map (fun idx => map (fun k => (k, idx)) (seq 0 S)) (loop_indices lb ub st).

(* UnrollPipeline step 0: for i in range(S-1): index constant i; stages j = 0..i at index_ops[i-j] *)
Definition prologue (S : nat) : list phase :=
  map (fun i => map (fun j => (j, Z.of_nat i - Z.of_nat j)) (seq 0 (i + 1))) (seq 0 (S - 1)).

(* steps 2,3,4: loop from the constant S-1 to ub with the original step; stage k at i-k *)
Definition steady (S : nat) (ub st : Z) : list phase :=
  map (fun i => map (fun k => (k, i - Z.of_nat k)) (seq 0 S)) (loop_indices (Z.of_nat S - 1) ub st).

(* step 1: groups i = 0..S-2 are inserted right after the loop one after the other, so they run
   in the order i = S-2, ..., 0; group i: for j in reversed(range(i+1)): stage S-1-j at
   index ub-(i-j+1) *)
Definition epilogue_group (S : nat) (ub : Z) (i : nat) : phase :=
  map (fun j => ((S - 1 - j)%nat, ub - (Z.of_nat (i - j) + 1))) (rev (seq 0 (i + 1))).
Definition epilogue (S : nat) (ub : Z) : list phase :=
  map (epilogue_group S ub) (rev (seq 0 (S - 1))).

Definition unrolled (S : nat) (ub st : Z) : list phase :=
  prologue S ++ steady S ub st ++ epilogue S ub.

(* every barrier-separated phase of the original loop holds one stage *)
Definition seq_phases (S : nat) (lb ub st : Z) : list phase :=
  flat_map (fun idx => map (fun k => [(k, idx)]) (seq 0 S)) (loop_indices lb ub st).

Definition pair_eqb (a b : pair) : bool := Nat.eqb (fst a) (fst b) && (snd a =? snd b).
Definition count_pair (x : pair) (l : list pair) : nat := length (filter (pair_eqb x) l).

(* ------------------------------------------------------------------ buffer duplication --- *)
Definition operand_eqb (a b : operand) : bool :=
  match a, b with
  | Fixed x, Fixed y => x =? y
  | Tile x s, Tile y t => (x =? y) && (s =? t)
  | _, _ => false
  end.
Definition stage_ins (st : stage) : list operand := flat_map s_ins st.
Definition stage_outs (st : stage) : list operand := flat_map s_outs st.
(* occurrences of the SSA value o (a loop-invariant buffer, or a view computed by the index ops:
   ConstructPipeline hands both to the stages as buffer arguments) *)
Definition occ (o : operand) (l : list operand) : nat := length (filter (operand_eqb o) l).

(* number of stage-operand uses of o whose stage lists o among its ins (resp. outs) *)
Definition in_uses (p : pipe) (o : operand) : nat :=
  list_sum (map (fun st => if (0 <? occ o (stage_ins st))%nat
                           then (occ o (stage_ins st) + occ o (stage_outs st))%nat else 0%nat) (p_stages p)).
Definition out_uses (p : pipe) (o : operand) : nat :=
  list_sum (map (fun st => if (0 <? occ o (stage_outs st))%nat
                           then (occ o (stage_ins st) + occ o (stage_outs st))%nat else 0%nat) (p_stages p)).

Fixpoint first_stage (f : stage -> bool) (l : list stage) (k : nat) : nat :=
  match l with
  | [] => k
  | st :: r => if f st then k else first_stage f r (S k)
  end.
Definition in_stage (p : pipe) (o : operand) : nat := first_stage (fun st => (0 <? occ o (stage_ins st))%nat) (p_stages p) 0.
Definition out_stage (p : pipe) (o : operand) : nat := first_stage (fun st => (0 <? occ o (stage_outs st))%nat) (p_stages p) 0.

Inductive dup_decision := Keep | Dup | DupError.

Definition is_alloc (p : pipe) (o : operand) : bool :=
  match o with Fixed b => memb b (p_allocs p) | Tile _ _ => false end.

Definition decide_dup (p : pipe) (o : operand) : dup_decision :=
  if (in_uses p o =? 0)%nat || (out_uses p o =? 0)%nat then Keep
  else if negb ((in_uses p o =? 1)%nat && (out_uses p o =? 1)%nat) then DupError
  else if negb (in_stage p o =? out_stage p o + 1)%nat then DupError
  else if negb (is_alloc p o) then DupError
  else Dup.

Fixpoint fixed_of (l : list operand) : list Z :=
  match l with
  | [] => []
  | Fixed b :: r => b :: fixed_of r
  | Tile _ _ :: r => fixed_of r
  end.
Fixpoint dedup (l : list Z) : list Z :=
  match l with
  | [] => []
  | x :: r => if memb x r then dedup r else x :: dedup r
  end.
Fixpoint dedup_op (l : list operand) : list operand :=
  match l with
  | [] => []
  | x :: r => if existsb (operand_eqb x) r then dedup_op r else x :: dedup_op r
  end.
Definition all_operands (p : pipe) : list operand :=
  flat_map (fun st => stage_ins st ++ stage_outs st) (p_stages p).
Definition operands_of (p : pipe) : list operand := dedup_op (all_operands p).
Definition fixed_buffers (p : pipe) : list Z := dedup (fixed_of (all_operands p)).

(* None = the pass raises NotImplementedError *)
Definition dups (p : pipe) : option (list Z) :=
  if existsb (fun o => match decide_dup p o with DupError => true | _ => false end) (operands_of p)
  then None
  else Some (fixed_of (filter (fun o => match decide_dup p o with Dup => true | _ => false end) (operands_of p))).

(* ------------------------------------------------------------------ op instances ---------- *)
Definition DUPOFF : Z := 1000.
(* injective for buffer ids 0 <= b < 4096 (ids_ok below) and every offset *)
Definition IDLIM : Z := 4096.
Definition bid (b off : Z) : Z := off * IDLIM + b.

(* arith.remui idx, 2 == 0 ? buffer : clone *)
Definition sel (ds : list Z) (idx b : Z) : Z :=
  if memb b ds then (if idx mod 2 =? 0 then b else b + DUPOFF) else b.

Definition ev_operand (ds : list Z) (idx : Z) (o : operand) : Z :=
  match o with
  | Fixed b => bid (sel ds idx b) 0
  | Tile b s => bid b (idx * s)
  end.

Definition s_reads (o : sop) : list operand := s_ins o ++ (if s_acc o then s_outs o else []).

Definition inst (ds : list Z) (idx : Z) (o : sop) : mop :=
  mkOp [s_vid o; idx] (s_core o) (map (ev_operand ds idx) (s_reads o)) (map (ev_operand ds idx) (s_outs o)).

Definition pair_ops (p : pipe) (ds : list Z) (x : pair) : list mop :=
  map (inst ds (snd x)) (nth (fst x) (p_stages p) []).

Definition phase_ops (p : pipe) (ds : list Z) (ph : phase) : list mop := flat_map (pair_ops p ds) ph.

Definition nstages (p : pipe) : nat := length (p_stages p).

(* ------------------------------------------------------------------ the recogniser ----------
   ConstructPipeline skips the leading index ops of the loop body and then scans the rest:
     while the next op is a stage op (memref.copy / linalg.generic / streaming region):
       add it to the current stage; if a snax.cluster_sync_op follows, close the stage and skip
       the barrier; if the scf.yield follows, the pipeline is valid only when the current stage
       is empty (the body ends with a barrier);
     any other op ends the scan, and unless that op is the scf.yield there is no pipeline
     (repo fix ce37edb; before it the pipeline was built from the stages seen so far and the
     remaining ops stayed in the loop body, where they ran for the iterations of the shifted
     steady-state loop only).
   The body after the index ops is given as tokens; [scan cur n l] = number of stages of the
   valid pipeline (cur: the current stage is non-empty, n: stages closed so far), None = the
   pattern does not apply and the loop is left as it is. *)
Inductive btok := TStage | TSync | TOther.

Fixpoint scan (cur : bool) (n : nat) (l : list btok) : option nat :=
  match l with
  | [] => if cur then None else Some n
  | TStage :: r =>
      match r with
      | TSync :: r' => scan false (S n) r'
      | _ => scan true n r
      end
  | _ :: _ => None
  end.

(* ConstructPipeline's guard: constant lb 0, constant step 1, the body is exactly >= 2 stages each
   closed by a barrier (and those are the stages of p) *)
Definition recognised (p : pipe) (lb st : Z) (body : list btok) : bool :=
  (lb =? 0) && (st =? 1) &&
  match scan false 0 body with
  | Some n => (2 <=? n)%nat && (n =? nstages p)%nat
  | None => false
  end.

(* the body of a loop of the recognised shape with the given numbers (-1) of ops per stage *)
Definition groups (gs : list nat) : list btok := flat_map (fun g => repeat TStage (S g) ++ [TSync]) gs.
Definition clean_body (p : pipe) : list btok := groups (map (fun st => (length st - 1)%nat) (p_stages p)).

(* the original loop (one barrier after every stage) and the unrolled one, as phases of op
   instances; the original uses no duplicate *)
Definition seq_events (p : pipe) (lb ub st : Z) : list (list mop) :=
  map (phase_ops p []) (seq_phases (nstages p) lb ub st).
Definition pipe_events (p : pipe) (ds : list Z) (ub st : Z) : list (list mop) :=
  map (phase_ops p ds) (unrolled (nstages p) ub st).
(* the original loop reading/writing the parity-selected copies (reference for the reordering) *)
Definition seq_events_sel (p : pipe) (ds : list Z) (lb ub st : Z) : list (list mop) :=
  map (phase_ops p ds) (seq_phases (nstages p) lb ub st).

(* ------------------------------------------------------------------ checks used by L1/L2 --- *)
Definition mop_eqb_untagged (a b : mop) : bool :=
  (hd 0 (o_name a) =? hd 0 (o_name b)) && (o_core a =? o_core b) &&
  list_eqb Z.eqb (o_reads a) (o_reads b) && list_eqb Z.eqb (o_writes a) (o_writes b).

Definition phases_eqb (a b : list (list mop)) : bool := list_eqb (list_eqb mop_eqb_untagged) a b.

Definition untag (o : mop) : mop := mkOp [hd 0 (o_name o)] (o_core o) (o_reads o) (o_writes o).

(* all phases race free *)
Definition all_drf (phs : list (list mop)) : bool := forallb phase_drfb phs.

(* final memories agree on the given buffers *)
Definition same_result (obs : list Z) (a b : list (list mop)) : bool :=
  mem_eq_on obs (exec (map untag (concat a)) mem0) (exec (map untag (concat b)) mem0).

Definition footprint (phs : list (list mop)) : list Z :=
  flat_map (fun o => o_reads o ++ o_writes o) (concat phs).
Definition within (allowed : list Z) (phs : list (list mop)) : bool :=
  forallb (fun x => memb x allowed) (footprint phs).

(* ------------------------------------------------------------------ safety classes ----------
   Decidable description of the loops for which the reordering is sound.  Every Fixed buffer
   is  read-only | private to one stage | duplicated with an overwriting producer ; every
   tiled buffer is only accessed through tiles of one common non-zero stride and is disjoint
   from the Fixed buffers. *)
Definition writes_fixed (b : Z) (st : stage) : bool := (0 <? occ (Fixed b) (stage_outs st))%nat.
Definition reads_fixed (b : Z) (st : stage) : bool :=
  (0 <? occ (Fixed b) (flat_map s_reads st))%nat.
Definition touches_fixed (b : Z) (st : stage) : bool := writes_fixed b st || reads_fixed b st.

Definition indexed {A} (l : list A) : list (nat * A) := combine (seq 0 (length l)) l.

Definition read_only (p : pipe) (b : Z) : bool := negb (existsb (writes_fixed b) (p_stages p)).
(* touched by at most one stage *)
Definition private_to_one (p : pipe) (b : Z) : bool :=
  forallb (fun ks => forallb (fun ks' =>
     (fst ks =? fst ks')%nat || negb (touches_fixed b (snd ks) && touches_fixed b (snd ks')))
     (indexed (p_stages p))) (indexed (p_stages p)).
(* written only by stage s = out_stage without being read there, read only by stage s+1, which
   does not write it *)
Definition dup_ok (p : pipe) (b : Z) : bool :=
  let s := out_stage p (Fixed b) in
  forallb (fun ks => let '(k, st) := ks in
     (if (k =? s)%nat then negb (reads_fixed b st) else negb (writes_fixed b st)) &&
     (if (k =? s + 1)%nat then true else negb (reads_fixed b st)))
    (indexed (p_stages p)).

(* inside one stage (one barrier-separated phase of the ORIGINAL loop) ops of different cores do
   not touch an operand one of them writes: the original loop itself is race free *)
Definition accessed (o : sop) : list operand := s_reads o ++ s_outs o.
Definition stage_ok (st : stage) : bool :=
  forallb (fun o => forallb (fun o' =>
     (s_core o =? s_core o') ||
     forallb (fun w => negb (existsb (operand_eqb w) (accessed o'))) (s_outs o)) st) st.

Fixpoint nodupb (l : list Z) : bool :=
  match l with
  | [] => true
  | x :: r => negb (memb x r) && nodupb r
  end.

Fixpoint tiles_of (l : list operand) : list (Z * Z) :=
  match l with
  | [] => []
  | Tile b s :: r => (b, s) :: tiles_of r
  | Fixed _ :: r => tiles_of r
  end.
Definition tiles_ok (p : pipe) : bool :=
  let ts := tiles_of (all_operands p) in
  forallb (fun bs => negb (snd bs =? 0) &&
                     forallb (fun bs' => negb (fst bs =? fst bs') || (snd bs =? snd bs')) ts &&
                     negb (memb (fst bs) (fixed_buffers p))) ts.

(* well-formedness of the description: buffer ids small enough for [bid] to be injective, op ids
   distinct *)
Definition ids_ok (p : pipe) : bool :=
  forallb (fun b => (0 <=? b) && (b + DUPOFF <? IDLIM)) (fixed_buffers p ++ map fst (tiles_of (all_operands p))) &&
  nodupb (map s_vid (concat (p_stages p))).

Definition safe_pipe (p : pipe) (ds : list Z) : bool :=
  ids_ok p && forallb stage_ok (p_stages p) &&
  tiles_ok p &&
  forallb (fun b => if memb b ds then dup_ok p b else read_only p b || private_to_one p b) (fixed_buffers p) &&
  forallb (fun b => negb (memb (b + DUPOFF) (fixed_buffers p)) &&
                    negb (memb (b + DUPOFF) (map fst (tiles_of (all_operands p))))) ds.

(* finding classes (used by the L2 classifier): why a loop is outside safe_pipe / the domain *)
Definition small_trip (S : nat) (lb ub st : Z) : bool := trip lb ub st <? Z.of_nat S - 1.
Definition nonunit_loop (lb st : Z) : bool := negb (lb =? 0) || negb (st =? 1).
