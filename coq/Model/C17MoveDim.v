(* C17 — MoveMemrefDims (snaxc/transforms/reuse_memref_allocs.py): executable helpers that
   * tie the size resolution `resolve_dim` (Model/C17Loop.v, theorems C17_move_dim_value, _min_iff) to the replacement
     the real pattern chose (`resolve_at`: the resolution at the position of the matched memref.dim);
   * classify the deliberate refusal `RuntimeError("no constant value found")` of
     get_constant_value_from_affine_min (`prog_has_refused_min`).
   Definitions only (no proofs); added by the audit. *)
From Snax Require Import Base.Prelude Base.ListAux Model.C17Loop.

Definition repl_eqb (a b : repl) : bool :=
  match a, b with
  | RConst x, RConst y => x =? y
  | RVar x, RVar y => Nat.eqb x y
  | RNewDim s i, RNewDim s' i' => Nat.eqb s s' && (i =? i')
  | RMin v c, RMin v' c' => Nat.eqb v v' && (c =? c')
  | _, _ => false
  end.
Definition optrepl_eqb (a b : option repl) : bool :=
  match a, b with Some x, Some y => repl_eqb x y | None, None => true | _, _ => false end.

(* The resolution for the memref.dim at `path` (positions from the outermost block down to the dim op).
   Scopes exactly as in `has_min_dim_op`: Sin = top-level definitions of the body of the nearest loop,
   Sout = everything defined at the enclosing levels.  None: not a dim / not in a loop / index not a
   constant / not resolvable. *)
Fixpoint resolve_at (path : list nat) (Sout : scope) (in_loop : bool) (b : list op) : option repl :=
  match path with
  | [] => None
  | i :: path' =>
    match path' with
    | [] =>
      match nth_error b i with
      | Some (Def _ (PDim src idx)) =>
        if in_loop then
          match cst_of (defs_top b ++ Sout) idx with
          | Some iz => resolve_dim 8 (defs_top b) Sout src iz
          | None => None
          end
        else None
      | _ => None
      end
    | _ =>
      match nth_error b i with
      | Some (For _ _ _ _ body) => resolve_at path' (defs_top b ++ Sout) true body
      | _ => None
      end
    end
  end.

(* ---------------------------------------------------------------- the deliberate refusal *)
(* Mirror of resolve_dim that answers: does the chain end in an affine.min whose FIRST map result is not a
   constant?  can_move_dim accepts every affine.min, get_constant_value_from_affine_min then raises. *)
Definition min_refused (p : option pexpr) : bool :=
  match p with
  | Some (PMin rs) => match first_const rs with Some _ => false | None => true end
  | _ => false
  end.
Fixpoint resolve_refused (fuel : nat) (Sin Sout : scope) (src : var) (idx : Z) : bool :=
  match fuel with
  | O => false
  | S fuel' =>
    match lookup (Sin ++ Sout) src with
    | Some (PSubview _ sizes) =>
      match nth_error sizes (Z.to_nat idx) with
      | Some (DDyn v) =>
        match lookup Sin v with
        | Some (PDim s i) =>
          match cst_of (Sin ++ Sout) i with
          | Some iz => resolve_refused fuel' Sin Sout s iz
          | None => false
          end
        | Some p => min_refused (Some p)
        | None => min_refused (lookup Sout v)
        end
      | _ => false
      end
    | _ => false
    end
  end.
Fixpoint has_refused_dim_op (Sout : scope) (in_loop : bool) (Sin : scope) (o : op) {struct o} : bool :=
  match o with
  | Def _ (PDim src idx) =>
    in_loop &&
    match cst_of (Sin ++ Sout) idx with
    | Some iz => resolve_refused 8 Sin Sout src iz
    | None => false
    end
  | Def _ _ | Eff _ _ => false
  | For _ _ _ _ body => existsb (has_refused_dim_op (Sin ++ Sout) true (defs_top body)) body
  end.
Definition prog_has_refused_min (b : list op) : bool :=
  existsb (has_refused_dim_op [] false (defs_top b)) b.
