(* C12 (ii)/(iii) — hand model (H) of RealizeMemrefCasts (snaxc/transforms/realize_memref_casts.py)
   on a block-structured use-list program, its symbolic buffer-contents semantics, and a type-level
   model of set-memory-space (snaxc/transforms/set_memory_space.py).
   Executable definitions only; proofs in Proofs/C12CastsProofs.v; tied by harness/props/c12.py. *)
From Snax Require Import Base.Prelude.

(* how an operation uses a memref value *)
Inductive kind :=
| KIn       (* linalg/dart input only *)
| KOut      (* linalg/dart output only, the body does not read the output argument *)
| KOutAcc   (* linalg output only, but the body reads the output argument (accumulation):
               since the repair of F23 the pass counts it as an input as well *)
| KInOut    (* listed as input and as output *)
| KOther    (* any other operation: the pass assumes it both reads and writes *)
| KRet.     (* func.return: input only *)

(* classification made by the pass *)
Definition k_is_input (k : kind) : bool :=
  match k with KIn | KInOut | KOther | KRet | KOutAcc => true | KOut => false end.
Definition k_is_output (k : kind) : bool :=
  match k with KOut | KOutAcc | KInOut | KOther => true | KIn | KRet => false end.
(* what the operation really does *)
Definition k_reads (k : kind) : bool := match k with KOut => false | _ => true end.
Definition k_writes (k : kind) : bool := match k with KIn | KRet => false | _ => true end.

Inductive item :=
| IOp (id : nat) (uses : list (nat * kind))
| ICast (dst src : nat) (tyd tys : nat)      (* memory_space_cast / layout_cast with type ids *)
| IAlloc (v : nat)
| ICopy (src dst : nat)
| ILoop (lid : nat) (body : list item).

Definition uses_val (d : nat) (uses : list (nat * kind)) : bool := existsb (fun u => fst u =? d)%nat uses.

(* Some (is_input, is_output) when the item uses value d directly *)
Definition item_flags (d : nat) (it : item) : option (bool * bool) :=
  match it with
  | IOp _ uses =>
      if uses_val d uses
      then Some (existsb (fun u => (fst u =? d)%nat && k_is_input (snd u)) uses,
                 existsb (fun u => (fst u =? d)%nat && k_is_output (snd u)) uses)
      else None
  | ICopy s t => if (s =? d)%nat || (t =? d)%nat then Some (true, true) else None
  | ICast _ s _ _ => if (s =? d)%nat then Some (true, true) else None
  | _ => None
  end.

(* walk order = pre-order; the following are over the flattened walk *)
Fixpoint item_used (d : nat) (it : item) : bool :=
  match it with
  | ILoop _ body => (fix go (l : list item) : bool :=
                       match l with [] => false | x :: r => item_used d x || go r end) body
  | _ => match item_flags d it with Some _ => true | None => false end
  end.
Definition used (d : nat) (l : list item) : bool := existsb (item_used d) l.

Fixpoint item_has_out (d : nat) (it : item) : bool :=
  match it with
  | ILoop _ body => (fix go (l : list item) : bool :=
                       match l with [] => false | x :: r => item_has_out d x || go r end) body
  | _ => match item_flags d it with Some (_, o) => o | None => false end
  end.
Definition has_out (d : nat) (l : list item) : bool := existsb (item_has_out d) l.

(* (input?, output?) flags of the uses of d in walk order *)
Fixpoint walk_flags_item (d : nat) (it : item) : list (bool * bool) :=
  match it with
  | ILoop _ body => (fix go (l : list item) : list (bool * bool) :=
                       match l with [] => [] | x :: r => walk_flags_item d x ++ go r end) body
  | _ => match item_flags d it with Some f => [f] | None => [] end
  end.

(* the first use of d in walk order lies inside this loop item and only writes: the write may not execute
   (zero iterations; scf.if), so the pass copies in BEFORE the enclosing op of the cast's block *)
Definition nested_first_write (d : nat) (it : item) : bool :=
  match it with
  | ILoop _ _ => match walk_flags_item d it with f :: _ => negb (fst f) | [] => false end
  | _ => false
  end.

(* copy-in before the FIRST use in walk order when that use is an input use (a first use that only
   writes makes the new buffer current: no copy-in at all, final repair of F22) -- except that a first
   use that only writes but is nested in a region below the cast's block gets a copy-in in front of its
   enclosing op in the cast's block (ins_list); copy-out after the last use as output.
   seen = a use of d has already been found; later = an output use follows outside this item *)
Fixpoint ins_item (d s0 : nat) (seen later : bool) (it : item) : list item * bool :=
  match it with
  | ILoop lid body =>
      let r := (fix go (l : list item) (seen : bool) : list item * bool :=
                  match l with
                  | [] => ([], seen)
                  | x :: r =>
                      let x' := ins_item d s0 seen (has_out d r || later) x in
                      let r' := go r (snd x') in
                      (fst x' ++ fst r', snd r')
                  end) body seen in
      ([ILoop lid (fst r)], snd r)
  | _ =>
      match item_flags d it with
      | None => ([it], seen)
      | Some (i, o) =>
          ((if i && negb seen then [ICopy s0 d] else []) ++ [it] ++
           (if o && negb later then [ICopy d s0] else []), true)
      end
  end.
Fixpoint ins_list (d s0 : nat) (seen later : bool) (l : list item) : list item * bool :=
  match l with
  | [] => ([], seen)
  | x :: r =>
      let pre := if negb seen && nested_first_write d x then [ICopy s0 d] else [] in
      let x' := ins_item d s0 seen (has_out d r || later) x in
      let r' := ins_list d s0 (snd x') later r in
      (pre ++ fst x' ++ fst r', snd r')
  end.

(* renaming of a value (the `source_type == dest_type` branch: uses of the cast are redirected) *)
Definition rn (d s v : nat) : nat := if (v =? d)%nat then s else v.
Fixpoint subst_item (d s : nat) (it : item) : item :=
  match it with
  | IOp id uses => IOp id (map (fun u => (rn d s (fst u), snd u)) uses)
  | ICast a b ta tb => ICast a (rn d s b) ta tb
  | IAlloc v => IAlloc v
  | ICopy a b => ICopy (rn d s a) (rn d s b)
  | ILoop lid body => ILoop lid (map (subst_item d s) body)
  end.

(* the defining cast of a value, anywhere in the program *)
Fixpoint find_cast_item (v : nat) (it : item) : option (nat * nat) :=
  match it with
  | ICast d s _ ts => if (d =? v)%nat then Some (s, ts) else None
  | ILoop _ body => (fix go (l : list item) : option (nat * nat) :=
                       match l with [] => None | x :: r =>
                         match find_cast_item v x with Some p => Some p | None => go r end end) body
  | _ => None
  end.
Fixpoint find_cast (v : nat) (l : list item) : option (nat * nat) :=
  match l with
  | [] => None
  | x :: r => match find_cast_item v x with Some p => Some p | None => find_cast v r end
  end.

(* climb the chain of casts: (source value, its type) *)
Fixpoint chain_source (fuel : nat) (whole : list item) (s ts : nat) : nat * nat :=
  match fuel with
  | O => (s, ts)
  | S f => match find_cast s whole with
           | Some (s', ts') => chain_source f whole s' ts'
           | None => (s, ts)
           end
  end.

(* RealizeMemrefCasts.match_and_rewrite on the cast `ICast d s td ts` followed by `rest` in its block *)
Definition realize_here (whole : list item) (d s td ts : nat) (rest : list item) : list item :=
  if negb (used d rest) then ICast d s td ts :: rest
  else
    let src := chain_source 64 whole s ts in
    if (snd src =? td)%nat then map (subst_item d s) rest
    else IAlloc d :: fst (ins_list d (fst src) false false rest).

Fixpoint rz_item (whole : list item) (c : nat) (it : item) : item :=
  match it with
  | ILoop lid body =>
      ILoop lid ((fix go (l : list item) : list item :=
                    match l with
                    | [] => []
                    | ICast d s td ts :: r =>
                        if (d =? c)%nat then realize_here whole d s td ts r else ICast d s td ts :: go r
                    | x :: r => rz_item whole c x :: go r
                    end) body)
  | _ => it
  end.
Fixpoint rz_list (whole : list item) (c : nat) (l : list item) : list item :=
  match l with
  | [] => []
  | ICast d s td ts :: r =>
      if (d =? c)%nat then realize_here whole d s td ts r else ICast d s td ts :: rz_list whole c r
  | x :: r => rz_item whole c x :: rz_list whole c r
  end.

(* casts in walk order *)
Fixpoint casts_item (it : item) : list nat :=
  match it with
  | ICast d _ _ _ => [d]
  | ILoop _ body => (fix go (l : list item) : list nat :=
                       match l with [] => [] | x :: r => casts_item x ++ go r end) body
  | _ => []
  end.
Definition casts (l : list item) : list nat := flat_map casts_item l.

(* PatternRewriteWalker(RealizeMemrefCasts(), walk_reverse=True) *)
Definition realize_all (p : list item) : list item :=
  fold_left (fun p c => rz_list p c p) (rev (casts p)) p.

(* ---- symbolic buffer-contents machine ---------------------------------------------------------- *)
Inductive term :=
| TInit (v : nat)                        (* contents of a function argument / global on entry *)
| TUninit (v : nat)                      (* a fresh allocation *)
| TWr (op j : nat) (obs : list term).    (* j-th output of operation op, which observed obs *)

Record state := mkState {
  alias : nat -> nat;                    (* value -> buffer *)
  memo : nat -> term;                    (* buffer -> contents *)
  trace : list (nat * list term)         (* (operation, observed input contents), newest first *)
}.

Definition upd {A} (f : nat -> A) (k : nat) (x : A) : nat -> A := fun n => if (n =? k)%nat then x else f n.

Definition exec_op (id : nat) (uses : list (nat * kind)) (s : state) : state :=
  let obs := map (fun u => memo s (alias s (fst u))) (filter (fun u => k_reads (snd u)) uses) in
  let ws := filter (fun u => k_writes (snd u)) uses in
  let m' := fold_left (fun m ju => upd m (alias s (fst (snd ju))) (TWr id (fst ju) obs))
                      (combine (seq 0 (length ws)) ws) (memo s) in
  mkState (alias s) m' ((id, obs) :: trace s).

Fixpoint iter {A} (n : nat) (f : A -> A) (x : A) : A :=
  match n with O => x | S k => iter k f (f x) end.

Fixpoint exec_item (trips : nat -> nat) (it : item) (s : state) : state :=
  match it with
  | IOp id uses => exec_op id uses s
  | ICast d src _ _ => mkState (upd (alias s) d (alias s src)) (memo s) (trace s)
  | IAlloc v => mkState (upd (alias s) v v) (upd (memo s) v (TUninit v)) (trace s)
  | ICopy a b => mkState (alias s) (upd (memo s) (alias s b) (memo s (alias s a))) (trace s)
  | ILoop lid body =>
      iter (trips lid)
           (fun s0 => (fix go (l : list item) (s1 : state) : state :=
                         match l with [] => s1 | x :: r => go r (exec_item trips x s1) end) body s0) s
  end.
Definition exec_list (trips : nat -> nat) (l : list item) (s : state) : state :=
  fold_left (fun s1 x => exec_item trips x s1) l s.

Definition init_state : state := mkState (fun v => v) (fun b => TInit b) [].

(* ---- Safe predicates (decidable), block level ---------------------------------------------------- *)
(* S1: the pass's input/output classification of the uses of d is sound: whatever reads is an input *)
Definition sound_uses (d : nat) (it : item) : bool :=
  match it with
  | IOp _ uses => forallb (fun u => negb (fst u =? d)%nat || (implb (k_reads (snd u)) (k_is_input (snd u))
                                                            && implb (k_writes (snd u)) (k_is_output (snd u)))) uses
  | _ => true
  end.

(* S2: at the copy-in the source must be up to date: dirty = an output use happened whose copy-out is
   still to come *)
Fixpoint safe_order (d : nat) (seen dirty : bool) (l : list item) : bool :=
  match l with
  | [] => true
  | it :: r =>
      match item_flags d it with
      | None => safe_order d seen dirty r
      | Some (i, o) =>
          (if i && negb seen then negb dirty else true) &&
          safe_order d (seen || i) (if o then has_out d r else dirty) r
      end
  end.

(* S3/S4: flat block; only IOp items mention d; nothing else mentions a value of `others`
   (the source and its other aliases) *)
Definition mentions (vs : list nat) (it : item) : bool :=
  match it with
  | IOp _ uses => existsb (fun u => existsb (Nat.eqb (fst u)) vs) uses
  | ICast a b _ _ => existsb (Nat.eqb a) vs || existsb (Nat.eqb b) vs
  | IAlloc v => existsb (Nat.eqb v) vs
  | ICopy a b => existsb (Nat.eqb a) vs || existsb (Nat.eqb b) vs
  | ILoop _ _ => true
  end.
Definition flat_ok (d : nat) (others : list nat) (it : item) : bool :=
  match it with
  | IOp _ uses => negb (mentions others it) && sound_uses d it
  | ILoop _ _ => false
  | _ => negb (mentions (d :: others) it)
  end.
Definition safe_block (d : nat) (others : list nat) (post : list item) : bool :=
  forallb (flat_ok d others) post.

(* ---- set-memory-space, type level ------------------------------------------------------------------ *)
Inductive mspace := MNone | ML1 | ML3 | MOther (n : nat).
Definition mspace_eqb (a b : mspace) : bool :=
  match a, b with
  | MNone, MNone | ML1, ML1 | ML3, ML3 => true
  | MOther x, MOther y => (x =? y)%nat
  | _, _ => false
  end.
(* InitFuncMemorySpace on one signature entry; InitMemRefAlloc/Global; operands of linalg/dart *)
Definition func_space (m : mspace) : mspace := match m with MNone => ML3 | x => x end.
Definition alloc_space (_ : mspace) : mspace := ML1.
Definition global_space (_ : mspace) : mspace := ML3.
(* InitStreamAndLinalgMemorySpace: an operand that is not in L1 is replaced by a cast to L1 *)
Definition operand_space (m : mspace) : mspace := if mspace_eqb m ML1 then m else ML1.

(* ---- canonical renaming of values (first occurrence in walk order), for the correspondence check -- *)
Definition rmap : Type := (list (nat * nat) * nat)%type.
Definition rn_val (m : rmap) (v : nat) : nat * rmap :=
  match find (fun p => (fst p =? v)%nat) (fst m) with
  | Some p => (snd p, m)
  | None => (snd m, ((v, snd m) :: fst m, S (snd m)))
  end.
Fixpoint rn_uses (m : rmap) (us : list (nat * kind)) : list (nat * kind) * rmap :=
  match us with
  | [] => ([], m)
  | u :: r => let a := rn_val m (fst u) in
              let b := rn_uses (snd a) r in
              ((fst a, snd u) :: fst b, snd b)
  end.
Fixpoint canon_item (m : rmap) (it : item) : item * rmap :=
  match it with
  | IOp id uses => let a := rn_uses m uses in (IOp id (fst a), snd a)
  | ICast d s td ts => let a := rn_val m s in let b := rn_val (snd a) d in (ICast (fst b) (fst a) td ts, snd b)
  | IAlloc v => let a := rn_val m v in (IAlloc (fst a), snd a)
  | ICopy x y => let a := rn_val m x in let b := rn_val (snd a) y in (ICopy (fst a) (fst b), snd b)
  | ILoop lid body =>
      let r := (fix go (l : list item) (m : rmap) : list item * rmap :=
                  match l with
                  | [] => ([], m)
                  | x :: r => let a := canon_item m x in let b := go r (snd a) in (fst a :: fst b, snd b)
                  end) body m in
      (ILoop lid (fst r), snd r)
  end.
Fixpoint canon_list (m : rmap) (l : list item) : list item * rmap :=
  match l with
  | [] => ([], m)
  | x :: r => let a := canon_item m x in let b := canon_list (snd a) r in (fst a :: fst b, snd b)
  end.
(* the first nargs values (function arguments) keep their numbers *)
Definition canon (nargs : nat) (l : list item) : list item :=
  fst (canon_list (map (fun k => (k, k)) (seq 0 nargs), nargs) l).

Definition kind_eqb (a b : kind) : bool :=
  match a, b with
  | KIn, KIn | KOut, KOut | KOutAcc, KOutAcc | KInOut, KInOut | KOther, KOther | KRet, KRet => true
  | _, _ => false
  end.
Fixpoint item_eqb (a b : item) : bool :=
  match a, b with
  | IOp i u, IOp j w => (i =? j)%nat && list_eqb (fun x y => (fst x =? fst y)%nat && kind_eqb (snd x) (snd y)) u w
  | ICast d s td ts, ICast d' s' td' ts' => (d =? d')%nat && (s =? s')%nat && (td =? td')%nat && (ts =? ts')%nat
  | IAlloc v, IAlloc w => (v =? w)%nat
  | ICopy x y, ICopy x' y' => (x =? x')%nat && (y =? y')%nat
  | ILoop l b, ILoop l' b' =>
      (l =? l')%nat &&
      (fix go (p q : list item) : bool :=
         match p, q with
         | [], [] => true
         | x :: r, y :: r' => item_eqb x y && go r r'
         | _, _ => false
         end) b b'
  | _, _ => false
  end.
Definition prog_eqb (a b : list item) : bool := list_eqb item_eqb a b.

(* ---- program-level classification of the known finding classes ------------------------------------ *)
Definition walk_flags (d : nat) (l : list item) : list (bool * bool) := flat_map (walk_flags_item d) l.

Fixpoint order_ok (seen dirty : bool) (fl : list (bool * bool)) : bool :=
  match fl with
  | [] => true
  | f :: r =>
      (if fst f && negb seen then negb dirty else true) &&
      order_ok (seen || fst f) (if snd f then existsb snd r else dirty) r
  end.

(* some cast has an output use that is neither copied out nor preceded by the copy-in when the
   first input use arrives *)
Fixpoint bad_order_item (it : item) : bool :=
  match it with
  | ILoop _ body => (fix go (l : list item) : bool :=
                       match l with
                       | [] => false
                       | ICast d _ _ _ :: r => negb (order_ok false false (walk_flags d r)) || go r
                       | x :: r => bad_order_item x || go r
                       end) body
  | _ => false
  end.
Fixpoint bad_order (l : list item) : bool :=
  match l with
  | [] => false
  | ICast d _ _ _ :: r => negb (order_ok false false (walk_flags d r)) || bad_order r
  | x :: r => bad_order_item x || bad_order r
  end.

(* some operation accumulates into a cast value that the pass classifies as output only *)
Fixpoint acc_item (cs : list nat) (it : item) : bool :=
  match it with
  | IOp _ uses => existsb (fun u => match snd u with KOutAcc => existsb (Nat.eqb (fst u)) cs | _ => false end) uses
  | ILoop _ body => (fix go (l : list item) : bool :=
                       match l with [] => false | x :: r => acc_item cs x || go r end) body
  | _ => false
  end.
Definition acc_output (l : list item) : bool := existsb (acc_item (casts l)) l.

(* a cast created inside a loop body is used after the loop (set-memory-space reuses an existing cast
   of the operand without checking that it dominates the new user) *)
Definition escapes (x : item) (r : list item) : bool :=
  match x with ILoop _ _ => existsb (fun c => used c r) (casts_item x) | _ => false end.
Fixpoint bad_scope_item (it : item) : bool :=
  match it with
  | ILoop _ body => (fix go (l : list item) : bool :=
                       match l with [] => false | x :: r => escapes x r || bad_scope_item x || go r end) body
  | _ => false
  end.
Fixpoint bad_scope (l : list item) : bool :=
  match l with [] => false | x :: r => escapes x r || bad_scope_item x || bad_scope r end.

(* the source buffer is accessed through another name while the realised buffer is live (between the
   first and the last use of the cast in walk order) *)
Fixpoint leaves_item (it : item) : list item :=
  match it with
  | ILoop _ body => (fix go (l : list item) : list item :=
                       match l with [] => [] | x :: r => leaves_item x ++ go r end) body
  | _ => [it]
  end.
Definition leaves (l : list item) : list item := flat_map leaves_item l.
Definition item_vals (it : item) : list nat :=
  match it with
  | IOp _ u => map fst u
  | ICast _ b _ _ => [b]
  | ICopy a b => [a; b]
  | _ => []
  end.
Definition root (whole : list item) (v : nat) : nat := fst (chain_source 64 whole v 0).
Definition is_use (d : nat) (it : item) : bool := match item_flags d it with Some _ => true | None => false end.
Fixpoint scan_window (whole : list item) (d : nat) (started : bool) (ls : list item) : bool :=
  match ls with
  | [] => false
  | it :: r =>
      let u := is_use d it in
      let later := existsb (is_use d) r in
      let foreign := existsb (fun w => negb (w =? d)%nat && (root whole w =? root whole d)%nat) (item_vals it) in
      ((started || u) && (u || later) && foreign) || scan_window whole d (started || u) r
  end.
Fixpoint bad_window_item (whole : list item) (it : item) : bool :=
  match it with
  | ILoop _ body => (fix go (l : list item) : bool :=
                       match l with
                       | [] => false
                       | ICast d _ _ _ :: r => scan_window whole d false (leaves r) || go r
                       | x :: r => bad_window_item whole x || go r
                       end) body
  | _ => false
  end.
Fixpoint bad_window_list (whole : list item) (l : list item) : bool :=
  match l with
  | [] => false
  | ICast d _ _ _ :: r => scan_window whole d false (leaves r) || bad_window_list whole r
  | x :: r => bad_window_item whole x || bad_window_list whole r
  end.
Definition bad_window (p : list item) : bool := bad_window_list p p.

(* an output use of a cast sits inside a loop below the cast's block: the copy-out is placed inside the
   loop body and never runs when the loop has zero iterations *)
Definition loop_out (d : nat) (it : item) : bool :=
  match it with ILoop _ _ => item_has_out d it | _ => false end.
Fixpoint bad_nested_item (it : item) : bool :=
  match it with
  | ILoop _ body => (fix go (l : list item) : bool :=
                       match l with
                       | [] => false
                       | ICast d _ _ _ :: r => existsb (loop_out d) r || go r
                       | x :: r => bad_nested_item x || go r
                       end) body
  | _ => false
  end.
Fixpoint bad_nested (l : list item) : bool :=
  match l with
  | [] => false
  | ICast d _ _ _ :: r => existsb (loop_out d) r || bad_nested r
  | x :: r => bad_nested_item x || bad_nested r
  end.

(* the FIRST use of a cast in walk order is an input use inside a loop below the cast's block: the copy-in
   is placed inside the loop body and never runs when the loop has zero iterations, so a later reader
   outside the loop sees the uninitialised buffer *)
Fixpoint first_in_loop (d : nat) (r : list item) : bool :=
  match r with
  | [] => false
  | x :: r' =>
      if item_used d x
      then match x with
           | ILoop _ _ => match walk_flags_item d x with f :: _ => fst f | [] => false end
           | _ => false
           end
      else first_in_loop d r'
  end.
Fixpoint bad_nested_in_item (it : item) : bool :=
  match it with
  | ILoop _ body => (fix go (l : list item) : bool :=
                       match l with
                       | [] => false
                       | ICast d _ _ _ :: r => first_in_loop d r || go r
                       | x :: r => bad_nested_in_item x || go r
                       end) body
  | _ => false
  end.
Fixpoint bad_nested_in (l : list item) : bool :=
  match l with
  | [] => false
  | ICast d _ _ _ :: r => first_in_loop d r || bad_nested_in r
  | x :: r => bad_nested_in_item x || bad_nested_in r
  end.

(* ---- Safe region for uses nested in loops below the cast's block --------------------------------- *)
(* every item (at any depth): operations do not name another alias of the source, other items name
   neither d nor such an alias *)
Fixpoint inner_ok (d : nat) (others : list nat) (it : item) : bool :=
  match it with
  | IOp _ _ => negb (mentions others it) && sound_uses d it
  | ILoop _ body => (fix go (l : list item) : bool :=
                       match l with [] => true | x :: r => inner_ok d others x && go r end) body
  | _ => negb (mentions (d :: others) it)
  end.
(* ... and the block is outside the finding classes F26 (an output use inside a loop: loop_out) and
   F30 (the first use is a reader inside a loop: first_in_loop) *)
Definition safe_nested (d : nat) (others : list nat) (post : list item) : bool :=
  forallb (inner_ok d others) post && negb (existsb (loop_out d) post) && negb (first_in_loop d post).

(* ---- decidable program well-formedness for the program-level theorems ------------------------------ *)
(* the item (at any depth) does not mention the value d *)
Fixpoint nm (d : nat) (it : item) : bool :=
  match it with
  | IOp _ uses => negb (uses_val d uses)
  | ICast a b _ _ => negb (a =? d)%nat && negb (b =? d)%nat
  | IAlloc v => negb (v =? d)%nat
  | ICopy a b => negb (a =? d)%nat && negb (b =? d)%nat
  | ILoop _ body => (fix go (l : list item) : bool :=
                       match l with [] => true | x :: r => nm d x && go r end) body
  end.

(* b is not defined by a cast of q; the (first) cast defining a has source b *)
Definition is_root (q : list item) (b : nat) : bool :=
  match find_cast b q with None => true | Some _ => false end.
Definition src_is (q : list item) (a b : nat) : bool :=
  match find_cast a q with Some (b', _) => (b' =? b)%nat | None => false end.

(* every cast (at any depth) casts a root and is the cast q records for its result: no chains, one
   definition per name *)
Fixpoint iwf (q : list item) (it : item) : bool :=
  match it with
  | ICast a b _ _ => is_root q b && src_is q a b
  | ILoop _ body => (fix go (l : list item) : bool :=
                       match l with [] => true | x :: r => iwf q x && go r end) body
  | _ => true
  end.

(* the source and the other casts of the same source *)
Definition others_of (q : list item) (d src : nat) : list nat :=
  src :: filter (fun v => negb (v =? d)%nat && src_is q v src) (casts q).

(* positions of the cast d (source src) for which the lift theorem applies: followed by a Safe block,
   possibly inside loops; everything else does not mention d; all items well-formed.
   The argument is a loop item whose body is inspected (the program is wrapped in a dummy loop). *)
Fixpoint lokb (q : list item) (d src : nat) (others : list nat) (it : item) : bool :=
  match it with
  | ILoop _ body =>
      (fix go (l : list item) : bool :=
         match l with
         | [] => true
         | x :: r =>
             match x with
             | ICast d' s td ts =>
                 if (d' =? d)%nat
                 then (s =? src)%nat && is_root q src && src_is q d src && used d r && negb (ts =? td)%nat
                      && safe_nested d others r && forallb (iwf q) r
                 else nm d x && iwf q x && go r
             | ILoop _ _ =>
                 if nm d x then iwf q x && go r
                 else lokb q d src others x && forallb (fun y => nm d y && iwf q y) r
             | _ => nm d x && iwf q x && go r
             end
         end) body
  | _ => false
  end.

(* one step of the walker on q for the cast c is inside the theorem's domain *)
Definition step_okb (q : list item) (c : nat) : bool :=
  match find_cast c q with
  | Some (src, _) => is_root q src && lokb q c src (others_of q c src) (ILoop 0 q)
  | None => false
  end.

(* all steps of realize_all *)
Fixpoint steps_okb (cs : list nat) (q : list item) : bool :=
  match cs with
  | [] => true
  | c :: cs' => step_okb q c && steps_okb cs' (rz_list q c q)
  end.
Definition all_steps_okb (p : list item) : bool := steps_okb (rev (casts p)) p.
