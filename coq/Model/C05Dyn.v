(* C05 — TransformDMA with run-time information: dynamic dimensions, dynamic strides and dynamic
   offsets are resolved on a run-time descriptor, as the emitted memref.dim / extract_strided_metadata /
   arith ops compute them (get_bound_ops / get_step_ops of snaxc/dialects/tsl.py; lead's Model/TslOps.v).
   For static inputs this coincides with Model/C05Copy.lower (checked by the correspondence run). *)
From Snax Require Import Base.Prelude Model.Tsl Model.TslOps Model.C05Copy.

(* run-time strided metadata of a memref with a StridedLayoutAttr: (strides, offset) in elements *)
Definition rtmd : Type := option (list Z * Z).

(* steps fetched from the metadata: only the last tile depth of a dimension whose step is dynamic *)
Fixpoint presets_dim (t : tstride) (m : Z) : list (option Z) :=
  match t with
  | [] => []
  | [s] => [match sstep s with None => Some m | Some _ => None end]
  | _ :: r => None :: presets_dim r m
  end.
Fixpoint presets (ts : list tstride) (ms : list Z) (el : Z) : list (option Z) :=
  match ts, ms with
  | t :: ts', m :: ms' => presets_dim t (m * el) ++ presets ts' ms' el
  | t :: ts', [] => map (fun _ => None) t ++ presets ts' [] el
  | [], _ => []
  end.

(* right-to-left assignment with presets *)
Definition step_scan_md (el : Z) (x : stride * (Z * option Z)) (acc : Z * list Z) : Z * list Z :=
  match acc with
  | (dyn, out) =>
      match sstep (fst x) with
      | Some st => (dyn, st * el :: out)
      | None => let so := match snd (snd x) with Some p => p | None => dyn end in
                (so * fst (snd x), so :: out)
      end
  end.

(* get_step_ops(bound_ops, memref, in_bytes=True): flat step values in bytes *)
Definition step_vals_md (l : layout) (fb : list Z) (el : Z) (md : rtmd) : list Z :=
  let flat := all_strides l in
  let ps := match md with
            | Some (ms, _) => presets (tstrides l) ms el
            | None => map (fun _ => None) flat
            end in
  let '(mk, mv) := max_static_step flat in
  let dyn0 := nth mk fb 0 * (mv * el) in
  snd (fold_right (step_scan_md el) (dyn0, []) (combine flat (combine fb ps))).

Definition off_val (l : layout) (md : rtmd) : option Z :=
  match offset l with
  | Some o => Some o
  | None => match md with Some (_, o) => Some o | None => None end   (* assert StridedLayoutAttr *)
  end.

(* remaining strides with their run-time (bound, source step, destination step) *)
Fixpoint remaining_dyn (lcb : list stride) (ss : list stride) (vals : list (Z * (Z * Z)))
  : list (stride * (Z * Z * Z)) :=
  match ss, vals with
  | s :: r, (b, (x, y)) :: vr =>
      if value_in s lcb then remaining_dyn lcb r vr else (s, (b, x, y)) :: remaining_dyn lcb r vr
  | _, _ => []
  end.

Definition dkey (p : stride * (Z * Z * Z)) : Z := match sbound (fst p) with Some b => b | None => 0 end.
Fixpoint insert_desc_d (x : stride * (Z * Z * Z)) (l : list (stride * (Z * Z * Z))) :=
  match l with
  | [] => [x]
  | y :: r => if dkey x <? dkey y then y :: insert_desc_d x r else x :: y :: r
  end.
Definition sort_desc_d (l : list (stride * (Z * Z * Z))) := fold_right insert_desc_d [] l.

Definition lower_dyn_body (src dst : layout) (el : Z) (rshape : list Z) (smd dmd : rtmd) : option code :=
  match off_val src smd, off_val dst dmd, bound_vals (tstrides src) rshape with
  | Some so, Some do_, Some bv =>
      let fb := concat bv in
      let lcb := lccb src dst 1 in
      let ssteps := step_vals_md src fb el smd in
      let dsteps := step_vals_md dst fb el dmd in
      if negb ((length (all_strides src) =? length (all_strides dst))%nat) then None else
      let rem := sort_desc_d (remaining_dyn lcb (all_strides src) (combine fb (combine ssteps dsteps))) in
      match rem with
      | [] => Some (CDma1 (el * so, []) (el * do_, []) (zprod rshape * el))
      | (_, (hb, hs, hd)) :: loops =>
          match sval (last lcb (None, None)) with
          | None => None
          | Some (ls, lb) =>
              Some (nest (map (fun l => fst (fst (snd l))) loops)
                      (CDma2 (el * so, map (fun l => snd (fst (snd l))) loops)
                             (el * do_, map (fun l => snd (snd l)) loops)
                             (lb * ls * el) hs hd hb))
          end
      end
  | _, _, _ => None
  end.

(* rank 0: assert in get_total_size_op, as in C05Copy.lower *)
Definition lower_dyn (src dst : layout) (el : Z) (rshape : list Z) (smd dmd : rtmd) : option code :=
  match rshape with
  | [] => None
  | _ :: _ => lower_dyn_body src dst el rshape smd dmd
  end.

Definition lower_memref_dyn (shape : list (option Z)) (msrc mdst : mlayout) (el : Z) (rshape : list Z)
  (smd dmd : rtmd) : option code :=
  match msrc, mdst with
  | LNone, LNone => match rshape with [] => None | _ :: _ => Some (lower_simple el rshape) end
  | _, _ => lower_dyn (to_tsl shape msrc mdst) (to_tsl shape mdst msrc) el rshape smd dmd
  end.

(* ---- decidable classes of the dynamic findings ----------------------------------------------------- *)
Definition step_dynamic (s : stride) : bool := match sstep s with None => true | Some _ => false end.
Definition has_dyn_step (l : layout) : bool := existsb step_dynamic (all_strides l).

(* F27: a `?` step resolved by the contiguity rule although the layout has no static (non-zero) step to
   anchor it: get_step_ops starts from bound * 0 *)
Definition dyn_no_anchor (l : layout) : bool :=
  has_dyn_step l && (snd (max_static_step (all_strides l)) =? 0).

(* F28: the anchor is the FIRST stride with the largest static step; another stride with the same step has
   a larger (static) bound, so the contiguous continuation is step * that bound, not step * anchor bound *)
Definition dyn_anchor_tie (l : layout) : bool :=
  let flat := all_strides l in
  let '(mk, mv) := max_static_step flat in
  let ab := match sbound (nth mk flat (None, None)) with Some b => b | None => -1 end in
  has_dyn_step l && negb (mv =? 0) && (0 <=? ab) &&
  existsb (fun s => optZ_eqb (sstep s) (Some mv) && match sbound s with Some b => ab <? b | None => false end) flat.

(* the contiguity rule is only used for memrefs without strided metadata *)
Definition uses_rule (m : mlayout) : bool := match m with LStrided _ _ => false | _ => true end.

(* F29: the common contiguous block contains a stride whose step is dynamic: `?` == `?` makes
   largest_common_contiguous_block treat it as shared and contiguous whatever the run-time strides are *)
Definition dyn_in_block (src dst : layout) : bool := existsb step_dynamic (lccb src dst 1).

(* 0 = none, 1 = F27, 2 = F28, 3 = F29 *)
Definition dyn_class (shape : list (option Z)) (msrc mdst : mlayout) : Z :=
  let a := to_tsl shape msrc mdst in
  let b := to_tsl shape mdst msrc in
  if (uses_rule msrc && dyn_no_anchor a) || (uses_rule mdst && dyn_no_anchor b) then 1
  else if (uses_rule msrc && dyn_anchor_tie a) || (uses_rule mdst && dyn_anchor_tie b) then 2
  else if dyn_in_block a b then 3
  else 0.
