(* C17 — loop restructuring preserves the executed operation sequence.
   Executable model only (no proofs):
   * a small structured loop IR (SSA names = nat) with value-defining side-effect-free ops, opaque
     side-effecting ops and `scf.for` without iter_args;
   * its big-step trace semantics (structural recursion; loops by `flat_map` over `zrange (trip …)`
     so that "for all trip counts" is ordinary induction);
   * one Gallina function per rewrite pattern of
       snaxc/transforms/pipeline/pipeline_canonicalize_for.py   ChangeForStep, MergeForLoops
       snaxc/transforms/reuse_memref_allocs.py                  LoopHoistPureOperations, MoveMemrefDims (size resolution)
     with exactly the guards of the (repaired, see known/C17.json) code;
   * `apply_at`: a rule applied at a path inside a program, with the dominating definitions as scope;
   * helpers for the correspondence check (canonical renumbering, equality).

   Naming convention of the rewrites.  xDSL keeps the block (and its argument) of the loop it rebuilds and
   replaces the *uses* of the old induction variable by the new `arith.muli/divui/remui` result.  The model
   produces the alpha-equivalent program in which the loop gets a fresh induction variable and the new
   arithmetic op *defines the old name*; the loop body is then literally unchanged.  The correspondence
   check compares modulo renumbering of SSA names in definition order (`canon`). *)
From Snax Require Import Base.Prelude Base.ListAux.

Definition var := nat.

(* a memref value: the identity of its buffer and its sizes *)
Inductive value := VInt (z : Z) | VMem (id : Z) (shape : list Z).
Definition as_int (v : value) : Z := match v with VInt z => z | VMem _ _ => 0 end.
Definition mem_id (v : value) : Z := match v with VMem i _ => i | VInt _ => -1 end.
Definition shape_of (v : value) : list Z := match v with VMem _ s => s | VInt _ => [] end.

Inductive binop := BAdd | BSub | BMul | BDivU | BRemU.
Inductive dimarg := DStatic (z : Z) | DDyn (v : var).
(* one result of an affine map restricted to linear forms: c + sum coef*operand *)
Definition linform := (Z * list (Z * var))%type.

Inductive pexpr :=
| PConst (z : Z)                          (* arith.constant : index *)
| PBin (k : binop) (a b : var)            (* arith.addi/subi/muli/divui/remui *)
| PMin (rs : list linform)                (* affine.min *)
| PDim (src idx : var)                    (* memref.dim *)
| PAlloc (sizes : list dimarg)            (* memref.alloc: one entry per dimension *)
| PSubview (src : var) (sizes : list dimarg)   (* memref.subview: the buffer of its source, new sizes *)
| PLoad (m : var) (idxs : list var).          (* memref.load: the value last stored at that address *)

Inductive op :=
| Def (dst : var) (e : pexpr)
| Eff (id : nat) (args : list var)        (* opaque side-effecting op (test.op, func.call, memref.store ...) *)
| For (iv lb ub step : var) (body : list op).

(* ---------------------------------------------------------------- semantics *)
Definition env := var -> value.
Definition upd (e : env) (x : var) (v : value) : env := fun y => if Nat.eqb y x then v else e y.
Definition env0 : env := fun _ => VInt 0.
Fixpoint env_of (l : list (var * value)) : env :=
  match l with [] => env0 | (x, v) :: r => upd (env_of r) x v end.

(* unsigned division on index values; faithful for a >= 0 (b < 0 is a huge unsigned number) *)
Definition divu (a b : Z) : Z := if b <=? 0 then 0 else a / b.
Definition remu (a b : Z) : Z := if b <=? 0 then a else a mod b.
Definition eval_bin (k : binop) (a b : Z) : Z :=
  match k with BAdd => a + b | BSub => a - b | BMul => a * b | BDivU => divu a b | BRemU => remu a b end.
Definition eval_dim (e : env) (d : dimarg) : Z :=
  match d with DStatic z => z | DDyn v => as_int (e v) end.
Definition eval_lin (e : env) (l : linform) : Z :=
  fst l + zsum (map (fun cv => fst cv * as_int (e (snd cv))) (snd l)).
Definition zmin_list (l : list Z) : Z :=
  match l with [] => 0 | x :: r => fold_left Z.min r x end.
Definition event := (nat * list value)%type.

(* Memory.  `memref.store %v, %m[%i...]` is the opaque op with the reserved id STORE and operands
   v :: m :: i...; its event is also the heap entry.  The heap is the list of store events executed so far
   (newest first); a load returns the value of the newest store to the same buffer and indices (0 when
   there is none: the initial contents are not modelled).  A buffer is identified by the SSA name of its
   memref.alloc (re-executing the alloc does not clear it: contents of a fresh buffer are undefined) or by the
   identity given to a function argument; a subview shares the buffer of its source (offsets not modelled). *)
Definition heap := list event.
Definition STORE : nat := 0%nat.
Definition is_store (ev : event) : bool := Nat.eqb (fst ev) STORE.
Definition hpush (t : list event) (h : heap) : heap :=
  fold_left (fun h ev => if is_store ev then ev :: h else h) t h.
Fixpoint hload (h : heap) (id : Z) (idxs : list Z) : value :=
  match h with
  | [] => VInt 0
  | ev :: r =>
    match snd ev with
    | v :: VMem i _ :: ix =>
      if (i =? id) && list_eqb Z.eqb (map as_int ix) idxs then v else hload r id idxs
    | _ => hload r id idxs
    end
  end.

Definition eval_pexpr (e : env) (h : heap) (p : pexpr) : value :=
  match p with
  | PConst z => VInt z
  | PBin k a b => VInt (eval_bin k (as_int (e a)) (as_int (e b)))
  | PMin rs => VInt (zmin_list (map (eval_lin e) rs))
  | PDim src idx => VInt (nth (Z.to_nat (as_int (e idx))) (shape_of (e src)) 0)
  | PAlloc sizes => VMem 0 (map (eval_dim e) sizes)
  | PSubview s sizes => VMem (mem_id (e s)) (map (eval_dim e) sizes)
  | PLoad m idxs => hload h (mem_id (e m)) (map (fun x => as_int (e x)) idxs)
  end.
(* the value defined by `d = p`: an alloc creates the buffer named d *)
Definition eval_def (d : var) (e : env) (h : heap) (p : pexpr) : value :=
  match p with
  | PAlloc sizes => VMem (Z.of_nat d) (map (eval_dim e) sizes)
  | _ => eval_pexpr e h p
  end.
(* expressions whose value depends on the environment only (not on the heap, not on the defined name) *)
Definition pure_p (p : pexpr) : bool := match p with PAlloc _ | PLoad _ _ => false | _ => true end.

(* number of iterations of `scf.for lb to ub step s` (s <= 0 is undefined behaviour in MLIR: 0 here) *)
Definition trip (lb ub s : Z) : Z := if s <=? 0 then 0 else (ub - lb + s - 1) / s.

(* the iterations of a loop, threading the heap *)
Fixpoint iter_hist (f : Z -> heap -> list event) (ks : list Z) (h : heap) : list event :=
  match ks with
  | [] => []
  | k :: r => let t := f k h in t ++ iter_hist f r (hpush t h)
  end.

(* Values defined inside a loop body are out of scope after the loop: the loop returns its entry env. *)
Fixpoint exec_op (o : op) (e : env) (h : heap) {struct o} : env * list event :=
  match o with
  | Def d p => (upd e d (eval_def d e h p), [])
  | Eff id args => (e, [(id, map e args)])
  | For iv lb ub st body =>
    let run := (fix run (b : list op) (e : env) (h : heap) {struct b} : list event :=
                  match b with
                  | [] => []
                  | o :: b' => let r := exec_op o e h in snd r ++ run b' (fst r) (hpush (snd r) h)
                  end) in
    (e, iter_hist (fun k h => run body (upd e iv (VInt (as_int (e lb) + k * as_int (e st)))) h)
                  (zrange (trip (as_int (e lb)) (as_int (e ub)) (as_int (e st)))) h)
  end.

Fixpoint exec_block (b : list op) (e : env) (h : heap) : env * list event :=
  match b with
  | [] => (e, [])
  | o :: b' => let r := exec_op o e h in
               let r' := exec_block b' (fst r) (hpush (snd r) h) in (fst r', snd r ++ snd r')
  end.

Definition trace (b : list op) (e : env) (h : heap) : list event := snd (exec_block b e h).

(* ---------------------------------------------------------------- syntactic helpers *)
Definition scope := list (var * pexpr).
Fixpoint lookup (Sc : scope) (v : var) : option pexpr :=
  match Sc with [] => None | (x, p) :: r => if Nat.eqb x v then Some p else lookup r v end.
Definition cst_of (Sc : scope) (v : var) : option Z :=
  match lookup Sc v with Some (PConst z) => Some z | _ => None end.
Definition in_scope (Sc : scope) (v : var) : bool :=
  match lookup Sc v with Some _ => true | None => false end.

(* top-level definitions of a block (what a later op of the same block, or a nested op, can see) *)
Fixpoint defs_top (b : list op) : scope :=
  match b with
  | [] => []
  | Def d p :: r => (d, p) :: defs_top r
  | _ :: r => defs_top r
  end.

Definition dimarg_uses (d : dimarg) : list var := match d with DStatic _ => [] | DDyn v => [v] end.
Definition uses_p (p : pexpr) : list var :=
  match p with
  | PConst _ => []
  | PBin _ a b => [a; b]
  | PMin rs => flat_map (fun l => map snd (snd l)) rs
  | PDim s i => [s; i]
  | PAlloc sz => flat_map dimarg_uses sz
  | PSubview s sz => s :: flat_map dimarg_uses sz
  | PLoad m ix => m :: ix
  end.

(* every name mentioned (used or defined, at any depth) *)
Fixpoint vars_op (o : op) : list var :=
  match o with
  | Def d p => d :: uses_p p
  | Eff _ args => args
  | For iv lb ub st body => iv :: lb :: ub :: st :: flat_map vars_op body
  end.
Definition vars_of (b : list op) : list var := flat_map vars_op b.

Definition memb (x : var) (l : list var) : bool := existsb (Nat.eqb x) l.
Definition maxvar (b : list op) : nat := fold_right Nat.max 0%nat (vars_of b).

(* xdsl.traits.is_side_effect_free (xDSL 0.70): arith.constant/addi/subi/muli are Pure, arith.divui,
   memref.dim and memref.subview declare NoMemoryEffect, memref.alloc allocates, affine.min and
   arith.remui declare nothing (unknown effects => not free), scf.for is recursive. *)
Definition effect_free_p (p : pexpr) : bool :=
  match p with PAlloc _ | PMin _ | PBin BRemU _ _ | PLoad _ _ => false | _ => true end.  (* memref.load: MemoryReadEffect *)
Fixpoint effect_free (o : op) : bool :=
  match o with
  | Def _ p => effect_free_p p
  | Eff _ _ => false
  | For _ _ _ _ body => forallb effect_free body
  end.

Fixpoint split_at {A} (j : nat) (l : list A) : option (list A * A * list A) :=
  match l, j with
  | [], _ => None
  | x :: r, O => Some ([], x, r)
  | x :: r, S j' => match split_at j' r with
                    | Some (pre, y, post) => Some (x :: pre, y, post)
                    | None => None
                    end
  end.

(* ---------------------------------------------------------------- ChangeForStep *)
(* pipeline_canonicalize_for.py:ChangeForStep.  `fresh`, `fresh+1`, `fresh+2` are unused names. *)
Definition change_step_with (newub : Z -> Z -> Z) (Sc : scope) (fresh : var) (o : op) : option (list op) :=
  match o with
  | For iv lb ub st body =>
    match cst_of Sc lb, cst_of Sc ub, cst_of Sc st with
    | Some l, Some u, Some s =>
      if negb (l =? 0) then None            (* lb must be 0 *)
      else if s =? 1 then None              (* step must not already be 1 *)
      else if s <=? 0 then None             (* step must be positive *)
      else Some [Def fresh (PConst 1);
                 Def (S fresh) (PConst (newub u s));
                 For (S (S fresh)) lb (S fresh) fresh
                     (Def iv (PBin BMul st (S (S fresh))) :: body)]
    | _, _, _ => None
    end
  | _ => None
  end.
Definition ceil_ub (u s : Z) : Z := (u + s - 1) / s.
Definition floor_ub (u s : Z) : Z := u / s.
Definition change_step := change_step_with ceil_ub.
(* the formula before the repair (kept as documentation; refuted in Proofs) *)
Definition change_step_floor := change_step_with floor_ub.

(* ---------------------------------------------------------------- MergeForLoops *)
(* Applied at the parent loop `o`; `j` is the position of the matched inner loop in the parent body. *)
Definition merge_loops_with (check_nest check_neg : bool) (Sc : scope) (fresh : var) (j : nat) (o : op)
  : option (list op) :=
  match o with
  | For ivp lbp ubp stp pbody =>
    match split_at j pbody with
    | Some (pre, For iv lb ub st ibody, post) =>
      let S' := defs_top pre ++ Sc in
      match cst_of S' lb, cst_of S' ub, cst_of S' st, cst_of Sc lbp, cst_of Sc ubp, cst_of Sc stp with
      | Some l, Some u, Some s, Some lp, Some up, Some sp =>
        if negb ((l =? 0) && (lp =? 0) && (s =? 1) && (sp =? 1)) then None
        else if check_neg && ((u <? 0) || (up <? 0)) then None
        else if check_nest && negb (forallb effect_free (pre ++ post)) then None
        else
          let k := S fresh in
          let c := S (S fresh) in
          Some [Def fresh (PConst (u * up));
                For k lbp fresh stp
                    (Def c (PConst u) :: Def ivp (PBin BDivU k c) ::
                     pre ++ Def iv (PBin BRemU k c) :: ibody ++ post)]
      | _, _, _, _, _, _ => None
      end
    | _ => None
    end
  | _ => None
  end.
Definition merge_loops := merge_loops_with true true.
Definition merge_loops_no_nest_check := merge_loops_with false true.   (* before the repair of F15 *)
Definition merge_loops_no_neg_check := merge_loops_with true false.    (* before the repair of F15b *)

(* ---------------------------------------------------------------- LoopHoistPureOperations *)
(* `Pure() in op.traits or whitelisted (memref.alloc)`: arith.constant/addi/subi/muli are Pure; divui,
   dim and subview only declare NoMemoryEffect, remui and affine.min declare nothing, so they are not
   moved by this pattern. *)
Definition hoistable_p (p : pexpr) : bool :=
  match p with
  | PConst _ | PAlloc _ => true
  | PBin k _ _ => match k with BAdd | BSub | BMul => true | _ => false end
  | _ => false
  end.
(* Applied at the loop `o`; `j` is the position of the matched op in its body.  `S` = definitions that
   dominate the loop (op results only: block arguments are not in a scope). *)
Definition hoist (Sc : scope) (j : nat) (o : op) : option (list op) :=
  match o with
  | For iv lb ub st body =>
    match split_at j body with
    | Some (pre, Def d p, post) =>
      if hoistable_p p && forallb (in_scope Sc) (uses_p p)
      then Some [Def d p; For iv lb ub st (pre ++ post)]
      else None
    | _ => None
    end
  | _ => None
  end.

(* ---------------------------------------------------------------- MoveMemrefDims: size resolution *)
(* What `memref.dim src, idx` (idx constant) is replaced by.  `Sin` = definitions of the loop level of the
   matched dim (top level of the body of its nearest loop), `Sout` = definitions dominating that loop;
   a source found in neither is a block argument. *)
Inductive repl :=
| RConst (z : Z)              (* static subview size: new arith.constant *)
| RVar (v : var)              (* an existing constant / an existing dim outside the loop *)
| RNewDim (src : var) (idx : Z)   (* dim of a block argument: a new memref.dim before the loop *)
| RMin (v : var) (c : Z).     (* affine.min whose first map result is the constant c: replaced by c,
                                 together with every other use of the affine.min *)

Definition first_const (rs : list linform) : option Z :=
  match rs with (c, []) :: _ => Some c | _ => None end.

Fixpoint resolve_dim (fuel : nat) (Sin Sout : scope) (src : var) (idx : Z) : option repl :=
  match fuel with
  | O => None
  | S fuel' =>
    match lookup (Sin ++ Sout) src with
    | None => Some (RNewDim src idx)                          (* isinstance(memref_op, Block) *)
    | Some (PSubview _ sizes) =>
      match nth_error sizes (Z.to_nat idx) with
      | Some (DStatic z) => Some (RConst z)
      | Some (DDyn v) =>
        match lookup Sin v with
        | Some (PConst _) => Some (RVar v)
        | Some (PMin rs) => match first_const rs with Some c => Some (RMin v c) | None => None end
        | Some (PDim s i) =>
          match cst_of (Sin ++ Sout) i with
          | Some iz => resolve_dim fuel' Sin Sout s iz
          | None => None
          end
        | Some _ => None
        | None =>
          match lookup Sout v with
          | Some (PConst _) => Some (RVar v)
          | Some (PMin rs) => match first_const rs with Some c => Some (RMin v c) | None => None end
          | Some (PDim _ _) => Some (RVar v)                  (* before_loop(dim) *)
          | _ => None                                          (* block argument or other op *)
          end
        end
      | None => None
      end
    | Some _ => None                                           (* any other defining op *)
    end
  end.

Definition eval_repl (e : env) (r : repl) : Z :=
  match r with
  | RConst z => z
  | RVar v => as_int (e v)
  | RNewDim s i => nth (Z.to_nat i) (shape_of (e s)) 0
  | RMin _ c => c
  end.
Definition repl_safe (r : repl) : bool := match r with RMin _ _ => false | _ => true end.


(* ---------------------------------------------------------------- MoveMemrefDims: the IR surgery *)
(* replace_all_uses_with: every use of `d` becomes a use of `w` (definitions are untouched) *)
Definition sbv (d w u : var) : var := if Nat.eqb u d then w else u.
Definition sb_dim (d w : var) (x : dimarg) : dimarg :=
  match x with DStatic z => DStatic z | DDyn v => DDyn (sbv d w v) end.
Definition sb_p (d w : var) (p : pexpr) : pexpr :=
  match p with
  | PConst z => PConst z
  | PBin k a b => PBin k (sbv d w a) (sbv d w b)
  | PMin rs => PMin (map (fun l => (fst l, map (fun cv => (fst cv, sbv d w (snd cv))) (snd l))) rs)
  | PDim s i => PDim (sbv d w s) (sbv d w i)
  | PAlloc sz => PAlloc (map (sb_dim d w) sz)
  | PSubview s sz => PSubview (sbv d w s) (map (sb_dim d w) sz)
  | PLoad m ix => PLoad (sbv d w m) (map (sbv d w) ix)
  end.
Fixpoint subst_op (d w : var) (o : op) : op :=
  match o with
  | Def x p => Def x (sb_p d w p)
  | Eff id args => Eff id (map (sbv d w) args)
  | For iv lb ub st body => For iv (sbv d w lb) (sbv d w ub) (sbv d w st) (map (subst_op d w) body)
  end.

(* can_move_dim: "the Dim result is only used by Alloc operations and subview operations" *)
Fixpoint dim_uses_ok (d : var) (o : op) : bool :=
  match o with
  | Def _ p => negb (memb d (uses_p p)) || match p with PAlloc _ | PSubview _ _ => true | _ => false end
  | Eff _ args => negb (memb d args)
  | For _ lb ub st body => negb (memb d [lb; ub; st]) && forallb (dim_uses_ok d) body
  end.

(* Does MoveMemrefDims rewrite some `memref.dim` inside a loop through an affine.min (class of the known
   finding F22: `move_dim_affine_min`)?  With the guards of can_move_dim: the index is a constant op, the
   dim is only used by alloc / subview ops, and the size resolution ends in an affine.min whose first map
   result is a constant. *)
Definition dim_is_min (Sout Sin : scope) (o : op) (rest : list op) : bool :=
  match o with
  | Def d (PDim src idx) =>
    match cst_of (Sin ++ Sout) idx with
    | Some iz => match resolve_dim 8 Sin Sout src iz with Some (RMin _ _) => forallb (dim_uses_ok d) rest | _ => false end
    | None => false
    end
  | _ => false
  end.
Fixpoint has_min_dim_op (Sout : scope) (o : op) {struct o} : bool :=
  match o with
  | Def _ _ | Eff _ _ => false
  | For _ _ _ _ body =>
    (fix go (l : list op) : bool :=
       match l with
       | [] => false
       | x :: r => dim_is_min Sout (defs_top body) x r || has_min_dim_op (defs_top body ++ Sout) x || go r
       end) body
  end.
Definition prog_has_min_dim (b : list op) : bool := existsb (has_min_dim_op (defs_top b)) b.

(* get_new_memref_op on a block argument builds `memref.dim source, index_constant` with the index constant OP of
   the dim at the end of the chain: the name of that index value *)
Fixpoint newdim_idx (fuel : nat) (Sin Sout : scope) (src idx : var) : option var :=
  match fuel with
  | O => None
  | S fuel' =>
    match lookup (Sin ++ Sout) src with
    | None => Some idx
    | Some (PSubview _ sizes) =>
      match cst_of (Sin ++ Sout) idx with
      | Some iz =>
        match nth_error sizes (Z.to_nat iz) with
        | Some (DDyn v) =>
          match lookup Sin v with
          | Some (PDim s i) => newdim_idx fuel' Sin Sout s i
          | _ => None
          end
        | _ => None
        end
      | None => None
      end
    | Some _ => None
    end
  end.

(* MoveMemrefDims.match_and_rewrite, applied at the loop `o`; `j` = position of the matched memref.dim in its
   body; `Sc` = definitions dominating the loop; definitions of the loop level = those preceding the dim (in SSA
   form the resolution only ever reads dominating definitions).  The replacement op is put in front of the
   loop, every use of the dim is redirected to it and the dim is erased.  GUARDED model, used in the rule set
   of the trace theorem; it answers None (and L1 reports a disagreement if the real pattern fires) when
   - the resolution ends in an affine.min (F22: that rewrite changes the trace),
   - the replacement is a constant op of the same loop level (it is moved as well; not modelled: the greedy
     driver has hoisted such a constant before the dim is visited),
   - the new memref.dim would use an index constant / a block argument that does not dominate the loop
     (the real pattern then produces a use before its definition; not reachable through the driver for the
     same reason). *)
Definition move_dim (Sc : scope) (fresh : var) (j : nat) (o : op) : option (list op) :=
  match o with
  | For iv lb ub st body =>
    match split_at j body with
    | Some (pre, Def d (PDim src idx), post) =>
      let Sin := defs_top pre in
      match cst_of (Sin ++ Sc) idx with
      | None => None                                      (* index not a constant op *)
      | Some iz =>
        if negb (forallb (dim_uses_ok d) post) then None   (* used by something else than alloc / subview *)
        else
          match resolve_dim 8 Sin Sc src iz with
          | Some (RConst z) =>
            Some [Def fresh (PConst z); For iv lb ub st (pre ++ map (subst_op d fresh) post)]
          | Some (RVar v) =>
            if in_scope Sc v then Some [For iv lb ub st (pre ++ map (subst_op d v) post)] else None
          | Some (RNewDim s i) =>
            match newdim_idx 8 Sin Sc src idx with
            | Some ix =>
              if in_scope Sc ix && negb (in_scope Sin s) && negb (Nat.eqb s iv)
              then Some [Def fresh (PDim s ix); For iv lb ub st (pre ++ map (subst_op d fresh) post)]
              else None
            | None => None
            end
          | _ => None
          end
      end
    | _ => None
    end
  | _ => None
  end.

(* ---------------------------------------------------------------- rules in context *)
Inductive rule :=
| RChangeStep            (* at the loop *)
| RMerge (j : nat)       (* at the parent loop, inner loop = j-th op of its body *)
| RHoist (j : nat)       (* at the loop, hoisted op = j-th op of its body *)
| RMoveDim (j : nat).    (* at the loop, matched memref.dim = j-th op of its body *)

Definition apply_rule (r : rule) (Sc : scope) (fresh : var) (o : op) : option (list op) :=
  match r with
  | RChangeStep => change_step Sc fresh o
  | RMerge j => merge_loops Sc fresh j o
  | RHoist j => hoist Sc j o
  | RMoveDim j => move_dim Sc fresh j o
  end.

(* `path` = positions from the outermost block down to the op the rule is applied at. *)
Fixpoint apply_at (f : scope -> op -> option (list op)) (path : list nat) (Sc : scope) (b : list op)
  : option (list op) :=
  match path with
  | [] => None
  | i :: path' =>
    match split_at i b with
    | None => None
    | Some (pre, o, post) =>
      let S' := defs_top pre ++ Sc in
      match path' with
      | [] => match f S' o with
              | Some ops => Some (pre ++ ops ++ post)
              | None => None
              end
      | _ => match o with
             | For iv lb ub st body =>
               match apply_at f path' S' body with
               | Some body' => Some (pre ++ For iv lb ub st body' :: post)
               | None => None
               end
             | _ => None
             end
      end
    end
  end.

Definition rewrite (r : rule) (path : list nat) (b : list op) : option (list op) :=
  apply_at (fun Sc o => apply_rule r Sc (S (maxvar b)) o) path [] b.

(* the same with fresh names above the free names `args` as well (they need not occur in b) *)
Definition fresh_for (args : list var) (b : list op) : var :=
  S (Nat.max (fold_right Nat.max 0%nat args) (maxvar b)).
Definition rewrite_in (args : list var) (r : rule) (path : list nat) (b : list op) : option (list op) :=
  apply_at (fun Sc o => apply_rule r Sc (fresh_for args b) o) path [] b.
Fixpoint rewrite_seq_in (args : list var) (steps : list (rule * list nat)) (b : list op) : option (list op) :=
  match steps with
  | [] => Some b
  | (r, path) :: rest =>
    match rewrite_in args r path b with
    | Some b' => rewrite_seq_in args rest b'
    | None => None
    end
  end.

(* ---------------------------------------------------------------- equality / canonical renumbering (L1) *)
Definition binop_eqb (a b : binop) : bool :=
  match a, b with
  | BAdd, BAdd | BSub, BSub | BMul, BMul | BDivU, BDivU | BRemU, BRemU => true
  | _, _ => false
  end.
Definition dimarg_eqb (a b : dimarg) : bool :=
  match a, b with
  | DStatic x, DStatic y => x =? y
  | DDyn x, DDyn y => Nat.eqb x y
  | _, _ => false
  end.
Definition lin_eqb (a b : linform) : bool :=
  (fst a =? fst b) && list_eqb (fun x y => (fst x =? fst y) && Nat.eqb (snd x) (snd y)) (snd a) (snd b).
Definition pexpr_eqb (a b : pexpr) : bool :=
  match a, b with
  | PConst x, PConst y => x =? y
  | PBin k a1 b1, PBin k' a2 b2 => binop_eqb k k' && Nat.eqb a1 a2 && Nat.eqb b1 b2
  | PMin r1, PMin r2 => list_eqb lin_eqb r1 r2
  | PDim s1 i1, PDim s2 i2 => Nat.eqb s1 s2 && Nat.eqb i1 i2
  | PAlloc s1, PAlloc s2 => list_eqb dimarg_eqb s1 s2
  | PSubview v1 s1, PSubview v2 s2 => Nat.eqb v1 v2 && list_eqb dimarg_eqb s1 s2
  | PLoad m1 i1, PLoad m2 i2 => Nat.eqb m1 m2 && list_eqb Nat.eqb i1 i2
  | _, _ => false
  end.
Fixpoint op_eqb (a b : op) {struct a} : bool :=
  match a, b with
  | Def d1 p1, Def d2 p2 => Nat.eqb d1 d2 && pexpr_eqb p1 p2
  | Eff i1 a1, Eff i2 a2 => Nat.eqb i1 i2 && list_eqb Nat.eqb a1 a2
  | For i1 l1 u1 s1 b1, For i2 l2 u2 s2 b2 =>
    Nat.eqb i1 i2 && Nat.eqb l1 l2 && Nat.eqb u1 u2 && Nat.eqb s1 s2 &&
    (fix eqs (x y : list op) {struct x} : bool :=
       match x, y with
       | [], [] => true
       | o1 :: r1, o2 :: r2 => op_eqb o1 o2 && eqs r1 r2
       | _, _ => false
       end) b1 b2
  | _, _ => false
  end.
Definition block_eqb (a b : list op) : bool := list_eqb op_eqb a b.

(* renumber the defined names in definition (pre-)order starting at `base`; free names are kept *)
Definition rn (m : list (var * var)) (v : var) : var :=
  match find (fun p => Nat.eqb (fst p) v) m with Some p => snd p | None => v end.
Definition rn_dim m (d : dimarg) := match d with DStatic z => DStatic z | DDyn v => DDyn (rn m v) end.
Definition rn_p m (p : pexpr) : pexpr :=
  match p with
  | PConst z => PConst z
  | PBin k a b => PBin k (rn m a) (rn m b)
  | PMin rs => PMin (map (fun l => (fst l, map (fun cv => (fst cv, rn m (snd cv))) (snd l))) rs)
  | PDim s i => PDim (rn m s) (rn m i)
  | PAlloc sz => PAlloc (map (rn_dim m) sz)
  | PSubview s sz => PSubview (rn m s) (map (rn_dim m) sz)
  | PLoad x ix => PLoad (rn m x) (map (rn m) ix)
  end.
Definition cstate := (nat * list (var * var))%type.
Fixpoint canon_op (o : op) (st : cstate) {struct o} : op * cstate :=
  match o with
  | Def d p => let p' := rn_p (snd st) p in
               (Def (fst st) p', (S (fst st), (d, fst st) :: snd st))
  | Eff id args => (Eff id (map (rn (snd st)) args), st)
  | For iv lb ub s body =>
    let m := snd st in
    let st1 : cstate := (S (fst st), (iv, fst st) :: m) in
    let r := (fix go (b : list op) (st : cstate) {struct b} : list op * cstate :=
                match b with
                | [] => ([], st)
                | o :: b' => let r1 := canon_op o st in
                             let r2 := go b' (snd r1) in (fst r1 :: fst r2, snd r2)
                end) body st1 in
    (For (fst st) (rn m lb) (rn m ub) (rn m s) (fst r), snd r)
  end.
Fixpoint canon_block (b : list op) (st : cstate) : list op * cstate :=
  match b with
  | [] => ([], st)
  | o :: b' => let r1 := canon_op o st in
               let r2 := canon_block b' (snd r1) in (fst r1 :: fst r2, snd r2)
  end.
Definition canon (base : nat) (b : list op) : list op := fst (canon_block b (base, [])).

Definition value_eqb (a b : value) : bool :=
  match a, b with
  | VInt x, VInt y => x =? y
  | VMem i x, VMem j y => (i =? j) && list_eqb Z.eqb x y
  | _, _ => false
  end.
Definition event_eqb (a b : event) : bool :=
  Nat.eqb (fst a) (fst b) && list_eqb value_eqb (snd a) (snd b).
Definition trace_eqb (a b : list event) : bool := list_eqb event_eqb a b.

(* ---------------------------------------------------------------- well-formedness (SSA scoping) *)
(* `D` = names in scope.  Every use is in scope, every defined name is new w.r.t. the scope. *)
Fixpoint wf_op (D : list var) (o : op) {struct o} : bool :=
  match o with
  | Def d p => forallb (fun v => memb v D) (uses_p p) && negb (memb d D)
  | Eff _ args => forallb (fun v => memb v D) args
  | For iv lb ub st body =>
    memb lb D && memb ub D && memb st D && negb (memb iv D) &&
    (fix go (D : list var) (b : list op) {struct b} : bool :=
       match b with
       | [] => true
       | o :: b' => wf_op D o && go (match o with Def d _ => d :: D | _ => D end) b'
       end) (iv :: D) body
  end.
Fixpoint wf_block (D : list var) (b : list op) : bool :=
  match b with
  | [] => true
  | o :: b' => wf_op D o && wf_block (match o with Def d _ => d :: D | _ => D end) b'
  end.
(* all names defined anywhere (definitions and induction variables) *)
Fixpoint alldefs_op (o : op) : list var :=
  match o with
  | Def d _ => [d]
  | Eff _ _ => []
  | For iv _ _ _ body => iv :: flat_map alldefs_op body
  end.
Definition alldefs (b : list op) : list var := flat_map alldefs_op b.
Fixpoint nodupb (l : list var) : bool :=
  match l with [] => true | x :: r => negb (memb x r) && nodupb r end.
(* a program with free names `args` is well formed *)
Definition wf_prog (args : list var) (b : list op) : bool :=
  wf_block args b && nodupb (args ++ alldefs b).
