(* C04 part B — lowering of accfg to CSR accesses (snaxc/transforms/convert_accfg_to_csr.py with
   SNAXAccelerator.lower_acc_setup / lower_acc_launch and the four lower_acc_await styles of
   snaxc/accelerators/snax.py), on a small CSR-instruction IR with a CSR machine.
   Executable definitions only; proofs in Proofs/C04CsrProofs.v.

   Source: the shared abstract accfg IR (Model/AccIR.v).
   Target: [cstmt] — what is left after the pass:
     CPure / CCall            untouched ops
     CWrite addr v            llvm.inline_asm "csrw $0, $1" (addr, v); the address operand is an
                              immediate (asm constraint "I"); v is an SSA value of the source program
                              ([VRef]) or a constant materialised by the lowering ([VConst])
     CPoll addr sh k          scf.while { s = csrr addr; cond ((s >> sh) != k) } do { }
     CFor / CIf               scf.for / scf.if WITHOUT the !accfg.state-typed iter_args, results, yields
   The address constants, the index_cast in front of an index-typed value (identity on Z) and the nops
   are not separate target statements (the harness reader folds them into the operands). *)
From Snax Require Import Base.Prelude Model.AccIR Model.AccSem.

(* ---- accelerator declarations (accfg.accelerator op + the Accelerator class's barrier style) ---- *)
Inductive bstyle :=
| BPoll1    (* SNAXPollingBarrier : while (csrr(b) != 0); csrw 0x3c5, 0; nops *)
| BPoll2    (* SNAXPollingBarrier2: while ((csrr(b) >> 1) != 1) *)
| BPoll3    (* SNAXPollingBarrier3: while (csrr(b) != 0) *)
| BWrite4.  (* SNAXPollingBarrier4: write 0 twice to every launch field *)

Record accinfo := mkAccInfo {
  ai_fields : list (field * Z);     (* fields        : name -> CSR address, declaration order *)
  ai_launch : list (field * Z);     (* launch_fields *)
  ai_barrier : Z;
  ai_style : bstyle }.

Definition amapT := list accinfo.    (* indexed by accelerator id *)

Fixpoint assoc (f : field) (l : list (field * Z)) : option Z :=
  match l with
  | [] => None
  | (g, a) :: l' => if Nat.eqb g f then Some a else assoc f l'
  end.

Definition CLEAR_ADDR : Z := 965.    (* 0x3c5 *)

(* ---- target IR --------------------------------------------------------------------------------- *)
(* VCast v: the arith.index_cast to i32 the lowering puts in front of an index-typed setup value *)
Inductive cval := VRef (v : val) | VConst (z : Z) | VCast (v : val).

Inductive cstmt :=
| CPure (dst : val) (e : pexp)
| CCall (tag : nat) (eff pure : bool) (dsts : list val) (args : list val)
| CWrite (addr : Z) (v : cval)
| CPoll (addr : Z) (shift : Z) (cmp : Z)
| CInsn (func7 : Z) (v1 v2 : cval)    (* RoCC: .insn r CUSTOM_3, 0x3, func7, x0, v1, v2 *)
| CFor (iv lb ub step : val) (iters : list (val * val)) (results : list val)
       (body : list cstmt) (yields : list val)
| CIf (c : val) (results : list val) (thn : list cstmt) (thn_y : list val)
      (els : list cstmt) (els_y : list val).

Definition cblock := list cstmt.

(* ---- the lowering -------------------------------------------------------------------------------- *)
(* field_to_csr[field] for every (field, value) of the op; a missing key is Python's KeyError *)
(* [idx]: the index-typed SSA values; lower_acc_setup casts those (per use), lower_acc_launch does not *)
Fixpoint lower_params (idx : list val) (tbl : list (field * Z)) (fs : list (field * val)) : option cblock :=
  match fs with
  | [] => Some []
  | (f, v) :: fs' =>
      match assoc f tbl, lower_params idx tbl fs' with
      | Some a, Some r => Some (CWrite a (if mem_nat v idx then VCast v else VRef v) :: r)
      | _, _ => None
      end
  end.

Definition lower_setup (idx : list val) (ai : accinfo) (fs : list (field * val)) : option cblock :=
  lower_params idx (ai_fields ai) fs.
Definition lower_launch (ai : accinfo) (fs : list (field * val)) : option cblock :=
  lower_params [] (ai_launch ai) fs.
Definition lower_await (ai : accinfo) : cblock :=
  match ai_style ai with
  | BPoll1 => [CPoll (ai_barrier ai) 0 0; CWrite CLEAR_ADDR (VConst 0)]
  | BPoll2 => [CPoll (ai_barrier ai) 1 1]
  | BPoll3 => [CPoll (ai_barrier ai) 0 0]
  | BWrite4 => flat_map (fun la => [CWrite (snd la) (VConst 0); CWrite (snd la) (VConst 0)]) (ai_launch ai)
  end.

(* DeleteAllStates: positional filters (the iter_args / results / yields of an scf op line up) *)
Definition is_int (t : ty) : bool := match t with TInt => true | TState _ => false end.

Fixpoint keep_int {A} (tys : list ty) (xs : list A) : list A :=
  match tys, xs with
  | t :: tys', x :: xs' => if is_int t then x :: keep_int tys' xs' else keep_int tys' xs'
  | _, _ => []
  end.

Definition int_iters (iters : list (val * val * ty)) : list (val * val) :=
  map (fun x => (it_arg x, it_init x)) (filter (fun x => is_int (it_ty x)) iters).

Section Lower.
Variable am : amapT.
Variable idx : list val.

Fixpoint lower_stmt (s : stmt) {struct s} : option cblock :=
  let lower_blk := fix lower_blk (b : list stmt) {struct b} : option cblock :=
    match b with
    | [] => Some []
    | x :: b' =>
        match lower_stmt x, lower_blk b' with
        | Some cx, Some cb => Some (cx ++ cb)
        | _, _ => None
        end
    end in
  match s with
  | SPure d e => Some [CPure d e]
  | SCall g ef pu ds ar => Some [CCall g ef pu ds ar]
  | SSetup a _ _ fs => match nth_error am a with Some ai => lower_setup idx ai fs | None => None end
  | SLaunch a _ _ fs => match nth_error am a with Some ai => lower_launch ai fs | None => None end
  | SAwait a _ => match nth_error am a with Some ai => Some (lower_await ai) | None => None end
  | SReset _ _ => None      (* accfg.reset has no lowering: the pass leaves a malformed op behind *)
  | SFor iv lb ub st iters results body yields =>
      match lower_blk body with
      | Some cb =>
          let tys := map it_ty iters in
          Some [CFor iv lb ub st (int_iters iters) (keep_int tys results) cb (keep_int tys yields)]
      | None => None
      end
  | SIf c results thn thn_y els els_y =>
      match lower_blk thn, lower_blk els with
      | Some ct, Some ce =>
          let tys := map snd results in
          Some [CIf c (keep_int tys (map fst results)) ct (keep_int tys thn_y) ce (keep_int tys els_y)]
      | _, _ => None
      end
  end.

Fixpoint lower_block (b : block) : option cblock :=
  match b with
  | [] => Some []
  | x :: b' =>
      match lower_stmt x, lower_block b' with
      | Some cx, Some cb => Some (cx ++ cb)
      | _, _ => None
      end
  end.
End Lower.

(* ---- CSR machine ------------------------------------------------------------------------------------ *)
(* events: a CSR write, one poll (read) of a CSR, an opaque call *)
Inductive cev :=
| CW (addr v : Z)
| CR (addr : Z)
| CI (func7 v1 v2 : Z)
| CCallE (tag n : nat) (args : list Z).

Record cstate := mkCSt {
  cenv : envT;
  csr : Z -> Z;            (* the CSR file *)
  cncalls : nat;
  cnpolls : nat;           (* number of polling loops executed so far *)
  ctr : list cev }.        (* newest first *)

(* what the program text does not determine: call results (shared [oracle]), what a callee with
   effects leaves in the CSR file, how many times the n-th polling loop reads "busy" *)
Record coracle := mkCOracle {
  co_orc : oracle;
  co_csr : nat -> Z -> Z;
  co_busy : nat -> nat }.

Definition zupd (m : Z -> Z) (k v : Z) : Z -> Z := fun k' => if k' =? k then v else m k'.

Definition cval_eval (e : envT) (v : cval) : Z :=
  match v with VRef x => e x | VConst z => z | VCast x => e x end.

Definition cset_env (m : cstate) (e : envT) : cstate :=
  mkCSt e (csr m) (cncalls m) (cnpolls m) (ctr m).

Fixpoint repeat_ev (n : nat) (e : cev) (t : list cev) : list cev :=
  match n with O => t | S k => e :: repeat_ev k e t end.

Section CExec.
Variable co : coracle.

Definition cexec_call (tag : nat) (eff pure : bool) (dsts args : list val) (m : cstate) : cstate :=
  let argv := map (cenv m) args in
  let n := cncalls m in
  mkCSt (call_results (co_orc co) pure n tag 0%nat dsts argv (cenv m))
        (if eff then co_csr co n else csr m)
        (S n) (cnpolls m) (CCallE tag n argv :: ctr m).

Definition cexec_write (addr : Z) (v : cval) (m : cstate) : cstate :=
  let z := cval_eval (cenv m) v in
  mkCSt (cenv m) (zupd (csr m) addr z) (cncalls m) (cnpolls m) (CW addr z :: ctr m).

(* the loop reads [co_busy n] busy values and then the value that ends it *)
Definition cexec_poll (addr : Z) (m : cstate) : cstate :=
  mkCSt (cenv m) (csr m) (cncalls m) (S (cnpolls m))
        (repeat_ev (S (co_busy co (cnpolls m))) (CR addr) (ctr m)).

Definition cfor_step (exec_body : cstate -> cstate) (iv : val) (bargs yields : list val)
           (l s : Z) (k : nat) (mk : cstate) : cstate :=
  let m1 := cset_env mk (upd (cenv mk) iv (l + Z.of_nat k * s)) in
  let m2 := exec_body m1 in
  cset_env m2 (bind_list bargs (map (cenv m2) yields) (cenv m2)).

Definition cexec_for (exec_body : cstate -> cstate) (iv lb ub st : val) (iters : list (val * val))
           (results yields : list val) (m : cstate) : cstate :=
  let l := cenv m lb in
  let u := cenv m ub in
  let s := cenv m st in
  let bargs := map fst iters in
  let m0 := cset_env m (bind_list bargs (map (fun x => cenv m (snd x)) iters) (cenv m)) in
  let mN := iter_n (trip_count l u s) (cfor_step exec_body iv bargs yields l s) m0 in
  cset_env mN (bind_list results (map (cenv mN) bargs) (cenv mN)).

Definition cexec_if (exec_thn exec_els : cstate -> cstate) (c : val) (results thn_y els_y : list val)
           (m : cstate) : cstate :=
  if cenv m c =? 0
  then let m' := exec_els m in cset_env m' (bind_list results (map (cenv m') els_y) (cenv m'))
  else let m' := exec_thn m in cset_env m' (bind_list results (map (cenv m') thn_y) (cenv m')).

Fixpoint cexec_stmt (s : cstmt) (m : cstate) {struct s} : cstate :=
  let exec_blk := fix exec_blk (b : list cstmt) (m : cstate) {struct b} : cstate :=
    match b with
    | [] => m
    | x :: b' => exec_blk b' (cexec_stmt x m)
    end in
  match s with
  | CPure d e => cset_env m (upd (cenv m) d (eval_pexp (cenv m) e))
  | CCall tag eff pure dsts args => cexec_call tag eff pure dsts args m
  | CWrite a v => cexec_write a v m
  | CPoll a _ _ => cexec_poll a m
  | CInsn f a b =>
      mkCSt (cenv m) (csr m) (cncalls m) (cnpolls m)
            (CI f (cval_eval (cenv m) a) (cval_eval (cenv m) b) :: ctr m)
  | CFor iv lb ub st iters results body yields =>
      cexec_for (exec_blk body) iv lb ub st iters results yields m
  | CIf c results thn thn_y els els_y =>
      cexec_if (exec_blk thn) (exec_blk els) c results thn_y els_y m
  end.

Fixpoint cexec_block (b : cblock) (m : cstate) : cstate :=
  match b with
  | [] => m
  | x :: b' => cexec_block b' (cexec_stmt x m)
  end.

Definition cinit (params : list val) (args : list Z) : cstate :=
  mkCSt (bind_list params args (fun _ => 0)) (co_csr co 0%nat) 1%nat 0%nat [].

Definition crun (params : list val) (b : cblock) (args : list Z) : list cev :=
  rev (ctr (cexec_block b (cinit params args))).
End CExec.

(* ---- fine-grained source semantics -------------------------------------------------------------------
   The accfg program executed as a sequence of per-field configuration writes.  State- and token-typed
   values are ghosts: they are never bound in the environment. *)
Inductive fev :=
| FSet (a : acc) (f : field) (v : Z)          (* accfg.setup writes field f *)
| FLaunch (a : acc) (f : field) (v : Z)       (* accfg.launch writes launch field f *)
| FAwait (a : acc)
| FCallE (tag n : nat) (args : list Z).

Record fstate := mkFSt { fenv : envT; fncalls : nat; ftr : list fev }.

Definition fset_env (m : fstate) (e : envT) : fstate := mkFSt e (fncalls m) (ftr m).

Fixpoint femit_fields (mk : field -> Z -> fev) (e : envT) (fs : list (field * val)) (t : list fev) : list fev :=
  match fs with
  | [] => t
  | (f, v) :: fs' => femit_fields mk e fs' (mk f (e v) :: t)
  end.

Section FExec.
Variable orc : oracle.

Definition fexec_call (tag : nat) (eff pure : bool) (dsts args : list val) (m : fstate) : fstate :=
  let argv := map (fenv m) args in
  let n := fncalls m in
  mkFSt (call_results orc pure n tag 0%nat dsts argv (fenv m)) (S n) (FCallE tag n argv :: ftr m).

Definition ffor_step (exec_body : fstate -> fstate) (iv : val) (bargs yields : list val)
           (l s : Z) (k : nat) (mk : fstate) : fstate :=
  let m1 := fset_env mk (upd (fenv mk) iv (l + Z.of_nat k * s)) in
  let m2 := exec_body m1 in
  fset_env m2 (bind_list bargs (map (fenv m2) yields) (fenv m2)).

Definition fexec_for (exec_body : fstate -> fstate) (iv lb ub st : val) (iters : list (val * val * ty))
           (results yields : list val) (m : fstate) : fstate :=
  let l := fenv m lb in
  let u := fenv m ub in
  let s := fenv m st in
  let tys := map it_ty iters in
  let bargs := keep_int tys (map it_arg iters) in
  let m0 := fset_env m (bind_list bargs (map (fenv m) (keep_int tys (map it_init iters))) (fenv m)) in
  let mN := iter_n (trip_count l u s) (ffor_step exec_body iv bargs (keep_int tys yields) l s) m0 in
  fset_env mN (bind_list (keep_int tys results) (map (fenv mN) bargs) (fenv mN)).

Definition fexec_if (exec_thn exec_els : fstate -> fstate) (c : val) (results : list (val * ty))
           (thn_y els_y : list val) (m : fstate) : fstate :=
  let tys := map snd results in
  let rs := keep_int tys (map fst results) in
  if fenv m c =? 0
  then let m' := exec_els m in fset_env m' (bind_list rs (map (fenv m') (keep_int tys els_y)) (fenv m'))
  else let m' := exec_thn m in fset_env m' (bind_list rs (map (fenv m') (keep_int tys thn_y)) (fenv m')).

Fixpoint fexec_stmt (s : stmt) (m : fstate) {struct s} : fstate :=
  let exec_blk := fix exec_blk (b : list stmt) (m : fstate) {struct b} : fstate :=
    match b with
    | [] => m
    | x :: b' => exec_blk b' (fexec_stmt x m)
    end in
  match s with
  | SPure d e => fset_env m (upd (fenv m) d (eval_pexp (fenv m) e))
  | SCall tag eff pure dsts args => fexec_call tag eff pure dsts args m
  | SSetup a _ _ fs => mkFSt (fenv m) (fncalls m) (femit_fields (FSet a) (fenv m) fs (ftr m))
  | SLaunch a _ _ fs => mkFSt (fenv m) (fncalls m) (femit_fields (FLaunch a) (fenv m) fs (ftr m))
  | SAwait a _ => mkFSt (fenv m) (fncalls m) (FAwait a :: ftr m)
  | SReset _ _ => m
  | SFor iv lb ub st iters results body yields =>
      fexec_for (exec_blk body) iv lb ub st iters results yields m
  | SIf c results thn thn_y els els_y =>
      fexec_if (exec_blk thn) (exec_blk els) c results thn_y els_y m
  end.

Fixpoint fexec_block (b : block) (m : fstate) : fstate :=
  match b with
  | [] => m
  | x :: b' => fexec_block b' (fexec_stmt x m)
  end.

Definition finit (p : prog) (args : list Z) : fstate :=
  mkFSt (bind_list (p_params p) args (fun _ => 0)) 1%nat [].

Definition frun (p : prog) (args : list Z) : list fev := rev (ftr (fexec_block (p_body p) (finit p args))).
End FExec.

(* ---- what the CSR trace of a source run has to be ----------------------------------------------------
   [expand am busy n t]: the CSR events for the source events [t] (oldest first); [n] counts the polling
   loops so far (index into the busy oracle).  None = a field without declared address. *)
Definition await_events (ai : accinfo) (busy : nat -> nat) (n : nat) : list cev * nat :=
  match ai_style ai with
  | BPoll1 => (repeat_ev (S (busy n)) (CR (ai_barrier ai)) [] ++ [CW CLEAR_ADDR 0], S n)
  | BPoll2 | BPoll3 => (repeat_ev (S (busy n)) (CR (ai_barrier ai)) [], S n)
  | BWrite4 => (flat_map (fun la => [CW (snd la) 0; CW (snd la) 0]) (ai_launch ai), n)
  end.

Fixpoint expand (am : amapT) (busy : nat -> nat) (n : nat) (t : list fev) : option (list cev) :=
  match t with
  | [] => Some []
  | FSet a f v :: t' =>
      match nth_error am a with
      | Some ai => match assoc f (ai_fields ai), expand am busy n t' with
                   | Some ad, Some r => Some (CW ad v :: r)
                   | _, _ => None
                   end
      | None => None
      end
  | FLaunch a f v :: t' =>
      match nth_error am a with
      | Some ai => match assoc f (ai_launch ai), expand am busy n t' with
                   | Some ad, Some r => Some (CW ad v :: r)
                   | _, _ => None
                   end
      | None => None
      end
  | FAwait a :: t' =>
      match nth_error am a with
      | Some ai => let '(evs, n') := await_events ai busy n in
                   match expand am busy n' t' with Some r => Some (evs ++ r) | None => None end
      | None => None
      end
  | FCallE g k ar :: t' =>
      match expand am busy n t' with Some r => Some (CCallE g k ar :: r) | None => None end
  end.

(* ---- the CSR file after a trace; the registers of one accelerator after a source trace ------------------ *)
Fixpoint csr_after (t : list cev) (c : Z -> Z) : Z -> Z :=
  match t with
  | [] => c
  | CW a v :: t' => csr_after t' (zupd c a v)
  | _ :: t' => csr_after t' c
  end.

(* fields of accelerator [a] written by a source trace, with the last value *)
Fixpoint regs_after (a : acc) (t : list fev) (r : field -> option Z) : field -> option Z :=
  match t with
  | [] => r
  | FSet a' f v :: t' =>
      regs_after a t' (if Nat.eqb a' a then (fun g => if Nat.eqb g f then Some v else r g) else r)
  | _ :: t' => regs_after a t' r
  end.

(* ---- "no state values survive": the state-typed ids of a program, the ids a target mentions ------------- *)
Fixpoint stmt_state_ids (s : stmt) : list val :=
  let blk := fix blk (b : list stmt) : list val :=
    match b with [] => [] | x :: b' => stmt_state_ids x ++ blk b' end in
  match s with
  | SSetup _ out ins _ => out :: match ins with Some i => [i] | None => [] end
  | SLaunch _ tok st _ => [tok; st]
  | SAwait _ tok => [tok]
  | SReset _ st => [st]
  | SFor _ _ _ _ iters results body yields =>
      let tys := map it_ty iters in
      let drop := fun (xs : list val) => map snd (filter (fun tx => negb (is_int (fst tx))) (combine tys xs)) in
      drop (map it_arg iters) ++ drop (map it_init iters) ++ drop results ++ drop yields ++ blk body
  | SIf _ results thn thn_y els els_y =>
      let tys := map snd results in
      let drop := fun (xs : list val) => map snd (filter (fun tx => negb (is_int (fst tx))) (combine tys xs)) in
      drop (map fst results) ++ drop thn_y ++ drop els_y ++ blk thn ++ blk els
  | _ => []
  end.
Definition block_state_ids (b : block) : list val := flat_map stmt_state_ids b.

Definition pexp_ids (e : pexp) : list val :=
  match e with
  | PConst _ => [] | PId a => [a] | PBin _ a b => [a; b] | PCmp _ a b => [a; b] | PSelect c a b => [c; a; b]
  end.

Definition cval_ids (v : cval) : list val := match v with VRef x | VCast x => [x] | VConst _ => [] end.

Fixpoint cstmt_ids (s : cstmt) : list val :=
  let blk := fix blk (b : list cstmt) : list val :=
    match b with [] => [] | x :: b' => cstmt_ids x ++ blk b' end in
  match s with
  | CPure d e => d :: pexp_ids e
  | CCall _ _ _ ds ar => ds ++ ar
  | CWrite _ (VRef v) => [v]
  | CWrite _ (VConst _) => []
  | CWrite _ (VCast v) => [v]
  | CPoll _ _ _ => []
  | CInsn _ a b => cval_ids a ++ cval_ids b
  | CFor iv lb ub st iters results body yields =>
      iv :: lb :: ub :: st :: map fst iters ++ map snd iters ++ results ++ yields ++ blk body
  | CIf c results thn thn_y els els_y => c :: results ++ thn_y ++ els_y ++ blk thn ++ blk els
  end.
Definition cblock_ids (b : cblock) : list val := flat_map cstmt_ids b.

(* the ids a source statement reads or binds as integers (everything except the state/token positions) *)
Fixpoint stmt_int_ids (s : stmt) : list val :=
  let blk := fix blk (b : list stmt) : list val :=
    match b with [] => [] | x :: b' => stmt_int_ids x ++ blk b' end in
  match s with
  | SPure d e => d :: pexp_ids e
  | SCall _ _ _ ds ar => ds ++ ar
  | SSetup _ _ _ fs => map snd fs
  | SLaunch _ _ _ fs => map snd fs
  | SAwait _ _ => []
  | SReset _ _ => []
  | SFor iv lb ub st iters results body yields =>
      let tys := map it_ty iters in
      iv :: lb :: ub :: st :: keep_int tys (map it_arg iters) ++ keep_int tys (map it_init iters)
        ++ keep_int tys results ++ keep_int tys yields ++ blk body
  | SIf c results thn thn_y els els_y =>
      let tys := map snd results in
      c :: keep_int tys (map fst results) ++ keep_int tys thn_y ++ keep_int tys els_y ++ blk thn ++ blk els
  end.
Definition block_int_ids (b : block) : list val := flat_map stmt_int_ids b.

(* ---- boolean equality of target programs (L1) ------------------------------------------------------------ *)
Definition cval_eqb (a b : cval) : bool :=
  match a, b with
  | VRef x, VRef y => Nat.eqb x y
  | VConst x, VConst y => Z.eqb x y
  | VCast x, VCast y => Nat.eqb x y
  | _, _ => false
  end.
Definition vv_eqb (a b : val * val) : bool := Nat.eqb (fst a) (fst b) && Nat.eqb (snd a) (snd b).

Fixpoint cstmt_eqb (s t : cstmt) {struct s} : bool :=
  let blk := fix blk (b1 b2 : list cstmt) {struct b1} : bool :=
    match b1, b2 with
    | [], [] => true
    | x :: b1', y :: b2' => cstmt_eqb x y && blk b1' b2'
    | _, _ => false
    end in
  match s, t with
  | CPure d e, CPure d' e' => Nat.eqb d d' && pexp_eqb e e'
  | CCall g ef pu ds ar, CCall g' ef' pu' ds' ar' =>
      Nat.eqb g g' && Bool.eqb ef ef' && Bool.eqb pu pu' && list_eqb Nat.eqb ds ds' && list_eqb Nat.eqb ar ar'
  | CWrite a v, CWrite a' v' => Z.eqb a a' && cval_eqb v v'
  | CPoll a s k, CPoll a' s' k' => Z.eqb a a' && Z.eqb s s' && Z.eqb k k'
  | CInsn f a b, CInsn f' a' b' => Z.eqb f f' && cval_eqb a a' && cval_eqb b b'
  | CFor iv lb ub sp its rs body ys, CFor iv' lb' ub' sp' its' rs' body' ys' =>
      Nat.eqb iv iv' && Nat.eqb lb lb' && Nat.eqb ub ub' && Nat.eqb sp sp' && list_eqb vv_eqb its its'
      && list_eqb Nat.eqb rs rs' && blk body body' && list_eqb Nat.eqb ys ys'
  | CIf c rs th thy el ely, CIf c' rs' th' thy' el' ely' =>
      Nat.eqb c c' && list_eqb Nat.eqb rs rs' && blk th th' && list_eqb Nat.eqb thy thy'
      && blk el el' && list_eqb Nat.eqb ely ely'
  | _, _ => false
  end.
Definition cblock_eqb (a b : cblock) : bool := list_eqb cstmt_eqb a b.
Definition ocblock_eqb (a b : option cblock) : bool :=
  match a, b with
  | Some x, Some y => cblock_eqb x y
  | None, None => true
  | _, _ => false
  end.

Definition cev_eqb (a b : cev) : bool :=
  match a, b with
  | CW x v, CW y w => Z.eqb x y && Z.eqb v w
  | CR x, CR y => Z.eqb x y
  | CI f a b, CI f' a' b' => Z.eqb f f' && Z.eqb a a' && Z.eqb b b'
  | CCallE g n ar, CCallE g' n' ar' => Nat.eqb g g' && Nat.eqb n n' && list_eqb Z.eqb ar ar'
  | _, _ => false
  end.
Definition octrace_eqb (a : option (list cev)) (b : list cev) : bool :=
  match a with Some x => list_eqb cev_eqb x b | None => false end.

(* known-finding class: a program that still contains accfg.reset when it reaches the pass *)
Fixpoint stmt_has_reset (s : stmt) : bool :=
  let blk := fix blk (b : list stmt) : bool :=
    match b with [] => false | x :: b' => stmt_has_reset x || blk b' end in
  match s with
  | SReset _ _ => true
  | SFor _ _ _ _ _ _ body _ => blk body
  | SIf _ _ thn _ els _ => blk thn || blk els
  | _ => false
  end.
Definition has_reset (b : block) : bool := existsb stmt_has_reset b.

(* a concrete oracle for vm_compute runs *)
Definition test_coracle (seed : Z) : coracle :=
  mkCOracle (test_oracle seed)
            (fun n a => 77 * seed + 13 * Z.of_nat n + a + 400000)
            (fun n => Nat.modulo (Z.to_nat seed + 2 * n) 3).
