(* C08 — streamer temporal semantics used by the padding / reuse / loop-count theorems.
   Executable definitions only. A StridePattern's temporal part is a loop nest, dimension 0 innermost:
   the address sequence is  for i_{n-1} .. for i_0 : sum_k i_k * ts_k. *)
From Snax Require Import Base.Prelude Base.ListAux Model.C08StreamerCfg.

Fixpoint addrs (bs ss : list Z) : list Z :=
  match bs, ss with
  | b :: bs', s :: ss' => flat_map (fun o => map (fun i => o + i * s) (zrange b)) (addrs bs' ss')
  | _, _ => [0]
  end.

(* what the hardware is programmed with: padded to the hardware dimensionality *)
Definition hw_bounds (n : nat) (bs : list Z) : list Z := pad bs 1 n.
Definition hw_strides (n : nat) (ss : list Z) : list Z := pad ss 0 n.

(* the reuse collapse of _generate_streamer_setup_vals on the bound list *)
Definition collapse (flags : list flag) (bs ss : list Z) : list Z :=
  map (fun fbs => bound_val (fst (fst fbs)) (snd (fst fbs)) (snd fbs)) (combine (combine flags bs) ss).

(* number of temporal steps *)
Definition steps (bs ss : list Z) : Z := Z.of_nat (List.length (addrs bs ss)).
