(* C09 — hand model (H) of snaxc/transforms/set_memory_layout.py:
     ensure_access_granularity, AddCyclicMemoryLayout.match_and_rewrite (tiled = true / false).
   Executable definitions only; proofs in Proofs/C09SetLayoutProofs.v.
   Tied to the code by the L1 correspondence of harness/props/c09.py (the real pass run in-process). *)
From Snax Require Import Base.Prelude Model.Tsl.

(* ---- ensure_access_granularity ------------------------------------------------- *)
(* spatial = spatial_dims(ctx, op) (number of dims of the accelerator template),
   bw = operand element bitwidth, cs = current_stride, sdim = schedule_dim (0 = innermost loop) *)
Definition temporal_gran (bw : Z) : Z := if bw =? 8 then 8 else 16.
Definition spatial_gran (bw : Z) : Z := if bw =? 8 then 8 else 2.
Definition gran_of (spatial bw sdim : Z) : Z :=
  if sdim >=? spatial then temporal_gran bw else spatial_gran bw.
Definition pad_to (g cs : Z) : Z :=
  if negb (cs mod g =? 0) then cs + (g - cs) mod 64 else cs.
Definition ensure_access_granularity (spatial bw cs sdim : Z) : Z :=
  if cs =? 1 then cs
  else if sdim >=? spatial then pad_to (temporal_gran bw) cs
  else pad_to (spatial_gran bw) cs.

(* ---- the stride-assignment loop ------------------------------------------------- *)
(* strides[dim] : outermost first (Stride objects are inserted at position 0) *)
Definition strides_t : Type := list tstride.

Fixpoint upd {A} (n : nat) (x : A) (l : list A) : list A :=
  match n, l with
  | O, _ :: t => x :: t
  | S n', h :: t => h :: upd n' x t
  | _, [] => []
  end.

(* accesses = tuple(0 if x == 0 else 1 for x in column); accesses.index(1) *)
Fixpoint first_nz (col : list Z) : option nat :=
  match col with
  | [] => None
  | x :: r => if x =? 0 then match first_nz r with Some k => Some (S k) | None => None end else Some O
  end.

(* for stride, bound in zip(A[accessed_dim, :], schedule.bounds):
       if stride % schedule_bound != 0 and bound != schedule_bound: to_tile = False *)
Definition breaks_rect (row bounds : list Z) (sb : Z) : bool :=
  existsb (fun p => negb (fst p mod sb =? 0) && negb (snd p =? sb)) (combine row bounds).

Record sched := mkSched {
  s_bounds : list Z;          (* schedule.bounds *)
  s_rows : list (list Z)      (* schedule.pattern.A, one row per operand dimension *)
}.

Definition column (rows : list (list Z)) (j : nat) : list Z := map (fun r => nth j r 0) rows.

(* loop state: (current_stride, strides) *)
Definition lstate : Type := (Z * strides_t)%type.

(* one iteration of the loop over the reversed schedule columns; k = schedule_dim *)
Definition assign_step (tiled : bool) (spatial bw : Z) (s : sched) (shape : list Z)
           (st : lstate) (k : nat) (sb : Z) (col : list Z) : lstate :=
  match first_nz col with
  | None => st                                           (* `continue` *)
  | Some d =>
      let cs := ensure_access_granularity spatial bw (fst st) (Z.of_nat k) in
      let cur := nth d (snd st) [] in
      let existing := bounds_prod cur in                 (* prod(s.bound for s in strides[d] if s.bound) *)
      let remaining := nth d shape 0 / existing in       (* ceil(shape[d] // existing_bound) *)
      let to_tile := tiled && (remaining mod sb =? 0) && negb (breaks_rect (nth d (s_rows s) []) (s_bounds s) sb) in
      let lb := if to_tile then sb else remaining in
      (cs * lb, upd d ((Some cs, Some lb) :: cur) (snd st))
  end.

(* enumerate(zip(bounds[::-1], flip(A, axis=1).T)) as a list of (k, sb, column) *)
Definition rev_columns (s : sched) : list (nat * Z * list Z) :=
  let n := length (s_bounds s) in
  map (fun k => (k, nth (n - 1 - k) (s_bounds s) 0, column (s_rows s) (n - 1 - k))) (seq 0 n).

Definition assign_loop (tiled : bool) (spatial bw : Z) (s : sched) (shape : list Z) : lstate :=
  fold_left (fun st c => assign_step tiled spatial bw s shape st (fst (fst c)) (snd (fst c)) (snd c))
            (rev_columns s) (1, map (fun _ => []) shape).

(* after the loop (repaired code): cover what the schedule leaves of every dimension
     for dim, stride in enumerate(strides):
         existing_bound = prod(s.bound for s in stride if s.bound)
         size_remaining = shape[dim] // existing_bound
         if not len(stride) or size_remaining > 1:
             stride.insert(0, Stride(current_stride, size_remaining))
             current_stride = current_stride * size_remaining                                  *)
Definition fill_step (shape : list Z) (st : lstate) (d : nat) : lstate :=
  let cur := nth d (snd st) [] in
  let remaining := nth d shape 0 / bounds_prod cur in
  if (match cur with [] => true | _ => false end) || (remaining >? 1)
  then (fst st * remaining, upd d ((Some (fst st), Some remaining) :: cur) (snd st))
  else st.
Definition fill_up (shape : list Z) (st : lstate) : lstate :=
  fold_left (fill_step shape) (seq 0 (length shape)) st.

Definition raw_layout (tiled : bool) (spatial bw : Z) (s : sched) (shape : list Z) : layout :=
  mkLayout (snd (fill_up shape (assign_loop tiled spatial bw s shape))) (Some 0).

(* TiledStridedLayout([...]).canonicalize() *)
Definition assign_layout (tiled : bool) (spatial bw : Z) (s : sched) (shape : list Z) : layout :=
  canonicalize (raw_layout tiled spatial bw s shape).

(* the fill-up BEFORE the repair (kept to state what was wrong):
     for stride in strides: if not len(stride): stride.append(Stride(current_stride, 1)) *)
Definition fill_up_old (st : lstate) : strides_t :=
  map (fun t => match t with [] => [(Some (fst st), Some 1)] | _ => t end) (snd st).
Definition assign_layout_old (tiled : bool) (spatial bw : Z) (s : sched) (shape : list Z) : layout :=
  canonicalize (mkLayout (fill_up_old (assign_loop tiled spatial bw s shape)) (Some 0)).

(* ---- the rewrite on a whole dart.schedule --------------------------------------- *)
(* operand = (shape, bitwidth, explicit TSL layout if any); all operands share the bounds, each has its rows *)
Record operand := mkOperand { o_shape : list Z; o_bw : Z; o_layout : option layout; o_rows : list (list Z) }.

(* None = the pattern returns without rewriting (some operand already has a TSL layout);
   Some ls = target layouts of the inserted snax.layout_cast ops, one per operand *)
Definition rewrite_schedule (tiled : bool) (spatial : Z) (bounds : list Z) (ops : list operand) : option (list layout) :=
  if existsb (fun o => match o_layout o with Some _ => true | None => false end) ops then None
  else Some (map (fun o => assign_layout tiled spatial (o_bw o) (mkSched bounds (o_rows o)) (o_shape o)) ops).

Definition covers (shape : list Z) (l : layout) : bool := list_eqb Z.eqb (shape_of l) shape.
