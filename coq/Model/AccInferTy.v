(* Accelerator typing of state values (which accelerator a state-typed SSA value belongs to) —
   the decidable side condition of the head-inductiveness theorem (Proofs/AccHeadProofs.v).
   Executable definitions only. *)
From Snax Require Import Base.Prelude Model.AccIR Model.AccSem Model.AccInfer.

Section Ty.
Variable ty_of : val -> option acc.

Definition has_ty (v : val) (a : acc) : bool :=
  match ty_of v with Some b => Nat.eqb b a | None => false end.

Fixpoint sty_stmt (s : stmt) : bool :=
  let blk := fix blk (b : list stmt) : bool := match b with [] => true | x :: b' => sty_stmt x && blk b' end in
  match s with
  | SSetup a out ins _ => has_ty out a && match ins with Some i => has_ty i a | None => true end
  | SFor _ _ _ _ its rs body ys =>
      forallb (fun x => has_ty (si_arg x) (si_acc x) && has_ty (si_init x) (si_acc x)
                        && has_ty (si_yield x) (si_acc x) && has_ty (si_res x) (si_acc x)) (state_iters its ys rs)
      && nodup_nat (map si_acc (state_iters its ys rs)) && blk body
  | SIf _ rs th thy el ely =>
      forallb (fun x => has_ty (sr_res x) (sr_acc x) && has_ty (sr_then x) (sr_acc x)
                        && has_ty (sr_else x) (sr_acc x)) (state_results rs thy ely)
      && blk th && blk el
  | _ => true
  end.
Fixpoint sty_block (b : block) : bool := match b with [] => true | x :: b' => sty_stmt x && sty_block b' end.
End Ty.

(* the typing table of a program: setup out-states, state iter_args / results, scf.if state results *)
Fixpoint stmt_tys (s : stmt) : list (val * acc) :=
  let blk := fix blk (b : list stmt) : list (val * acc) := match b with [] => [] | x :: b' => stmt_tys x ++ blk b' end in
  match s with
  | SSetup a out _ _ => [(out, a)]
  | SFor _ _ _ _ its rs body ys =>
      flat_map (fun x => [(si_arg x, si_acc x); (si_res x, si_acc x)]) (state_iters its ys rs) ++ blk body
  | SIf _ rs th thy el ely =>
      map (fun x => (sr_res x, sr_acc x)) (state_results rs thy ely) ++ blk th ++ blk el
  | _ => []
  end.
Definition prog_tys (p : prog) : list (val * acc) := flat_map stmt_tys (p_body p).

Fixpoint ty_lookup (l : list (val * acc)) (v : val) : option acc :=
  match l with [] => None | (k, a) :: l' => if Nat.eqb k v then Some a else ty_lookup l' v end.

Definition sty_prog (p : prog) : bool := sty_block (ty_lookup (prog_tys p)) (p_body p).

(* ---- side conditions of [ainfer_certified_all] (Proofs/AccCertProofs.v), all decidable ------------- *)
(* the state values that receive a table entry *)
Fixpoint stmt_sdefs (s : stmt) : list val :=
  let blk := fix blk (b : list stmt) : list val := match b with [] => [] | x :: b' => stmt_sdefs x ++ blk b' end in
  match s with
  | SSetup _ o _ _ => [o]
  | SFor _ _ _ _ its rs body ys =>
      map si_arg (state_iters its ys rs) ++ blk body ++ map si_res (state_iters its ys rs)
  | SIf _ rs th thy el ely => blk th ++ blk el ++ map sr_res (state_results rs thy ely)
  | _ => []
  end.
Definition block_sdefs (b : block) : list val := flat_map stmt_sdefs b.

(* SSA scoping, as far as the certificate needs it: a value bound by a statement is not an operand
   of a setup that precedes it in program order ([V] = the setup operands seen so far) *)
Definition disj (ds V : list val) : bool := forallb (fun d => negb (mem_nat d V)) ds.

Fixpoint scoped_stmt (V : list val) (s : stmt) {struct s} : option (list val) :=
  let blk := fix blk (V : list val) (b : list stmt) {struct b} : option (list val) :=
    match b with
    | [] => Some V
    | x :: b' => match scoped_stmt V x with Some V1 => blk V1 b' | None => None end
    end in
  match s with
  | SPure d _ => if disj [d] V then Some V else None
  | SCall _ _ _ ds _ => if disj ds V then Some V else None
  | SSetup _ _ _ fs => Some (map snd fs ++ V)
  | SFor iv _ _ _ its rs body _ => if disj (iv :: map it_arg its ++ rs) V then blk V body else None
  | SIf _ rs th _ el _ =>
      match blk V th with
      | Some V1 => match blk V1 el with
                   | Some V2 => if disj (map fst rs) V2 then Some V2 else None
                   | None => None
                   end
      | None => None
      end
  | _ => Some V
  end.
Fixpoint scoped_block (V : list val) (b : block) : option (list val) :=
  match b with
  | [] => Some V
  | x :: b' => match scoped_stmt V x with Some V1 => scoped_block V1 b' | None => None end
  end.

(* well-threaded: the link clauses of the certificate alone (the table plays no role) *)
Definition wt_prog (p : prog) : bool := wf_prog (fun _ => []) p.

Definition cert_side (p : prog) : bool :=
  wt_prog p && sty_prog p && nodup_nat (block_sdefs (p_body p))
  && match scoped_block [] (p_body p) with Some _ => true | None => false end.

(* ---- known-finding class F42 (audit): the INPUT of accfg-trace-states already has an scf.if with a
   state-typed result (IR that was threaded before).  The pass then adds a second state result for the
   same accelerator (sound, but rejected by the certificate: [nodup_nat (map sr_acc srs)]) and, when that
   result feeds a loop that already carries the state, appends an operand without a block argument
   (verifier error; the model [weave] returns None). *)
Fixpoint stmt_prethreaded_if (s : stmt) : bool :=
  let blk := fix blk (b : list stmt) : bool := match b with [] => false | x :: b' => stmt_prethreaded_if x || blk b' end in
  match s with
  | SIf _ rs th _ el _ =>
      existsb (fun r => match snd r with TState _ => true | TInt => false end) rs || blk th || blk el
  | SFor _ _ _ _ _ _ body _ => blk body
  | _ => false
  end.
Definition prethreaded_if (p : prog) : bool := existsb stmt_prethreaded_if (p_body p).
