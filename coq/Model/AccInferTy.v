(* Accelerator typing of state values (which accelerator a state-typed SSA value belongs to) —
   the decidable side condition of the head-inductiveness theorem (Proofs/AccHeadProofs.v).
   Executable definitions only. *)
From Snax Require Import Base.Prelude Model.AccIR Model.AccSem Model.AccInfer.

Section Ty.
Variable ty_of : val -> option acc.

Definition has_ty (v : val) (a : acc) : bool :=
  match ty_of v with Some b => Nat.eqb b a | None => false end.

Fixpoint sty_stmt (s : stmt) : bool :=
  let blk := fix blk (b : list stmt) : bool := match b with [] => true | x :: b' => sty_stmt x && blk b' end in
  match s with
  | SSetup a out ins _ => has_ty out a && match ins with Some i => has_ty i a | None => true end
  | SFor _ _ _ _ its rs body ys =>
      forallb (fun x => has_ty (si_arg x) (si_acc x) && has_ty (si_init x) (si_acc x)
                        && has_ty (si_yield x) (si_acc x) && has_ty (si_res x) (si_acc x)) (state_iters its ys rs)
      && nodup_nat (map si_acc (state_iters its ys rs)) && blk body
  | SIf _ rs th thy el ely =>
      forallb (fun x => has_ty (sr_res x) (sr_acc x) && has_ty (sr_then x) (sr_acc x)
                        && has_ty (sr_else x) (sr_acc x)) (state_results rs thy ely)
      && blk th && blk el
  | _ => true
  end.
Fixpoint sty_block (b : block) : bool := match b with [] => true | x :: b' => sty_stmt x && sty_block b' end.
End Ty.

(* the typing table of a program: setup out-states, state iter_args / results, scf.if state results *)
Fixpoint stmt_tys (s : stmt) : list (val * acc) :=
  let blk := fix blk (b : list stmt) : list (val * acc) := match b with [] => [] | x :: b' => stmt_tys x ++ blk b' end in
  match s with
  | SSetup a out _ _ => [(out, a)]
  | SFor _ _ _ _ its rs body ys =>
      flat_map (fun x => [(si_arg x, si_acc x); (si_res x, si_acc x)]) (state_iters its ys rs) ++ blk body
  | SIf _ rs th thy el ely =>
      map (fun x => (sr_res x, sr_acc x)) (state_results rs thy ely) ++ blk th ++ blk el
  | _ => []
  end.
Definition prog_tys (p : prog) : list (val * acc) := flat_map stmt_tys (p_body p).

Fixpoint ty_lookup (l : list (val * acc)) (v : val) : option acc :=
  match l with [] => None | (k, a) :: l' => if Nat.eqb k v then Some a else ty_lookup l' v end.

Definition sty_prog (p : prog) : bool := sty_block (ty_lookup (prog_tys p)) (p_body p).
