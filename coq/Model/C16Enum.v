(* Small-scope enumeration used only by the L1 correspondence of C16 (harness/props/c16.py):
   all integer matrices with entries in a given value list, in itertools.product order, and a
   bit-packing of the model's answers so that the expected answers can be passed compactly. *)
From Snax Require Import Base.Prelude Base.ListAux Model.C03Schedule Model.C16Matcher.

Fixpoint tuples (n : nat) (vals : list Z) : list (list Z) :=
  match n with
  | O => [[]]
  | S n' => flat_map (fun v => map (cons v) (tuples n' vals)) vals
  end.

Fixpoint reshape (r c : nat) (l : list Z) : list (list Z) :=
  match r with
  | O => []
  | S r' => firstn c l :: reshape r' c (skipn c l)
  end.

Definition mats (r c : nat) (vals : list Z) : list (list vec) := map (reshape r c) (tuples (r * c) vals).

Fixpoint pack_word (bs : list bool) : Z :=
  match bs with
  | [] => 0
  | b :: r => (if b then 1 else 0) + 2 * pack_word r
  end.
Fixpoint pack (fuel : nat) (bs : list bool) : list Z :=
  match fuel with
  | O => []
  | S f => match bs with
           | [] => []
           | _ => pack_word (firstn 32 bs) :: pack f (skipn 32 bs)
           end
  end.

(* for every A (outer, product order): the answers against every B (inner, product order), packed into
   32-case words, little-endian, the last word of each A zero-padded *)
Definition enum_words (ra rb c : nat) (vals : list Z) : list Z :=
  let Bs := mats rb c vals in
  flat_map (fun A => pack (length Bs) (map (fun B => rowspace_eqb A B) Bs)) (mats ra c vals).

(* indices of the words on which the model disagrees with the expected words *)
Definition enum_mismatch (ra rb c : nat) (vals : list Z) (expected : list Z) : list nat :=
  let got := enum_words ra rb c vals in
  if Nat.eqb (length got) (length expected)
  then failing (fun p => fst p =? snd p) (combine got expected)
  else [length got; length expected; 4242%nat].
