(* C12 (i) — hand model (H) of the data transformations applied to constants:
   RemoveTransposeConstants.transpose_tuple (frontend/remove_transpose_constants.py) and
   transform_constant (realize_memref_casts.py): values.reshape(bounds).transpose(order[::-1])
   with order = argsort(steps).  Element granularity (one list entry per element).
   Executable definitions only; proofs in Proofs/C12ConstProofs.v; tied by harness/props/c12.py. *)
From Snax Require Import Base.Prelude Model.Tsl.

(* transpose_tuple(array, cols, rows) = tuple(array[i + j*rows] for i in range(rows) for j in range(cols)) *)
Definition transpose_tuple (arr : list Z) (cols rows : Z) : list Z :=
  flat_map (fun i => map (fun j => nth (Z.to_nat (i + j * rows)) arr 0) (zrange cols)) (zrange rows).

(* ---- transform_constant ------------------------------------------------------------------- *)
(* flat strides of the destination layout in (dim, depth) order, each with its C-order stride in
   the array reshaped to `bounds` *)
Definition fstride : Type := (Z * Z * Z)%type.   (* step, bound, C-order stride of the reshape *)
Definition f_step (s : fstride) : Z := fst (fst s).
Definition f_bound (s : fstride) : Z := snd (fst s).
Definition f_rm (s : fstride) : Z := snd s.

Fixpoint with_rm (l : list (Z * Z)) : list fstride :=
  match l with
  | [] => []
  | sb :: r => (fst sb, snd sb, zprod (map snd r)) :: with_rm r
  end.

(* np.argsort(steps): ascending; stable for the short arrays that occur (numpy sorts fewer than
   17 elements by insertion) *)
Fixpoint insert_asc (x : fstride) (l : list fstride) : list fstride :=
  match l with
  | [] => [x]
  | y :: r => if f_step x <=? f_step y then x :: y :: r else y :: insert_asc x r
  end.
Definition sort_asc (l : list fstride) : list fstride := fold_right insert_asc [] l.

(* transpose(order[::-1]): axes by descending step *)
Definition axes (l : list (Z * Z)) : list fstride := rev (sort_asc (with_rm l)).

(* mixed-radix digits of a flat C-order position w.r.t. a list of axis bounds *)
Fixpoint mr_digits (bs : list Z) (x : Z) : list Z :=
  match bs with
  | [] => []
  | b :: r => (x / zprod r) mod b :: mr_digits r x
  end.

Fixpoint zdot (a b : list Z) : Z :=
  match a, b with
  | x :: a', y :: b' => x * y + zdot a' b'
  | _, _ => 0
  end.

(* element j of the transposed array (C order) = old[ sum_k digit_k(j) * rm(axis k) ] *)
Definition old_index (ax : list fstride) (j : Z) : Z :=
  zdot (mr_digits (map f_bound ax) j) (map f_rm ax).

Definition relayout (l : list (Z * Z)) (old : list Z) : list Z :=
  let ax := axes l in
  map (fun j => nth (Z.to_nat (old_index ax j)) old 0) (zrange (zprod (map snd l))).

Definition flat_static (l : layout) : list (Z * Z) := map static_of (all_strides l).

(* transform_constant: None = the Python raises (is_dense() is called before the is_dynamic() test and
   raises ValueError on a dynamic layout); Some None = it returns None (not dense: the constant is left
   alone); Some (Some new) = the transformed contents *)
Definition transform_constant (old : list Z) (dest : layout) : option (option (list Z)) :=
  if is_dynamic dest then None
  else if is_dense dest then Some (Some (relayout (flat_static dest) old))
  else Some None.

(* decidable sortedness precondition: after sorting by descending step every axis with bound > 1
   has the step of the contiguous mixed-radix position *)
Fixpoint mr_sorted (ax : list fstride) : bool :=
  match ax with
  | [] => true
  | a :: r => ((f_bound a =? 1) || (f_step a =? zprod (map f_bound r))) && mr_sorted r
  end.
Definition mixed_radix_sorted (l : layout) : bool :=
  negb (is_dynamic l) && forallb (fun sb => 0 <? snd sb) (flat_static l) && mr_sorted (axes (flat_static l)).
