(* C05 — hand model (H) of snaxc/transforms/snax_copy_to_dma.py (MatchSimpleCopy, TransformDMA)
   with the DMA semantics of runtime/include/snax_rt.h (_mlir_ciface_snax_dma_1d/2d_transfer).
   Executable definitions only; proofs live in Proofs/C05*Proofs.v.
   Tied to the code by harness/props/c05.py (L1: emitted IR read back as loop nest + call
   parameters; L2: the real emitted IR executed on a byte memory). *)
From Snax Require Import Base.Prelude Model.Tsl.

(* ------------------------------------------------------------------------------------- *)
(* Byte memory and the two DMA primitives                                                  *)
(* ------------------------------------------------------------------------------------- *)
Definition byte := Z.
Definition mem := Z -> option byte.

(* snax_dma_1d_transfer(source, destination, size): `size` bytes starting at `src` are
   transferred to `dst` (a burst reads its source range from the memory before the burst). *)
Definition copy1d (src dst n : Z) (m : mem) : mem :=
  fun a => if (dst <=? a) && (a <? dst + n) then m (src + (a - dst)) else m a.

(* snax_dma_2d_transfer(source, destination, size, src_stride, dst_stride, repeat)
   = snrt_dma_start_2d(dst, src, size, dst_stride, src_stride, repeat):
   `repeat` bursts of `size` bytes, burst i from src + i*src_stride to dst + i*dst_stride. *)
Definition copy2d (src dst n sstr dstr rep : Z) (m : mem) : mem :=
  fold_left (fun m' i => copy1d (src + i * sstr) (dst + i * dstr) n m') (zrange rep) m.

(* ------------------------------------------------------------------------------------- *)
(* The emitted code: a perfect scf.for nest (lb 0, step 1) around one DMA call.            *)
(* Pointer operands are affine in the induction variables: constant byte offset from the   *)
(* aligned pointer + one coefficient per enclosing loop (outermost first).                 *)
(* ------------------------------------------------------------------------------------- *)
Definition affine : Type := (Z * list Z)%type.

Fixpoint dot (a b : list Z) : Z :=
  match a, b with
  | x :: a', y :: b' => x * y + dot a' b'
  | _, _ => 0
  end.

Definition aeval (a : affine) (env : list Z) : Z := fst a + dot (snd a) env.

Inductive code :=
| CFor (ub : Z) (body : code)
| CDma1 (s d : affine) (size : Z)
| CDma2 (s d : affine) (size sstr dstr rep : Z).

(* env = induction variables of the enclosing loops, outermost first *)
Fixpoint exec (psrc pdst : Z) (c : code) (env : list Z) (m : mem) : mem :=
  match c with
  | CFor ub body => fold_left (fun m' i => exec psrc pdst body (env ++ [i]) m') (zrange ub) m
  | CDma1 s d n => copy1d (psrc + aeval s env) (pdst + aeval d env) n m
  | CDma2 s d n ss ds rep => copy2d (psrc + aeval s env) (pdst + aeval d env) n ss ds rep m
  end.

Definition run (psrc pdst : Z) (c : code) (m : mem) : mem := exec psrc pdst c [] m.

(* every 1-D burst (source start, destination start, bytes) the code issues, in order *)
Definition burst : Type := (Z * Z * Z)%type.
Fixpoint bursts (psrc pdst : Z) (c : code) (env : list Z) : list burst :=
  match c with
  | CFor ub body => flat_map (fun i => bursts psrc pdst body (env ++ [i])) (zrange ub)
  | CDma1 s d n => [(psrc + aeval s env, pdst + aeval d env, n)]
  | CDma2 s d n ss ds rep =>
      map (fun i => (psrc + aeval s env + i * ss, pdst + aeval d env + i * ds, n)) (zrange rep)
  end.

Definition run_bursts (bs : list burst) (m : mem) : mem :=
  fold_left (fun m' b => copy1d (fst (fst b)) (snd (fst b)) (snd b) m') bs m.

(* ------------------------------------------------------------------------------------- *)
(* TransformDMA for static layouts                                                         *)
(* ------------------------------------------------------------------------------------- *)
(* `stride not in lcb` : list membership uses Stride.__eq__, i.e. the (step, bound) VALUE. *)
Definition value_in (s : stride) (l : list stride) : bool := existsb (stride_eqb s) l.

(* remaining_strides: for key in bound_ops.keys() (dim-major, depth-minor = `entries`):
   (stride_src, stride_dst = dst.get_stride of the key).  None = IndexError. *)
Fixpoint remaining (dst : layout) (lcb : list stride) (es : list entry)
  : option (list (stride * stride)) :=
  match es with
  | [] => Some []
  | e :: r =>
      if value_in (snd e) lcb then remaining dst lcb r
      else match get_stride dst (fst (fst e)) (snd (fst e)), remaining dst lcb r with
           | Some sd, Some rest => Some ((snd e, sd) :: rest)
           | _, _ => None
           end
  end.

(* sorted(..., key=lambda x: x.stride_src.bound if x.stride_src.bound else 0, reverse=True):
   stable, descending. *)
Definition sort_key (p : stride * stride) : Z :=
  match sbound (fst p) with Some b => b | None => 0 end.
Fixpoint insert_desc (x : stride * stride) (l : list (stride * stride)) : list (stride * stride) :=
  match l with
  | [] => [x]
  | y :: r => if sort_key x <? sort_key y then y :: insert_desc x r else x :: y :: r
  end.
Definition sort_desc (l : list (stride * stride)) : list (stride * stride) :=
  fold_right insert_desc [] l.

Fixpoint nest (ubs : list Z) (inner : code) : code :=
  match ubs with
  | [] => inner
  | u :: r => CFor u (nest r inner)
  end.

Definition sval (s : stride) : option (Z * Z) :=
  match s with (Some a, Some b) => Some (a, b) | _ => None end.

(* (bound, source step in bytes, destination step in bytes) of a remaining stride;
   None when a value is dynamic (outside the static model) *)
Definition loop_of (el : Z) (p : stride * stride) : option (Z * Z * Z) :=
  match sval (fst p), sval (snd p) with
  | Some (ss, b), Some (ds, _) => Some (b, ss * el, ds * el)
  | _, _ => None
  end.

Fixpoint map_opt {A B} (f : A -> option B) (l : list A) : option (list B) :=
  match l with
  | [] => Some []
  | x :: r => match f x, map_opt f r with Some y, Some ys => Some (y :: ys) | _, _ => None end
  end.

(* lower src dst el shape: the code emitted for memref.copy between two memrefs whose layouts
   are (or have been reconstructed as) the TSLs src/dst; el = element size in bytes; shape = the
   run-time shape (memref.dim values, used by the 1-D case).  None = Python exception or a
   dynamic value (the dynamic cases are in Model/C05Dyn.v). *)
Definition lower_body (src dst : layout) (el : Z) (shape : list Z) : option code :=
  match offset src, offset dst with
  | Some so, Some do_ =>
      let lcb := lccb src dst 1 in
      match remaining dst lcb (entries src) with
      | None => None
      | Some rem =>
          match map_opt (loop_of el) (sort_desc rem) with
          | None => None
          | Some [] =>
              Some (CDma1 (el * so, []) (el * do_, []) (zprod shape * el))
          | Some ((hb, hs, hd) :: loops) =>
              match sval (last lcb (None, None)) with
              | None => None  (* assert lcb[-1].bound/step is not None *)
              | Some (ls, lb) =>
                  Some (nest (map (fun l => fst (fst l)) loops)
                          (CDma2 (el * so, map (fun l => snd (fst l)) loops)
                                 (el * do_, map (fun l => snd l) loops)
                                 (lb * ls * el) hs hd hb))
              end
          end
      end
  | _, _ => None
  end.

(* rank-0 memrefs: every path of the pass that reaches a transfer goes through get_total_size_op
   (the 2-D path needs a remaining stride, which a layout without dimensions does not have), whose
   `assert total_size_op is not None` fails when there is no dimension: None. *)
Definition lower (src dst : layout) (el : Z) (shape : list Z) : option code :=
  match shape with
  | [] => None
  | _ :: _ => lower_body src dst el shape
  end.

(* ------------------------------------------------------------------------------------- *)
(* MatchSimpleCopy: both layouts NoneAttr (row-major, dense): one 1-D transfer of          *)
(* prod(shape) * element bytes from pointer to pointer.                                    *)
(* ------------------------------------------------------------------------------------- *)
Definition lower_simple (el : Z) (shape : list Z) : code :=
  CDma1 (0, []) (0, []) (zprod shape * el).

(* row-major strides of a static shape (extract_strides on a NoneAttr layout) *)
Fixpoint row_major_strides (shape : list Z) : list Z :=
  match shape with
  | [] => []
  | _ :: r => zprod r :: row_major_strides r
  end.

(* ------------------------------------------------------------------------------------- *)
(* Reconstruction of a TSL from a strided / identity memref layout                         *)
(* ------------------------------------------------------------------------------------- *)
Inductive mlayout :=
| LNone
| LStrided (strides : list (option Z)) (off : option Z)
| LTsl (l : layout).

(* extract_strides on NoneAttr: strides=[1]; for size in reversed(shape[1:]):
     dynamic size or dynamic head -> None, else size*head.   shape entries: None = dynamic *)
Definition none_strides (shape : list (option Z)) : list (option Z) :=
  fold_left (fun strides size =>
               (match size, hd None strides with
                | Some sz, Some h => Some (sz * h)
                | _, _ => None
                end) :: strides)
            (rev (tl shape)) [Some 1].

Definition extract_strides (shape : list (option Z)) (m : mlayout) : list (option Z) :=
  match m with
  | LNone => none_strides shape
  | LStrided s _ => s
  | LTsl _ => []
  end.
Definition extract_offset (m : mlayout) : option Z :=
  match m with
  | LStrided _ off => off
  | _ => Some 0
  end.

(* tile bounds taken from the other side when it is a TSL, else [[dim]] per dimension
   (`[x.data] if x.data > 0 else [None]`) *)
Definition shape_tile_bounds (shape : list (option Z)) : list (list (option Z)) :=
  map (fun d => match d with Some x => if 0 <? x then [Some x] else [None] | None => [None] end) shape.

Definition to_tsl (shape : list (option Z)) (this other : mlayout) : layout :=
  match this with
  | LTsl l => l
  | _ =>
      let tb := match other with LTsl o => tile_bounds o | _ => shape_tile_bounds shape end in
      from_strides (extract_strides shape this) tb (extract_offset this)
  end.

Definition lower_memref (shape : list (option Z)) (msrc mdst : mlayout) (el : Z) (rshape : list Z)
  : option code :=
  match msrc, mdst with
  | LNone, LNone =>                                 (* MatchSimpleCopy runs first *)
      match rshape with
      | [] => None                                  (* get_total_size_op: assert total_size_op is not None *)
      | _ :: _ => Some (lower_simple el rshape)
      end
  | _, _ => lower (to_tsl shape msrc mdst) (to_tsl shape mdst msrc) el rshape
  end.

(* ------------------------------------------------------------------------------------- *)
(* Position-aware view of largest_common_contiguous_block and the Safe predicate           *)
(* ------------------------------------------------------------------------------------- *)
(* the same loop as Tsl.lccb_loop, returning the chosen entries (dim, depth, stride) *)
Fixpoint lccb_pos_loop (fuel : nat) (other : layout) (es : list entry) (cur : option Z) (acc : list entry)
  : list entry :=
  match fuel with
  | O => acc
  | S fuel' =>
      match find (fun e => optZ_eqb (sstep (snd e)) cur) (static_first es) with
      | None => acc
      | Some e =>
          let es' := remove_first e es in
          match get_stride other (fst (fst e)) (snd (fst e)) with
          | Some so =>
              if stride_eqb (snd e) so
              then lccb_pos_loop fuel' other es'
                     (match snd e with (Some a, Some b) => Some (a * b) | _ => None end)
                     (acc ++ [e])
              else acc
          | None => acc
          end
      end
  end.

Definition lccb_pos (a b : layout) (start : Z) : list entry :=
  lccb_pos_loop (S (length (entries a))) b (entries a) (Some start) [].

Definition pos_in (e : entry) (l : list entry) : bool := existsb (entry_eqb e) l.

(* Safe_lccb: every source stride whose VALUE occurs in the block is really one of the block's
   positions, or has bound 1 (its loop would have a single iteration anyway).
   not Safe = finding class `equal_valued_stride_in_block` (F6). *)
Definition safe_lccb (src dst : layout) : bool :=
  let lcb := lccb src dst 1 in
  let blk := lccb_pos src dst 1 in
  forallb (fun e => negb (value_in (snd e) lcb) || pos_in e blk || optZ_eqb (sbound (snd e)) (Some 1))
          (entries src).

(* ------------------------------------------------------------------------------------- *)
(* Layout semantics used by the statements                                                 *)
(* ------------------------------------------------------------------------------------- *)
(* byte address (relative to the aligned pointer) of the first byte of element idx *)
Definition elem_addr (l : layout) (el : Z) (idx : list Z) : Z :=
  (match offset l with Some o => o | None => 0 end + affine_map_eval l idx) * el.

(* comparison helpers for the correspondence check *)
Definition affine_eqb (a b : affine) : bool := (fst a =? fst b) && list_eqb Z.eqb (snd a) (snd b).
Fixpoint code_eqb (a b : code) : bool :=
  match a, b with
  | CFor u x, CFor v y => (u =? v) && code_eqb x y
  | CDma1 s d n, CDma1 s' d' n' => affine_eqb s s' && affine_eqb d d' && (n =? n')
  | CDma2 s d n ss ds r, CDma2 s' d' n' ss' ds' r' =>
      affine_eqb s s' && affine_eqb d d' && (n =? n') && (ss =? ss') && (ds =? ds') && (r =? r')
  | _, _ => false
  end.
Definition ocode_eqb (a b : option code) : bool :=
  match a, b with
  | Some x, Some y => code_eqb x y
  | None, None => true
  | _, _ => false
  end.
