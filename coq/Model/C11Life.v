(* C11 — hand model (H) of MiniMallocate (snaxc/transforms/snax_allocate.py): lifetimes of the buffers handed
   to the minimalloc solver, on an abstract use-list program.  Executable definitions only.
   The program is the function body flattened in walk order (an op before the ops nested in it, definitions
   before uses); every op records the index of its enclosing top-level op. *)
From Snax Require Import Base.Prelude.

Inductive okind := KAlloc | KCast | KOther.     (* top-level snax.alloc | builtin.unrealized_conversion_cast | anything else *)
Definition okind_eqb (a b : okind) : bool :=
  match a, b with KAlloc, KAlloc | KCast, KCast | KOther, KOther => true | _, _ => false end.

Record aop := mkOp {
  o_kind : okind;
  o_top : nat;                  (* index of the enclosing top-level op of the function body *)
  o_ops : list nat;             (* operands (value ids) *)
  o_res : list (nat * bool);    (* results: (value id, has MemRefType) *)
  o_alias : bool;               (* trusted converter: the results are views/casts of an operand buffer *)
  o_size : Z; o_align : Z; o_mem : nat   (* for KAlloc: constant size, alignment (0 if absent), memory space *)
}.

Definition mem_nat (x : nat) (l : list nat) : bool := existsb (Nat.eqb x) l.
Definition uses_any (o : aop) (vals : list nat) : bool := existsb (fun x => mem_nat x vals) (o_ops o).

(* the results through which the lifetime analysis keeps following the buffer:
   every result of an unrealized_conversion_cast, and every memref-typed result of any other user *)
Definition followed (o : aop) : list nat :=
  map fst (filter (fun r => okind_eqb (o_kind o) KCast || snd r) (o_res o)).
(* the results that really alias the buffer (ground truth supplied by the converter) *)
Definition aliased (o : aop) : list nat := if o_alias o then map fst (o_res o) else [].

(* worklist closure, as one forward pass (definitions precede uses in walk order) *)
Fixpoint closure (sel : aop -> list nat) (prog : list aop) (vals : list nat) : list nat :=
  match prog with
  | [] => vals
  | o :: r => if uses_any o vals then closure sel r (sel o ++ vals) else closure sel r vals
  end.

Definition res0 (a : aop) : nat := match o_res a with r :: _ => fst r | [] => 0%nat end.

(* top-level indices of all ops that use a value the analysis follows from the buffer *)
Definition use_tops (sel : aop -> list nat) (prog : list aop) (a : aop) : list nat :=
  let vals := closure sel prog [res0 a] in
  map o_top (filter (fun o => uses_any o vals) prog).

(* buffer.end_time: the last top-level index (>= the alloc's own) with a followed use *)
Definition end_time (prog : list aop) (a : aop) : nat := fold_left Nat.max (use_tops followed prog a) (o_top a).

Definition is_alloc (o : aop) : bool := okind_eqb (o_kind o) KAlloc.
Definition allocs (prog : list aop) : list aop := filter is_alloc prog.

(* Buffer(id, start_time, end_time, size, alignment) *)
Record buffer := mkBuf { b_start : nat; b_end : nat; b_size : Z; b_align : Z }.
Definition buffer_of (prog : list aop) (a : aop) : buffer := mkBuf (o_top a) (end_time prog a) (o_size a) (o_align a).
Definition buffers (prog : list aop) : list buffer := map (buffer_of prog) (allocs prog).
(* the Problem of one memory space *)
Definition allocs_in (prog : list aop) (m : nat) : list aop := filter (fun a => Nat.eqb (o_mem a) m) (allocs prog).
Definition buffers_in (prog : list aop) (m : nat) : list buffer := map (buffer_of prog) (allocs_in prog m).

(* dealloc placement: after top-level op `end_time` (unless it is the terminator) *)
Definition dealloc_after (prog : list aop) : list nat := map (end_time prog) (allocs prog).

Definition buffer_eqb (x y : buffer) : bool :=
  Nat.eqb (b_start x) (b_start y) && Nat.eqb (b_end x) (b_end y) && (b_size x =? b_size y) && (b_align x =? b_align y).

(* ---- well-formedness of the abstract program (decidable, checked on every converted program) ---- *)
(* an alloc is alone at its top-level index and never uses a value derived from a buffer;
   aliasing ops are followed by the analysis *)
Definition alias_followed (prog : list aop) : bool :=
  forallb (fun o => forallb (fun v => mem_nat v (followed o)) (aliased o)) prog.
Definition alloc_alone (prog : list aop) : bool :=
  forallb (fun a => forallb (fun o => is_alloc o || negb (Nat.eqb (o_top o) (o_top a))) prog) (allocs prog)
  && forallb (fun a => negb (existsb (fun b => uses_any a (closure followed prog [res0 b])) (allocs prog))) (allocs prog).
Fixpoint nodup_nat (l : list nat) : bool :=
  match l with [] => true | x :: r => negb (mem_nat x r) && nodup_nat r end.
Definition wf_prog (prog : list aop) : bool :=
  alias_followed prog && alloc_alone prog && nodup_nat (map o_top (allocs prog)).

(* ---- the analysis before the repair (kept to state what was wrong): direct uses and one level of
   unrealized_conversion_cast only ---- *)
Definition users (prog : list aop) (v : nat) : list aop := filter (fun o => mem_nat v (o_ops o)) prog.
Definition use_tops_old (prog : list aop) (a : aop) : list nat :=
  let us := users prog (res0 a) in
  map o_top us ++
  flat_map (fun u => if okind_eqb (o_kind u) KCast then map o_top (users prog (match o_res u with r :: _ => fst r | [] => 0%nat end)) else []) us.
Definition end_time_old (prog : list aop) (a : aop) : nat := fold_left Nat.max (use_tops_old prog a) (o_top a).
