(* Hand model (H) of the run-time views of a TSL: TiledStridedLayoutAttr.get_bound_ops / get_step_ops
   (snaxc/dialects/tsl.py), as the values the emitted arith ops compute, and of the subview pointer
   arithmetic of LowerExtractAlignedPointerOp (snaxc/transforms/convert_memref_to_arith.py). *)
From Snax Require Import Base.Prelude Model.Tsl.

(* ---- get_bound_ops: values per (dim, depth), given the run-time size of every dimension -------- *)
(* depth 0: static bound, or dim_size /u prod(static bounds of the dim); deeper: static (asserted) *)
Definition dim_bound_vals (t : tstride) (dimsize : Z) : option (list Z) :=
  match t with
  | [] => Some []
  | s0 :: rest =>
      let b0 := match sbound s0 with Some b => b | None => dimsize / bounds_prod t end in
      if forallb (fun s => match sbound s with Some _ => true | None => false end) rest
      then Some (b0 :: map (fun s => match sbound s with Some b => b | None => 0 end) rest)
      else None
  end.

Fixpoint bound_vals (ts : list tstride) (shape : list Z) : option (list (list Z)) :=
  match ts, shape with
  | [], _ => Some []
  | t :: ts', n :: shape' =>
      match dim_bound_vals t n, bound_vals ts' shape' with
      | Some b, Some bs => Some (b :: bs)
      | _, _ => None
      end
  | _ :: _, [] => None
  end.

(* ---- get_step_ops (TSL case, no strided-layout metadata) --------------------------------------- *)
(* the largest static step (first one wins on ties; start value 0 at the last position) *)
Definition max_scan (acc : nat * nat * Z) (s : stride) : nat * nat * Z :=
  match acc with
  | (i, best, bestv) =>
      match sstep s with
      | Some st => if negb (st =? 0) && (bestv <? st) then (S i, i, st) else (S i, best, bestv)
      | None => (S i, best, bestv)
      end
  end.

Definition max_static_step (flat : list stride) : nat * Z :=
  match fold_left max_scan flat (0%nat, (length flat - 1)%nat, 0) with
  | (_, best, bestv) => (best, bestv)
  end.

(* right-to-left assignment; state = (dynamic_step, steps so far (front = leftmost)) *)
Definition step_scan (el : Z) (sb : stride * Z) (acc : Z * list Z) : Z * list Z :=
  match acc with
  | (dyn, out) =>
      match sstep (fst sb) with
      | Some st => (dyn, st * el :: out)
      | None => (dyn * snd sb, dyn :: out)
      end
  end.

(* flat lists in (dim, depth) order *)
Definition step_vals (l : layout) (bv : list (list Z)) (el : Z) : list Z :=
  let flat := all_strides l in
  let fb := concat bv in
  let '(mk, mv) := max_static_step flat in
  let dyn0 := nth mk fb 0 * (mv * el) in
  snd (fold_right (step_scan el) (dyn0, []) (combine flat fb)).

(* ---- subview pointer: contribution of one dynamically offset dimension --------------------------- *)
(* (offset /u prod(bounds[1:])) * (step_0 * el_bytes) *)
Definition subview_contrib (t : tstride) (el off : Z) : Z :=
  match t with
  | [] => 0
  | s0 :: rest => (off / bounds_prod rest) * (fst (static_of s0) * el)
  end.
