(* Per-core instruction streams of a program given as barrier-separated phases: core c executes,
   phase after phase, its own ops of the phase (in program order) and then the cluster barrier. *)
From Snax Require Import Base.Prelude Base.ListAux Model.MultiCore.

Definition core_stream (c : Z) (phs : list (list mop)) : list instr :=
  flat_map (fun ph => map Some (filter (on_core c) ph) ++ [None]) phs.

Definition streams_of (cores : list Z) (phs : list (list mop)) : streams :=
  map (fun c => core_stream c phs) cores.

(* the canonical order of the machine: in every phase core after core *)
Definition by_cores (cores : list Z) (ph : list mop) : list mop :=
  flat_map (fun c => filter (on_core c) ph) cores.
