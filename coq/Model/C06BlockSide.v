(* C06 — the block rule as a plan (insertion point, moved positions) and the decidable side condition under
   which Proofs/C06BlockGenProofs.v proves that applying the plan preserves every launch's registers:
   every moved op is an arith op or THE setup, each statement it jumps over is quiet for the setup's accelerator
   (no setup / launch of it, no reconfiguring call — what state tracing guarantees between a launch and the setup
   that consumes the same state), binds none of the moved op's operands and does not read its result. *)
From Snax Require Import Base.Prelude Model.AccIR Model.AccSem Model.AccWeave Model.AccRules.
From Snax Require Import Model.C06Overlap.

Definition block_plan (whole : block) (o : val) (b : block) : option (nat * acc * list nat) :=
  match C06Overlap.find_setup b o 0%nat with
  | None => None
  | Some (k, a, s, fs) =>
      if negb (Nat.eqb (block_users s whole) 2 && Nat.eqb (block_launch_users s whole) 1) then None else
      match find_launch_of b s 0%nat with
      | None => None
      | Some j =>
          if negb (Nat.ltb j k) then None else
          if Nat.eqb (S j) k then None else
          match scoped_inputs b (map snd fs) with
          | None => None
          | Some inputs =>
              let ip := S j in
              if mem_nat ip inputs then None else
              Some (ip, a, filter (fun i => Nat.ltb ip i) inputs ++ [k])
          end
      end
  end.

Definition apply_plan (b : block) (ip : nat) (moved : list nat) : block :=
  firstn ip b ++ nth_stmts b moved
  ++ nth_stmts b (filter (fun i => negb (mem_nat i moved)) (seq ip (List.length b - ip))).

(* the statements from the insertion point on, tagged "moved" *)
Definition tag_tail (b : block) (ip : nat) (moved : list nat) : list (bool * stmt) :=
  combine (map (fun i => mem_nat i moved) (seq ip (List.length b - ip))) (skipn ip b).

Definition noneb (xs : list val) (ds : list val) : bool := forallb (fun v => negb (mem_nat v ds)) xs.
Definition bind_okb (F : list val) (k src : val) : bool := negb (mem_nat src F) || mem_nat k F.

(* boolean mirror of C06SimProofs.reads_off *)
Fixpoint reads_offb (F : list val) (s : stmt) {struct s} : bool :=
  let blk := fix blk (b : list stmt) : bool :=
    match b with [] => true | x :: b' => reads_offb F x && blk b' end in
  match s with
  | SPure _ e => noneb (pexp_vals e) F
  | SCall _ _ _ _ ar => noneb ar F
  | SSetup _ _ _ fs => noneb (map snd fs) F
  | SLaunch _ _ _ fs => noneb (map snd fs) F
  | SAwait _ _ => true
  | SReset _ _ => true
  | SFor iv lb ub sp iters rs body ys =>
      negb (mem_nat lb F) && negb (mem_nat ub F) && negb (mem_nat sp F)
      && forallb (fun it => bind_okb F (it_arg it) (it_init it)) iters
      && forallb (fun ky => bind_okb F (fst ky) (snd ky)) (combine (map it_arg iters) ys)
      && forallb (fun ka => bind_okb F (fst ka) (snd ka)) (combine rs (map it_arg iters))
      && blk body
  | SIf c rs th thy el ely =>
      negb (mem_nat c F)
      && forallb (fun ky => bind_okb F (fst ky) (snd ky)) (combine (map fst rs) thy)
      && forallb (fun ky => bind_okb F (fst ky) (snd ky)) (combine (map fst rs) ely)
      && blk th && blk el
  end.

(* moved op [x] may jump over [y] *)
Definition swap_okb (a : acc) (x y : stmt) : bool :=
  match x with
  | SPure d e => reads_offb [d] y && negb (mem_nat d (stmt_binds y)) && noneb (pexp_vals e) (stmt_binds y)
                 && noneb (stmt_uses x) (stmt_defs y)
  | SSetup a' _ _ fs => Nat.eqb a' a && quiet a y && noneb (map snd fs) (stmt_binds y)
                        && noneb (stmt_uses x) (stmt_defs y)
  | _ => false
  end.

Definition sel_part (l : list (bool * stmt)) : block := map snd (filter (fun x => fst x) l).
Definition uns_part (l : list (bool * stmt)) : block := map snd (filter (fun x => negb (fst x)) l).

Fixpoint part_okb (a : acc) (l : list (bool * stmt)) : bool :=
  match l with
  | [] => true
  | (true, x) :: l' => (match x with SPure _ _ => true | SSetup a' _ _ _ => Nat.eqb a' a | _ => false end) && part_okb a l'
  | (false, y) :: l' => forallb (fun x => swap_okb a x y) (sel_part l') && part_okb a l'
  end.

Definition block_side_ok (a : acc) (b : block) (ip : nat) (moved : list nat) : bool :=
  Nat.leb ip (List.length b)
  && list_eqb Nat.eqb moved (filter (fun i => mem_nat i moved) (seq ip (List.length b - ip)))
  && part_okb a (tag_tail b ip moved).

(* side condition of one block-rule application in a program: evaluated on the block the traversal rewrites *)
Definition block_overlap_side_ok (p : prog) (o : val) : bool :=
  match rw_target (block_overlap_at (p_body p) o) (p_body p) with
  | Some bb => match block_plan (p_body p) o bb with
               | Some (ip, a, moved) => block_side_ok a bb ip moved
               | None => false
               end
  | None => true
  end.
