(* AccRules — the dedup rewrites in the form the preservation theorems are proved about
   (Proofs/AccRulesProofs.v).  Executable definitions only.

   Each [rule_*_g] is the corresponding rule of Model/AccDedup.v (the mirror of the Python, compared
   with every real rewrite by L1) with
     - the block-local rewrite applied through [ctx_prog] (first matching block, pre-order),
     - extra DECIDABLE guards that every SSA-valid, well-threaded program satisfies (operands are
       not re-bound between the two program points involved; the statements a setup is moved
       across neither launch nor set up nor clobber its accelerator),
     - the final replacement of the matched setup's out-state written as a renaming [ren_prog].
   L1 checks on every recorded rewrite that the guarded rule fires and produces exactly the real
   result, so the guards are never the reason for a rewrite to be outside the theorems.

   [G] is the list of "ghost" values: state / token typed SSA values.  The machine never computes
   with them; [gok_*] is the decidable typing discipline (integer-defining ops never define a
   ghost, a ghost loop-carried argument / result only receives ghosts) under which every ghost
   cell of the environment holds 0 forever. *)
From Snax Require Import Base.Prelude Model.AccIR Model.AccSem Model.AccInfer Model.AccDedup Model.AccWeave.

(* ---- applying a block-local rewrite in context ------------------------------------------------ *)
Section Ctx.
Variable f : block -> option block.

Fixpoint ctx_stmt (s : stmt) {struct s} : option stmt :=
  let children := fix children (b : list stmt) : option (list stmt) :=
    match b with
    | [] => None
    | x :: b' => match ctx_stmt x with
                 | Some x' => Some (x' :: b')
                 | None => match children b' with Some b'' => Some (x :: b'') | None => None end
                 end
    end in
  let blk := fun b => match f b with Some b' => Some b' | None => children b end in
  match s with
  | SFor iv lb ub sp its rs body ys =>
      match blk body with Some body' => Some (SFor iv lb ub sp its rs body' ys) | None => None end
  | SIf c rs th thy el ely =>
      match blk th with
      | Some th' => Some (SIf c rs th' thy el ely)
      | None => match blk el with Some el' => Some (SIf c rs th thy el' ely) | None => None end
      end
  | _ => None
  end.

Fixpoint ctx_children (b : block) : option block :=
  match b with
  | [] => None
  | x :: b' => match ctx_stmt x with
               | Some x' => Some (x' :: b')
               | None => match ctx_children b' with Some b'' => Some (x :: b'') | None => None end
               end
  end.

Definition ctx_block (b : block) : option block :=
  match f b with Some b' => Some b' | None => ctx_children b end.

Definition ctx_prog (p : prog) : option prog := option_map (mkProg (p_params p)) (ctx_block (p_body p)).
End Ctx.

(* ---- ghosts ------------------------------------------------------------------------------------ *)
Section Ghost.
Variable G : list val.
Definition isg (v : val) : bool := mem_nat v G.

(* position-wise: a ghost target only receives a ghost source *)
Fixpoint gzip (ks us : list val) : bool :=
  match ks, us with
  | k :: ks', u :: us' => implb (isg k) (isg u) && gzip ks' us'
  | _, _ => true
  end.

Fixpoint gok_stmt (s : stmt) : bool :=
  let blk := fix blk (b : list stmt) : bool := match b with [] => true | x :: b' => gok_stmt x && blk b' end in
  match s with
  | SPure d _ => negb (isg d)
  | SCall _ _ _ ds _ => forallb (fun d => negb (isg d)) ds
  | SFor iv _ _ _ its rs body ys =>
      negb (isg iv) && gzip (map it_arg its) (map it_init its) && gzip (map it_arg its) ys
      && gzip rs (map it_arg its) && blk body
  | SIf _ rs th thy el ely =>
      gzip (map fst rs) thy && gzip (map fst rs) ely && blk th && blk el
  | _ => true
  end.
Fixpoint gok_block (b : block) : bool := match b with [] => true | x :: b' => gok_stmt x && gok_block b' end.
Definition gok_prog (p : prog) : bool := forallb (fun x => negb (isg x)) (p_params p) && gok_block (p_body p).
End Ghost.

(* the state / token typed values of a program *)
Fixpoint stmt_ghosts (s : stmt) : list val :=
  let blk := fix blk (b : list stmt) : list val := match b with [] => [] | x :: b' => stmt_ghosts x ++ blk b' end in
  match s with
  | SSetup _ o i _ => o :: match i with Some x => [x] | None => [] end
  | SLaunch _ k st _ => [k; st]
  | SAwait _ k => [k]
  | SReset _ st => [st]
  | SFor _ _ _ _ its rs body ys =>
      flat_map (fun it => match it_ty it with TState _ => [it_arg it; it_init it] | TInt => [] end) its
      ++ flat_map (fun x => match it_ty (fst x) with TState _ => [snd x] | TInt => [] end) (combine its rs)
      ++ flat_map (fun x => match it_ty (fst x) with TState _ => [snd x] | TInt => [] end) (combine its ys)
      ++ blk body
  | SIf _ rs th thy el ely =>
      flat_map (fun r => match snd r with TState _ => [fst r] | TInt => [] end) rs
      ++ flat_map (fun x => match snd (fst x) with TState _ => [snd x] | TInt => [] end) (combine rs thy)
      ++ flat_map (fun x => match snd (fst x) with TState _ => [snd x] | TInt => [] end) (combine rs ely)
      ++ blk th ++ blk el
  | _ => []
  end.
Definition prog_ghosts (p : prog) : list val := flat_map stmt_ghosts (p_body p).

(* ---- statements a setup of accelerator [a] may be moved across -------------------------------- *)
Fixpoint quiet (a : acc) (s : stmt) : bool :=
  let blk := fix blk (b : list stmt) : bool := match b with [] => true | x :: b' => quiet a x && blk b' end in
  match s with
  | SPure _ _ => true
  | SCall _ eff _ _ _ => negb eff
  | SSetup a' _ _ _ => negb (Nat.eqb a' a)
  | SLaunch a' _ _ _ => negb (Nat.eqb a' a)
  | SAwait _ _ | SReset _ _ => true
  | SFor _ _ _ _ _ _ body _ => blk body
  | SIf _ _ th _ el _ => blk th && blk el
  end.
Fixpoint quiet_block (a : acc) (b : block) : bool := match b with [] => true | x :: b' => quiet a x && quiet_block a b' end.

Definition vals_avoid (fs : list (field * val)) (ds : list val) : bool :=
  forallb (fun fv => negb (mem_nat (snd fv) ds)) fs.

(* ---- MergeSetupOps, guarded ------------------------------------------------------------------- *)
Definition merge_g_here (o' : val) (target : val) (b : block) : option block :=
  match find_setup target b with
  | Some (pre, (a, o, i, fs), post) =>
      match find_prev_setup a (rev pre) with
      | Some (between_rev, (po, pi, pfs), rest_rev) =>
          let between := rev between_rev in
          if quiet_block a between && vals_avoid pfs (block_binds between)
          then Some (rev rest_rev ++ between ++ SSetup a o' pi (st_update (st_update [] pfs) fs) :: post)
          else None
      | None => None
      end
  | None => None
  end.

Definition rule_merge_g (fresh : list val) (target : val) (p : prog) : option prog :=
  match hd_fresh fresh with
  | Some o' => option_map (ren_prog (rn target o')) (ctx_prog (merge_g_here o' target) p)
  | None => None
  end.

(* ---- HoistSetupCallsIntoConditionals, guarded ---------------------------------------------------- *)
Definition hoist_g_here (G : list val) (o1 o2 : val) (target : val) (b : block) : option block :=
  match find_setup target b with
  | Some (pre, (a, o, Some r, fs), post) =>
      match find_if r pre with
      | Some (pre0, SIf c rs th thy el ely, between) =>
          match index_of r (map fst rs) with
          | Some idx =>
              let yt := nth idx thy 0%nat in
              let ye := nth idx ely 0%nat in
              let late := map fst rs ++ flat_map top_defs between in
              if existsb (fun fv => mem_nat (snd fv) late) fs then None
              else if existsb (fun s => stmt_launches_on r s) between then None
              else if existsb (fun s => negb (is_launch s) && stmt_launches_on r s) post then None
              else if quiet_block a between
                      && vals_avoid fs (stmt_binds (SIf c rs th thy el ely) ++ block_binds between)
                      && isg G yt && isg G ye && isg G o1 && isg G o2
              then Some (pre0 ++ SIf c rs (th ++ [SSetup a o1 (Some yt) fs]) (map (rn yt o1) thy)
                                        (el ++ [SSetup a o2 (Some ye) fs]) (map (rn ye o2) ely)
                              :: between ++ post)
              else None
          | None => None
          end
      | _ => None
      end
  | _ => None
  end.

Definition rule_hoist_g (G : list val) (fresh : list val) (target : val) (p : prog) : option prog :=
  match fresh, setup_in_of target p with
  | o1 :: o2 :: _, Some r => option_map (ren_prog (rn target r)) (ctx_prog (hoist_g_here G o1 o2 target) p)
  | _, _ => None
  end.

(* ---- ElideEmptySetupOps as drop + rename -------------------------------------------------------- *)
Definition rule_elide_g (target : val) (p : prog) : option prog :=
  match setup_in_block target (p_body p) with
  | Some (Some i, []) => Some (ren_prog (rn target i) (drop_prog target p))
  | _ => None
  end.

(* ---- the decidable hypotheses of the rule theorems (Proofs/AccRulesProofs.v) ----------------------- *)
Definition merge_hyp (G : list val) (fresh : list val) (target : val) (p : prog) : bool :=
  match hd_fresh fresh with
  | Some o' =>
      match ctx_prog (merge_g_here o' target) p with
      | Some q => gok_prog G p && gok_prog G q && negb (mem_nat target (prog_binds q))
                  && isg G target && isg G o'
      | None => false
      end
  | None => false
  end.

Definition hoist_hyp (G : list val) (fresh : list val) (target : val) (p : prog) : bool :=
  match fresh, setup_in_of target p with
  | o1 :: o2 :: _, Some r =>
      match ctx_prog (hoist_g_here G o1 o2 target) p with
      | Some q => gok_prog G p && gok_prog G q && negb (mem_nat target (prog_binds q))
                  && isg G target && isg G r
      | None => false
      end
  | _, _ => false
  end.

Definition elide_hyp (G : list val) (target : val) (p : prog) : bool :=
  gok_prog G (drop_prog target p) && negb (mem_nat target (prog_binds (drop_prog target p)))
  && isg G target
  && match setup_in_of target p with Some i => isg G i | None => false end.

(* SimplifyRedundantSetupCalls in the same style *)
Definition rule_simplify_g (T : val -> astate) (fresh : list val) (target : val) (p : prog) : option prog :=
  match hd_fresh fresh with
  | Some o' => Some (ren_prog (rn target o') (simp_prog (Nat.eqb target) T p))
  | None => None
  end.

Definition simplify_hyp (T : val -> astate) (fresh : list val) (target : val) (p : prog) : bool :=
  match hd_fresh fresh with
  | Some o' =>
      let q := simp_prog (Nat.eqb target) T p in
      wf_prog T p && block_fields_nodup (p_body p)
      && negb (mem_nat target (prog_binds q)) && negb (mem_nat o' (prog_binds q))
  | None => false
  end.

(* ---- L1 certificates: the guarded rule fires, gives the real result, and the decidable
        hypotheses of its theorem hold ------------------------------------------------------------ *)
Definition eq_opt (o : option prog) (after : prog) : bool :=
  match o with Some p' => prog_eqb p' after | None => false end.

Definition merge_cert (fresh : list val) (target : val) (before after : prog) : bool :=
  let G := prog_ghosts before ++ fresh in
  eq_opt (rule_merge_g fresh target before) after && merge_hyp G fresh target before.

Definition hoist_cert (fresh : list val) (target : val) (before after : prog) : bool :=
  let G := prog_ghosts before ++ fresh in
  eq_opt (rule_hoist_g G fresh target before) after && hoist_hyp G fresh target before.

Definition elide_g_cert (target : val) (before after : prog) : bool :=
  let G := prog_ghosts before in
  eq_opt (rule_elide_g target before) after && elide_hyp G target before.

Definition simplify_g_cert (T : tbl) (fresh : list val) (target : val) (before after : prog) : bool :=
  eq_opt (rule_simplify_g (tfun T) fresh target before) after && simplify_hyp (tfun T) fresh target before.

(* ======================= PullSetupOpsOutOfLoops (third round) =======================================
   [FF a] = the "full" field set of accelerator a.  [ffF_*] is full_field_form relative to FF: every
   launch is immediately preceded, in its block, by a setup of its accelerator that writes every field
   of FF.  [within_*]: every setup only writes fields of FF (so the fields a run knows are in FF).
   With FF := fun a => prog_fields a (p_body p) these are full_field_form p and a tautology. *)
Section FullField.
Variable FF : acc -> list field.

Definition isfull (a : acc) (s : stmt) : bool :=
  match s with
  | SSetup a' _ _ fs => Nat.eqb a' a && forallb (fun f => mem_nat f (map fst fs)) (FF a)
  | _ => false
  end.
Definition prevfull (a : acc) (prev : option stmt) : bool :=
  match prev with Some s => isfull a s | None => false end.

Fixpoint ffF_stmt (prev : option stmt) (s : stmt) {struct s} : bool :=
  let blk := fix blk (prev : option stmt) (b : list stmt) {struct b} : bool :=
    match b with
    | [] => true
    | x :: b' => ffF_stmt prev x && blk (Some x) b'
    end in
  match s with
  | SLaunch a _ _ _ => prevfull a prev
  | SFor _ _ _ _ _ _ body _ => blk None body
  | SIf _ _ th _ el _ => blk None th && blk None el
  | _ => true
  end.
Fixpoint ffF_block (prev : option stmt) (b : block) : bool :=
  match b with
  | [] => true
  | x :: b' => ffF_stmt prev x && ffF_block (Some x) b'
  end.

Fixpoint within_stmt (s : stmt) : bool :=
  let blk := fix blk (b : list stmt) : bool := match b with [] => true | x :: b' => within_stmt x && blk b' end in
  match s with
  | SSetup a _ _ fs => forallb (fun f => mem_nat f (FF a)) (map fst fs)
  | SFor _ _ _ _ _ _ body _ => blk body
  | SIf _ _ th _ el _ => blk th && blk el
  | _ => true
  end.
Fixpoint within_block (b : block) : bool := match b with [] => true | x :: b' => within_stmt x && within_block b' end.
End FullField.

Definition FF_of (p : prog) : acc -> list field := fun a => prog_fields a (p_body p).

(* the rule, through ctx_prog, for accelerator [a]; [G] ghosts as before *)
Definition pull_g_in_loop (G : list val) (a : acc) (n : val) (target : val) (s : stmt) : option (list stmt) :=
  match s with
  | SFor iv lb ub sp its rs body ys =>
      match find_setup target body with
      | Some (_, (a', o, Some b, _), _) =>
          match init_of_arg b its with
          | Some init =>
              let inside := iv :: map it_arg its ++ block_defs body in
              let fs := pull_fields inside (block_setups a' body) in
              match fs with
              | [] => None
              | _ => if Nat.eqb a' a && isg G init && isg G n
                     then Some [SSetup a n (Some init) fs;
                                SFor iv lb ub sp (map (fun it => (it_arg it, rn init n (it_init it), it_ty it)) its) rs body ys]
                     else None
              end
          | None => None
          end
      | _ => None
      end
  | _ => None
  end.

Fixpoint pull_g_here (G : list val) (a : acc) (n : val) (target : val) (b : block) : option block :=
  match b with
  | [] => None
  | s :: b' => match pull_g_in_loop G a n target s with
               | Some ss => Some (ss ++ b')
               | None => match pull_g_here G a n target b' with Some b'' => Some (s :: b'') | None => None end
               end
  end.

Definition rule_pull_g (G : list val) (a : acc) (fresh : list val) (target : val) (p : prog) : option prog :=
  match hd_fresh fresh with
  | Some n => ctx_prog (pull_g_here G a n target) p
  | None => None
  end.

(* decidable hypotheses of the pull theorem: full-field form relative to FF, ghost typing before/after *)
Definition pull_hyp (FF : acc -> list field) (G : list val) (a : acc) (fresh : list val) (target : val) (p : prog) : bool :=
  match rule_pull_g G a fresh target p with
  | Some q => ffF_block FF None (p_body p) && gok_prog G p && gok_prog G q
  | None => false
  end.

Fixpoint acc_of_setup_stmt (target : val) (s : stmt) {struct s} : option acc :=
  let blk := fix blk (b : list stmt) : option acc :=
    match b with [] => None | x :: b' => match acc_of_setup_stmt target x with Some r => Some r | None => blk b' end end in
  match s with
  | SSetup a o _ _ => if Nat.eqb o target then Some a else None
  | SFor _ _ _ _ _ _ body _ => blk body
  | SIf _ _ th _ el _ => match blk th with Some r => Some r | None => blk el end
  | _ => None
  end.
Fixpoint acc_of_setup (target : val) (b : block) : option acc :=
  match b with [] => None | x :: b' => match acc_of_setup_stmt target x with Some r => Some r | None => acc_of_setup target b' end end.

(* L1: the guarded rule gives the real result; and (reported separately) whether the program the pass
   applied it to is in full-field form, i.e. whether C01_pull_rule covers this rewrite *)
Definition pull_cert (fresh : list val) (target : val) (before after : prog) : bool :=
  let G := prog_ghosts before ++ fresh in
  match acc_of_setup target (p_body before) with
  | Some a => eq_opt (rule_pull_g G a fresh target before) after
  | None => false
  end.
Definition pull_covered (fresh : list val) (target : val) (before : prog) : bool :=
  let G := prog_ghosts before ++ fresh in
  match acc_of_setup target (p_body before) with
  | Some a => pull_hyp (FF_of before) G a fresh target before && within_block (FF_of before) (p_body before)
  | None => false
  end.
