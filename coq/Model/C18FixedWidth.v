(* C18 — fixed-width two's-complement integers as signed representatives in Z (definitions only).
   A value of type iW is the integer z with -2^(W-1) <= z < 2^(W-1).
   arith.addi/subi/muli at width W: the exact result wrapped to W bits (`wrap`);
   arith.extsi: the signed representative is unchanged; arith.trunci to W: `wrap W`;
   arith.shrsi: floor division by 2^s (`Z.shiftr`). *)
From Snax Require Import Base.Prelude.

Definition half (w : Z) : Z := 2 ^ (w - 1).
Definition wrap (w z : Z) : Z := (z + half w) mod 2 ^ w - half w.
Definition in_range (w z : Z) : Prop := - half w <= z < half w.
Definition in_rangeb (w z : Z) : bool := (- half w <=? z) && (z <? half w).
(* sign extension from width w: reinterpret the low w bits as a signed number *)
Definition sext (w z : Z) : Z := wrap w z.
