(* C20 — the block order of a merged PE (class order_inversion of known finding C20-F2): every choose result
   used by an operand tree of a choose op (directly or through the muxes placed in front of it) is defined by
   an earlier choose op of the block. *)
From Snax Require Import Base.Prelude Model.C20Phs.

Definition leaf_defined (seen : list ident) (l : leaf) : bool :=
  match l with LArg _ => true | LId id => existsb (ident_eqb id) seen end.

Fixpoint ordered_nodes (seen : list ident) (ns : list node) : bool :=
  match ns with
  | [] => true
  | n :: r => forallb (leaf_defined seen) (flat_map leaves (nargs n)) && ordered_nodes (seen ++ [nid n]) r
  end.

Definition block_ordered (G : pe) : bool :=
  ordered_nodes [] (pnodes G) && forallb (leaf_defined (map nid (pnodes G))) (flat_map leaves (pout G)).

(* ---- decidable conditions under which append_to_abstract_graph cannot raise (merge_succeeds) *)
(* the number of operands of a choose op is the number of operand types in its id *)
Definition arity_ok (G : pe) : bool :=
  forallb (fun n => Nat.eqb (length (nargs n)) (length (fst (fst (nid n))))) (pnodes G).
Definition src_in_range (d : nat) (s : src) : bool := match s with SArg i => (i <? d)%nat | _ => true end.
Definition args_in_range (g : pe) : bool := forallb (src_in_range (pdata g)) (all_srcs g).
(* everything convert_generic_body_to_phs guarantees of a kernel graph *)
Definition kernel_total_ok (g : pe) : bool :=
  is_concrete g && nodup_ids (map nid (pnodes g)) && pe_wf g && block_ordered g && args_in_range g
  && arity_ok g && Nat.eqb (length (pout g)) 1.

(* witnesses of the two known findings, as kernel bodies *)
Definition w_i32 : sig := ([32; 32], [32]).
Definition w_i64 : sig := ([64; 64], [64]).
Definition w_ext : sig := ([32], [64]).
Definition w_trunc : sig := ([64], [32]).
(* extsi/trunci carry their result type: attribute codes 1 (not default-constructible: names >= 1000) *)
Definition w_b3 : body :=
  mkBody 3 [mkKop w_ext (mkOp 1003 1) [KArg 0]; mkKop w_i64 (mkOp 1 0) [KOp 0; KArg 1];
            mkKop w_trunc (mkOp 1004 1) [KOp 1]] [KOp 2].
Definition w_b4 : body :=
  mkBody 3 [mkKop w_trunc (mkOp 1004 1) [KArg 1]; mkKop w_ext (mkOp 1003 1) [KOp 0];
            mkKop w_i64 (mkOp 3 0) [KOp 1; KArg 1]; mkKop w_trunc (mkOp 1004 1) [KOp 2];
            mkKop w_i32 (mkOp 1 0) [KOp 3; KArg 0]] [KOp 4].

(* arith.cmpi slt / sgt feeding arith.select: same name 1000, attribute codes 1 / 2 *)
Definition w_cmp : sig := ([32; 32], [1]).
Definition w_sel : sig := ([1; 32; 32], [32]).
Definition w_b1 : body :=
  mkBody 3 [mkKop w_cmp (mkOp 1000 1) [KArg 0; KArg 1]; mkKop w_sel (mkOp 30 0) [KOp 0; KArg 0; KArg 1]] [KOp 1].
Definition w_b2 : body :=
  mkBody 3 [mkKop w_cmp (mkOp 1000 2) [KArg 0; KArg 1]; mkKop w_sel (mkOp 30 0) [KOp 0; KArg 0; KArg 1]] [KOp 1].
(* an interpretation that tells the predicates apart: slt, sgt, select *)
Definition w_opsem (k : opk) (vs : list Z) : Z :=
  match oname k, vs with
  | 1000, [a; b] => if oattr k =? 1 then (if a <? b then 1 else 0) else (if b <? a then 1 else 0)
  | 30, [c; a; b] => if c =? 1 then a else b
  | _, _ => 0
  end.

(* ---- the work of search_mapping: number of complete assignments it hands to valid_mapping (it validates only
   when every mux is assigned, decode.py:search_mapping) *)
Fixpoint search_cost (g G : pe) (muxes : list nat) (mu : nat -> Z) : nat :=
  match muxes with
  | [] => 1%nat
  | m :: ms =>
      match search g G ms (upd mu m 0) with
      | Some None => (search_cost g G ms (upd mu m 0) + search_cost g G ms (upd mu m 1))%nat
      | _ => search_cost g G ms (upd mu m 0)
      end
  end.

(* a kernel body in SSA form whose signatures list one type per operand (get_id builds the key from the operand
   types, so this holds for every real op; the converter's body records both) *)
Definition arity_body (b : body) : bool :=
  forallb (fun o => Nat.eqb (length (kargs o)) (length (fst (ksig o)))) (bops b).
Definition body_total_ok (b : body) : bool := body_ok b && arity_body b.
