(* AccDedup — the five rewrite patterns of snaxc/transforms/accfg_dedup.py as functions on the
   abstract accfg IR, each with the applicability test of the Python (as repaired by the F22 fix).
   Executable definitions only.

   A rule is applied to the setup whose out-state id is [target] (ids are unique, so this is the
   "matched op").  [T] is the table infer_state_of (only SimplifyRedundantSetupCalls reads it).
   [fresh] are the ids of the SSA values the real rewrite creates, in program order; the harness
   reads them off the real result, the theorems quantify over them.
   Every rule returns [None] when the pattern does not match / bails out.

     simplify   SimplifyRedundantSetupCalls    drop the (field, value) pairs already in the input state
     merge      MergeSetupOps                  fold the previous setup of the same accelerator (only
                                               side-effect-free ops in between) into this one
     elide      ElideEmptySetupOps             remove a field-less setup with an input state
     pull       PullSetupOpsOutOfLoops         copy loop-invariant fields into a new setup in front of the loop
     hoist      HoistSetupCallsIntoConditionals  move the setup into both branches of the scf.if that
                                               produced its input state *)
From Snax Require Import Base.Prelude Model.AccIR Model.AccSem Model.AccInfer.

(* ---- renaming the USES of one value ---------------------------------------------------- *)
Definition rn (x y v : val) : val := if Nat.eqb v x then y else v.

Definition subst_pexp (x y : val) (e : pexp) : pexp :=
  match e with
  | PConst z => PConst z
  | PId a => PId (rn x y a)
  | PBin o a b => PBin o (rn x y a) (rn x y b)
  | PCmp c a b => PCmp c (rn x y a) (rn x y b)
  | PSelect c a b => PSelect (rn x y c) (rn x y a) (rn x y b)
  end.

Definition subst_fs (x y : val) (fs : list (field * val)) : list (field * val) :=
  map (fun fv => (fst fv, rn x y (snd fv))) fs.

Fixpoint subst_stmt (x y : val) (s : stmt) {struct s} : stmt :=
  let subst_blk := fix subst_blk (b : list stmt) : list stmt :=
    match b with [] => [] | s' :: b' => subst_stmt x y s' :: subst_blk b' end in
  match s with
  | SPure d e => SPure d (subst_pexp x y e)
  | SCall g ef pu ds ar => SCall g ef pu ds (map (rn x y) ar)
  | SSetup a o i fs => SSetup a o (option_map (rn x y) i) (subst_fs x y fs)
  | SLaunch a k st fs => SLaunch a k (rn x y st) (subst_fs x y fs)
  | SAwait a k => SAwait a (rn x y k)
  | SReset a st => SReset a (rn x y st)
  | SFor iv lb ub sp its rs body ys =>
      SFor iv (rn x y lb) (rn x y ub) (rn x y sp)
           (map (fun it => (it_arg it, rn x y (it_init it), it_ty it)) its) rs (subst_blk body) (map (rn x y) ys)
  | SIf c rs th thy el ely =>
      SIf (rn x y c) rs (subst_blk th) (map (rn x y) thy) (subst_blk el) (map (rn x y) ely)
  end.
Definition subst_block (x y : val) (b : block) : block := map (subst_stmt x y) b.
Definition subst_prog (x y : val) (p : prog) : prog := mkProg (p_params p) (subst_block x y (p_body p)).

(* ---- applying a block-local rewrite at the first block (pre-order) where it matches -------- *)
Fixpoint app_stmt (f : block -> option block) (s : stmt) {struct s} : option stmt :=
  let app_children := fix app_children (b : list stmt) : option (list stmt) :=
    match b with
    | [] => None
    | x :: b' => match app_stmt f x with
                 | Some x' => Some (x' :: b')
                 | None => match app_children b' with Some b'' => Some (x :: b'') | None => None end
                 end
    end in
  let app_blk := fun b => match f b with Some b' => Some b' | None => app_children b end in
  match s with
  | SFor iv lb ub sp its rs body ys =>
      match app_blk body with Some body' => Some (SFor iv lb ub sp its rs body' ys) | None => None end
  | SIf c rs th thy el ely =>
      match app_blk th with
      | Some th' => Some (SIf c rs th' thy el ely)
      | None => match app_blk el with Some el' => Some (SIf c rs th thy el' ely) | None => None end
      end
  | _ => None
  end.

Fixpoint app_children (f : block -> option block) (b : block) : option block :=
  match b with
  | [] => None
  | x :: b' => match app_stmt f x with
               | Some x' => Some (x' :: b')
               | None => match app_children f b' with Some b'' => Some (x :: b'') | None => None end
               end
  end.

Definition app_block (f : block -> option block) (b : block) : option block :=
  match f b with Some b' => Some b' | None => app_children f b end.

Definition app_prog (f : block -> option block) (p : prog) : option prog :=
  option_map (mkProg (p_params p)) (app_block f (p_body p)).

(* split a block at the setup whose out-state is [target]: (before, setup parts, after) *)
Fixpoint find_setup (target : val) (b : block)
  : option (block * (acc * val * option val * list (field * val)) * block) :=
  match b with
  | [] => None
  | s :: b' =>
      match s with
      | SSetup a o i fs =>
          if Nat.eqb o target then Some ([], (a, o, i, fs), b')
          else match find_setup target b' with
               | Some (pre, x, post) => Some (s :: pre, x, post)
               | None => None
               end
      | _ => match find_setup target b' with
             | Some (pre, x, post) => Some (s :: pre, x, post)
             | None => None
             end
      end
  end.

Definition hd_fresh (fresh : list val) : option val := match fresh with x :: _ => Some x | [] => None end.

(* ---- 1. SimplifyRedundantSetupCalls ----------------------------------------------------- *)
Definition simplify_fields (prev : astate) (fs : list (field * val)) : list (field * val) :=
  filter (fun fv => negb (match st_lookup (fst fv) prev with Some v => Nat.eqb v (snd fv) | None => false end)) fs.

Definition simplify_here (T : val -> astate) (o' : val) (target : val) (b : block) : option block :=
  match find_setup target b with
  | Some (pre, (a, o, i, fs), post) =>
      let prev := match i with Some s => T s | None => [] end in
      let fs' := simplify_fields prev fs in
      if Nat.eqb (length fs') (length fs) then None
      else Some (pre ++ SSetup a o' i fs' :: post)
  | None => None
  end.

Definition rule_simplify (T : val -> astate) (fresh : list val) (target : val) (p : prog) : option prog :=
  match hd_fresh fresh with
  | Some o' => option_map (subst_prog target o') (app_prog (simplify_here T o' target) p)
  | None => None
  end.

(* ---- 2. MergeSetupOps ------------------------------------------------------------------- *)
(* xDSL is_side_effect_free on the abstract IR *)
Fixpoint stmt_sef (s : stmt) : bool :=
  let blk := fix blk (b : list stmt) : bool := match b with [] => true | x :: b' => stmt_sef x && blk b' end in
  match s with
  | SPure _ _ => true
  | SCall _ _ pu _ _ => pu
  | SFor _ _ _ _ _ _ body _ => blk body
  | SIf _ _ th _ el _ => blk th && blk el
  | _ => false
  end.

(* walk backwards (the list is the reversed prefix): the previous setup of [a] with only
   side-effect-free ops in between *)
Fixpoint find_prev_setup (a : acc) (rev_pre : list stmt)
  : option (list stmt * (val * option val * list (field * val)) * list stmt) :=
  match rev_pre with
  | [] => None
  | s :: r =>
      match s with
      | SSetup a' o i fs =>
          if Nat.eqb a' a then Some ([], (o, i, fs), r)
          else None   (* a setup of another accelerator is not side-effect free *)
      | _ => if stmt_sef s
             then match find_prev_setup a r with
                  | Some (between, x, rest) => Some (s :: between, x, rest)
                  | None => None
                  end
             else None
      end
  end.

Definition merge_here (o' : val) (target : val) (b : block) : option block :=
  match find_setup target b with
  | Some (pre, (a, o, i, fs), post) =>
      match find_prev_setup a (rev pre) with
      | Some (between_rev, (po, pi, pfs), rest_rev) =>
          Some (rev rest_rev ++ rev between_rev ++ SSetup a o' pi (st_update (st_update [] pfs) fs) :: post)
      | None => None
      end
  | None => None
  end.

Definition rule_merge (fresh : list val) (target : val) (p : prog) : option prog :=
  match hd_fresh fresh with
  | Some o' => option_map (subst_prog target o') (app_prog (merge_here o' target) p)
  | None => None
  end.

(* ---- 3. ElideEmptySetupOps --------------------------------------------------------------- *)
Definition elide_here (target : val) (b : block) : option (block * val) :=
  match find_setup target b with
  | Some (pre, (a, o, Some i, []), post) => Some (pre ++ post, i)
  | _ => None
  end.

(* the input state of the target (needed for the substitution after the local rewrite) *)
Fixpoint setup_in_stmt (target : val) (s : stmt) {struct s} : option (option val * list (field * val)) :=
  let blk := fix blk (b : list stmt) : option (option val * list (field * val)) :=
    match b with [] => None | x :: b' => match setup_in_stmt target x with Some r => Some r | None => blk b' end end in
  match s with
  | SSetup _ o i fs => if Nat.eqb o target then Some (i, fs) else None
  | SFor _ _ _ _ _ _ body _ => blk body
  | SIf _ _ th _ el _ => match blk th with Some r => Some r | None => blk el end
  | _ => None
  end.
Fixpoint setup_in_block (target : val) (b : block) : option (option val * list (field * val)) :=
  match b with [] => None | x :: b' => match setup_in_stmt target x with Some r => Some r | None => setup_in_block target b' end end.

Definition rule_elide (target : val) (p : prog) : option prog :=
  match setup_in_block target (p_body p) with
  | Some (Some i, []) =>
      option_map (subst_prog target i) (app_prog (fun b => option_map fst (elide_here target b)) p)
  | _ => None
  end.

(* ---- 4. PullSetupOpsOutOfLoops ------------------------------------------------------------ *)
(* every value defined inside a statement (results, block arguments, nested) *)
Fixpoint stmt_defs (s : stmt) : list val :=
  let blk := fix blk (b : list stmt) : list val := match b with [] => [] | x :: b' => stmt_defs x ++ blk b' end in
  match s with
  | SPure d _ => [d]
  | SCall _ _ _ ds _ => ds
  | SSetup _ o _ _ => [o]
  | SLaunch _ k _ _ => [k]
  | SAwait _ _ | SReset _ _ => []
  | SFor iv _ _ _ its rs body _ => iv :: map it_arg its ++ rs ++ blk body
  | SIf _ rs th _ el _ => map fst rs ++ blk th ++ blk el
  end.
Definition block_defs (b : block) : list val := flat_map stmt_defs b.

(* all_setup_ops_in_region: the parameter lists of every setup of [a], pre-order *)
Fixpoint stmt_setups (a : acc) (s : stmt) : list (list (field * val)) :=
  let blk := fix blk (b : list stmt) : list (list (field * val)) :=
    match b with [] => [] | x :: b' => stmt_setups a x ++ blk b' end in
  match s with
  | SSetup a' _ _ fs => if Nat.eqb a' a then [fs] else []
  | SFor _ _ _ _ _ _ body _ => blk body
  | SIf _ _ th _ el _ => blk th ++ blk el
  | _ => []
  end.
Definition block_setups (a : acc) (b : block) : list (list (field * val)) := flat_map (stmt_setups a) b.

(* the classification loop of the pattern: (safe, unsafe, field -> value) *)
Definition pull_classify (inside : list val) (params : list (field * val))
  : list field * list field * astate :=
  fold_left (fun (st : list field * list field * astate) fv =>
               match st with (safe, unsafe, m) =>
                 let k := fst fv in let v := snd fv in
                 if mem_nat v inside then (safe, k :: unsafe, m)
                 else match st_lookup k m with
                      | Some w => if Nat.eqb w v then (k :: safe, unsafe, st_set k v m)
                                  else (safe, k :: unsafe, m)
                      | None => (k :: safe, unsafe, st_set k v m)
                      end
               end) params ([], [], []).

Fixpoint insert_sorted (x : nat) (l : list nat) : list nat :=
  match l with
  | [] => [x]
  | y :: l' => if Nat.ltb x y then x :: l else if Nat.eqb x y then l else y :: insert_sorted x l'
  end.
Definition sort_dedup (l : list nat) : list nat := fold_right insert_sorted [] l.

Definition pull_fields (inside : list val) (setups : list (list (field * val))) : list (field * val) :=
  match pull_classify inside (concat setups) with
  | (safe, unsafe, m) =>
      flat_map (fun k => if mem_nat k unsafe then [] else
                           match st_lookup k m with Some v => [(k, v)] | None => [] end)
               (sort_dedup safe)
  end.

Fixpoint init_of_arg (b : val) (its : list (val * val * ty)) : option val :=
  match its with
  | [] => None
  | it :: its' => if Nat.eqb (it_arg it) b then Some (it_init it) else init_of_arg b its'
  end.

(* is [target] a setup that is a direct child of this loop body with a block argument as input? *)
Definition pull_in_loop (n : val) (target : val) (s : stmt) : option (list stmt) :=
  match s with
  | SFor iv lb ub sp its rs body ys =>
      match find_setup target body with
      | Some (_, (a, o, Some b, _), _) =>
          match init_of_arg b its with
          | Some init =>
              let inside := iv :: map it_arg its ++ block_defs body in
              let fs := pull_fields inside (block_setups a body) in
              match fs with
              | [] => None
              | _ => Some [SSetup a n (Some init) fs;
                           SFor iv lb ub sp (map (fun it => (it_arg it, rn init n (it_init it), it_ty it)) its) rs body ys]
              end
          | None => None
          end
      | _ => None
      end
  | _ => None
  end.

Fixpoint pull_here (n : val) (target : val) (b : block) : option block :=
  match b with
  | [] => None
  | s :: b' => match pull_in_loop n target s with
               | Some ss => Some (ss ++ b')
               | None => match pull_here n target b' with Some b'' => Some (s :: b'') | None => None end
               end
  end.

Definition rule_pull (fresh : list val) (target : val) (p : prog) : option prog :=
  match hd_fresh fresh with
  | Some n => app_prog (pull_here n target) p
  | None => None
  end.

(* ---- 5. HoistSetupCallsIntoConditionals ---------------------------------------------------- *)
Fixpoint index_of (x : val) (l : list val) : option nat :=
  match l with
  | [] => None
  | y :: l' => if Nat.eqb y x then Some 0%nat else option_map S (index_of x l')
  end.

(* does a launch on state [r] occur anywhere inside the statement (any depth)? *)
Fixpoint stmt_launches_on (r : val) (s : stmt) : bool :=
  let blk := fix blk (b : list stmt) : bool := match b with [] => false | x :: b' => stmt_launches_on r x || blk b' end in
  match s with
  | SLaunch _ _ st _ => Nat.eqb st r
  | SFor _ _ _ _ _ _ body _ => blk body
  | SIf _ _ th _ el _ => blk th || blk el
  | _ => false
  end.

Definition is_launch (s : stmt) : bool := match s with SLaunch _ _ _ _ => true | _ => false end.

(* split [pre] (the statements in front of the setup) at the scf.if producing [r] *)
Fixpoint find_if (r : val) (b : block) : option (block * stmt * block) :=
  match b with
  | [] => None
  | s :: b' =>
      match s with
      | SIf _ rs _ _ _ _ =>
          if mem_nat r (map fst rs) then Some ([], s, b')
          else match find_if r b' with Some (x, i, y) => Some (s :: x, i, y) | None => None end
      | _ => match find_if r b' with Some (x, i, y) => Some (s :: x, i, y) | None => None end
      end
  end.

Definition top_defs (s : stmt) : list val :=
  match s with
  | SPure d _ => [d]
  | SCall _ _ _ ds _ => ds
  | SSetup _ o _ _ => [o]
  | SLaunch _ k _ _ => [k]
  | SFor _ _ _ _ _ rs _ _ => rs
  | SIf _ rs _ _ _ _ => map fst rs
  | _ => []
  end.

Definition hoist_here (o1 o2 : val) (target : val) (b : block) : option block :=
  match find_setup target b with
  | Some (pre, (a, o, Some r, fs), post) =>
      match find_if r pre with
      | Some (pre0, SIf c rs th thy el ely, between) =>
          match index_of r (map fst rs) with
          | Some idx =>
              let yt := nth idx thy 0%nat in
              let ye := nth idx ely 0%nat in
              (* Step 0 (F22 repair): operands must be defined in front of the scf.if — not by the
                 scf.if itself (index >= if_index) nor by a statement between it and the setup *)
              let late := map fst rs ++ flat_map top_defs between in
              if existsb (fun fv => mem_nat (snd fv) late) fs then None
              (* Step 1: no launch on r between the if and the setup, none nested anywhere after the if *)
              else if existsb (fun s => stmt_launches_on r s) between then None
              else if existsb (fun s => negb (is_launch s) && stmt_launches_on r s) post then None
              else Some (pre0 ++ SIf c rs (th ++ [SSetup a o1 (Some yt) fs]) (map (rn yt o1) thy)
                                        (el ++ [SSetup a o2 (Some ye) fs]) (map (rn ye o2) ely)
                              :: between ++ post)
          | None => None
          end
      | _ => None
      end
  | _ => None
  end.

Definition setup_in_of (target : val) (p : prog) : option val :=
  match setup_in_block target (p_body p) with Some (Some r, _) => Some r | _ => None end.

Definition rule_hoist (fresh : list val) (target : val) (p : prog) : option prog :=
  match fresh, setup_in_of target p with
  | o1 :: o2 :: _, Some r => option_map (subst_prog target r) (app_prog (hoist_here o1 o2 target) p)
  | _, _ => None
  end.

(* ---- dispatch by pattern class name (L1) -------------------------------------------------- *)
Inductive rule := RSimplify | RPull | RMerge | RElide | RHoist.

Definition apply_rule (r : rule) (T : val -> astate) (fresh : list val) (target : val) (p : prog) : option prog :=
  match r with
  | RSimplify => rule_simplify T fresh target p
  | RPull => rule_pull fresh target p
  | RMerge => rule_merge fresh target p
  | RElide => rule_elide target p
  | RHoist => rule_hoist fresh target p
  end.

Definition step_ok (r : rule) (T : tbl) (fresh : list val) (target : val) (before after : prog) : bool :=
  match apply_rule r (tfun T) fresh target before with
  | Some p' => prog_eqb p' after
  | None => false
  end.

(* ---- the field-dropping part of SimplifyRedundantSetupCalls as a structural map ----------
   [simp_stmt sel T]: every setup with an input state whose out-state is selected by [sel] loses
   the (field, value) pairs already present in [T in_state]; ids are kept.  The real rewrite
   applied to [target] is  subst_prog target o' (simp_prog (Nat.eqb target) T p)  (checked by L1);
   the theorems are proved for every selection [sel], in particular for all setups at once. *)
Fixpoint simp_stmt (sel : val -> bool) (T : val -> astate) (s : stmt) {struct s} : stmt :=
  let blk := fix blk (b : list stmt) : list stmt :=
    match b with [] => [] | x :: b' => simp_stmt sel T x :: blk b' end in
  match s with
  | SSetup a o (Some i) fs => if sel o then SSetup a o (Some i) (simplify_fields (T i) fs) else s
  | SFor iv lb ub sp its rs body ys => SFor iv lb ub sp its rs (blk body) ys
  | SIf c rs th thy el ely => SIf c rs (blk th) thy (blk el) ely
  | _ => s
  end.
Fixpoint simp_block (sel : val -> bool) (T : val -> astate) (b : block) : block :=
  match b with [] => [] | x :: b' => simp_stmt sel T x :: simp_block sel T b' end.
Definition simp_prog (sel : val -> bool) (T : val -> astate) (p : prog) : prog :=
  mkProg (p_params p) (simp_block sel T (p_body p)).

(* no setup lists a field twice (SetupOp would write it twice) *)
Fixpoint stmt_fields_nodup (s : stmt) : bool :=
  let blk := fix blk (b : list stmt) : bool := match b with [] => true | x :: b' => stmt_fields_nodup x && blk b' end in
  match s with
  | SSetup _ _ _ fs => nodup_nat (map fst fs)
  | SFor _ _ _ _ _ _ body _ => blk body
  | SIf _ _ th _ el _ => blk th && blk el
  | _ => true
  end.
Fixpoint block_fields_nodup (b : block) : bool :=
  match b with [] => true | x :: b' => stmt_fields_nodup x && block_fields_nodup b' end.

(* renaming the out-state a setup DEFINES *)
Fixpoint redef_stmt (x y : val) (s : stmt) {struct s} : stmt :=
  let blk := fix blk (b : list stmt) : list stmt :=
    match b with [] => [] | s' :: b' => redef_stmt x y s' :: blk b' end in
  match s with
  | SSetup a o i fs => SSetup a (rn x y o) i fs
  | SFor iv lb ub sp its rs body ys => SFor iv lb ub sp its rs (blk body) ys
  | SIf c rs th thy el ely => SIf c rs (blk th) thy (blk el) ely
  | _ => s
  end.
Definition redef_prog (x y : val) (p : prog) : prog := mkProg (p_params p) (map (redef_stmt x y) (p_body p)).

(* L1 helper: the rule is the structural map followed by the renaming of the replaced out-state *)
Definition simplify_is_map (T : tbl) (fresh : list val) (target : val) (before after : prog) : bool :=
  match hd_fresh fresh with
  | Some o' => prog_eqb (redef_prog target o' (subst_prog target o' (simp_prog (Nat.eqb target) (tfun T) before))) after
               && block_fields_nodup (p_body before)
  | None => false
  end.

(* ---- the lowering form of C01's quantifier, as a decidable predicate ------------------------------
   [full_field_form p]: every launch is immediately preceded, in its block, by a setup of the same
   accelerator that writes EVERY field any setup of that accelerator writes anywhere in p
   ("full-field setups + launch/await pairs, the form every accelerator lowering emits").
   Its negation is the class of known finding F23 (PullSetupOpsOutOfLoops hoists a field in front of a
   loop that may run zero times; a later launch that does not rewrite the field observes it). *)
Definition prog_fields (a : acc) (b : block) : list field := sort_dedup (flat_map (map fst) (block_setups a b)).

Fixpoint ff_stmt (all : block) (prev : option stmt) (s : stmt) {struct s} : bool :=
  let blk := fix blk (prev : option stmt) (b : list stmt) {struct b} : bool :=
    match b with
    | [] => true
    | x :: b' => ff_stmt all prev x && blk (Some x) b'
    end in
  match s with
  | SLaunch a _ _ _ =>
      match prev with
      | Some (SSetup a' _ _ fs) => Nat.eqb a' a && forallb (fun f => mem_nat f (map fst fs)) (prog_fields a all)
      | _ => false
      end
  | SFor _ _ _ _ _ _ body _ => blk None body
  | SIf _ _ th _ el _ => blk None th && blk None el
  | _ => true
  end.

Fixpoint ff_block (all : block) (prev : option stmt) (b : block) : bool :=
  match b with
  | [] => true
  | x :: b' => ff_stmt all prev x && ff_block all (Some x) b'
  end.

Definition full_field_form (p : prog) : bool := ff_block (p_body p) None (p_body p).
