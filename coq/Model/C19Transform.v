(* C19 (d) — hand model (H) of snaxc/ir/dart/affine_transform.py (AffineTransform: from_affine_map,
   to_affine_map, eval, compose) and of AccessPattern.inner_dims / canonicalize
   (snaxc/ir/dart/access_pattern.py), over Z (numpy int arrays viewed as lists of rows).
   L1: exact comparison with the real classes on generated maps / matrices (harness/props/c19_transform.py).
   Definitions only. *)
From Snax Require Import Base.Prelude Model.XdslAffine.

Definition vec := list Z.
Definition mat := list (list Z).                       (* list of rows *)

(* A : (num_results x num_dims), b : num_results.  num_dims is kept: numpy knows it even with 0 rows. *)
Record atrans := AT { tA : mat; tb : vec; tn : nat }.

Definition dot (a b : vec) : Z := fold_right Z.add 0 (map (fun p => fst p * snd p) (combine a b)).
Definition vadd (a b : vec) : vec := map (fun p => fst p + snd p) (combine a b).
Definition vscale (c : Z) (a : vec) : vec := map (Z.mul c) a.
Definition mat_vec (A : mat) (x : vec) : vec := map (fun row => dot row x) A.

(* A @ B, row i of the product = sum_k A[i][k] * B[k] *)
Definition vzero (n : nat) : vec := repeat 0 n.
Definition row_mat (row : vec) (B : mat) (m : nat) : vec :=
  fold_right vadd (vzero m) (map (fun p => vscale (fst p) (snd p)) (combine row B)).
Definition mat_mul (A B : mat) (m : nat) : mat := map (fun row => row_mat row B m) A.

(* AffineTransform.eval on a single vector: A @ x + b   (ValueError -> None) *)
Definition at_eval (t : atrans) (x : vec) : option vec :=
  if (length x =? tn t)%nat then Some (vadd (mat_vec (tA t) x) (tb t)) else None.
(* batch form: (A @ x.T).T + b = map of the single-vector form *)
Definition at_eval_batch (t : atrans) (xs : list vec) : option (list vec) :=
  if forallb (fun x => (length x =? tn t)%nat) xs then Some (map (fun x => vadd (mat_vec (tA t) x) (tb t)) xs) else None.

Definition wf_atrans (t : atrans) : bool :=
  (length (tA t) =? length (tb t))%nat && forallb (fun row => (length row =? tn t)%nat) (tA t).

(* compose: self after other *)
Definition at_compose (s o : atrans) : option atrans :=
  if (tn s =? length (tA o))%nat then
    Some (AT (mat_mul (tA s) (tA o) (tn o)) (vadd (mat_vec (tA s) (tb o)) (tb s)) (tn o))
  else None.

(* ---- from_affine_map ----------------------------------------------------------------------- *)
Definition env (l : list Z) (p : Z) : Z := if p <? 0 then 0 else nth (Z.to_nat p) l 0.
Definition unit_vec (n : nat) (d : nat) : vec := map (fun k => if (k =? d)%nat then 1 else 0) (seq 0 n).

(* the dfs check: no floordiv / ceildiv / mod anywhere *)
Fixpoint no_divmod (e : aexpr) : bool :=
  match e with
  | EBin (KFloorDiv | KCeilDiv | KMod) _ _ => false
  | EBin _ l r => no_divmod l && no_divmod r
  | _ => true
  end.
(* map.eval(dims, []) raises IndexError on a symbol or a dimension >= num_dims *)
Fixpoint evaluable (n : nat) (e : aexpr) : bool :=
  match e with
  | EDim p => (0 <=? p) && (p <? Z.of_nat n)
  | ESym _ => false
  | ECst _ => true
  | EBin _ l r => evaluable n l && evaluable n r
  end.

Definition no_sym (_ : Z) : Z := 0.

Definition from_affine_map (m : amap) : option atrans :=
  let n := Z.to_nat (num_dims m) in
  if forallb no_divmod (results m) && forallb (evaluable n) (results m) then
    let b := map (eval (env (vzero n)) no_sym) (results m) in
    let A := map (fun e => let b0 := eval (env (vzero n)) no_sym e in
                           map (fun d => eval (env (unit_vec n d)) no_sym e - b0) (seq 0 n)) (results m) in
    Some (AT A b n)
  else None.

(* ---- to_affine_map -------------------------------------------------------------------------
   expr = AffineConstantExpr(b[r]); for dim: if A[r, dim] != 0: expr += AffineConstantExpr(A[r, dim]) * AffineDimExpr(dim)
   (constant * dim swaps to dim * constant: mulc; += is __add__: xadd) *)
Definition to_map_row (b : Z) (row : vec) : aexpr :=
  fold_left (fun expr p => if snd p =? 0 then expr else xadd expr (mulc (EDim (Z.of_nat (fst p))) (snd p)))
            (combine (seq 0 (length row)) row) (ECst b).
Definition to_affine_map (t : atrans) : amap :=
  AMap (Z.of_nat (tn t)) 0 (map (fun p => to_map_row (snd p) (fst p)) (combine (tA t) (tb t))).

(* pure-affine expressions: the domain on which the matrix form is faithful *)
Fixpoint const_expr (e : aexpr) : bool :=
  match e with
  | ECst _ => true
  | EBin (KAdd | KMul) l r => const_expr l && const_expr r
  | _ => false
  end.
Fixpoint is_affine (e : aexpr) : bool :=
  match e with
  | EDim _ | ECst _ => true
  | ESym _ => false
  | EBin KAdd l r => is_affine l && is_affine r
  | EBin KMul l r => (is_affine l && const_expr r) || (const_expr l && is_affine r)
  | _ => false
  end.

(* ---- AccessPattern (bounds: None = dynamic) --------------------------------------------------- *)
Record apattern := AP { ap_bounds : list (option Z); ap_pattern : atrans }.

Definition take_last {A} (k : nat) (l : list A) : list A := skipn (length l - k) l.

(* inner_dims(dim): bounds[-dim:], A[:, -dim:]   (dim <= 0 raises) *)
Definition ap_inner_dims (p : apattern) (dim : Z) : option apattern :=
  if dim <=? 0 then None else
  let k := Z.to_nat dim in
  let t := ap_pattern p in
  Some (AP (take_last k (ap_bounds p)) (AT (map (take_last k) (tA t)) (tb t) (Nat.min k (tn t)))).

(* canonicalize: keep the dimensions with `bound is None or bound > 1` *)
Definition keep_bound (b : option Z) : bool := match b with None => true | Some v => 1 <? v end.
Fixpoint select {A} (mask : list bool) (l : list A) : list A :=
  match mask, l with
  | m :: ms, x :: xs => if m then x :: select ms xs else select ms xs
  | _, _ => []
  end.
Definition ap_canonicalize (p : apattern) : apattern :=
  let mask := map keep_bound (ap_bounds p) in
  let t := ap_pattern p in
  AP (select mask (ap_bounds p)) (AT (map (select mask) (tA t)) (tb t) (length (select mask (ap_bounds p)))).

(* points of the iteration box of a pattern (dynamic bound: any non-negative index) *)
Definition in_box (bounds : list (option Z)) (x : vec) : Prop :=
  Forall2 (fun b v => 0 <= v /\ match b with Some bb => v < bb | None => True end) bounds x.

(* equality helpers for L1 *)
Definition vec_eqb := list_eqb Z.eqb.
Definition mat_eqb := list_eqb vec_eqb.
Definition atrans_eqb (a b : atrans) : bool :=
  mat_eqb (tA a) (tA b) && vec_eqb (tb a) (tb b) && (tn a =? tn b)%nat.
Definition opt_atrans_eqb (a b : option atrans) : bool :=
  match a, b with Some x, Some y => atrans_eqb x y | None, None => true | _, _ => false end.
Definition optvec_eqb (a b : option vec) : bool :=
  match a, b with Some x, Some y => vec_eqb x y | None, None => true | _, _ => false end.
Definition apattern_eqb (a b : apattern) : bool :=
  list_eqb optZ_eqb (ap_bounds a) (ap_bounds b) && atrans_eqb (ap_pattern a) (ap_pattern b).
