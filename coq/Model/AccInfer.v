(* AccInfer — model of snaxc/inference/trace_acc_state.py (as repaired by the F1/F3 fix) on the
   abstract accfg IR, the decidable certificate [wf] under which an inferred table is sound,
   and the instrumented semantics [chk] that compares a table with the concrete registers at
   every definition and use of a state value.  Executable definitions only.

   State dictionaries (`State = dict[str, SSAValue]`) are association lists in Python's
   insertion order: [st_update] is dict.update, [st_inter] is state_intersection.

   [ainfer_*] computes, in program order, infer_state_of(v) for EVERY state-typed value v
   (the Python computes the same equations on demand, walking the def-use chain backwards):
     setup without in_state      {params}
     setup with in_state s       infer(s).update(params)
     scf.if result               state_intersection(infer(then-yield), infer(else-yield))
     loop block argument b       head := state_intersection(init, yielded-assuming b=init)
     loop result                 state_intersection(init, yielded-assuming b=head)
     other block arguments       {}                                   (the default of [tlook])
   where init = infer(iter operand).  The body is therefore analysed twice: once assuming the
   initial state at the head, once assuming the head state (whose table is the final one). *)
From Snax Require Import Base.Prelude Model.AccIR Model.AccSem.

Definition astate := list (field * val).

Fixpoint st_lookup (f : field) (s : astate) : option val :=
  match s with
  | [] => None
  | (g, v) :: s' => if Nat.eqb g f then Some v else st_lookup f s'
  end.

Definition st_has (f : field) (s : astate) : bool :=
  match st_lookup f s with Some _ => true | None => false end.

(* d[f] = v : keep the position of an existing key, append a new one *)
Definition st_set (f : field) (v : val) (s : astate) : astate :=
  if st_has f s then map (fun gv => if Nat.eqb (fst gv) f then (f, v) else gv) s
  else s ++ [(f, v)].

Fixpoint st_update (s : astate) (fs : list (field * val)) : astate :=
  match fs with
  | [] => s
  | (f, v) :: fs' => st_update (st_set f v s) fs'
  end.

(* {k: a[k] for k in a if a[k] == b.get(k)} *)
Definition st_inter (a b : astate) : astate :=
  filter (fun fv => match st_lookup (fst fv) b with Some v => Nat.eqb v (snd fv) | None => false end) a.

(* a is a sub-dictionary of b *)
Definition st_sub (a b : astate) : bool :=
  forallb (fun fv => match st_lookup (fst fv) b with Some v => Nat.eqb v (snd fv) | None => false end) a.

Definition fact_eqb (a b : field * val) : bool := Nat.eqb (fst a) (fst b) && Nat.eqb (snd a) (snd b).
Definition astate_eqb (a b : astate) : bool := list_eqb fact_eqb a b.

(* ---- tables: state value -> inferred dictionary ------------------------------------ *)
Definition tbl := list (val * astate).

Fixpoint tlook (T : tbl) (s : val) : astate :=
  match T with
  | [] => []
  | (k, d) :: T' => if Nat.eqb k s then d else tlook T' s
  end.

Definition tset (s : val) (d : astate) (T : tbl) : tbl := (s, d) :: T.

(* the state-typed iter_args of a loop with their yield operand and result:
   (accelerator, block argument, init operand, yielded value, result) *)
Fixpoint state_iters (iters : list (val * val * ty)) (yields results : list val)
  : list (acc * val * val * val * val) :=
  match iters, yields, results with
  | it :: iters', y :: ys', r :: rs' =>
      match it_ty it with
      | TState a => (a, it_arg it, it_init it, y, r) :: state_iters iters' ys' rs'
      | TInt => state_iters iters' ys' rs'
      end
  | _, _, _ => []
  end.

(* the state-typed results of an scf.if: (accelerator, result, then-yield, else-yield) *)
Fixpoint state_results (results : list (val * ty)) (ty_ els_y : list val) : list (acc * val * val * val) :=
  match results, ty_, els_y with
  | (r, t) :: rs', y1 :: ys1, y2 :: ys2 =>
      match t with
      | TState a => (a, r, y1, y2) :: state_results rs' ys1 ys2
      | TInt => state_results rs' ys1 ys2
      end
  | _, _, _ => []
  end.

Definition si_acc (x : acc * val * val * val * val) : acc := fst (fst (fst (fst x))).
Definition si_arg (x : acc * val * val * val * val) : val := snd (fst (fst (fst x))).
Definition si_init (x : acc * val * val * val * val) : val := snd (fst (fst x)).
Definition si_yield (x : acc * val * val * val * val) : val := snd (fst x).
Definition si_res (x : acc * val * val * val * val) : val := snd x.

Definition sr_acc (x : acc * val * val * val) : acc := fst (fst (fst x)).
Definition sr_res (x : acc * val * val * val) : val := snd (fst (fst x)).
Definition sr_then (x : acc * val * val * val) : val := snd (fst x).
Definition sr_else (x : acc * val * val * val) : val := snd x.

Fixpoint ainfer_stmt (s : stmt) (T : tbl) {struct s} : tbl :=
  let ainfer_blk := fix ainfer_blk (b : list stmt) (T : tbl) {struct b} : tbl :=
    match b with
    | [] => T
    | x :: b' => ainfer_blk b' (ainfer_stmt x T)
    end in
  match s with
  | SSetup _ out ins fs =>
      tset out (st_update (match ins with Some i => tlook T i | None => [] end) fs) T
  | SFor _ _ _ _ iters results body yields =>
      let sis := state_iters iters yields results in
      (* walk the body assuming the initial state at the loop head *)
      let T1 := fold_left (fun T' x => tset (si_arg x) (tlook T (si_init x)) T') sis T in
      let T1' := ainfer_blk body T1 in
      (* the head state: what one iteration started from the initial state keeps *)
      let T2 := fold_left (fun T' x => tset (si_arg x)
                              (st_inter (tlook T (si_init x)) (tlook T1' (si_yield x))) T') sis T in
      let T2' := ainfer_blk body T2 in
      fold_left (fun T' x => tset (si_res x)
                   (st_inter (tlook T (si_init x)) (tlook T2' (si_yield x))) T') sis T2'
  | SIf _ results thn thn_y els els_y =>
      let T' := ainfer_blk els (ainfer_blk thn T) in
      fold_left (fun T'' x => tset (sr_res x) (st_inter (tlook T' (sr_then x)) (tlook T' (sr_else x))) T'')
                (state_results results thn_y els_y) T'
  | _ => T
  end.

Fixpoint ainfer_block (b : block) (T : tbl) : tbl :=
  match b with
  | [] => T
  | x :: b' => ainfer_block b' (ainfer_stmt x T)
  end.

Definition ainfer (p : prog) : tbl := ainfer_block (p_body p) [].

(* ---- the certificate ------------------------------------------------------------------
   [cur] = for each accelerator the state value that describes its registers at this program
   point (what _weave_states_in_region calls `state`).  [wf_*] checks, for a table given as a
   function, that
     - every setup / loop operand with an input state is linked to the current state,
     - the table entries satisfy the inference equations as inclusions
       (setup: T out <= update(T in, params); if: T res <= both yields;
        loop: T arg <= T init, T arg <= T yield, T res <= T init, T res <= T yield),
     - no fact of a current state mentions a value that is (re)defined at this point. *)
Definition cur := list (acc * val).

Fixpoint cur_get (a : acc) (c : cur) : option val :=
  match c with
  | [] => None
  | (b, s) :: c' => if Nat.eqb b a then Some s else cur_get a c'
  end.

Definition cur_remove (a : acc) (c : cur) : cur := filter (fun bs => negb (Nat.eqb (fst bs) a)) c.
Definition cur_set (a : acc) (s : val) (c : cur) : cur := (a, s) :: cur_remove a c.

Section Cert.
Variable T : val -> astate.

Definition facts_avoid (c : cur) (ds : list val) : bool :=
  forallb (fun bs => forallb (fun fv => negb (mem_nat (snd fv) ds)) (T (snd bs))) c.

Definition optval_is (o : option val) (s : val) : bool :=
  match o with Some x => Nat.eqb x s | None => false end.

(* accelerators set up anywhere inside a block *)
Fixpoint stmt_accs (s : stmt) : list acc :=
  let block_accs := fix block_accs (b : list stmt) : list acc :=
    match b with [] => [] | x :: b' => stmt_accs x ++ block_accs b' end in
  match s with
  | SSetup a _ _ _ => [a]
  | SFor _ _ _ _ _ _ body _ => block_accs body
  | SIf _ _ th _ el _ => block_accs th ++ block_accs el
  | _ => []
  end.
Definition block_accs (b : block) : list acc := flat_map stmt_accs b.

Fixpoint nodup_nat (l : list nat) : bool :=
  match l with
  | [] => true
  | x :: l' => negb (mem_nat x l') && nodup_nat l'
  end.

Fixpoint wf_stmt (c : cur) (s : stmt) {struct s} : option cur :=
  let wf_blk := fix wf_blk (c : cur) (b : list stmt) {struct b} : option cur :=
    match b with
    | [] => Some c
    | x :: b' => match wf_stmt c x with Some c' => wf_blk c' b' | None => None end
    end in
  match s with
  | SPure d _ => if facts_avoid c [d] then Some c else None
  | SCall _ eff _ dsts _ => if facts_avoid c dsts then Some (if eff then [] else c) else None
  | SSetup a out ins fs =>
      let linked := match ins with Some i => optval_is (cur_get a c) i | None => true end in
      let tin := match ins with Some i => T i | None => [] end in
      if linked && st_sub (T out) (st_update tin fs) then Some (cur_set a out c) else None
  | SLaunch _ _ _ _ | SAwait _ _ | SReset _ _ => Some c
  | SFor iv _ _ _ iters results body yields =>
      let sis := state_iters iters yields results in
      let ds := iv :: map it_arg iters ++ results in
      let touched := block_accs body in
      let eff := existsb stmt_has_effects body in
      let kept := filter (fun bs => negb (mem_nat (fst bs) (map si_acc sis))
                                    && negb (mem_nat (fst bs) touched) && negb eff) c in
      let c_h := map (fun x => (si_acc x, si_arg x)) sis ++ kept in
      if facts_avoid c ds
         && nodup_nat (map si_acc sis)
         && forallb (fun x => optval_is (cur_get (si_acc x) c) (si_init x)
                              && st_sub (T (si_arg x)) (T (si_init x)) && st_sub (T (si_arg x)) (T (si_yield x))
                              && st_sub (T (si_res x)) (T (si_init x)) && st_sub (T (si_res x)) (T (si_yield x))) sis
      then match wf_blk c_h body with
           | Some c_e =>
               if forallb (fun x => optval_is (cur_get (si_acc x) c_e) (si_yield x)) sis
                  && forallb (fun bs => optval_is (cur_get (fst bs) c_e) (snd bs)) kept
               then Some (map (fun x => (si_acc x, si_res x)) sis ++ kept)
               else None
           | None => None
           end
      else None
  | SIf _ results thn thn_y els els_y =>
      let srs := state_results results thn_y els_y in
      let ds := map fst results in
      match wf_blk c thn, wf_blk c els with
      | Some c_t, Some c_e =>
          let kept := filter (fun bs => negb (mem_nat (fst bs) (map sr_acc srs))
                                        && optval_is (cur_get (fst bs) c_t) (snd bs)
                                        && optval_is (cur_get (fst bs) c_e) (snd bs)) c in
          if facts_avoid c ds
             && nodup_nat (map sr_acc srs)
             && forallb (fun x => optval_is (cur_get (sr_acc x) c_t) (sr_then x)
                                  && optval_is (cur_get (sr_acc x) c_e) (sr_else x)
                                  && st_sub (T (sr_res x)) (T (sr_then x)) && st_sub (T (sr_res x)) (T (sr_else x))
                                  && forallb (fun fv => negb (mem_nat (snd fv) ds)) (T (sr_res x))) srs
          then Some (map (fun x => (sr_acc x, sr_res x)) srs ++ kept)
          else None
      | _, _ => None
      end
  end.

Fixpoint wf_block (c : cur) (b : block) : option cur :=
  match b with
  | [] => Some c
  | x :: b' => match wf_stmt c x with Some c' => wf_block c' b' | None => None end
  end.

Definition wf_prog (p : prog) : bool :=
  match wf_block [] (p_body p) with Some _ => true | None => false end.

(* ---- instrumented execution --------------------------------------------------------------
   [chk_*] runs the program exactly like AccSem and returns, besides the final machine state,
   the state values whose table entry disagreed with the concrete registers
     - at a setup: its input state just before, its output state just after the register writes,
     - at a loop: every state block argument at the start of EVERY iteration, every state result,
     - at an scf.if: every state result. *)
Definition holds (m : mstate) (a : acc) (s : val) : bool :=
  forallb (fun fv => regs m a (fst fv) =? env m (snd fv)) (T s).

Definition viol (m : mstate) (a : acc) (s : val) : list val := if holds m a s then [] else [s].

Variable orc : oracle.

Definition chk_for_step (chk_body : mstate -> mstate * list val) (iv : val) (bargs yields : list val)
           (sis : list (acc * val * val * val * val)) (l s : Z) (k : nat) (mv : mstate * list val)
  : mstate * list val :=
  let mk := fst mv in
  let m1 := set_env mk (upd (env mk) iv (l + Z.of_nat k * s)) in
  let v1 := flat_map (fun x => viol m1 (si_acc x) (si_arg x)) sis in
  let r := chk_body m1 in
  let m2 := fst r in
  (set_env m2 (bind_list bargs (map (env m2) yields) (env m2)), snd mv ++ v1 ++ snd r).

Fixpoint chk_stmt (s : stmt) (m : mstate) {struct s} : mstate * list val :=
  let chk_blk := fix chk_blk (b : list stmt) (m : mstate) {struct b} : mstate * list val :=
    match b with
    | [] => (m, [])
    | x :: b' => let r := chk_stmt x m in let r' := chk_blk b' (fst r) in (fst r', snd r ++ snd r')
    end in
  match s with
  | SSetup a out ins fs =>
      let m' := exec_setup a fs m in
      (m', match ins with Some i => viol m a i | None => [] end ++ viol m' a out)
  | SFor iv lb ub st iters results body yields =>
      let sis := state_iters iters yields results in
      let l := env m lb in
      let u := env m ub in
      let sp := env m st in
      let bargs := map it_arg iters in
      let m0 := set_env m (bind_list bargs (map (fun x => env m (it_init x)) iters) (env m)) in
      let r := iter_n (trip_count l u sp) (chk_for_step (chk_blk body) iv bargs yields sis l sp) (m0, []) in
      let mN := fst r in
      let m' := set_env mN (bind_list results (map (env mN) bargs) (env mN)) in
      (m', snd r ++ flat_map (fun x => viol m' (si_acc x) (si_res x)) sis)
  | SIf c results thn thn_y els els_y =>
      let srs := state_results results thn_y els_y in
      let r := if env m c =? 0 then chk_blk els m else chk_blk thn m in
      let m1 := fst r in
      let m' := set_env m1 (bind_list (map fst results)
                              (map (env m1) (if env m c =? 0 then els_y else thn_y)) (env m1)) in
      (m', snd r ++ flat_map (fun x => viol m' (sr_acc x) (sr_res x)) srs)
  | _ => (exec_stmt orc s m, [])
  end.

Fixpoint chk_block (b : block) (m : mstate) : mstate * list val :=
  match b with
  | [] => (m, [])
  | x :: b' => let r := chk_stmt x m in let r' := chk_block b' (fst r) in (fst r', snd r ++ snd r')
  end.

Definition chk_prog (p : prog) (args : list Z) : list val :=
  snd (chk_block (p_body p) (init_state orc p args)).

End Cert.

Definition tfun (t : tbl) : val -> astate := tlook t.

(* the model's table passes its own certificate / L1 helpers *)
Definition ainfer_certified (p : prog) : bool := wf_prog (tfun (ainfer p)) p.

Definition tbl_eqb_on (ids : list val) (t1 t2 : tbl) : bool :=
  forallb (fun s => astate_eqb (tlook t1 s) (tlook t2 s)) ids.
