(* AccWeave — model of _weave_states_in_region (snaxc/transforms/convert_linalg_to_accfg.py, as
   repaired by the F2 fix), has_accfg_effects, calc_if_state_delta, find_existing_block_arg and
   find_all_acc_names_in_region (snaxc/inference/helpers.py) on the abstract accfg IR.
   Executable definitions only.

   The Python threads a dict `state : accelerator -> SSA state value` through a region and
   rewrites in place; here [weave_block st n b] returns the rewritten block, the dict at the end
   of the block and the next unused value id ([n] numbers the values the pass creates: empty
   setups, block arguments, loop results, scf.if results).  Where the Python replaces an op by a
   new op with new result values the model keeps the old ids; the comparison with the real
   output is modulo renaming ([canon], below).  [None] = the Python raises (KeyError for a loop
   whose carried state is invalidated at the end of the body) or produces an scf.for whose
   operands and block arguments do not line up. *)
From Snax Require Import Base.Prelude Model.AccIR Model.AccSem Model.AccInfer Model.AccDedup.

(* Python dict with insertion order *)
Definition wdict := list (acc * val).

Fixpoint d_get (a : acc) (d : wdict) : option val :=
  match d with [] => None | (b, v) :: d' => if Nat.eqb b a then Some v else d_get a d' end.
Definition d_has (a : acc) (d : wdict) : bool := match d_get a d with Some _ => true | None => false end.
Fixpoint d_set (a : acc) (v : val) (d : wdict) : wdict :=
  match d with
  | [] => [(a, v)]
  | (b, w) :: d' => if Nat.eqb b a then (b, v) :: d' else (b, w) :: d_set a v d'
  end.
Definition d_del (a : acc) (d : wdict) : wdict := filter (fun bv => negb (Nat.eqb (fst bv) a)) d.

Definition optval_eqb (a b : option val) : bool :=
  match a, b with Some x, Some y => Nat.eqb x y | None, None => true | _, _ => false end.

(* calc_if_state_delta: [(accelerator, then value, else value)] in dict order *)
Definition if_delta (old st_t st_e : wdict) : list (acc * val * val) :=
  let first := flat_map (fun kv =>
                 match d_get (fst kv) st_t, d_get (fst kv) st_e with
                 | Some x, Some y =>
                     if Nat.eqb x (snd kv) && Nat.eqb y (snd kv) then [] else [(fst kv, x, y)]
                 | _, _ => []
                 end) old in
  (* the keys of old_state have been popped from both branch dicts *)
  let rest_t := filter (fun kv => negb (d_has (fst kv) old)) st_t in
  let rest_e := filter (fun kv => negb (d_has (fst kv) old)) st_e in
  let second := flat_map (fun kv => match d_get (fst kv) rest_e with
                                    | Some y => [(fst kv, snd kv, y)]
                                    | None => []
                                    end) rest_t in
  (* new_state is a dict: a key of the second loop cannot be a key of the first *)
  first ++ second.

(* find_existing_block_arg over the loop-carried block arguments *)
Fixpoint find_block_arg (a : acc) (its : list (val * val * ty)) : option val :=
  match its with
  | [] => None
  | it :: its' => match it_ty it with
                  | TState b => if Nat.eqb b a then Some (it_arg it) else find_block_arg a its'
                  | TInt => find_block_arg a its'
                  end
  end.

Fixpoint weave_stmt (st : wdict) (n : nat) (s : stmt) {struct s} : option (list stmt * wdict * nat) :=
  let weave_blk := fix weave_blk (st : wdict) (n : nat) (b : list stmt) {struct b} : option (list stmt * wdict * nat) :=
    match b with
    | [] => Some ([], st, n)
    | x :: b' =>
        match weave_stmt st n x with
        | Some (xs, st1, n1) =>
            match weave_blk st1 n1 b' with
            | Some (b'', st2, n2) => Some (xs ++ b'', st2, n2)
            | None => None
            end
        | None => None
        end
    end in
  match s with
  | SSetup a out ins fs =>
      let ins' := match d_get a st with
                  | Some cur => if optval_eqb ins (Some cur) then ins else Some cur
                  | None => ins
                  end in
      Some ([SSetup a out ins' fs], d_set a out st, n)
  | SIf c rs thn thy els ely =>
      match weave_blk st n thn with
      | Some (thn', st_t, n1) =>
          match weave_blk st n1 els with
          | Some (els', st_e, n2) =>
              (* F2 repair: drop what either branch invalidated *)
              let st' := filter (fun kv => d_has (fst kv) st_t && d_has (fst kv) st_e) st in
              let delta := if_delta st' st_t st_e in
              match delta with
              | [] => Some ([SIf c rs thn' thy els' ely], st', n2)
              | _ =>
                  let news := combine (seq n2 (length delta)) delta in
                  let rs' := rs ++ map (fun x => (fst x, TState (fst (fst (snd x))))) news in
                  let thy' := thy ++ map (fun x => snd (fst (snd x))) news in
                  let ely' := ely ++ map (fun x => snd (snd x)) news in
                  let st'' := fold_left (fun d x => d_set (fst (fst (snd x))) (fst x) d) news st' in
                  Some ([SIf c rs' thn' thy' els' ely'], st'', (n2 + length delta)%nat)
              end
          | None => None
          end
      | None => None
      end
  | SFor iv lb ub sp its rs body ys =>
      if existsb stmt_has_effects body then
        (* F2 repair: a loop body with effects cannot carry a state *)
        match weave_blk [] n body with
        | Some (body', _, n1) => Some ([SFor iv lb ub sp its rs body' ys], [], n1)
        | None => None
        end
      else
        let updated := sort_dedup (block_accs body) in
        match updated with
        | [] => Some ([s], st, n)
        | _ =>
            (* empty setups for accelerators without a state in front of the loop *)
            let missing := filter (fun a => negb (d_has a st)) updated in
            let empties := combine (seq n (length missing)) missing in
            let st0 := fold_left (fun d x => d_set (snd x) (fst x) d) empties st in
            let n0 := (n + length missing)%nat in
            (* block arguments: existing ones are reused, others are created at the end *)
            let need := filter (fun a => match find_block_arg a its with Some _ => false | None => true end) updated in
            let created := combine (seq n0 (length need)) need in
            let n1 := (n0 + length need)%nat in
            let inner := fold_left (fun d a => match find_block_arg a its with
                                               | Some b => d_set a b d
                                               | None => match d_get a (map (fun x => (snd x, fst x)) created) with
                                                         | Some b => d_set a b d
                                                         | None => d
                                                         end
                                               end) updated st0 in
            match weave_blk inner n1 body with
            | Some (body', st_end, n2) =>
                let operands := lb :: ub :: sp :: map it_init its in
                let inputs := filter (fun a => match d_get a st0 with
                                               | Some v => negb (mem_nat v operands)
                                               | None => false
                                               end) updated in
                (* the appended operands must pair up with the created block arguments *)
                if negb (list_eqb Nat.eqb inputs need) then None
                else
                  let ends := map (fun x => d_get (snd x) st_end) created in
                  if existsb (fun o => match o with None => true | Some _ => false end) ends then None
                  else
                    let new_its := map (fun x => (fst x, match d_get (snd x) st0 with Some v => v | None => 0%nat end,
                                                  TState (snd x))) created in
                    let new_ys := map (fun o => match o with Some v => v | None => 0%nat end) ends in
                    let new_rs := seq n2 (length created) in
                    let its' := its ++ new_its in
                    let rs' := rs ++ new_rs in
                    let st_after := fold_left (fun d x => match it_ty (fst x) with
                                                          | TState a => d_set a (snd x) d
                                                          | TInt => d
                                                          end) (combine its' rs') st0 in
                    Some (map (fun x => SSetup (snd x) (fst x) None []) empties
                            ++ [SFor iv lb ub sp its' rs' body' (ys ++ new_ys)],
                          st_after, (n2 + length created)%nat)
            | None => None
            end
        end
  | SCall _ eff _ _ _ => Some ([s], if eff then [] else st, n)
  | _ => Some ([s], st, n)
  end.

Fixpoint weave_block (st : wdict) (n : nat) (b : block) : option (list stmt * wdict * nat) :=
  match b with
  | [] => Some ([], st, n)
  | x :: b' =>
      match weave_stmt st n x with
      | Some (xs, st1, n1) =>
          match weave_block st1 n1 b' with
          | Some (b'', st2, n2) => Some (xs ++ b'', st2, n2)
          | None => None
          end
      | None => None
      end
  end.

(* ---- all ids / canonical renaming ---------------------------------------------------------- *)
Definition ids_pexp (e : pexp) : list val :=
  match e with
  | PConst _ => [] | PId a => [a] | PBin _ a b => [a; b] | PCmp _ a b => [a; b] | PSelect c a b => [c; a; b]
  end.

Fixpoint ids_stmt (s : stmt) : list val :=
  let blk := fix blk (b : list stmt) : list val := match b with [] => [] | x :: b' => ids_stmt x ++ blk b' end in
  match s with
  | SPure d e => d :: ids_pexp e
  | SCall _ _ _ ds ar => ds ++ ar
  | SSetup _ o i fs => o :: match i with Some x => [x] | None => [] end ++ map snd fs
  | SLaunch _ k st fs => k :: st :: map snd fs
  | SAwait _ k => [k]
  | SReset _ st => [st]
  | SFor iv lb ub sp its rs body ys =>
      iv :: lb :: ub :: sp :: flat_map (fun it => [it_arg it; it_init it]) its ++ rs ++ blk body ++ ys
  | SIf c rs th thy el ely => c :: map fst rs ++ blk th ++ thy ++ blk el ++ ely
  end.
Definition ids_prog (p : prog) : list val := p_params p ++ flat_map ids_stmt (p_body p).

Fixpoint dedup_first (seen : list val) (l : list val) : list val :=
  match l with
  | [] => []
  | x :: l' => if mem_nat x seen then dedup_first seen l' else x :: dedup_first (x :: seen) l'
  end.

Fixpoint pos_of (x : val) (l : list val) (k : nat) : nat :=
  match l with [] => k | y :: l' => if Nat.eqb y x then k else pos_of x l' (S k) end.

Definition ren_pexp (f : val -> val) (e : pexp) : pexp :=
  match e with
  | PConst z => PConst z | PId a => PId (f a) | PBin o a b => PBin o (f a) (f b)
  | PCmp c a b => PCmp c (f a) (f b) | PSelect c a b => PSelect (f c) (f a) (f b)
  end.

Fixpoint ren_stmt (f : val -> val) (s : stmt) {struct s} : stmt :=
  let blk := fix blk (b : list stmt) : list stmt := match b with [] => [] | x :: b' => ren_stmt f x :: blk b' end in
  match s with
  | SPure d e => SPure (f d) (ren_pexp f e)
  | SCall g ef pu ds ar => SCall g ef pu (map f ds) (map f ar)
  | SSetup a o i fs => SSetup a (f o) (option_map f i) (map (fun fv => (fst fv, f (snd fv))) fs)
  | SLaunch a k st fs => SLaunch a (f k) (f st) (map (fun fv => (fst fv, f (snd fv))) fs)
  | SAwait a k => SAwait a (f k)
  | SReset a st => SReset a (f st)
  | SFor iv lb ub sp its rs body ys =>
      SFor (f iv) (f lb) (f ub) (f sp) (map (fun it => (f (it_arg it), f (it_init it), it_ty it)) its)
           (map f rs) (blk body) (map f ys)
  | SIf c rs th thy el ely =>
      SIf (f c) (map (fun r => (f (fst r), snd r)) rs) (blk th) (map f thy) (blk el) (map f ely)
  end.

(* rename every value to the position of its first occurrence *)
Definition canon (p : prog) : prog :=
  let ids := dedup_first [] (ids_prog p) in
  let f := fun x => pos_of x ids 0%nat in
  mkProg (map f (p_params p)) (map (ren_stmt f) (p_body p)).

Definition max_id (p : prog) : nat := fold_right Nat.max 0%nat (ids_prog p).

(* accfg-trace-states on one function *)
Definition weave (p : prog) : option prog :=
  match weave_block [] (S (max_id p)) (p_body p) with
  | Some (b, _, _) => Some (mkProg (p_params p) b)
  | None => None
  end.

Definition weave_ok (before after : prog) : bool :=
  match weave before with
  | Some p' => prog_eqb (canon p') (canon after)
  | None => false
  end.

(* ---- renaming one value everywhere (definition and uses) ------------------------------------ *)
Definition ren_block (f : val -> val) (b : block) : block := map (ren_stmt f) b.
Definition ren_prog (f : val -> val) (p : prog) : prog := mkProg (map f (p_params p)) (ren_block f (p_body p)).

(* the ids the machine may bind in the environment when it runs a statement *)
Fixpoint stmt_binds (s : stmt) : list val :=
  let blk := fix blk (b : list stmt) : list val := match b with [] => [] | x :: b' => stmt_binds x ++ blk b' end in
  match s with
  | SPure d _ => [d]
  | SCall _ _ _ ds _ => ds
  | SFor iv _ _ _ its rs body _ => iv :: map it_arg its ++ rs ++ blk body
  | SIf _ rs th _ el _ => map fst rs ++ blk th ++ blk el
  | _ => []
  end.
Definition block_binds (b : block) : list val := flat_map stmt_binds b.
Definition prog_binds (p : prog) : list val := p_params p ++ block_binds (p_body p).

(* L1 certificate for one recorded SimplifyRedundantSetupCalls rewrite: the real result is the proved
   structural map [simp_prog] followed by renaming the replaced out-state [target] to the new
   value [o'], and neither is ever bound by the machine (they are state values) *)
Definition simplify_cert (T : tbl) (fresh : list val) (target : val) (before after : prog) : bool :=
  match hd_fresh fresh with
  | Some o' =>
      let q := simp_prog (Nat.eqb target) (tfun T) before in
      prog_eqb (ren_prog (rn target o') q) after
      && block_fields_nodup (p_body before)
      && negb (mem_nat target (prog_binds q)) && negb (mem_nat o' (prog_binds q))
  | None => false
  end.

(* ---- ElideEmptySetupOps as a structural map ---------------------------------------------------
   [drop_block tg]: remove the field-less setup (with an input state) whose out-state is [tg],
   wherever it is.  The real rewrite additionally replaces [tg] by the setup's input state [i]
   everywhere: after = ren_prog (rn tg i) (drop_prog tg before)  (checked per recorded rewrite,
   [elide_cert]). *)
Section Drop.
Variable tg : val.

Definition is_dropped (s : stmt) : bool :=
  match s with
  | SSetup _ o (Some _) [] => Nat.eqb o tg
  | _ => false
  end.

Fixpoint drop_stmt (s : stmt) {struct s} : stmt :=
  let blk := fix blk (b : list stmt) : list stmt :=
    match b with
    | [] => []
    | x :: b' => if is_dropped x then blk b' else drop_stmt x :: blk b'
    end in
  match s with
  | SFor iv lb ub sp its rs body ys => SFor iv lb ub sp its rs (blk body) ys
  | SIf c rs th thy el ely => SIf c rs (blk th) thy (blk el) ely
  | _ => s
  end.

Fixpoint drop_block (b : block) : block :=
  match b with
  | [] => []
  | x :: b' => if is_dropped x then drop_block b' else drop_stmt x :: drop_block b'
  end.
End Drop.

Definition drop_prog (tg : val) (p : prog) : prog := mkProg (p_params p) (drop_block tg (p_body p)).

Definition elide_cert (target : val) (before after : prog) : bool :=
  match setup_in_of target before with
  | Some i =>
      let q := drop_prog target before in
      prog_eqb (ren_prog (rn target i) q) after
      && negb (mem_nat target (prog_binds q)) && negb (mem_nat i (prog_binds q))
  | None => false
  end.
