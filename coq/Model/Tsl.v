(* Hand model (H) of snaxc/ir/tsl/{stride,tiled_stride,tiled_strided_layout}.py and of
   TiledStridedLayoutAttr.get_affine_map (snaxc/dialects/tsl.py).
   Executable definitions only; proofs live in Proofs/TslProofs.v.
   Tied to the code by the L1 correspondence of harness/props/c10.py. *)
From Snax Require Import Base.Prelude.

(* A stride is (step, bound); None = dynamic ("?"). *)
Definition stride : Type := (option Z * option Z)%type.
Definition sstep (s : stride) : option Z := fst s.
Definition sbound (s : stride) : option Z := snd s.
Definition tstride : Type := list stride.          (* outermost tile first *)
Record layout := mkLayout { tstrides : list tstride; offset : option Z }.

Definition stride_eqb (a b : stride) : bool :=
  optZ_eqb (fst a) (fst b) && optZ_eqb (snd a) (snd b).
Definition tstride_eqb := list_eqb stride_eqb.
Definition layout_eqb (a b : layout) : bool :=
  list_eqb tstride_eqb (tstrides a) (tstrides b) && optZ_eqb (offset a) (offset b).

(* ---- TiledStride.from_stride ------------------------------------------------ *)
(* steps = [simple]; for bound in reversed(tile_bounds[1:]):
       steps = [bound*steps[0] if bound and steps[0] else None, *steps]
   return zip(steps, tile_bounds) *)
Definition from_stride_step (steps : list (option Z)) (bound : option Z) : list (option Z) :=
  let h := hd None steps in
  (if truthy bound && truthy h
   then match bound, h with Some b, Some s => Some (b * s) | _, _ => None end
   else None) :: steps.

Definition from_stride (simple : option Z) (tile_bounds : list (option Z)) : tstride :=
  let steps := fold_left from_stride_step (rev (tl tile_bounds)) [simple] in
  combine steps tile_bounds.

(* ---- TiledStride.canonicalize ----------------------------------------------- *)
Definition canon_step (acc : tstride) (s : stride) : tstride :=
  match acc with
  | [] => [s]
  | prev :: rest =>
      if optZ_eqb (sbound s) (Some 1) then acc
      else if truthy (sstep prev) && truthy (sbound prev)
              && optZ_eqb (match sstep prev, sbound prev with
                           | Some ps, Some pb => Some (ps * pb) | _, _ => None end) (sstep s)
              && truthy (sbound s)
           then match sbound prev, sbound s with
                | Some pb, Some sb => (sstep prev, Some (pb * sb)) :: rest
                | _, _ => s :: acc (* unreachable: both truthy *)
                end
           else s :: acc
  end.

Definition ts_canonicalize (t : tstride) : tstride := fold_left canon_step (rev t) [].

Definition canonicalize (l : layout) : layout :=
  mkLayout (map ts_canonicalize (tstrides l)) (offset l).

Definition from_strides (strides : list (option Z)) (tile_bounds : list (list (option Z)))
  (off : option Z) : layout :=
  mkLayout (map (fun p => from_stride (fst p) (snd p)) (combine strides tile_bounds)) off.

(* ---- static views --------------------------------------------------------------- *)
Definition stride_dynamic (s : stride) : bool :=
  match s with (Some _, Some _) => false | _ => true end.
Definition all_strides (l : layout) : list stride := concat (tstrides l).
Definition is_dynamic (l : layout) : bool := existsb stride_dynamic (all_strides l).

(* static (step, bound) pairs *)
Definition sstride : Type := (Z * Z)%type.
Definition static_of (s : stride) : sstride :=
  match s with (Some a, Some b) => (a, b) | (Some a, None) => (a, 0) | (None, Some b) => (0, b) | _ => (0, 0) end.

(* Stride.all_values: list(range(0, step*bound, step)) for step > 0: [0, step, ..., step*(bound-1)] *)
Definition stride_values (s : sstride) : list Z :=
  map (fun i => fst s * i) (zrange (snd s)).

(* TiledStridedLayout.all_values: broadcast-sum over all strides, flattened in C order.
   (The offset is not part of all_values.) *)
Definition av_step (acc : list Z) (s : sstride) : list Z :=
  flat_map (fun r => map (fun v => r + v) (stride_values s)) acc.
Definition all_values_of (ss : list sstride) : list Z := fold_left av_step ss [0].
Definition all_values (l : layout) : list Z := all_values_of (map static_of (all_strides l)).

Definition tile_bounds (l : layout) : list (list (option Z)) := map (map sbound) (tstrides l).
Definition equal_tile_bounds (a b : layout) : bool :=
  list_eqb (list_eqb optZ_eqb) (tile_bounds a) (tile_bounds b).

(* duplicates / density *)
Fixpoint has_dup (l : list Z) : bool :=
  match l with
  | [] => false
  | x :: xs => existsb (Z.eqb x) xs || has_dup xs
  end.
Definition self_overlaps (l : layout) : bool := has_dup (all_values l).
Definition zmax_list (l : list Z) : Z := fold_right Z.max 0 l.
Definition is_dense (l : layout) : bool :=
  if self_overlaps l then false
  else zmax_list (all_values l) =? Z.of_nat (length (all_values l)) - 1.

(* ---- get_affine_map, as the function it evaluates to --------------------------- *)
(* prod([stride.bound for stride in strides if stride.bound]) *)
Definition tbound (s : stride) : Z := match sbound s with Some b => if b =? 0 then 1 else b | None => 1 end.
Definition bounds_prod (t : tstride) : Z := zprod (map tbound t).

(* contribution of the strides at depth > 0: step * ((x mod prod(bounds[depth:])) / prod(bounds[depth+1:])) *)
Fixpoint inner_addr (t : tstride) (x : Z) : Z :=
  match t with
  | [] => 0
  | s :: rest =>
      fst (static_of s) * ((x mod bounds_prod t) / bounds_prod rest) + inner_addr rest x
  end.
(* depth 0 has no modulo *)
Definition dim_addr (t : tstride) (x : Z) : Z :=
  match t with
  | [] => 0
  | s :: rest => fst (static_of s) * (x / bounds_prod rest) + inner_addr rest x
  end.
Fixpoint affine_addr (ts : list tstride) (idx : list Z) : Z :=
  match ts, idx with
  | t :: ts', x :: idx' => dim_addr t x + affine_addr ts' idx'
  | _, _ => 0
  end.
Definition affine_map_eval (l : layout) (idx : list Z) : Z := affine_addr (tstrides l) idx.

(* row-major enumeration of a box *)
Fixpoint row_major (shape : list Z) : list (list Z) :=
  match shape with
  | [] => [[]]
  | n :: rest => flat_map (fun i => map (cons i) (row_major rest)) (zrange n)
  end.
Definition shape_of (l : layout) : list Z := map bounds_prod (tstrides l).

(* ---- largest_common_contiguous_block -------------------------------------------- *)
(* entries are (dim, depth, stride) *)
Definition entry : Type := (nat * nat * stride)%type.
Fixpoint enum_from {A} (n : nat) (l : list A) : list (nat * A) :=
  match l with [] => [] | x :: xs => (n, x) :: enum_from (S n) xs end.
Definition entries (l : layout) : list entry :=
  flat_map (fun dt => map (fun ds => (fst dt, fst ds, snd ds)) (enum_from 0 (snd dt)))
           (enum_from 0 (tstrides l)).
Definition entry_eqb (a b : entry) : bool :=
  Nat.eqb (fst (fst a)) (fst (fst b)) && Nat.eqb (snd (fst a)) (snd (fst b)) && stride_eqb (snd a) (snd b).

(* sorted(self_strides, key=bound is None) is stable: static-bound entries first *)
Definition static_first (es : list entry) : list entry :=
  filter (fun e => match sbound (snd e) with Some _ => true | None => false end) es ++
  filter (fun e => match sbound (snd e) with Some _ => false | None => true end) es.

Fixpoint remove_first (e : entry) (es : list entry) : list entry :=
  match es with
  | [] => []
  | x :: xs => if entry_eqb x e then xs else x :: remove_first e xs
  end.

Definition get_stride (l : layout) (dim depth : nat) : option stride :=
  match nth_error (tstrides l) dim with
  | Some t => nth_error t depth
  | None => None
  end.

(* the while loop, on fuel = number of entries + 1; returns the accumulated result *)
Fixpoint lccb_loop (fuel : nat) (other : layout) (es : list entry) (cur : option Z) (acc : list stride)
  : list stride :=
  match fuel with
  | O => acc
  | S fuel' =>
      match find (fun e => optZ_eqb (sstep (snd e)) cur) (static_first es) with
      | None => acc
      | Some e =>
          let es' := remove_first e es in
          match get_stride other (fst (fst e)) (snd (fst e)) with
          | Some so =>
              if stride_eqb (snd e) so
              then lccb_loop fuel' other es'
                     (match snd e with (Some a, Some b) => Some (a * b) | _ => None end)
                     (acc ++ [snd e])
              else acc
          | None => acc (* Python raises IndexError; excluded by equal_tile_bounds *)
          end
      end
  end.

Definition lccb (a b : layout) (start : Z) : list stride :=
  let es := entries a in
  match lccb_loop (S (length es)) b es (Some start) [] with
  | [] => [(Some start, Some 1)]
  | r => r
  end.
