(* C13 — model of snaxc/transforms/insert_sync_barrier.py (InsertSyncBarrier.apply).

   The pass walks the whole module in pre-order (`op.walk()`), keeping a list `ops_to_sync`:
     * if the current op is in the list: insert a snax.cluster_sync_op before it, clear the list
     * if the current op is a cluster_sync_op: clear the list
     * for every operand and result v of the current op X and every use of v by an op U:
         DM(X) and not DM(U)            -> append U, and if X and U have the same parent op and
                                            that parent is an scf.for: append the for's scf.yield
         Compute(X) and not Compute(U)  -> the same
         U is a memref.dealloc          -> append U
   The module is represented by its pre-order list of ops ([opinfo]) carrying SSA value ids and
   the parent op; a sync op inserted before op y becomes a direct child of y's parent.  *)
From Snax Require Import Base.Prelude Base.ListAux Model.MultiCore.

Inductive bkind := BDM | BCompute | BOther | BSync | BDealloc.

Record opinfo := mkInfo {
  oi_id : Z;
  oi_kind : bkind;
  oi_operands : list Z;     (* SSA value ids *)
  oi_results : list Z;
  oi_parent : Z;            (* id of the op owning the region that holds this op *)
  oi_pfor : bool;           (* that parent is an scf.for ... *)
  oi_pyield : Z             (* ... whose body ends with the scf.yield of this id *)
}.

Definition is_dm (x : opinfo) : bool := match oi_kind x with BDM => true | _ => false end.
Definition is_compute (x : opinfo) : bool := match oi_kind x with BCompute => true | _ => false end.
Definition is_sync (x : opinfo) : bool := match oi_kind x with BSync => true | _ => false end.
Definition is_dealloc (x : opinfo) : bool := match oi_kind x with BDealloc => true | _ => false end.

Definition users (all : list opinfo) (v : Z) : list opinfo := filter (fun u => memb v (oi_operands u)) all.

Definition same_parent_for (x u : opinfo) : bool := (oi_parent x =? oi_parent u) && oi_pfor x.

(* what one use (by op u) of a value of op x appends to ops_to_sync *)
Definition contrib (x u : opinfo) : list Z :=
  (if is_dm x && negb (is_dm u) then oi_id u :: (if same_parent_for x u then [oi_pyield x] else []) else []) ++
  (if is_compute x && negb (is_compute u) then oi_id u :: (if same_parent_for x u then [oi_pyield x] else []) else []) ++
  (if is_dealloc u then [oi_id u] else []).

Definition adds (all : list opinfo) (x : opinfo) : list Z :=
  flat_map (fun v => flat_map (contrib x) (users all v)) (oi_operands x ++ oi_results x).

(* state: (ops_to_sync, ids of the ops a barrier was inserted before) *)
Definition wstep (all : list opinfo) (st : list Z * list Z) (x : opinfo) : list Z * list Z :=
  let '(pend, bars) := st in
  let hit := memb (oi_id x) pend in
  let pend1 := if hit then [] else pend in
  let bars1 := if hit then oi_id x :: bars else bars in
  let pend2 := if is_sync x then [] else pend1 in
  (pend2 ++ adds all x, bars1).

Definition walk_from (all : list opinfo) (st : list Z * list Z) (l : list opinfo) : list Z * list Z :=
  fold_left (wstep all) l st.

Definition barriers (flat : list opinfo) : list Z := snd (walk_from flat ([], []) flat).

(* the output module, in pre-order *)
Definition sync_before (y : opinfo) : opinfo :=
  mkInfo (oi_id y + 1000000) BSync [] [] (oi_parent y) (oi_pfor y) (oi_pyield y).

Definition insert_syncs (bars : list Z) (flat : list opinfo) : list opinfo :=
  flat_map (fun y => if memb (oi_id y) bars then [sync_before y; y] else [y]) flat.

Definition run_pass (flat : list opinfo) : list opinfo := insert_syncs (barriers flat) flat.

(* ---- what must be separated ---------------------------------------------------------------- *)
(* op x (on one specific core) shares an SSA value with op u that is not on that core *)
Definition shares (x u : opinfo) : bool :=
  existsb (fun v => memb v (oi_operands u)) (oi_operands x ++ oi_results x).
Definition cross_core (x u : opinfo) : bool :=
  (is_dm x && negb (is_dm u)) || (is_compute x && negb (is_compute u)).
Definition must_sync (x u : opinfo) : bool := cross_core x u && shares x u.

(* all ops of a segment are direct children of the block with parent id p *)
Definition same_block_segment (p : Z) (seg : list opinfo) : bool :=
  forallb (fun y => oi_parent y =? p) seg.

(* an op that can never be put on the pending list and is no barrier: the ops inside the body of a
   linalg.generic / streaming region (they only use block arguments and each other) *)
Definition inert (flat : list opinfo) (y : opinfo) : bool :=
  negb (is_sync y) && forallb (fun x => negb (memb (oi_id y) (adds flat x))) flat.

(* a straight-line segment of the block with parent id p: every op is a direct child of the block
   or inert (nested in the body of a non-control op) *)
Definition seg_ok (flat : list opinfo) (p : Z) (seg : list opinfo) : bool :=
  forallb (fun y => (oi_parent y =? p) || inert flat y) seg.

(* ---- finding classes (classifier of a racing pair found by L2; decidable on the input) ------- *)
(* ops strictly between the first a and the next b after it (nothing when b does not follow a) *)
Fixpoint upto (b : Z) (r : list opinfo) : option (list opinfo) :=
  match r with
  | [] => None
  | z :: r' => if oi_id z =? b then Some [] else option_map (cons z) (upto b r')
  end.
Fixpoint between (a b : Z) (l : list opinfo) : list opinfo :=
  match l with
  | [] => []
  | y :: r => if oi_id y =? a then match upto b r with Some seg => seg | None => [] end
              else between a b r
  end.

Definition find_op (i : Z) (l : list opinfo) : option opinfo := find (fun y => oi_id y =? i) l.

(* 1 alias_via_view: no common SSA value (the conflict comes through a view / cast)
   2 cross_level: common value but different parent blocks, or the same block (not a loop body)
                  reached again around the back-edge of an enclosing loop
   3 ctl_between: same block, but an op with a region lies between them (its inner ops have
                  another parent): a barrier there is not on every path / clears the list
   0 inside the proved class *)
Definition classify_pair (flat : list opinfo) (same_iter : bool) (a b : Z) : Z :=
  match find_op a flat, find_op b flat with
  | Some x, Some u =>
      if negb (shares x u || shares u x) then 1
      else if negb (oi_parent x =? oi_parent u) then 2
      else if same_iter then
        (* both instances belong to one execution of the block: the forward path *)
        if seg_ok flat (oi_parent x) (between a b flat) && seg_ok flat (oi_parent x) (between b a flat) then 0 else 3
      else
        (* instances of different iterations of an enclosing loop: the path leaves the block.  Only a
           loop body that is the block itself is covered (barrier before its yield); a block nested in
           a loop through an scf.if has no barrier on the enclosing back-edge *)
        if oi_pfor x then
          (if seg_ok flat (oi_parent x) (between (oi_parent x) (oi_pyield x) flat) then 0 else 3)
        else 2
  | _, _ => 1
  end.

(* a dealloc d is guaranteed a barrier by the dealloc clause when some op before it shares an SSA
   value with it and no barrier (existing, or inserted: [bars] = ids of the ops the real pass put
   a barrier before) lies between that op and d in walk order: nothing cleared the pending list.
   A race with such a dealloc is not excused by any class. *)
Fixpoint prefix_before (d : Z) (l : list opinfo) : list opinfo :=
  match l with
  | [] => []
  | y :: r => if oi_id y =? d then [] else y :: prefix_before d r
  end.
Definition dealloc_guaranteed (flat : list opinfo) (bars : list Z) (d : opinfo) : bool :=
  is_dealloc d && negb (memb (oi_id d) bars) &&
  existsb (fun s => shares s d &&
                    negb (existsb (fun y => is_sync y || memb (oi_id y) bars) (between (oi_id s) (oi_id d) flat)))
          (prefix_before (oi_id d) flat).

Definition classify_pair2 (flat : list opinfo) (bars : list Z) (same_iter : bool) (a b : Z) : Z :=
  match find_op a flat, find_op b flat with
  | Some x, Some u =>
      if (dealloc_guaranteed flat bars x || dealloc_guaranteed flat bars u) && same_iter then 0
      else classify_pair flat same_iter a b
  | _, _ => classify_pair flat same_iter a b
  end.

(* ---- executable tree semantics for the race detector (L2) ------------------------------------ *)
Inductive rstmt :=
| RLeaf (id : Z) (core : Z) (bar : bool) (reads writes : list Z)   (* core -1: executed by all cores *)
| RFor (id : Z) (body : list rstmt)
| RIf (id : Z) (th el : list rstmt).

Record roracle := mkROracle { rtrip : Z -> list nat -> nat; rcond : Z -> list nat -> bool }.

Fixpoint rrun (o : roracle) (s : rstmt) (ctx : list nat) {struct s} : list instr :=
  let fix rrunl (l : list rstmt) (ctx : list nat) {struct l} : list instr :=
    match l with
    | [] => []
    | x :: r => rrun o x ctx ++ rrunl r ctx
    end in
  match s with
  | RLeaf id core bar rd wr => if bar then [None] else [Some (mkOp (id :: map Z.of_nat ctx) core rd wr)]
  | RFor id b => flat_map (fun i => rrunl b (i :: ctx)) (seq 0 (rtrip o id ctx))
  | RIf id t e => if rcond o id ctx then rrunl t ctx else rrunl e ctx
  end.

Fixpoint rrunl (o : roracle) (l : list rstmt) (ctx : list nat) {struct l} : list instr :=
  match l with
  | [] => []
  | x :: r => rrun o x ctx ++ rrunl o r ctx
  end.

(* split an instruction stream at the barriers *)
Fixpoint split_phases (cur : list mop) (l : list instr) : list (list mop) :=
  match l with
  | [] => [rev cur]
  | None :: r => rev cur :: split_phases [] r
  | Some o :: r => split_phases (o :: cur) r
  end.

(* ops executed by all cores only conflict with nothing (they touch no shared buffer); a pair
   races when it is on two different specific cores and conflicts *)
Definition specific (o : mop) : bool := 0 <=? o_core o.
Fixpoint phase_races (p : list mop) : list (mop * mop) :=
  match p with
  | [] => []
  | a :: r => map (fun b => (a, b)) (filter (fun b => negb (o_core a =? o_core b) && conflictb a b) r) ++ phase_races r
  end.
Definition all_races (l : list instr) : list (mop * mop) :=
  flat_map (fun p => phase_races (filter specific p)) (split_phases [] l).

Definition first_race (l : list instr) : option (mop * mop) :=
  (fix go (phs : list (list mop)) : option (mop * mop) :=
     match phs with
     | [] => None
     | p :: r => match phase_race (filter specific p) with Some x => Some x | None => go r end
     end) (split_phases [] l).
