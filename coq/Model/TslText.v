(* Token-level model (H) of TiledStridedLayout.__str__ / TiledStride.__str__ and of
   snaxc/parser/tsl_parser.py.  Lexing (xDSL's MLIR lexer) is trusted; tokens are compared in L1. *)
From Snax Require Import Base.Prelude Model.Tsl.

Inductive tok :=
| TLSq | TRSq | TLPar | TRPar | TArrow | TComma | TColon | TQuest | TOffset | TGreater
| TInt (z : Z).

Definition tok_eqb (a b : tok) : bool :=
  match a, b with
  | TLSq, TLSq | TRSq, TRSq | TLPar, TLPar | TRPar, TRPar | TArrow, TArrow | TComma, TComma
  | TColon, TColon | TQuest, TQuest | TOffset, TOffset | TGreater, TGreater => true
  | TInt x, TInt y => x =? y
  | _, _ => false
  end.

(* `str(x) if x else "?"` : None and 0 both print as ? *)
Definition pr_opt (o : option Z) : tok :=
  match o with Some z => if z =? 0 then TQuest else TInt z | None => TQuest end.

(* ", ".join(items) followed by the closing bracket *)
Fixpoint print_items (closing : tok) (xs : list (option Z)) : list tok :=
  match xs with
  | [] => [closing]
  | [x] => [pr_opt x; closing]
  | x :: r => pr_opt x :: TComma :: print_items closing r
  end.

Definition print_ts (t : tstride) : list tok :=
  TLSq :: print_items TRSq (map sbound t) ++ TArrow :: TLPar :: print_items TRPar (map sstep t).

Fixpoint print_tss (ts : list tstride) : list tok :=
  match ts with
  | [] => []
  | [t] => print_ts t
  | t :: r => print_ts t ++ TComma :: print_tss r
  end.

Definition print_layout (l : layout) : list tok :=
  print_tss (tstrides l) ++
  match offset l with
  | Some z => if z =? 0 then [] else [TComma; TOffset; TColon; TInt z]
  | None => [TComma; TOffset; TColon; TQuest]
  end.

(* ---- parser ----------------------------------------------------------------------- *)
(* while not optional(closing): item = int_or_question; optional(comma) *)
Fixpoint parse_items (closing : tok) (toks : list tok) : option (list (option Z) * list tok) :=
  match toks with
  | [] => None
  | t :: rest =>
      if tok_eqb t closing then Some ([], rest)
      else
        let item := match t with TQuest => Some None | TInt z => Some (Some z) | _ => None end in
        match item with
        | None => None
        | Some v =>
            match (match rest with
                   | TComma :: r => parse_items closing r
                   | _ => parse_items closing rest
                   end) with
            | Some (vs, rest') => Some (v :: vs, rest')
            | None => None
            end
        end
  end.

Definition parse_ts (toks : list tok) : option (tstride * list tok) :=
  match toks with
  | TLSq :: r1 =>
      match parse_items TRSq r1 with
      | Some (bounds, TArrow :: TLPar :: r2) =>
          match parse_items TRPar r2 with
          | Some (steps, r3) =>
              if Nat.eqb (length steps) (length bounds) then Some (combine steps bounds, r3) else None
          | None => None
          end
      | _ => None
      end
  | _ => None
  end.

(* the `while True` loop of TSLParser.parse, on fuel; returns the layout (remaining tokens are
   handed back to xDSL's `in_angle_brackets`, which expects `>`). *)
Fixpoint parse_loop (fuel : nat) (toks : list tok) (acc : list tstride) : option (layout * list tok) :=
  match fuel with
  | O => None
  | S fuel' =>
      match toks with
      | TGreater :: _ => Some (mkLayout acc (Some 0), toks)
      | TOffset :: r =>
          match r with
          | TColon :: TInt z :: r' => Some (mkLayout acc (Some z), r')
          | _ => None
          end
      | _ =>
          match parse_ts toks with
          | Some (t, r) =>
              match r with
              | TComma :: r' => parse_loop fuel' r' (acc ++ [t])
              | _ => parse_loop fuel' r (acc ++ [t])
              end
          | None => None
          end
      end
  end.

(* TiledStridedLayoutAttr.parse_parameter: `<` tsl `>` — after TSLParser.parse the closing `>` must follow *)
Definition parse_layout (toks : list tok) : option layout :=
  match parse_loop (S (length toks)) toks [] with
  | Some (l, [TGreater]) => Some l
  | _ => None
  end.

(* what can be printed and read back: no zero step/bound (prints as ?), static offset *)
Definition opt_printable (o : option Z) : bool := match o with Some z => negb (z =? 0) | None => true end.
Definition printable (l : layout) : bool :=
  forallb (forallb (fun s : stride => opt_printable (sstep s) && opt_printable (sbound s))) (tstrides l)
  && match offset l with Some _ => true | None => false end.
