(* Hand model (H) of the dart scheduler data structures:
     snaxc/ir/dart/access_pattern.py   AccessPattern / SchedulePattern / TemplatePattern,
                                       PatternCollection / Schedule / Template
     snaxc/ir/dart/affine_transform.py the part of AffineTransform these classes use
     snaxc/ir/dart/scheduler.py        scheduler_backtrack, scheduler
   Executable definitions only; proofs live in Proofs/C03*Proofs.v.
   Tied to the code by the L1 correspondence of harness/props/c03.py.

   Representation.  An AffineTransform (A, b) is kept COLUMN-major: [pcols] is the list of
   the columns of A (one per iteration dimension, each of length len(b)), [pb] is b.  Every
   operation of the pattern classes is a column operation (A[:, idx]), so the dimension list
   and the bounds list are transformed by the same list function.  A[i][j] = nth i (nth j pcols) 0.
   Exceptions of the Python (ValueError / IndexError / ZeroDivisionError) are [None]. *)
From Snax Require Import Base.Prelude Base.ListAux.

Set Implicit Arguments.

(* ---- generic helpers ---------------------------------------------------------------- *)
Fixpoint mapM {A B} (f : A -> option B) (l : list A) : option (list B) :=
  match l with
  | [] => Some []
  | x :: xs => match f x, mapM f xs with
               | Some y, Some ys => Some (y :: ys)
               | _, _ => None
               end
  end.

(* Python l[a:b] for 0 <= a, 0 <= b *)
Definition slice {A} (a b : nat) (l : list A) : list A := firstn (b - a) (skipn a l).
(* Python l[-k:] for k >= 1 (the whole list when k >= len l) *)
Definition lastn {A} (k : nat) (l : list A) : list A := skipn (length l - k) l.

Definition option_eqb {A} (eqb : A -> A -> bool) (a b : option A) : bool :=
  match a, b with
  | Some x, Some y => eqb x y
  | None, None => true
  | _, _ => false
  end.

(* ---- patterns ----------------------------------------------------------------------- *)
(* B = Z for SchedulePattern (static positive bounds), option Z for TemplatePattern. *)
Record pat (B : Type) := mkPat { pbounds : list B; pcols : list (list Z); pb : list Z }.
Arguments mkPat {B} _ _ _.

Definition spat := pat Z.
Definition tpat := pat (option Z).
Definition sched := list spat.     (* Schedule: one SchedulePattern per operand *)
Definition tmpl := list tpat.      (* Template *)

Definition pat_eqb {B} (beq : B -> B -> bool) (p q : pat B) : bool :=
  list_eqb beq (pbounds p) (pbounds q)
  && list_eqb (list_eqb Z.eqb) (pcols p) (pcols q)
  && list_eqb Z.eqb (pb p) (pb q).
Definition spat_eqb := pat_eqb Z.eqb.
Definition tpat_eqb := pat_eqb optZ_eqb.
Definition sched_eqb := list_eqb spat_eqb.
Definition tmpl_eqb := list_eqb tpat_eqb.

(* AccessPattern.__init__: len(bounds) must equal pattern.num_dims *)
Definition mk_ap {B} (bs : list B) (cols : list (list Z)) (b : list Z) : option (pat B) :=
  if Nat.eqb (length bs) (length cols) then Some (mkPat bs cols b) else None.
(* SchedulePattern.__init__: additionally every bound > 0 *)
Definition mk_sp (bs : list Z) (cols : list (list Z)) (b : list Z) : option spat :=
  if forallb (fun x => 0 <? x) bs then mk_ap bs cols b else None.

(* num_dims of a pattern = len(bounds) *)
Definition pndims {B} (p : pat B) : nat := length (pbounds p).

(* AccessPattern.inner_dims(dim): ValueError when dim <= 0, else bounds[-dim:], A[:, -dim:] *)
Definition p_inner {B} (k : nat) (p : pat B) : option (pat B) :=
  if Nat.eqb k 0 then None
  else mk_ap (lastn k (pbounds p)) (lastn k (pcols p)) (pb p).

(* boolean-mask selection  l[mask(bs)] *)
Fixpoint maskf {A B} (keep : B -> bool) (bs : list B) (l : list A) : list A :=
  match bs, l with
  | b :: bs', x :: l' => if keep b then x :: maskf keep bs' l' else maskf keep bs' l'
  | _, _ => []
  end.

(* AccessPattern.canonicalize: drop the dims whose bound is not (None or > 1) *)
Definition keepZ (b : Z) : bool := 1 <? b.
Definition keepO (o : option Z) : bool := match o with None => true | Some b => 1 <? b end.
Definition p_canon {B} (keep : B -> bool) (p : pat B) : option (pat B) :=
  mk_ap (filter keep (pbounds p)) (maskf keep (pbounds p) (pcols p)) (pb p).

(* SchedulePattern.rotate(dim):
     new_bounds = bounds[1:dim] + bounds[:1] + bounds[dim:]
     new_a      = A[:, [*range(1, dim), 0, *range(dim, num_dims)]]
   The fancy index raises IndexError when num_dims = 0 or dim > num_dims. *)
Definition rot_list {A} (d : nat) (l : list A) : list A := slice 1 d l ++ firstn 1 l ++ skipn d l.
Definition p_rotate (d : nat) (p : spat) : option spat :=
  let n := length (pcols p) in
  if Nat.eqb n 0 || Nat.ltb n d then None
  else mk_sp (rot_list d (pbounds p)) (rot_list d (pcols p)) (pb p).

(* SchedulePattern.tile_dim(dim, t): compose with
     (d0..d_{dim-1}, t*d_dim + d_{dim+1}, d_{dim+2}, ...)
   i.e. column dim becomes the two columns (t*c, c); bounds (.., b // t, t, ..).
   dim >= num_dims, t = 0 (ZeroDivisionError), or a non-positive new bound raise. *)
Definition p_tile (d : nat) (t : Z) (p : spat) : option spat :=
  match nth_error (pcols p) d, nth_error (pbounds p) d with
  | Some c, Some bd =>
      if t =? 0 then None
      else mk_sp (firstn d (pbounds p) ++ [bd / t; t] ++ skipn (S d) (pbounds p))
                 (firstn d (pcols p) ++ [map (Z.mul t) c; c] ++ skipn (S d) (pcols p))
                 (pb p)
  | _, _ => None
  end.

(* SchedulePattern.add_dim(): a new outermost dim with bound 1 and a zero column *)
Definition p_add_dim (p : spat) : option spat :=
  mk_sp (1 :: pbounds p) (repeat 0 (length (pb p)) :: pcols p) (pb p).

(* ---- collections -------------------------------------------------------------------- *)
Definition c_inner {B} (k : nat) (c : list (pat B)) : option (list (pat B)) := mapM (p_inner k) c.
Definition c_canon {B} (keep : B -> bool) (c : list (pat B)) : option (list (pat B)) :=
  mapM (p_canon keep) c.

Definition s_rotate (d : nat) (s : sched) : option sched := mapM (p_rotate d) s.
Definition s_tile (d : nat) (t : Z) (s : sched) : option sched := mapM (p_tile d t) s.
Definition s_add_dim (s : sched) : option sched := mapM p_add_dim s.
Definition s_inner (k : nat) (s : sched) : option sched := c_inner k s.
Definition t_inner (k : nat) (T : tmpl) : option tmpl := c_inner k T.
Definition s_canon (s : sched) : option sched := c_canon keepZ s.
Definition t_canon (T : tmpl) : option tmpl := c_canon keepO T.

(* PatternCollection.clear_unused_dims(bounds=None):
     pattern_bounds = bounds or self[0].bounds
     used_dims = [i | bound_i != 1];   A[:, used_dims]  (IndexError if an index is too big)
     every new pattern gets the filtered pattern_bounds. *)
Fixpoint used_from {B} (ne1 : B -> bool) (i : nat) (bs : list B) : list nat :=
  match bs with
  | [] => []
  | b :: r => if ne1 b then i :: used_from ne1 (S i) r else used_from ne1 (S i) r
  end.
Definition ne1Z (b : Z) : bool := negb (b =? 1).
Definition ne1O (o : option Z) : bool := match o with None => true | Some b => negb (b =? 1) end.

Definition c_clear {B} (ne1 : B -> bool) (mk : list B -> list (list Z) -> list Z -> option (pat B))
  (custom : option (list B)) (c : list (pat B)) : option (list (pat B)) :=
  match c with
  | [] => None
  | p0 :: _ =>
      let pbnds := match custom with None => pbounds p0 | Some b => b end in
      let used := used_from ne1 0 pbnds in
      mapM (fun sp => match mapM (nth_error (pcols sp)) used with
                      | Some cols => mk (filter ne1 pbnds) cols (pb sp)
                      | None => None
                      end) c
  end.
Definition s_clear (custom : option (list Z)) (s : sched) : option sched := c_clear ne1Z mk_sp custom s.
Definition t_clear (custom : option (list (option Z))) (T : tmpl) : option tmpl :=
  c_clear ne1O (@mk_ap (option Z)) custom T.

(* PatternCollection.num_dims = self[0].num_dims (IndexError on an empty collection) *)
Definition c_ndims {B} (c : list (pat B)) : option nat :=
  match c with [] => None | p :: _ => Some (pndims p) end.

(* ---- the iteration space and its image ---------------------------------------------- *)
(* all points of the box, lexicographic (outermost dimension first) *)
Fixpoint points (bs : list Z) : list (list Z) :=
  match bs with
  | [] => [[]]
  | b :: r => flat_map (fun i => map (cons i) (points r)) (zrange b)
  end.

(* sum_j x_j * A[i][j] *)
Fixpoint dotc (i : nat) (cols : list (list Z)) (x : list Z) : Z :=
  match cols, x with
  | c :: cs, v :: xs => v * nth i c 0 + dotc i cs xs
  | _, _ => 0
  end.
(* A.x + b *)
Definition papply {B} (p : pat B) (x : list Z) : list Z :=
  map (fun i => nth i (pb p) 0 + dotc i (pcols p) x) (seq 0 (length (pb p))).

Definition sbounds (s : sched) : list Z := match s with [] => [] | p :: _ => pbounds p end.
(* tuple of operand indices at iteration point x *)
Definition tuple_at (s : sched) (x : list Z) : list (list Z) := map (fun p => papply p x) s.
Definition image (s : sched) : list (list (list Z)) := map (tuple_at s) (points (sbounds s)).

(* class invariant of a Schedule as the pass builds it: every operand has the same positive
   bounds and as many columns as bounds *)
Definition wf_patb (bs : list Z) (p : spat) : bool :=
  list_eqb Z.eqb (pbounds p) bs && Nat.eqb (length (pcols p)) (length bs).
Definition wf_schedb (s : sched) : bool :=
  forallb (fun x => 0 <? x) (sbounds s) && forallb (wf_patb (sbounds s)) s.

(* ---- scheduler_backtrack ------------------------------------------------------------ *)
(* A generator run: the schedules yielded so far, and whether it ended by raising. *)
Definition res : Type := (list sched * bool)%type.
Definition rerr : res := ([], true).
Definition rapp (a b : res) : res := if snd a then a else (fst a ++ fst b, snd b).

Section Backtrack.
  (* Template.matches(schedule) and the extra checks, applied to
     (template.inner_dims(k), schedule.inner_dims(k)) *)
  Variable matcher : tmpl -> sched -> bool.
  Variable checks : list (tmpl -> sched -> bool).

  (* template[0].bounds[-k] if k <= template.num_dims else None ; None of the outer option = raise *)
  Definition template_bound (T : tmpl) (k : nat) : option (option Z) :=
    match T with
    | [] => None
    | tp :: _ =>
        if Nat.leb k (pndims tp)
        then nth_error (pbounds tp) (pndims tp - k)
        else Some None
    end.
  (* schedule[0].bounds[-k] *)
  Definition schedule_bound (s : sched) (k : nat) : option Z :=
    match s with
    | [] => None
    | p :: _ => if Nat.leb k (pndims p) && negb (Nat.eqb k 0) then nth_error (pbounds p) (pndims p - k) else None
    end.

  (* one pass of `for _ in range(n - k + 1)` with the loop-carried variable `schedule`;
     [rec c] is the recursive call scheduler_backtrack(template, c, k + 1, checks) *)
  Fixpoint bt_loop (rec : sched -> res) (T : tmpl) (k : nat) (i : nat) (s : sched) : res :=
    match i with
    | O => ([], false)
    | S i' =>
        match c_ndims s with
        | None => rerr
        | Some n =>
            match s_rotate (n + 1 - k) s with
            | None => rerr
            | Some s1 =>
                match s_inner k s1, t_inner k T with
                | Some sc, Some tc =>
                    if negb (matcher tc sc) then bt_loop rec T k i' s1
                    else if negb (forallb (fun c => c tc sc) checks) then bt_loop rec T k i' s1
                    else
                      match template_bound T k, schedule_bound s1 k with
                      | Some tb, Some sb =>
                          if truthy tb then
                            let t := match tb with Some t => t | None => 0 end in
                            if sb <=? t then rapp (rec s1) (bt_loop rec T k i' s1)
                            else if negb (sb mod t =? 0) then bt_loop rec T k i' s1
                            else match s_tile (n - k) t s1 with
                                 | Some c => rapp (rec c) (bt_loop rec T k i' s1)
                                 | None => rerr
                                 end
                          else rapp (rec s1) (bt_loop rec T k i' s1)
                      | _, _ => rerr
                      end
                | _, _ => rerr
                end
            end
        end
    end.

  (* scheduler_backtrack(template, schedule, inner_dims = k, extra_checks) on fuel *)
  Fixpoint bt (fuel : nat) (T : tmpl) (s : sched) (k : nat) : res :=
    match fuel with
    | O => rerr
    | S f =>
        match c_ndims s with
        | None => rerr
        | Some n =>
            rapp ((if Nat.ltb n k then [s] else []), false)
                 (bt_loop (fun c => bt f T c (S k)) T k (n + 1 - k) s)
        end
    end.

  (* enough fuel: every recursive call either uses up a schedule dim or a template dim *)
  Definition bt_fuel (T : tmpl) (s : sched) : nat :=
    match c_ndims s, c_ndims T with
    | Some n, Some m => n + m + 2
    | Some n, None => n + 2
    | _, _ => 1
    end.

  Definition backtrack (T : tmpl) (s : sched) : res := bt (bt_fuel T s) T s 1.

  (* scheduler(template, schedule, extra_checks, schedule_idx):
       idx given  -> list(generator)[idx]   (any raise, or index out of range -> None)
       idx absent -> next(generator)        (first yield; raise/StopIteration -> None) *)
  Definition nth_py {A} (i : Z) (l : list A) : option A :=
    let n := Z.of_nat (length l) in
    if (0 <=? i) && (i <? n) then nth_error l (Z.to_nat i)
    else if (i <? 0) && (0 <=? n + i) then nth_error l (Z.to_nat (n + i))
    else None.
  Definition scheduler (T : tmpl) (s : sched) (idx : option Z) : option sched :=
    let r := backtrack T s in
    match idx with
    | Some i => if snd r then None else nth_py i (fst r)
    | None => match fst r with x :: _ => Some x | [] => None end
    end.
End Backtrack.
