(* C02 — hand model (H) of the xDMA set_stride_patterns customisations
   (snaxc/accelerators/snax_xdma.py: the first streamer extension whose kernel matches decides;
    snaxc/accelerators/streamers/extensions/*.py).
   Only AddExtension overrides the default: it streams ONLY input 0, with an extra innermost temporal
   dimension (bound 2, stride 512 bytes) in front, and keeps the output pattern; input 1's pointer and
   pattern are dropped (the second addend is assumed to live 512 bytes after the first).
   Every other extension (maxpool, memset, rescale down/up, transpose) returns the patterns unchanged. *)
From Snax Require Import Base.Prelude Base.ListAux Model.C02Stream Model.C02Gemmx.

Inductive xkind := XAdd | XDefault.

Definition XADD_STRIDE : Z := 512.

Definition xadd_pattern (p : spattern) : spattern :=
  mkSP (2 :: sp_ub p) (XADD_STRIDE :: sp_ts p) (sp_ss p).

(* new_inputs = [op.inputs[0]]; new_outputs = op.outputs; patterns = [new, snax_stride_patterns[-1]]
   (snax_stride_patterns[0] raises IndexError on an empty list) *)
Definition xdma_customise (k : xkind) (ps : list spattern) : option (list (spattern * src)) :=
  match k with
  | XDefault => Some (map (fun ip => (snd ip, SOp (fst ip))) (combine (seq 0 (List.length ps)) ps))
  | XAdd =>
      match ps with
      | [] => None
      | p0 :: _ => Some [(xadd_pattern p0, SOp 0); (last ps p0, SOp (List.length ps - 1))]
      end
  end.

(* the words of one temporal step (all ports), relative to the step's offset *)
Definition step_words (p : spattern) (spats : list Z) : list Z := nest (combine (sp_ss p) spats).
(* the temporal offsets, in issue order *)
Definition step_offsets (p : spattern) : list Z := nest (combine (sp_ts p) (sp_ub p)).

(* Safe class of the add extension: operand 1 is streamed like operand 0, 512 bytes further *)
Definition xadd_adjacentb (base0 base1 : Z) (p0 p1 : spattern) : bool :=
  (base1 =? base0 + XADD_STRIDE) && list_eqb Z.eqb (sp_ub p0) (sp_ub p1) && list_eqb Z.eqb (sp_ts p0) (sp_ts p1)
  && list_eqb Z.eqb (sp_ss p0) (sp_ss p1).
