(* C13 — structured input programs (any nesting of scf.for / scf.if) with SSA information, their
   pre-order op list (what InsertSyncBarrier walks) and the program tree of the pass output.
   A node carries what the pass looks at; parent / loop information of the pre-order list is
   derived from the position in the tree. *)
From Snax Require Import Base.Prelude Base.ListAux Model.MultiCore Model.C13SyncBarrier Model.C13Paths.

Record onode := mkN { n_id : Z; n_kind : bkind; n_ops : list Z; n_res : list Z }.

Definition mk (par : Z) (pf : bool) (py : Z) (n : onode) : opinfo :=
  mkInfo (n_id n) (n_kind n) (n_ops n) (n_res n) par pf py.

Definition imap (inner : list (Z * onode)) : list opinfo := map (fun pi => mk (fst pi) false 0 (snd pi)) inner.

Inductive cstmt :=
| CLeaf (n : onode) (inner : list (Z * onode))    (* an op and the ops nested in its regions (pre-order, each with
                                                     the id of its parent op) *)
| CFor (n : onode) (body : list cstmt) (y : onode) (* scf.for, its body, its scf.yield *)
| CIf (n : onode) (th el : list cstmt).

(* pre-order list of the ops of a block whose parent op is [par] *)
Fixpoint flat1 (par : Z) (pf : bool) (py : Z) (s : cstmt) : list opinfo :=
  let fix fl (par : Z) (pf : bool) (py : Z) (l : list cstmt) {struct l} : list opinfo :=
    match l with [] => [] | x :: r => flat1 par pf py x ++ fl par pf py r end in
  match s with
  | CLeaf n inner => mk par pf py n :: imap inner
  | CFor n b y => mk par pf py n :: fl (n_id n) true (n_id y) b ++ [mk (n_id n) true (n_id y) y]
  | CIf n t e => mk par pf py n :: fl (n_id n) false 0 t ++ fl (n_id n) false 0 e
  end.
Fixpoint flatl (par : Z) (pf : bool) (py : Z) (l : list cstmt) {struct l} : list opinfo :=
  match l with [] => [] | x :: r => flat1 par pf py x ++ flatl par pf py r end.

(* the tree of the pass output: a barrier leaf before every op whose id is in [bars] (before the
   scf.yield: at the end of the loop body); body ops of leaves are not ops of the tree *)
Definition sync_leaf (id : Z) : rstmt := RLeaf (id + 1000000) (-1) true [] [].
Definition msync (bars : list Z) (id : Z) : list rstmt := if memb id bars then [sync_leaf id] else [].
Definition nleaf (n : onode) : rstmt := leaf_of (mk 0 false 0 n).

Fixpoint out1 (bars : list Z) (s : cstmt) : list rstmt :=
  let fix ol (l : list cstmt) : list rstmt := match l with [] => [] | x :: r => out1 bars x ++ ol r end in
  match s with
  | CLeaf n _ => msync bars (n_id n) ++ [nleaf n]
  | CFor n b y => msync bars (n_id n) ++ [RFor (n_id n) (ol b ++ msync bars (n_id y))]
  | CIf n t e => msync bars (n_id n) ++ [RIf (n_id n) (ol t) (ol e)]
  end.
Fixpoint outl (bars : list Z) (l : list cstmt) : list rstmt :=
  match l with [] => [] | x :: r => out1 bars x ++ outl bars r end.

(* ---- the SameLevel class, per ordered pair (X, U) of op ids ------------------------------------------
   Wherever an op with id X occurs (at any depth), as a child of block B:
     forward: the following siblings are plain ops up to an op with id U that must be synchronised
              with it, or
     to-yield: B is the body of an scf.for, all following siblings are plain ops, and some plain op
              of B with id U must be synchronised with it (the back-edge case), or
     (outermost block only) U does not occur behind it at all.
   Body ops of plain ops must be inert (never put on the pending list, no barriers). *)
Definition must_sync_n (n u : onode) : bool := must_sync (mk 0 false 0 n) (mk 0 false 0 u).

Fixpoint fwd (U : Z) (r : list cstmt) : option onode :=
  match r with
  | CLeaf n _ :: r' => if n_id n =? U then Some n else fwd U r'
  | _ => None
  end.
Definition all_leaves (l : list cstmt) : bool :=
  forallb (fun s => match s with CLeaf _ _ => true | _ => false end) l.
Definition leaf_nodes (l : list cstmt) : list onode :=
  flat_map (fun s => match s with CLeaf n _ => [n] | _ => [] end) l.

Definition inner_inert (flat : list opinfo) (n : onode) (inner : list (Z * onode)) : bool :=
  forallb (inert flat) (imap inner).

Definition occ (U : Z) (fb : bool) (whole : list cstmt) (n : onode) (r : list cstmt) : bool :=
  match fwd U r with
  | Some u => must_sync_n n u
  | None => fb && all_leaves r && existsb (fun u => (n_id u =? U) && must_sync_n n u) (leaf_nodes whole)
  end.

Fixpoint cls1 (flat : list opinfo) (X U : Z) (s : cstmt) : bool :=
  let fix go (fb : bool) (whole l : list cstmt) {struct l} : bool :=
    match l with
    | [] => true
    | CLeaf n inner :: r =>
        inner_inert flat n inner && (if n_id n =? X then occ U fb whole n r else true) && go fb whole r
    | s' :: r => cls1 flat X U s' && go fb whole r
    end in
  match s with
  | CLeaf _ _ => true
  | CFor _ b _ => go true b b
  | CIf _ t e => go false t t && go false e e
  end.
Fixpoint clsl (flat : list opinfo) (X U : Z) (fb : bool) (whole l : list cstmt) {struct l} : bool :=
  match l with
  | [] => true
  | CLeaf n inner :: r =>
      inner_inert flat n inner && (if n_id n =? X then occ U fb whole n r else true) && clsl flat X U fb whole r
  | s' :: r => cls1 flat X U s' && clsl flat X U fb whole r
  end.

Fixpoint mentionsC (U : Z) (s : cstmt) : bool :=
  let fix ml (l : list cstmt) : bool := match l with [] => false | x :: r => mentionsC U x || ml r end in
  match s with
  | CLeaf n _ => n_id n =? U
  | CFor _ b _ => ml b
  | CIf _ t e => ml t || ml e
  end.
Definition mentionsCl (U : Z) (l : list cstmt) : bool := existsb (mentionsC U) l.

Fixpoint clsl_top (flat : list opinfo) (X U : Z) (l : list cstmt) {struct l} : bool :=
  match l with
  | [] => true
  | CLeaf n inner :: r =>
      inner_inert flat n inner &&
      (if n_id n =? X then match fwd U r with Some u => must_sync_n n u | None => negb (mentionsCl U r) end else true) &&
      clsl_top flat X U r
  | s' :: r => cls1 flat X U s' && clsl_top flat X U r
  end.

(* the whole program is in the class: every pair of leaves of the output tree on different specific
   cores with conflicting footprints is a SameLevel pair (in that order) *)
Definition sl_program (p0 : Z) (T : list cstmt) : bool :=
  let flat := flatl p0 false 0 T in
  let prog := outl (barriers flat) T in
  forallb (fun a => forallb (fun b =>
     negb (static_conflict a b) || clsl_top flat (fst (fst (fst a))) (fst (fst (fst b))) T)
     (leavesl prog)) (leavesl prog).

(* ---- comparisons used by the correspondence check (L1) --------------------------------------------------- *)
Definition bkind_eqb (a b : bkind) : bool :=
  match a, b with
  | BDM, BDM | BCompute, BCompute | BOther, BOther | BSync, BSync | BDealloc, BDealloc => true
  | _, _ => false
  end.
Definition opinfo_eqb (a b : opinfo) : bool :=
  (oi_id a =? oi_id b) && bkind_eqb (oi_kind a) (oi_kind b) &&
  list_eqb Z.eqb (oi_operands a) (oi_operands b) && list_eqb Z.eqb (oi_results a) (oi_results b) &&
  (oi_parent a =? oi_parent b) && Bool.eqb (oi_pfor a) (oi_pfor b) && (oi_pyield a =? oi_pyield b).

(* same nesting, same ops in the same order, barriers at the same places (ids of barriers, cores
   and footprints are not compared) *)
Fixpoint rshape_eqb (a b : rstmt) : bool :=
  let fix leq (l1 l2 : list rstmt) {struct l1} : bool :=
    match l1, l2 with
    | [], [] => true
    | x :: r, y :: r' => rshape_eqb x y && leq r r'
    | _, _ => false
    end in
  match a, b with
  | RLeaf i _ bi _ _, RLeaf j _ bj _ _ => Bool.eqb bi bj && (bi || (i =? j))
  | RFor i x, RFor j y => (i =? j) && leq x y
  | RIf i t e, RIf j t' e' => (i =? j) && leq t t' && leq e e'
  | _, _ => false
  end.
Definition rshapel_eqb (l1 l2 : list rstmt) : bool := list_eqb rshape_eqb l1 l2.
