(* C11 — hand model (H) of
     snaxc/transforms/snax_allocate.py : StaticAllocs (bump arithmetic, alignment, capacity check)
     snaxc/transforms/memref_to_snax.py : AllocOpRewrite size formula (no layout / TSL, static)
   Executable definitions only; proofs in Proofs/C11AllocProofs.v.
   Tied to the code by the L1 correspondence of harness/props/c11.py. *)
From Snax Require Import Base.Prelude Model.Tsl.

(* ---- StaticAllocs ------------------------------------------------------------- *)
(* a request is (size, alignment); `alignment_attr is None` is alignment 0 *)
Definition req : Type := (Z * Z)%type.
Definition rsize (r : req) : Z := fst r.
Definition ralign (r : req) : Z := snd r.

Inductive aerr := ErrFull | ErrZeroDiv.          (* RuntimeError("... is full") | ZeroDivisionError *)
Inductive ares (A : Type) := AOk (a : A) | AErr (e : aerr).
Arguments AOk {A} a.
Arguments AErr {A} e.

(*  if current_address % alignment != 0:
        current_address += alignment - (current_address % alignment)          *)
Definition align_up (cur al : Z) : Z :=
  if cur mod al =? 0 then cur else cur + (al - cur mod al).

(* one match_and_rewrite on a snax.alloc of memory (start, capacity) with bump pointer `cur`:
   returns (address, new bump pointer) *)
Definition static_step (start cap cur : Z) (r : req) : ares (Z * Z) :=
  if ralign r =? 0 then AErr ErrZeroDiv
  else
    let a := align_up cur (ralign r) in
    let next := a + rsize r in
    if next >? start + cap then AErr ErrFull else AOk (a, next).

(* all allocs of one memory space, in rewrite order *)
Fixpoint static_from (start cap cur : Z) (rs : list req) : ares (list Z) :=
  match rs with
  | [] => AOk []
  | r :: rest =>
      match static_step start cap cur r with
      | AErr e => AErr e
      | AOk (a, next) =>
          match static_from start cap next rest with
          | AErr e => AErr e
          | AOk l => AOk (a :: l)
          end
      end
  end.
Definition static_allocs (start cap : Z) (rs : list req) : ares (list Z) := static_from start cap start rs.

(* several memory spaces: memory i is (start, capacity); a request names its memory.
   current_addresses is a dict: here a list of optional bump pointers indexed by memory. *)
Definition mreq : Type := (nat * req)%type.
Fixpoint set_nth {A} (n : nat) (x : A) (l : list A) : list A :=
  match n, l with
  | O, _ :: t => x :: t
  | S n', h :: t => h :: set_nth n' x t
  | _, [] => []
  end.
Fixpoint static_multi_from (mems : list (Z * Z)) (curs : list (option Z)) (rs : list mreq) : ares (list Z) :=
  match rs with
  | [] => AOk []
  | (m, r) :: rest =>
      let '(start, cap) := nth m mems (0, 0) in
      let cur := match nth m curs None with Some c => c | None => start end in
      match static_step start cap cur r with
      | AErr e => AErr e
      | AOk (a, next) =>
          match static_multi_from mems (set_nth m (Some next) curs) rest with
          | AErr e => AErr e
          | AOk l => AOk (a :: l)
          end
      end
  end.
Definition static_multi (mems : list (Z * Z)) (rs : list mreq) : ares (list Z) :=
  static_multi_from mems (map (fun _ => None) mems) rs.

Definition ares_eqb (a b : ares (list Z)) : bool :=
  match a, b with
  | AOk x, AOk y => list_eqb Z.eqb x y
  | AErr ErrFull, AErr ErrFull => true
  | AErr ErrZeroDiv, AErr ErrZeroDiv => true
  | _, _ => false
  end.

(* ---- AllocOpRewrite size (bytes) ------------------------------------------------ *)
(* layout = NoneAttr: element_size * prod(shape) (static and dynamic dims alike: the shape operands) *)
Definition size_none (el : Z) (shape : list Z) : Z := fold_left (fun acc n => n * acc) shape el.

(* static TSL:  1 * (0 + sum_{(dim,depth)} (bound-1) * (step*el) + el) + offset*el *)
Definition stride_span (el : Z) (s : sstride) : Z := (snd s - 1) * (fst s * el).
Definition size_tsl_static (el : Z) (l : layout) : Z :=
  1 * (fold_left (fun acc s => acc + stride_span el (static_of s)) (all_strides l) 0 + el)
  + (match offset l with Some o => o | None => 0 end) * el.

(* ---- AllocOpRewrite size for a (possibly dynamic) TSL layout ------------------------ *)
(* TiledStridedLayoutAttr.get_bound_ops, evaluated: `dims` are the run-time values of the memref's shape
   operands (one per dimension).  depth 0: the static bound, or dim /u prod(truthy bounds of the dimension);
   depth >= 1: the static bound (the Python asserts it is not None -> None here). *)
Definition bound0_ev (t : tstride) (dimv : Z) : Z :=
  match t with
  | s :: _ => match sbound s with Some b => b | None => dimv / bounds_prod t end
  | [] => 0
  end.
Fixpoint inner_bounds_ev (t : tstride) : option (list Z) :=
  match t with
  | [] => Some []
  | s :: r => match sbound s, inner_bounds_ev r with Some b, Some l => Some (b :: l) | _, _ => None end
  end.
Definition tile_bounds_ev (t : tstride) (dimv : Z) : option (list Z) :=
  match t with
  | [] => None                                   (* get_stride(dim, 0) raises IndexError *)
  | _ :: r => match inner_bounds_ev r with Some l => Some (bound0_ev t dimv :: l) | None => None end
  end.
Fixpoint bounds_ev (ts : list tstride) (dims : list Z) : option (list (list Z)) :=
  match ts, dims with
  | [], _ => Some []
  | t :: ts', d :: dims' =>
      match tile_bounds_ev t d, bounds_ev ts' dims' with Some b, Some r => Some (b :: r) | _, _ => None end
  | _ :: _, [] => None                           (* shapes.pop(0) on an empty list *)
  end.

(* get_step_ops(bound_ops, memref, in_bytes=True), evaluated, for a memref whose layout is the TSL itself.
   flat = [(step, bound value)] in (dim, depth) order. *)
Definition flat_t : Type := list (option Z * Z).
(* max_key / max_value: first stride with the strictly largest truthy static step; default = last stride, 0 *)
Fixpoint max_scan (fl : flat_t) (i : nat) (best_i : nat) (best_v : Z) : nat * Z :=
  match fl with
  | [] => (best_i, best_v)
  | (st, _) :: r =>
      if truthy st && (match st with Some v => v >? best_v | None => false end)
      then max_scan r (S i) i (match st with Some v => v | None => 0 end)
      else max_scan r (S i) best_i best_v
  end.
(* assign strides right to left: returns the steps in reversed flat order *)
Fixpoint steps_rev (fl_rev : flat_t) (el dyn : Z) : list Z :=
  match fl_rev with
  | [] => []
  | (Some v, _) :: r => (v * el) :: steps_rev r el dyn
  | (None, b) :: r => dyn :: steps_rev r el (dyn * b)
  end.
Definition steps_ev (fl : flat_t) (el : Z) : list Z :=
  let '(mi, mv) := max_scan fl 0 (length fl - 1) 0 in
  let dyn0 := snd (nth mi fl (None, 0)) * (mv * el) in
  rev (steps_rev (rev fl) el dyn0).

Definition flatten_ev (ts : list tstride) (bs : list (list Z)) : flat_t :=
  concat (map (fun p => combine (map sstep (fst p)) (snd p)) (combine ts bs)).

(* total_size = 1 * (0 + sum (bound-1)*step_bytes + el) + offset*el ; None = the rewrite raises *)
Definition size_tsl (el : Z) (l : layout) (dims : list Z) : option Z :=
  match bounds_ev (tstrides l) dims, offset l with
  | Some bs, Some off =>
      let fl := flatten_ev (tstrides l) bs in
      let steps := steps_ev fl el in
      Some (1 * (fold_left (fun acc p => acc + (snd (fst p) - 1) * snd p) (combine fl steps) 0 + el) + off * el)
  | _, _ => None
  end.

(* the static layout a dynamic layout denotes for given run-time dims (bounds instantiated) *)
Definition inst_tile (t : tstride) (dimv : Z) : tstride :=
  match t with
  | (st, None) :: r => (st, Some (dimv / bounds_prod t)) :: r
  | _ => t
  end.
Fixpoint inst_layout_ts (ts : list tstride) (dims : list Z) : list tstride :=
  match ts, dims with
  | t :: ts', d :: dims' => inst_tile t d :: inst_layout_ts ts' dims'
  | _, _ => ts
  end.
Definition inst_layout (l : layout) (dims : list Z) : layout := mkLayout (inst_layout_ts (tstrides l) dims) (offset l).

(* largest address (in elements) a static layout with non-negative steps can produce *)
Definition max_addr (l : layout) : Z :=
  fold_left (fun acc s => acc + (snd (static_of s) - 1) * fst (static_of s)) (all_strides l) 0.

Definition optZ_eqb' := optZ_eqb.

(* ---- create_memref_struct: the memref descriptor that replaces a snax.alloc ------------- *)
(* where a pointer field comes from: a constant address (static / minimalloc mode) or field k of the
   {pointer, aligned_pointer} struct loaded from the result of the run-time call snax_alloc_l1(size, alignment) *)
Inductive psrc := PConst (addr : Z) | PField (k : nat).
Definition psrc_eqb (a b : psrc) : bool :=
  match a, b with PConst x, PConst y => x =? y | PField i, PField j => Nat.eqb i j | _, _ => false end.
Record descr := mkDescr {
  d_ptr : psrc;                 (* descriptor field 0 *)
  d_aligned : psrc;             (* descriptor field 1: every later access goes through it *)
  d_offset : Z;                 (* descriptor field 2 *)
  d_sizes : list nat;           (* descriptor field 3: which shape operand of the alloc fills entry i *)
  d_call_align : option Z       (* alignment passed to snax_alloc_l1 (dynamic mode only) *)
}.
Definition descr_eqb (a b : descr) : bool :=
  psrc_eqb (d_ptr a) (d_ptr b) && psrc_eqb (d_aligned a) (d_aligned b) && (d_offset a =? d_offset b)
  && list_eqb Nat.eqb (d_sizes a) (d_sizes b) && optZ_eqb (d_call_align a) (d_call_align b).
(* StaticAllocs / MiniMallocate: create_memref_struct(op, pointer) *)
Definition descr_const (addr : Z) (nshapes : nat) : descr :=
  mkDescr (PConst addr) (PConst addr) 0 (seq 0 nshapes) None.
(* DynamicAllocs: create_memref_struct(op, pointer_op.res, aligned_pointer_op.res) *)
Definition descr_dynamic (alignment : Z) (nshapes : nat) : descr :=
  mkDescr (PField 0) (PField 1) 0 (seq 0 nshapes) (Some alignment).
(* MiniMallocate: the solver's offsets are relative to the start of the buffer's own memory space *)
Definition pointer_of (mem_start off : Z) : Z := off + mem_start.
