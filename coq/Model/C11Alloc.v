(* C11 — hand model (H) of
     snaxc/transforms/snax_allocate.py : StaticAllocs (bump arithmetic, alignment, capacity check)
     snaxc/transforms/memref_to_snax.py : AllocOpRewrite size formula (no layout / TSL, static)
   Executable definitions only; proofs in Proofs/C11AllocProofs.v.
   Tied to the code by the L1 correspondence of harness/props/c11.py. *)
From Snax Require Import Base.Prelude Model.Tsl.

(* ---- StaticAllocs ------------------------------------------------------------- *)
(* a request is (size, alignment); `alignment_attr is None` is alignment 0 *)
Definition req : Type := (Z * Z)%type.
Definition rsize (r : req) : Z := fst r.
Definition ralign (r : req) : Z := snd r.

Inductive aerr := ErrFull | ErrZeroDiv.          (* RuntimeError("... is full") | ZeroDivisionError *)
Inductive ares (A : Type) := AOk (a : A) | AErr (e : aerr).
Arguments AOk {A} a.
Arguments AErr {A} e.

(*  if current_address % alignment != 0:
        current_address += alignment - (current_address % alignment)          *)
Definition align_up (cur al : Z) : Z :=
  if cur mod al =? 0 then cur else cur + (al - cur mod al).

(* one match_and_rewrite on a snax.alloc of memory (start, capacity) with bump pointer `cur`:
   returns (address, new bump pointer) *)
Definition static_step (start cap cur : Z) (r : req) : ares (Z * Z) :=
  if ralign r =? 0 then AErr ErrZeroDiv
  else
    let a := align_up cur (ralign r) in
    let next := a + rsize r in
    if next >? start + cap then AErr ErrFull else AOk (a, next).

(* all allocs of one memory space, in rewrite order *)
Fixpoint static_from (start cap cur : Z) (rs : list req) : ares (list Z) :=
  match rs with
  | [] => AOk []
  | r :: rest =>
      match static_step start cap cur r with
      | AErr e => AErr e
      | AOk (a, next) =>
          match static_from start cap next rest with
          | AErr e => AErr e
          | AOk l => AOk (a :: l)
          end
      end
  end.
Definition static_allocs (start cap : Z) (rs : list req) : ares (list Z) := static_from start cap start rs.

(* several memory spaces: memory i is (start, capacity); a request names its memory.
   current_addresses is a dict: here a list of optional bump pointers indexed by memory. *)
Definition mreq : Type := (nat * req)%type.
Fixpoint set_nth {A} (n : nat) (x : A) (l : list A) : list A :=
  match n, l with
  | O, _ :: t => x :: t
  | S n', h :: t => h :: set_nth n' x t
  | _, [] => []
  end.
Fixpoint static_multi_from (mems : list (Z * Z)) (curs : list (option Z)) (rs : list mreq) : ares (list Z) :=
  match rs with
  | [] => AOk []
  | (m, r) :: rest =>
      let '(start, cap) := nth m mems (0, 0) in
      let cur := match nth m curs None with Some c => c | None => start end in
      match static_step start cap cur r with
      | AErr e => AErr e
      | AOk (a, next) =>
          match static_multi_from mems (set_nth m (Some next) curs) rest with
          | AErr e => AErr e
          | AOk l => AOk (a :: l)
          end
      end
  end.
Definition static_multi (mems : list (Z * Z)) (rs : list mreq) : ares (list Z) :=
  static_multi_from mems (map (fun _ => None) mems) rs.

Definition ares_eqb (a b : ares (list Z)) : bool :=
  match a, b with
  | AOk x, AOk y => list_eqb Z.eqb x y
  | AErr ErrFull, AErr ErrFull => true
  | AErr ErrZeroDiv, AErr ErrZeroDiv => true
  | _, _ => false
  end.

(* ---- AllocOpRewrite size (bytes) ------------------------------------------------ *)
(* layout = NoneAttr: element_size * prod(shape) (static and dynamic dims alike: the shape operands) *)
Definition size_none (el : Z) (shape : list Z) : Z := fold_left (fun acc n => n * acc) shape el.

(* static TSL:  1 * (0 + sum_{(dim,depth)} (bound-1) * (step*el) + el) + offset*el *)
Definition stride_span (el : Z) (s : sstride) : Z := (snd s - 1) * (fst s * el).
Definition size_tsl_static (el : Z) (l : layout) : Z :=
  1 * (fold_left (fun acc s => acc + stride_span el (static_of s)) (all_strides l) 0 + el)
  + (match offset l with Some o => o | None => 0 end) * el.
