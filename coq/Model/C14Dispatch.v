(* C14 — model of snaxc/transforms/dispatch_regions.py (DispatchRegionsRewriter) on an
   abstract nested-region program, with a per-core trace semantics.

   Abstraction.  A function is a list of blocks; a block is a list of statements:
     Leaf id k has_body  an operation that is executed as one unit.  k is what the dispatching
                         rules say about it (dispatch_to_dm -> KDM, dispatch_to_compute ->
                         KCompute, neither -> KOther); has_body = the op has a region with at
                         least one op inside (linalg.generic, streaming regions: the walk
                         visits those inner, non-dispatchable ops *before* the op itself)
     For / If            scf.for / scf.if of the input program (executed by every core)
     Guard c body        `scf.if (snax_cluster_core_idx() == c)` inserted by the pass
   Blocks of For/If/Guard bodies end with an (implicit) scf.yield, a non-dispatchable op.

   The walk of `dispatcher` is `block.walk(region_first=True)`: post-order.  The pending list
   `ops_to_dispatch` is flushed when the next op in that order is not dispatchable or has a
   different parent block.  Consequences mirrored here:
     * entering a non-empty nested region flushes (different parent),
     * leaving a nested block flushes (the terminator / the parent op follows),
     * a dispatchable op WITH a body cannot join the run before it (its inner ops come first
       in the walk and flush), but starts a run that later body-less ops may join,
     * at the end of the walk of the top-level block nothing flushes: a trailing run stays
       unguarded ([top = true] below).  Function bodies end with a terminator, so this only
       shows for ill-formed input; the theorem carries the hypothesis, a refutation shows it
       is needed.  *)
From Snax Require Import Base.Prelude Base.ListAux.

Inductive kind := KDM | KCompute | KOther.

Definition kind_eqb (a b : kind) : bool :=
  match a, b with KDM, KDM | KCompute, KCompute | KOther, KOther => true | _, _ => false end.

Inductive stmt :=
| Leaf (id : Z) (k : kind) (has_body : bool)
| For (id : Z) (body : list stmt)
| If (id : Z) (th el : list stmt)
| Guard (c : Z) (body : list stmt).

Definition is_kind (r : kind) (s : stmt) : bool :=
  match s with Leaf _ k _ => kind_eqb k r | _ => false end.

Definition has_inner (s : stmt) : bool :=
  match s with Leaf _ _ b => b | _ => true end.

Definition flush (c : Z) (pend : list stmt) : list stmt :=
  match pend with [] => [] | _ => [Guard c pend] end.

(* one dispatcher pass (rule r, guard constant c) over a block; [top] = the block handed to
   `dispatcher` itself (no flush after its last op) *)
Fixpoint dstmt (r : kind) (c : Z) (s : stmt) : stmt :=
  let fix dblock (pend l : list stmt) {struct l} : list stmt :=
    match l with
    | [] => flush c pend
    | x :: rest =>
        let x' := dstmt r c x in
        if is_kind r x then
          if has_inner x then flush c pend ++ dblock [x'] rest
          else dblock (pend ++ [x']) rest
        else flush c pend ++ x' :: dblock [] rest
    end in
  match s with
  | Leaf _ _ _ => s
  | For id b => For id (dblock [] b)
  | If id t e => If id (dblock [] t) (dblock [] e)
  | Guard k b => Guard k (dblock [] b)
  end.

Fixpoint dblock (top : bool) (r : kind) (c : Z) (pend l : list stmt) {struct l} : list stmt :=
  match l with
  | [] => if top then pend else flush c pend
  | x :: rest =>
      let x' := dstmt r c x in
      if is_kind r x then
        if has_inner x then flush c pend ++ dblock top r c [x'] rest
        else dblock top r c (pend ++ [x']) rest
      else flush c pend ++ x' :: dblock top r c [] rest
  end.

(* `changes_made`: did some flush of a non-empty list happen during the walk of the block *)
Fixpoint cstmt (r : kind) (s : stmt) : bool :=
  let fix cblock (pend : bool) (l : list stmt) {struct l} : bool :=
    match l with
    | [] => pend
    | x :: rest =>
        if is_kind r x then
          if has_inner x then pend || cblock true rest else cblock true rest
        else pend || cstmt r x || cblock false rest
    end in
  match s with
  | Leaf _ _ _ => false
  | For _ b => cblock false b
  | If _ t e => cblock false t || cblock false e
  | Guard _ b => cblock false b
  end.

Fixpoint cblock (top : bool) (r : kind) (pend : bool) (l : list stmt) {struct l} : bool :=
  match l with
  | [] => if top then false else pend
  | x :: rest =>
      if is_kind r x then
        if has_inner x then pend || cblock top r true rest else cblock top r true rest
      else pend || cstmt r x || cblock top r false rest
  end.

Definition func := list (list stmt).

Definition dm_core (nb : Z) : Z := nb - 1.
Definition compute_core : Z := 0.

Record dispatched := mkDispatched {
  d_call : bool;            (* func.call @snax_cluster_core_idx inserted *)
  d_dm_cmp : bool;          (* constant nb-1 and the eq comparison kept *)
  d_compute_cmp : bool;     (* constant 0 and the eq comparison kept *)
  d_pins : list Z;          (* pin_to_constants on the call *)
  d_blocks : func
}.

(* the whole rewrite of one func.func (after the fix: every block is dispatched) *)
Definition dispatch (nb : Z) (f : func) : dispatched :=
  let dm_changed := existsb (cblock true KDM false) f in
  let f1 := map (dblock true KDM (dm_core nb) []) f in
  let c_changed := existsb (cblock true KCompute false) f1 in
  let f2 := map (dblock true KCompute compute_core []) f1 in
  mkDispatched (dm_changed || c_changed) dm_changed c_changed
    (if dm_changed || c_changed then zrange nb else []) f2.

(* ---------------- semantics: per-core traces --------------------------------------------
   Trip counts and branch outcomes come from an oracle keyed by the op id and the iteration
   context (indices of the enclosing loops, innermost first): the same decisions are taken
   before and after the pass and on every core.  *)
Record oracle := mkOracle { trip : Z -> list nat -> nat; cond : Z -> list nat -> bool }.

Definition ev := (Z * kind * list nat)%type.
Definition ev_kind (e : ev) : kind := snd (fst e).

(* [me = None]: the program as such (every guard taken: reading of the input program);
   [me = Some c]: what core c executes *)
Fixpoint run (me : option Z) (o : oracle) (s : stmt) (ctx : list nat) {struct s} : list ev :=
  let fix runl (l : list stmt) (ctx : list nat) {struct l} : list ev :=
    match l with
    | [] => []
    | x :: r => run me o x ctx ++ runl r ctx
    end in
  match s with
  | Leaf id k _ => [(id, k, ctx)]
  | For id b => flat_map (fun i => runl b (i :: ctx)) (seq 0 (trip o id ctx))
  | If id t e => if cond o id ctx then runl t ctx else runl e ctx
  | Guard k b => match me with
                 | None => runl b ctx
                 | Some c => if c =? k then runl b ctx else []
                 end
  end.

Fixpoint runl (me : option Z) (o : oracle) (l : list stmt) (ctx : list nat) {struct l} : list ev :=
  match l with
  | [] => []
  | x :: r => run me o x ctx ++ runl me o r ctx
  end.

(* a control-flow path through the blocks of the function: the k-th visited block is run in
   context [k] *)
Fixpoint run_path (me : option Z) (o : oracle) (f : func) (path : list nat) (k : nat) : list ev :=
  match path with
  | [] => []
  | b :: rest => runl me o (nth b f []) [k] ++ run_path me o f rest (S k)
  end.

Definition trace (o : oracle) (f : func) (path : list nat) : list ev := run_path None o f path 0.
Definition core_trace (c : Z) (o : oracle) (f : func) (path : list nat) : list ev :=
  run_path (Some c) o f path 0.

(* the rule of the property: DM ops on core nb-1, compute ops on core 0, the rest everywhere *)
Definition belongs (nb c : Z) (e : ev) : bool :=
  match ev_kind e with
  | KDM => c =? dm_core nb
  | KCompute => c =? compute_core
  | KOther => true
  end.

(* ---------------- pinning ------------------------------------------------------------------
   `pin_to_constants = [0..nb-1]` asks xDSL's function-constant-pinning for one copy of the
   function per listed value with the call result replaced by that constant; the guards then
   fold.  [pin c] is that specialisation. *)
Fixpoint pin (c : Z) (s : stmt) : list stmt :=
  let fix pinl (l : list stmt) {struct l} : list stmt :=
    match l with
    | [] => []
    | x :: r => pin c x ++ pinl r
    end in
  match s with
  | Leaf _ _ _ => [s]
  | For id b => [For id (pinl b)]
  | If id t e => [If id (pinl t) (pinl e)]
  | Guard k b => if c =? k then pinl b else []
  end.

Fixpoint pinl (c : Z) (l : list stmt) {struct l} : list stmt :=
  match l with
  | [] => []
  | x :: r => pin c x ++ pinl c r
  end.

(* ---------------- well-formedness ---------------------------------------------------------- *)
Fixpoint guard_free (s : stmt) : bool :=
  let fix gfl (l : list stmt) : bool :=
    match l with [] => true | x :: r => guard_free x && gfl r end in
  match s with
  | Leaf _ _ _ => true
  | For _ b => gfl b
  | If _ t e => gfl t && gfl e
  | Guard _ _ => false
  end.
Definition guard_freel (l : list stmt) : bool := forallb guard_free l.

(* the block ends with an op that no rule dispatches (func.return, cf.br, ...) *)
Definition terminated (l : list stmt) : bool :=
  match last l (Guard 0 []) with
  | Leaf _ KOther _ => true
  | _ => false
  end.

(* ---------------- structural equality (L1) ------------------------------------------------- *)
Fixpoint stmt_eqb (a b : stmt) : bool :=
  let fix leqb (l1 l2 : list stmt) {struct l1} : bool :=
    match l1, l2 with
    | [], [] => true
    | x :: r, y :: r' => stmt_eqb x y && leqb r r'
    | _, _ => false
    end in
  match a, b with
  | Leaf i k h, Leaf j k' h' => (i =? j) && kind_eqb k k' && Bool.eqb h h'
  | For i x, For j y => (i =? j) && leqb x y
  | If i t e, If j t' e' => (i =? j) && leqb t t' && leqb e e'
  | Guard c x, Guard d y => (c =? d) && leqb x y
  | _, _ => false
  end.

Definition dispatched_eqb (a b : dispatched) : bool :=
  Bool.eqb (d_call a) (d_call b) && Bool.eqb (d_dm_cmp a) (d_dm_cmp b) &&
  Bool.eqb (d_compute_cmp a) (d_compute_cmp b) && list_eqb Z.eqb (d_pins a) (d_pins b) &&
  list_eqb (list_eqb stmt_eqb) (d_blocks a) (d_blocks b).

Definition ev_eqb (a b : ev) : bool :=
  match a, b with
  | (i, k, c), (j, k', c') => (i =? j) && kind_eqb k k' && list_eqb Nat.eqb c c'
  end.

(* normal form that forgets how neighbouring ops were grouped under guards: every guard holds
   exactly one statement (the binding L1 comparison; the exact one is reported as well) *)
Fixpoint norm (s : stmt) : list stmt :=
  let fix norml (l : list stmt) : list stmt :=
    match l with [] => [] | x :: r => norm x ++ norml r end in
  match s with
  | Leaf _ _ _ => [s]
  | For id b => [For id (norml b)]
  | If id t e => [If id (norml t) (norml e)]
  | Guard c b => map (fun x => Guard c [x]) (norml b)
  end.
Definition norml (l : list stmt) : list stmt := flat_map norm l.
Definition norm_dispatched (d : dispatched) : dispatched :=
  mkDispatched (d_call d) (d_dm_cmp d) (d_compute_cmp d) (d_pins d) (map norml (d_blocks d)).

(* L2 check of the property on a (before, after) pair given as abstract programs *)
Definition projection_ok (nb : Z) (o : oracle) (before after : func) (path : list nat) (c : Z) : bool :=
  list_eqb ev_eqb (core_trace c o after path) (filter (belongs nb c) (trace o before path)).
