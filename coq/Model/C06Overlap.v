(* C06 — setup/compute overlap (snaxc/transforms/accfg_config_overlap.py with
   snaxc/inference/scoped_setups.py and helpers.py) on the abstract accfg IR.
   Executable definitions only; proofs in Proofs/C06*Proofs.v.

   One function per rewrite pattern, applied to the setup op identified by its result id [o]:
     block_overlap p o      BlockLevelSetupAwaitOverlapPattern.match_and_rewrite
     loop_overlap  p o nf   LoopLevelSetupAwaitOverlapPattern.match_and_rewrite; [nf] is the first
                            unused SSA id (the clones are numbered nf, nf+1, ... in program order, which
                            is how the trusted converter numbers the new values of the rewritten module)
   Both return None when a guard of the Python fails (no rewrite).

   A value feeding the setup that is the result of an scf.for / scf.if makes the dependency closure fail:
   get_scoped_setup_inputs treats ops with regions as immovable (/repo fix 09d2c36; before the fix the Python
   asked xDSL whether the whole region op is side-effect free and moved/cloned it without following the values
   its regions capture). *)
From Snax Require Import Base.Prelude Model.AccIR Model.AccSem.

(* ---- values defined / used by a statement ------------------------------------------------------ *)
Definition stmt_defs (s : stmt) : list val :=
  match s with
  | SPure d _ => [d]
  | SCall _ _ _ ds _ => ds
  | SSetup _ o _ _ => [o]
  | SLaunch _ t _ _ => [t]
  | SFor _ _ _ _ _ rs _ _ => rs
  | SIf _ rs _ _ _ _ => map fst rs
  | _ => []
  end.

Definition pexp_vals (e : pexp) : list val :=
  match e with
  | PConst _ => [] | PId a => [a] | PBin _ a b => [a; b] | PCmp _ a b => [a; b] | PSelect c a b => [c; a; b]
  end.

(* number of OPERATIONS (setup, launch, reset, call, scf.for, scf.yield, ...) that use value [v];
   the scf.yield terminating a region is an operation of its own *)
Definition b2n (b : bool) : nat := if b then 1%nat else 0%nat.

Fixpoint stmt_users (v : val) (s : stmt) : nat :=
  let blk := fix blk (b : list stmt) : nat :=
    match b with [] => 0%nat | x :: b' => (stmt_users v x + blk b')%nat end in
  match s with
  | SPure _ e => b2n (mem_nat v (pexp_vals e))
  | SCall _ _ _ _ ar => b2n (mem_nat v ar)
  | SSetup _ _ ins fs => b2n (match ins with Some i => Nat.eqb i v | None => false end || mem_nat v (map snd fs))
  | SLaunch _ _ st fs => b2n (Nat.eqb st v || mem_nat v (map snd fs))
  | SAwait _ t => b2n (Nat.eqb t v)
  | SReset _ st => b2n (Nat.eqb st v)
  | SFor _ lb ub sp iters _ body ys =>
      (b2n (Nat.eqb lb v || Nat.eqb ub v || Nat.eqb sp v || mem_nat v (map it_init iters))
       + b2n (mem_nat v ys) + blk body)%nat
  | SIf c _ th thy el ely =>
      (b2n (Nat.eqb c v) + b2n (mem_nat v thy) + b2n (mem_nat v ely) + blk th + blk el)%nat
  end.
Definition block_users (v : val) (b : block) : nat := fold_right (fun s n => (stmt_users v s + n)%nat) 0%nat b.

(* number of accfg.launch ops whose state operand is [v] *)
Fixpoint stmt_launch_users (v : val) (s : stmt) : nat :=
  let blk := fix blk (b : list stmt) : nat :=
    match b with [] => 0%nat | x :: b' => (stmt_launch_users v x + blk b')%nat end in
  match s with
  | SLaunch _ _ st _ => b2n (Nat.eqb st v)
  | SFor _ _ _ _ _ _ body _ => blk body
  | SIf _ _ th _ el _ => (blk th + blk el)%nat
  | _ => 0%nat
  end.
Definition block_launch_users (v : val) (b : block) : nat :=
  fold_right (fun s n => (stmt_launch_users v s + n)%nat) 0%nat b.
(* launches directly in the block *)
Definition direct_launch_users (v : val) (b : block) : nat :=
  fold_right (fun s n => (match s with SLaunch _ _ st _ => b2n (Nat.eqb st v) | _ => 0%nat end + n)%nat) 0%nat b.

(* ---- get_scoped_setup_inputs: dependency closure over the pure ops of one block -------------------- *)
Fixpoint find_def (b : block) (v : val) (pos : nat) : option (nat * stmt) :=
  match b with
  | [] => None
  | s :: b' => if mem_nat v (stmt_defs s) then Some (pos, s) else find_def b' v (S pos)
  end.

Fixpoint closure (fuel : nat) (b : block) (work : list val) (acc : list nat) : option (list nat) :=
  match fuel with
  | O => None
  | S k =>
      match work with
      | [] => Some acc
      | v :: w =>
          match find_def b v 0%nat with
          | None => closure k b w acc                    (* block argument or defined outside: stop *)
          | Some (pos, st) =>
              if mem_nat pos acc then closure k b w acc
              else match st with
                   | SPure _ e => closure k b (w ++ pexp_vals e) (pos :: acc)
                   | SCall _ _ true _ ar => closure k b (w ++ ar) (pos :: acc)   (* is_side_effect_free *)
                   | _ => None                          (* op with effects in the use-def chain *)
                   end
          end
      end
  end.

Definition stmt_nops (s : stmt) : nat :=
  match s with SPure _ e => List.length (pexp_vals e) | SCall _ _ _ _ ar => List.length ar | _ => 0%nat end.
Definition closure_fuel (b : block) (vals : list val) : nat :=
  (2 + List.length vals + fold_right (fun s n => (1 + stmt_nops s + n)%nat) 0%nat b
   + List.length vals * List.length b)%nat.

(* positions (ascending = program order) of the ops computing the setup's values *)
Definition scoped_inputs (b : block) (vals : list val) : option (list nat) :=
  match closure (closure_fuel b vals) b vals [] with
  | Some acc => Some (filter (fun i => mem_nat i acc) (seq 0 (List.length b)))
  | None => None
  end.

Definition nth_stmts (b : block) (ps : list nat) : block :=
  flat_map (fun i => match nth_error b i with Some s => [s] | None => [] end) ps.

(* ---- block level -------------------------------------------------------------------------------------- *)
Fixpoint find_setup (b : block) (o : val) (pos : nat) : option (nat * acc * val * list (field * val)) :=
  match b with
  | [] => None
  | SSetup a o' (Some s) fs :: b' => if Nat.eqb o' o then Some (pos, a, s, fs) else find_setup b' o (S pos)
  | _ :: b' => find_setup b' o (S pos)
  end.

Fixpoint find_launch_of (b : block) (s : val) (pos : nat) : option nat :=
  match b with
  | [] => None
  | SLaunch _ _ st _ :: b' => if Nat.eqb st s then Some pos else find_launch_of b' s (S pos)
  | _ :: b' => find_launch_of b' s (S pos)
  end.

(* [whole] is the function body (uses are counted over the whole function) *)
Definition block_overlap_at (whole : block) (o : val) (b : block) : option block :=
  match find_setup b o 0%nat with
  | None => None
  | Some (k, a, s, fs) =>
      if negb (Nat.eqb (block_users s whole) 2 && Nat.eqb (block_launch_users s whole) 1) then None else
      match find_launch_of b s 0%nat with
      | None => None                                   (* launch on another block level *)
      | Some j =>
          if negb (Nat.ltb j k) then None else
          if Nat.eqb (S j) k then None else            (* already directly behind the launch *)
          match scoped_inputs b (map snd fs) with
          | None => None
          | Some inputs =>
              let ip := S j in
              if mem_nat ip inputs then None else      (* lazy_move_up: insertion point is one of our ops *)
              let moved := filter (fun i => Nat.ltb ip i) inputs ++ [k] in
              Some (firstn ip b ++ nth_stmts b moved
                    ++ nth_stmts b (filter (fun i => negb (mem_nat i moved)) (seq ip (List.length b - ip))))
          end
      end
  end.

(* apply a block rewrite to the first block (pre-order) on which it succeeds *)
Section Rw.
Variable f : block -> option block.

Fixpoint rw_stmt (s : stmt) {struct s} : option stmt :=
  let rw_blk := fix rw_blk (b : list stmt) {struct b} : option (list stmt) :=
    match b with
    | [] => None
    | x :: b' => match rw_stmt x with
                 | Some x' => Some (x' :: b')
                 | None => match rw_blk b' with Some r => Some (x :: r) | None => None end
                 end
    end in
  match s with
  | SFor iv lb ub sp iters rs body ys =>
      match (match f body with Some b' => Some b' | None => rw_blk body end) with
      | Some body' => Some (SFor iv lb ub sp iters rs body' ys) | None => None end
  | SIf c rs th thy el ely =>
      match (match f th with Some b' => Some b' | None => rw_blk th end) with
      | Some th' => Some (SIf c rs th' thy el ely)
      | None => match (match f el with Some b' => Some b' | None => rw_blk el end) with
                | Some el' => Some (SIf c rs th thy el' ely) | None => None end
      end
  | _ => None
  end.

Fixpoint rw_inner (b : block) : option block :=
  match b with
  | [] => None
  | x :: b' => match rw_stmt x with
               | Some x' => Some (x' :: b')
               | None => match rw_inner b' with Some r => Some (x :: r) | None => None end
               end
  end.
Definition rw_block (b : block) : option block :=
  match f b with Some b' => Some b' | None => rw_inner b end.

(* the block the traversal rewrites *)
Fixpoint rw_target_stmt (s : stmt) {struct s} : option block :=
  let tg_blk := fix tg_blk (b : list stmt) {struct b} : option block :=
    match b with
    | [] => None
    | x :: b' => match rw_target_stmt x with Some r => Some r | None => tg_blk b' end
    end in
  match s with
  | SFor _ _ _ _ _ _ body _ => match f body with Some _ => Some body | None => tg_blk body end
  | SIf _ _ th _ el _ =>
      match (match f th with Some _ => Some th | None => tg_blk th end) with
      | Some r => Some r
      | None => match f el with Some _ => Some el | None => tg_blk el end
      end
  | _ => None
  end.
Fixpoint rw_target_inner (b : block) : option block :=
  match b with
  | [] => None
  | x :: b' => match rw_target_stmt x with Some r => Some r | None => rw_target_inner b' end
  end.
Definition rw_target (b : block) : option block :=
  match f b with Some _ => Some b | None => rw_target_inner b end.
End Rw.

Definition block_overlap (p : prog) (o : val) : option prog :=
  match rw_block (block_overlap_at (p_body p) o) (p_body p) with
  | Some b' => Some (mkProg (p_params p) b')
  | None => None
  end.

(* ---- cloning with a value mapper ------------------------------------------------------------------------ *)
Definition mapper := list (val * val).
Fixpoint mlook (m : mapper) (v : val) : val :=
  match m with
  | [] => v
  | (k, w) :: m' => if Nat.eqb k v then w else mlook m' v
  end.

Definition map_pexp (m : mapper) (e : pexp) : pexp :=
  match e with
  | PConst z => PConst z
  | PId a => PId (mlook m a)
  | PBin o a b => PBin o (mlook m a) (mlook m b)
  | PCmp c a b => PCmp c (mlook m a) (mlook m b)
  | PSelect c a b => PSelect (mlook m c) (mlook m a) (mlook m b)
  end.

(* clone the input ops in order; results get the ids nf, nf+1, ... *)
Fixpoint clone_inputs (m : mapper) (nf : nat) (ins : list stmt) : list stmt * mapper * nat :=
  match ins with
  | [] => ([], m, nf)
  | SPure d e :: r =>
      let '(cs, m', nf') := clone_inputs ((d, nf) :: m) (S nf) r in
      (SPure nf (map_pexp m e) :: cs, m', nf')
  | SCall g ef pu ds ar :: r =>
      let nds := seq nf (List.length ds) in
      let '(cs, m', nf') := clone_inputs (combine ds nds ++ m) (nf + List.length ds) r in
      (SCall g ef pu nds (map (mlook m) ar) :: cs, m', nf')
  | x :: r =>
      let '(cs, m', nf') := clone_inputs m nf r in (x :: cs, m', nf')
  end.

(* copy_with_new_dependent_vals: the cloned inputs followed by the cloned setup; returns the id of the new state *)
Definition clone_scoped (deps news : list val) (nf : nat) (ins : list stmt)
           (a : acc) (s_in : val) (fs : list (field * val)) : list stmt * val * nat :=
  let '(cs, m, nf') := clone_inputs (combine deps news) nf ins in
  (cs ++ [SSetup a nf' (Some (mlook m s_in)) (map (fun fv => (fst fv, mlook m (snd fv))) fs)], nf', S nf').

(* ---- substitution of a state value (ScopedSetupWithInputs.erase: replace_all_uses_with) ------------------- *)
Definition sv (o s v : val) : val := if Nat.eqb v o then s else v.
Definition sv_pexp (o s : val) (e : pexp) : pexp := map_pexp [(o, s)] e.

Fixpoint subst_stmt (o s : val) (x : stmt) {struct x} : stmt :=
  let blk := fix blk (b : list stmt) : list stmt :=
    match b with [] => [] | y :: b' => subst_stmt o s y :: blk b' end in
  let fvs := map (fun fv : field * val => (fst fv, sv o s (snd fv))) in
  match x with
  | SPure d e => SPure d (sv_pexp o s e)
  | SCall g ef pu ds ar => SCall g ef pu ds (map (sv o s) ar)
  | SSetup a out ins fs => SSetup a out (option_map (sv o s) ins) (fvs fs)
  | SLaunch a t st fs => SLaunch a t (sv o s st) (fvs fs)
  | SAwait a t => SAwait a (sv o s t)
  | SReset a st => SReset a (sv o s st)
  | SFor iv lb ub sp iters rs body ys =>
      SFor iv (sv o s lb) (sv o s ub) (sv o s sp)
           (map (fun it => (it_arg it, sv o s (it_init it), it_ty it)) iters) rs (blk body) (map (sv o s) ys)
  | SIf c rs th thy el ely =>
      SIf (sv o s c) rs (blk th) (map (sv o s) thy) (blk el) (map (sv o s) ely)
  end.
Definition subst_block (o s : val) (b : block) : block := map (subst_stmt o s) b.

(* ---- loop level ---------------------------------------------------------------------------------------------- *)
Fixpoint index_of (v : val) (l : list val) (i : nat) : option nat :=
  match l with
  | [] => None
  | x :: l' => if Nat.eqb x v then Some i else index_of v l' (S i)
  end.

Fixpoint set_nth {A} (i : nat) (x : A) (l : list A) : list A :=
  match l, i with
  | [], _ => []
  | _ :: l', O => x :: l'
  | y :: l', S i' => y :: set_nth i' x l'
  end.

(* any(isinstance(inner_op, LaunchOp) for prev_op in previous_ops_of(op) for inner_op in prev_op.walk()):
   a launch (of any accelerator) in front of the setup, directly in the block or nested in a region
   (repaired guard, /repo fix 9047e02; before the fix only direct launches were seen) *)
Fixpoint stmt_any_launch (s : stmt) : bool :=
  let blk := fix blk (b : list stmt) : bool :=
    match b with [] => false | x :: b' => stmt_any_launch x || blk b' end in
  match s with
  | SLaunch _ _ _ _ => true
  | SFor _ _ _ _ _ _ body _ => blk body
  | SIf _ _ th _ el _ => blk th || blk el
  | _ => false
  end.
Definition has_launch_before (b : block) : bool := existsb stmt_any_launch b.

(* the rewrite of one scf.for whose body directly contains the setup [o]; returns (prologue, new loop) *)
Definition loop_overlap_for (whole : block) (o : val) (nf : nat) (s : stmt) : option (list stmt * stmt) :=
  match s with
  | SFor iv lb ub sp iters rs body ys =>
      match find_setup body o 0%nat with
      | None => None
      | Some (k, a, s_in, fs) =>
          (* a launch of the new state exists and all of them are directly in the body *)
          let nl := block_launch_users o whole in
          if Nat.eqb nl 0 || negb (Nat.eqb nl (direct_launch_users o body)) then None else
          (* the input state is the loop-carried block argument *)
          match index_of s_in (map it_arg iters) 0%nat with
          | None => None
          | Some idx =>
              if has_launch_before (firstn k body) then None else
              match scoped_inputs body (map snd fs) with
              | None => None
              | Some inputs =>
                  let ins := nth_stmts body inputs in
                  let deps := iv :: map it_arg iters in
                  (* 2. copy in front of the loop, dependent values := (lb, iter operands) *)
                  let '(pro, st_pro, nf1) := clone_scoped deps (lb :: map it_init iters) nf ins a s_in fs in
                  let iters1 := map (fun jit => if Nat.eqb (fst jit) idx
                                                then (it_arg (snd jit), st_pro, it_ty (snd jit)) else snd jit)
                                    (combine (seq 0 (List.length iters)) iters) in
                  (* 3. i + step and a copy at the end of the body, dependent values := (i+step, yield operands) *)
                  let next_i := nf1 in
                  let '(epi, st_epi, _) := clone_scoped deps (next_i :: ys) (S nf1) ins a s_in fs in
                  let ys1 := set_nth idx st_epi ys in
                  (* 4. erase the original setup, its state is replaced by the input state *)
                  let body1 := firstn k body ++ skipn (S k) body ++ [SPure next_i (PBin BAdd iv sp)] ++ epi in
                  Some (pro, SFor iv lb ub sp iters1 rs (subst_block o s_in body1) (map (sv o s_in) ys1))
              end
          end
      end
  | _ => None
  end.

Fixpoint loop_overlap_at (whole : block) (o : val) (nf : nat) (b : block) : option block :=
  match b with
  | [] => None
  | x :: b' =>
      match loop_overlap_for whole o nf x with
      | Some (pro, x') => Some (pro ++ x' :: b')
      | None => match loop_overlap_at whole o nf b' with Some r => Some (x :: r) | None => None end
      end
  end.

Definition loop_overlap (p : prog) (o : val) (nf : nat) : option prog :=
  match rw_block (loop_overlap_at (p_body p) o nf) (p_body p) with
  | Some b' => Some (mkProg (p_params p) b')
  | None => None
  end.

Definition oprog_eqb (a b : option prog) : bool :=
  match a, b with
  | Some x, Some y => prog_eqb x y
  | None, None => true
  | _, _ => false
  end.

(* ---- scoping: every operand is defined before its use ----------------------------------------------------------- *)
Definition all_in (xs : list val) (d : list val) : bool := forallb (fun x => mem_nat x d) xs.

Definition stmt_uses (s : stmt) : list val :=
  match s with
  | SPure _ e => pexp_vals e
  | SCall _ _ _ _ ar => ar
  | SSetup _ _ ins fs => match ins with Some i => [i] | None => [] end ++ map snd fs
  | SLaunch _ _ st fs => st :: map snd fs
  | SAwait _ t => [t]
  | SReset _ st => [st]
  | SFor _ lb ub sp iters _ _ _ => lb :: ub :: sp :: map it_init iters
  | SIf c _ _ _ _ _ => [c]
  end.

(* [d] = values in scope; returns the scope after the statement, None on a use before definition *)
Fixpoint scope_stmt (d : list val) (s : stmt) {struct s} : option (list val) :=
  let blk := fix blk (d : list val) (b : list stmt) {struct b} : option (list val) :=
    match b with
    | [] => Some d
    | x :: b' => match scope_stmt d x with Some d' => blk d' b' | None => None end
    end in
  if negb (all_in (stmt_uses s) d) then None else
  match s with
  | SFor iv _ _ _ iters rs body ys =>
      match blk (iv :: map it_arg iters ++ d) body with
      | Some d' => if all_in ys d' then Some (rs ++ d) else None
      | None => None
      end
  | SIf _ rs th thy el ely =>
      match blk d th, blk d el with
      | Some d1, Some d2 => if all_in thy d1 && all_in ely d2 then Some (map fst rs ++ d) else None
      | _, _ => None
      end
  | _ => Some (stmt_defs s ++ d)
  end.
Fixpoint scope_block (d : list val) (b : block) : option (list val) :=
  match b with
  | [] => Some d
  | x :: b' => match scope_stmt d x with Some d' => scope_block d' b' | None => None end
  end.
Definition wf_scope (p : prog) : bool :=
  match scope_block (p_params p) (p_body p) with Some _ => true | None => false end.

(* ---- known-finding class F4: SafeAfterLoop ------------------------------------------------------------------------
   [safe_after a fs post]: on every path through [post] (the statements after the loop) every launch of
   accelerator [a] is preceded by writes to all of the fields [fs] (or by a call that reconfigures everything). *)
Fixpoint stmt_launches (a : acc) (s : stmt) : bool :=
  let blk := fix blk (b : list stmt) : bool :=
    match b with [] => false | x :: b' => stmt_launches a x || blk b' end in
  match s with
  | SLaunch a' _ _ _ => Nat.eqb a' a
  | SFor _ _ _ _ _ _ body _ => blk body
  | SIf _ _ th _ el _ => blk th || blk el
  | _ => false
  end.

Fixpoint safe_after (a : acc) (fs : list field) (post : block) : bool :=
  match fs with
  | [] => true
  | _ =>
      match post with
      | [] => true
      | SSetup a' _ _ fvs :: r =>
          if Nat.eqb a' a then safe_after a (filter (fun f => negb (mem_nat f (map fst fvs))) fs) r
          else safe_after a fs r
      | SCall _ true _ _ _ :: _ => true
      | x :: r => negb (stmt_launches a x) && safe_after a fs r
      end
  end.

(* ---- what runs after the loop (classifier of F4 for nested loops) -------------------------------------------------
   [cont_block o b K]: if [b] (whose own continuation is [K]) contains, at any depth, the scf.for whose body
   directly holds the setup [o], the statements that can run after that loop, over-approximated as a flat
   list: the rest of its block, then — when the block is a loop body — the whole body again (next
   iteration) and what follows the enclosing construct. *)
Definition is_target_for (o : val) (s : stmt) : bool :=
  match s with
  | SFor _ _ _ _ _ _ body _ => match find_setup body o 0%nat with Some _ => true | None => false end
  | _ => false
  end.

Fixpoint cont_stmt (o : val) (s : stmt) (K : block) {struct s} : option block :=
  let blk := fix blk (b : list stmt) (K : block) {struct b} : option block :=
    match b with
    | [] => None
    | x :: b' =>
        if is_target_for o x then Some (b' ++ K)
        else match cont_stmt o x (b' ++ K) with
             | Some r => Some r
             | None => blk b' K
             end
    end in
  match s with
  | SFor _ _ _ _ _ _ body _ => blk body (body ++ K)
  | SIf _ _ th _ el _ => match blk th K with Some r => Some r | None => blk el K end
  | _ => None
  end.

Fixpoint cont_block (o : val) (b : block) (K : block) : option block :=
  match b with
  | [] => None
  | x :: b' =>
      if is_target_for o x then Some (b' ++ K)
      else match cont_stmt o x (b' ++ K) with
           | Some r => Some r
           | None => cont_block o b' K
           end
  end.

Fixpoint find_setup_deep (o : val) (s : stmt) : option (acc * list field) :=
  let blk := fix blk (b : list stmt) : option (acc * list field) :=
    match b with
    | [] => None
    | x :: b' => match find_setup_deep o x with Some r => Some r | None => blk b' end
    end in
  match s with
  | SSetup a o' _ fs => if Nat.eqb o' o then Some (a, map fst fs) else None
  | SFor _ _ _ _ _ _ body _ => blk body
  | SIf _ _ th _ el _ => match blk th with Some r => Some r | None => blk el end
  | _ => None
  end.
Fixpoint find_setup_block (o : val) (b : block) : option (acc * list field) :=
  match b with
  | [] => None
  | x :: b' => match find_setup_deep o x with Some r => Some r | None => find_setup_block o b' end
  end.

(* SafeAfterLoop for the loop rewrite of setup [o] in program [p] *)
Definition safe_after_loop (p : prog) (o : val) : bool :=
  match find_setup_block o (p_body p), cont_block o (p_body p) [] with
  | Some (a, fs), Some K => safe_after a fs K
  | _, _ => true
  end.
