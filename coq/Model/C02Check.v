(* C02 — executable comparison helpers used by the L1 cases files (no proofs). *)
From Snax Require Import Base.Prelude Base.ListAux Model.C02Stream Model.C02GenCanon.

Definition zl_eqb := list_eqb Z.eqb.
Definition sp_eqb (a b : spattern) : bool :=
  zl_eqb (sp_ub a) (sp_ub b) && zl_eqb (sp_ts a) (sp_ts b) && zl_eqb (sp_ss a) (sp_ss b).
Definition cerr_eqb (a b : cerr) : bool :=
  match a, b with
  | EStop, EStop | EAssert, EAssert | EZeroDiv, EZeroDiv | ENonContig, ENonContig | ENotImpl, ENotImpl => true
  | _, _ => false end.

(* layout resolution: (layout, element bytes, schedule A, b, #dims, real strides) *)
Definition chk_resolve (c : mlayout * Z * list (list Z) * list Z * nat * list Z) : bool :=
  match c with (l, e, A, b, n, want) => zl_eqb (resolve (access_mem l e A b) n) want end.

Definition chk_resolve_base (c : mlayout * Z * list (list Z) * list Z * nat * Z) : bool :=
  match c with (l, e, A, b, n, want) => resolve_base (access_mem l e A b) n =? want end.

(* one operand of a conversion: (has_broadcast, spatial dims, strides, bounds, relevance mask) *)
Definition operand := (bool * list Z * list Z * list Z * list bool)%type.
Definition conv_operand (o : operand) : res spattern :=
  match o with (bc, spats, strides, bounds, rel) => to_pattern bc spats (relevant_dims strides bounds rel) end.
Fixpoint conv_all (os : list operand) : res (list spattern) :=
  match os with
  | [] => Ok []
  | o :: r => match conv_operand o with
              | Err e => Err e
              | Ok p => match conv_all r with Err e => Err e | Ok ps => Ok (p :: ps) end
              end
  end.
Definition res_eqb (a b : res (list spattern)) : bool :=
  match a, b with
  | Ok x, Ok y => list_eqb sp_eqb x y
  | Err e, Err f => cerr_eqb e f
  | _, _ => false end.
(* raw conversion result of the whole op *)
Definition chk_convert (c : list operand * res (list spattern)) : bool := res_eqb (conv_all (fst c)) (snd c).
(* final patterns when the accelerator does not customise them: canonicalize *)
Definition chk_final (c : list operand * list spattern) : bool :=
  match conv_all (fst c) with
  | Ok ps => list_eqb (fun a b => match a, b with Some x, Some y => sp_eqb x y | _, _ => false end)
                      (map gen_canonicalize ps) (map Some (snd c))
  | Err _ => false end.
(* the Safe predicate against its harness mirror *)
Definition chk_okb (c : Z * operand * bool) : bool :=
  match c with (e, (bc, spats, strides, bounds, rel), want) =>
    Bool.eqb (convert_okb e spats (relevant_dims strides bounds rel)) want end.
(* the theorem's statement itself evaluated on a case (sanity net for the tie) *)
Definition chk_stream (c : Z * operand) : bool :=
  match c with (e, (bc, spats, strides, bounds, rel)) =>
    let dims := relevant_dims strides bounds rel in
    match to_pattern bc spats dims with
    | Ok p => negb (convert_okb e spats dims)
              || zl_eqb (byte_stream TCDM (pattern_words p spats)) (byte_stream e (nest dims))
    | Err _ => true end end.

(* gemmx set_stride_patterns: (kind, serializer ratio, streamers[2].spatial_dims[-1], raw patterns, real result) *)
From Snax Require Import Model.C02Gemmx.
Definition slot_eqb (a b : spattern * src) : bool := sp_eqb (fst a) (fst b) && src_eqb (snd a) (snd b).
Definition chk_custom (c : gkind * Z * Z * list spattern * option (list (spattern * src))) : bool :=
  match c with
  | (k, ser, sd2, ps, want) =>
      match gemmx_customise k ser sd2 ps, want with
      | Some a, Some b => list_eqb slot_eqb a b
      | None, None => true
      | _, _ => false end
  end.

(* xDMA set_stride_patterns: (extension kind, raw patterns, real result) *)
From Snax Require Import Model.C02Xdma.
Definition chk_xcustom (c : xkind * list spattern * option (list (spattern * src))) : bool :=
  match c with
  | (k, ps, want) =>
      match xdma_customise k ps, want with
      | Some a, Some b => list_eqb slot_eqb a b
      | None, None => true
      | _, _ => false end
  end.

(* decidable form of the Safe class `linear_on_box` (proved equivalent in Proofs/C02LinearProofs.v):
   the unit-response coefficients reproduce f on every point of the box *)
From Snax Require Model.Tsl.
Definition linear_on_boxb (f : list Z -> Z) (bounds : list Z) : bool :=
  let n := List.length bounds in
  forallb (fun x => f x =? f (zero_vec n) + dot (resolve f n) x) (Tsl.row_major bounds).
(* (layout, element bytes, schedule A, b, bounds, the harness classifier's verdict on the real maps) *)
Definition chk_linb (c : mlayout * Z * list (list Z) * list Z * list Z * bool) : bool :=
  match c with (l, e, A, b, bounds, want) => Bool.eqb (linear_on_boxb (access_mem l e A b) bounds) want end.
