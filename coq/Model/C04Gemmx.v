(* C04 — SNAXGEMMXAccelerator.lower_acc_launch, channel-wise rescale path (launch op carries the attributes
   m / mult_vals / shift_vals): M and temporal_loop_bound are overwritten, the streamer is launched once, and
   per group of n output channels the shift / mult CSRs are reprogrammed, the gemm core launched and awaited.
   Executable definitions only. *)
From Snax Require Import Base.Prelude Model.AccIR Model.AccSem Model.C04Csr.

Record gx := mkGx {
  gx_n : Z;                         (* self.n *)
  gx_M : field; gx_tlb : field;     (* "M", "temporal_loop_bound" *)
  gx_shift : list field;            (* shift_0, shift_1, ... *)
  gx_mult : list field;             (* mult_0, ... *)
  gx_lgemmx : field; gx_lstreamer : field;   (* launch fields *)
  gx_barrier_default : Z }.         (* barrier of self.generate_acc_op() (the registered instance) *)

Fixpoint chunks {A} (fuel : nat) (k : nat) (l : list A) : list (list A) :=
  match fuel with
  | O => []
  | S f => match l with [] => [] | _ => firstn k l :: chunks f k (skipn k l) end
  end.

(* pack_bitlist(vals[::-1], (24, 16, 8, 0)); zip(strict=True) needs exactly four values *)
Definition pack4 (l : list Z) : option Z :=
  match rev l with
  | [a; b; c; d] => Some (Z.lor (Z.lor (Z.shiftl a 24) (Z.shiftl b 16)) (Z.lor (Z.shiftl c 8) (Z.shiftl d 0)))
  | _ => None
  end.

Fixpoint opt_all {A} (l : list (option A)) : option (list A) :=
  match l with
  | [] => Some []
  | Some x :: r => match opt_all r with Some xs => Some (x :: xs) | None => None end
  | None :: _ => None
  end.

Definition write_list (tbl : list (field * Z)) (fs : list field) (vs : list Z) : option cblock :=
  opt_all (map (fun fv => match assoc (fst fv) tbl with Some a => Some (CWrite a (VConst (snd fv))) | None => None end)
               (combine fs vs)).

Definition gemmx_launch_special (g : gx) (ai : accinfo) (m_attr : Z) (mults shifts : list Z)
           (fs : list (field * val)) : option cblock :=
  let n := Z.to_nat (gx_n g) in
  let groups := (List.length mults / n)%nat in
  match assoc (gx_lgemmx g) (ai_launch ai), assoc (gx_lstreamer g) (ai_launch ai),
        assoc (gx_M g) (ai_fields ai), assoc (gx_tlb g) (ai_fields ai),
        assoc (gx_lstreamer g) (map (fun fv => (fst fv, Z.of_nat (snd fv))) fs),
        assoc (gx_lgemmx g) (map (fun fv => (fst fv, Z.of_nat (snd fv))) fs) with
  | Some a_g, Some a_s, Some a_m, Some a_t, Some vs, Some vg =>
      let new_m := m_attr / Z.of_nat groups in
      let per_group := fun i : nat =>
        let sh := firstn n (skipn (i * n) shifts) in
        let mu := firstn n (skipn (i * n) mults) in
        match opt_all (map pack4 (chunks (S (List.length sh)) 4 sh)) with
        | None => None
        | Some packed =>
            if Nat.ltb (List.length (gx_shift g)) (List.length packed) || Nat.ltb (List.length (gx_mult g)) (List.length mu)
            then None else
            match write_list (ai_fields ai) (gx_shift g) packed, write_list (ai_fields ai) (gx_mult g) mu with
            | Some ws, Some wm =>
                Some (ws ++ wm ++ [CWrite a_g (VRef (Z.to_nat vg)); CPoll (gx_barrier_default g) 0 0])
            | _, _ => None
            end
        end in
      match opt_all (map per_group (seq 0 groups)) with
      | Some gs => Some ([CWrite a_m (VConst new_m); CWrite a_t (VConst new_m); CWrite a_s (VRef (Z.to_nat vs))]
                         ++ concat gs)
      | None => None
      end
  | _, _, _, _, _, _ => None
  end.
