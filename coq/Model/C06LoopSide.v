(* C06 — the loop rule as a plan (all components loop_overlap_for builds) and the decidable side condition under
   which Proofs/C06LoopGenProofs.v proves that the rewritten loop is related to the original one. *)
From Snax Require Import Base.Prelude Model.AccIR Model.AccSem Model.AccWeave Model.AccRules.
From Snax Require Import Model.C06Overlap Model.C06BlockSide.

Record lplan := mkLPlan {
  lp_k : nat; lp_a : acc; lp_sin : val; lp_fs : list (field * val); lp_idx : nat; lp_inputs : list nat;
  lp_pro : list stmt; lp_stpro : val; lp_nf1 : nat; lp_epi : list stmt; lp_stepi : val; lp_nfe : nat }.

Definition loop_plan (whole : block) (o : val) (nf : nat) (s : stmt) : option lplan :=
  match s with
  | SFor iv lb ub sp iters rs body ys =>
      match C06Overlap.find_setup body o 0%nat with
      | None => None
      | Some (k, a, s_in, fs) =>
          let nl := block_launch_users o whole in
          if Nat.eqb nl 0 || negb (Nat.eqb nl (direct_launch_users o body)) then None else
          match index_of s_in (map it_arg iters) 0%nat with
          | None => None
          | Some idx =>
              if has_launch_before (firstn k body) then None else
              match scoped_inputs body (map snd fs) with
              | None => None
              | Some inputs =>
                  let ins := nth_stmts body inputs in
                  let deps := iv :: map it_arg iters in
                  let '(pro, st_pro, nf1) := clone_scoped deps (lb :: map it_init iters) nf ins a s_in fs in
                  let '(epi, st_epi, nfe) := clone_scoped deps (nf1 :: ys) (S nf1) ins a s_in fs in
                  Some (mkLPlan k a s_in fs idx inputs pro st_pro nf1 epi st_epi nfe)
              end
          end
      end
  | _ => None
  end.

Definition iters1_of (iters : list (val * val * ty)) (idx : nat) (st_pro : val) : list (val * val * ty) :=
  map (fun jit => if Nat.eqb (fst jit) idx then (it_arg (snd jit), st_pro, it_ty (snd jit)) else snd jit)
      (combine (seq 0 (List.length iters)) iters).

Definition build_loop (o : val) (s : stmt) (pl : lplan) : option (list stmt * stmt) :=
  match s with
  | SFor iv lb ub sp iters rs body ys =>
      let body1 := firstn (lp_k pl) body ++ skipn (S (lp_k pl)) body
                   ++ [SPure (lp_nf1 pl) (PBin BAdd iv sp)] ++ lp_epi pl in
      Some (lp_pro pl,
            SFor iv lb ub sp (iters1_of iters (lp_idx pl) (lp_stpro pl)) rs
                 (subst_block o (lp_sin pl) body1)
                 (map (sv o (lp_sin pl)) (set_nth (lp_idx pl) (lp_stepi pl) ys)))
  | _ => None
  end.

(* flat statements: no nested regions *)
Definition is_flat (s : stmt) : bool :=
  match s with SFor _ _ _ _ _ _ _ _ | SIf _ _ _ _ _ _ => false | _ => true end.
(* the integer positions a flat statement reads *)
Definition flat_reads (s : stmt) : list val :=
  match s with
  | SPure _ e => pexp_vals e
  | SCall _ _ _ _ ar => ar
  | SSetup _ _ _ fs => map snd fs
  | SLaunch _ _ _ fs => map snd fs
  | _ => []
  end.

Definition ops_ofb (l : list stmt) : list val :=
  flat_map (fun s => match s with SPure d e => d :: pexp_vals e | _ => [] end) l.

Fixpoint nodupb (l : list nat) : bool :=
  match l with [] => true | x :: r => negb (mem_nat x r) && nodupb r end.

(* (src1, key, src2): equal sources outside F, or the key is an id of F *)
Definition two_okb (F : list val) (t : val * val * val) : bool :=
  (Nat.eqb (fst (fst t)) (snd t) && negb (mem_nat (snd t) F)) || mem_nat (snd (fst t)) F.

Definition loop_side_ok (F : list val) (o : val) (nf : nat) (s : stmt) (pl : lplan) : bool :=
  match s with
  | SFor iv lb ub sp iters rs body ys =>
      let k := lp_k pl in let a := lp_a pl in let fs := lp_fs pl in
      let ins := firstn k body in let rest := skipn (S k) body in
      let bargs := map it_arg iters in let inits := map it_init iters in
      let X := ops_ofb ins ++ map snd fs in
      let nf1 := lp_nf1 pl in
      let ys' := map (sv o (lp_sin pl)) (set_nth (lp_idx pl) (lp_stepi pl) ys) in
      let inits' := map it_init (iters1_of iters (lp_idx pl) (lp_stpro pl)) in
      list_eqb Nat.eqb (lp_inputs pl) (seq 0 k) && Nat.leb k (List.length body)
      && forallb (fun x => match x with SPure _ _ => true | _ => false end) ins
      && forallb is_flat rest
      (* the erased state is read nowhere as an integer *)
      && forallb (fun x => negb (mem_nat o (flat_reads x))) body && negb (Nat.eqb o iv) && negb (Nat.eqb o sp)
      && forallb (reads_offb F) rest
      && noneb X F && forallb (fun v => Nat.ltb v nf) X && forallb (fun v => Nat.ltb v nf) ys
      && forallb (fun x => mem_nat x F) (seq nf (lp_nfe pl - nf))
      (* the prologue: everything it reads is below nf; its fresh ids are in F *)
      && forallb (fun v => Nat.ltb v nf) (lb :: inits)
      && negb (mem_nat iv F) && negb (mem_nat iv (block_binds (ins ++ rest))) && negb (mem_nat iv bargs)
      && negb (mem_nat sp F) && negb (mem_nat sp (block_binds (ins ++ rest))) && negb (mem_nat sp bargs) && negb (Nat.eqb sp iv)
      && negb (mem_nat lb F) && negb (mem_nat ub F)
      && Nat.eqb (List.length ys) (List.length bargs) && nodupb bargs
      && forallb (two_okb F) (combine (combine ys bargs) ys')
      && forallb (two_okb F) (combine (combine inits bargs) inits')
      && forallb (fun ka => bind_okb F (fst ka) (snd ka)) (combine rs bargs)
      (* dependent values occurring in the chain are integers: yields / operands outside F *)
      && forallb (fun t => negb (mem_nat (fst t) X) || negb (mem_nat (snd t) F)) (combine bargs ys)
      && forallb (fun t => negb (mem_nat (fst t) X) || negb (mem_nat (snd t) F)) (combine bargs inits)
      (* the clone at the end of the body is flat and does not read the erased state either *)
      && forallb is_flat (lp_epi pl) && forallb (fun x => negb (mem_nat o (flat_reads x))) (lp_epi pl)
  | _ => false
  end.

(* ---- program level: the loop sits directly in the function body ---------------------------------------------------- *)
From Snax Require Import Model.C04Csr.

Fixpoint split_loop (whole : block) (o : val) (nf : nat) (b : block) : option (block * stmt * block * lplan) :=
  match b with
  | [] => None
  | x :: b' =>
      match loop_plan whole o nf x with
      | Some pl => Some ([], x, b', pl)
      | None => match split_loop whole o nf b' with
                | Some (pre, y, post, pl) => Some (x :: pre, y, post, pl)
                | None => None
                end
      end
  end.

(* the ids on which the two runs may differ: the fresh ids of the rewrite and the state / token values (ghosts) *)
Definition loop_F (p : prog) (nf : nat) (pl : lplan) : list val :=
  seq nf (lp_nfe pl - nf) ++ block_state_ids (p_body p).

Definition loop_overlap_side_ok (p : prog) (o : val) (nf : nat) : bool :=
  match split_loop (p_body p) o nf (p_body p) with
  | Some (pre, x, post, pl) =>
      let F := loop_F p nf pl in
      loop_side_ok F o nf x pl
      && forallb (reads_offb F) pre && forallb (reads_offb F) post
      && safe_after (lp_a pl) (map fst (lp_fs pl)) post
  | None => false
  end.

(* the part that does not depend on what follows the loop (used for the statistics of the check) *)
Definition loop_inside_side_ok (p : prog) (o : val) (nf : nat) : bool :=
  match split_loop (p_body p) o nf (p_body p) with
  | Some (pre, x, post, pl) =>
      let F := loop_F p nf pl in
      loop_side_ok F o nf x pl && forallb (reads_offb F) pre
  | None => false
  end.
