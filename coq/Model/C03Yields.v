(* The derivations of scheduler_backtrack as an inductive relation (specification-side
   definition, no proofs): [yields matcher checks T k s r] says that the call
   scheduler_backtrack(T, s, k, checks) can yield r.  Proofs/C03BacktrackProofs.v shows that every
   schedule yielded by the executable model [bt] has such a derivation; the C03 and C16 theorems
   are inductions over it. *)
From Snax Require Import Base.Prelude Base.ListAux Model.C03Schedule.

Section Yields.
  Variable matcher : tmpl -> sched -> bool.
  Variable checks : list (tmpl -> sched -> bool).
  Variable T : tmpl.

  (* the three checks of one loop iteration on the rotated schedule s1 *)
  Definition accepted (k : nat) (s1 : sched) (tb : option Z) (sb : Z) : Prop :=
    exists sc tc, s_inner k s1 = Some sc /\ t_inner k T = Some tc /\ matcher tc sc = true /\
      forallb (fun c => c tc sc) checks = true /\
      template_bound T k = Some tb /\ schedule_bound s1 k = Some sb.

  Inductive yields : nat -> sched -> sched -> Prop :=
  | Y_done k s n : c_ndims s = Some n -> (n < k)%nat -> yields k s s
  | Y_skip k s n s1 r : c_ndims s = Some n -> (k <= n)%nat ->
      s_rotate (n + 1 - k) s = Some s1 -> yields k s1 r -> yields k s r
  | Y_take k s n s1 tb sb r : c_ndims s = Some n -> (k <= n)%nat ->
      s_rotate (n + 1 - k) s = Some s1 -> accepted k s1 tb sb ->
      (truthy tb = true -> forall t, tb = Some t -> sb <= t) ->
      yields (S k) s1 r -> yields k s r
  | Y_tile k s n s1 t sb c r : c_ndims s = Some n -> (k <= n)%nat ->
      s_rotate (n + 1 - k) s = Some s1 -> accepted k s1 (Some t) sb ->
      t <> 0 -> t < sb -> sb mod t = 0 -> s_tile (n - k) t s1 = Some c ->
      yields (S k) c r -> yields k s r.
End Yields.
