"""Run the (T) generators of every property plugin (used by setup.sh)."""
import importlib
import pkgutil
import sys
import traceback

import vlib

vlib.setup_impl_path()
import props  # noqa: E402

rc = 0
for m in sorted(pkgutil.iter_modules(props.__path__), key=lambda m: m.name):
    mod = importlib.import_module(f"props.{m.name}")
    if hasattr(mod, "generate"):
        try:
            mod.generate(vlib.Ctx(mod.PROPERTY, "quick"))
            print("generated", m.name)
        except Exception:
            traceback.print_exc()
            rc = 1
sys.exit(rc)
