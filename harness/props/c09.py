"""C09 — chosen memory layouts are one-to-one on the operand.

(H) hand model coq/Model/C09SetLayout.v of snaxc/transforms/set_memory_layout.py; L1: the real
`set-memory-layout{tiled=…}` pass is run in-process on generated `dart.schedule` ops and the TSL layouts of
the inserted snax.layout_cast ops are compared exactly with the model; L2: on the implementation's layouts
only (no model): the address map has no duplicates on the operand's index box and the tile bounds multiply
to the operand shape.
"""
from __future__ import annotations

import itertools

import vlib
from vlib import boollit, coqlist, optz, zlist, zlit

PROPERTY = "C09"
MODEL_TARGETS = ["Model/C09SetLayout.vo"]
RULE = ("dart.schedule ops on snax_alu (1 spatial dim) / snax_gemmx matmul (3) / snax_gemmx rescale (2); 1-6 schedule "
        "dims with bounds from {1,2,3,4,5,8,16}; operands of rank 1-4 whose rows are built from families: tiled "
        "(8*d_i + d_j), convolution (d_i + d_j), strided, broadcast (unaccessed dim), reduction (unused schedule dim), "
        "diagonal, random coefficients (rarely negative); shapes: exact image size, multiples, non-multiples of the "
        "bounds, 1; element widths 8/16/32/64 mixed per operand; both tiled=true/false; some operands carry an explicit "
        "TSL or strided layout. Non-trivial = operand with >= 2 accessed dims or a tiled dim; distinct = distinct "
        "(accelerator, tiled, bounds, operand) tuples")
TRUSTED_BASE = [
    "Coq 8.16.1 kernel + vm_compute (no native_compute)",
    "hand models coq/Model/C09SetLayout.v (set_memory_layout.py) and coq/Model/Tsl.v (TSL classes), tied by L1 (this harness)",
    "harness/props/c09.py generators, dart.schedule IR-text builder, Coq-literal printer; harness/xdsl_compat.py; "
    "xDSL 0.70 Parser / PatternRewriteWalker / AffineMap.eval; numpy",
]
ASSUMPTIONS = [
    "spatial_dims (accelerator template rank) and the element bitwidth are inputs of the model; the accelerator "
    "templates themselves are not modelled",
    "theorems quantify over schedules with positive bounds and operands with positive static shape "
    "(dynamic / zero-sized dims are the recorded finding class nonpositive_shape_dim)",
    "the theorems are about the repaired fill-up (/repo fix: set-memory-layout covers ...); the behaviour before the "
    "repair is kept as assign_layout_old with its refutation",
]

_CTX = None


def xctx():
    global _CTX
    if _CTX is None:
        from snaxc.tools.snax_opt_main import SNAXOptMain
        _CTX = SNAXOptMain(args=[str(vlib.REPO / "tests/filecheck/transforms/set-memory-layout.mlir")]).ctx
    return _CTX


# ------------------------------------------------------------------ IR text
ACCS = {"alu": ("snax_alu", 1, 3), "gemmx_mac": ("snax_gemmx", 3, 3), "gemmx_rescale": ("snax_gemmx", 2, 2)}


def amap(ndims, rows):
    ds = ", ".join(f"d{i}" for i in range(ndims))

    def expr(row):
        terms = [(f"d{j} * {c}" if c != 1 else f"d{j}") for j, c in enumerate(row) if c != 0]
        return " + ".join(terms) if terms else "0"
    return f"affine_map<({ds}) -> ({', '.join(expr(r) for r in rows)})>"


def mty(shape, el, layout=None):
    s = "x".join("?" if n is None else str(n) for n in shape)
    lay = f", {layout}" if layout else ""
    return f'memref<{s}x{el}{lay}, "L1">'


def schedule_text(acc, bounds, ops):
    """ops: list of dicts {shape, bw, rows, layout(str|None)}"""
    n = len(bounds)
    accn, _, nops = ACCS[acc]
    assert len(ops) == nops
    els = [f"i{o['bw']}" for o in ops]
    tys = [mty(o["shape"], e, o.get("layout")) for o, e in zip(ops, els)]
    args = ", ".join(f"%arg{i} : {t}" for i, t in enumerate(tys))
    pats = ", ".join(amap(n, o["rows"]) for o in ops)
    bs = ", ".join(f"{b} : index" for b in bounds)
    st = ", ".join(f"%s{i} : !dart.stream<{e}>" for i, e in enumerate(els))
    if acc in ("gemmx_mac", "alu"):
        kern = "kernel.mac" if acc == "gemmx_mac" else "kernel.add"
        body = (f'%g = "dart.generic"(%s0, %s1) <{{library_call = "{accn}"}}> ({{\n'
                f'^bb1(%x0 : {els[0]}, %x1 : {els[1]}, %x2 : {els[2]}):\n'
                f'  %m = {kern} %x0, %x1 : {els[0]}, {els[1]} -> {els[2]}\n  dart.yield %m : {els[2]}\n'
                f'}}) : (!dart.stream<{els[0]}>, !dart.stream<{els[1]}>) -> !dart.stream<{els[2]}>')
    else:
        body = (f'%g = "dart.generic"(%s0) <{{library_call = "{accn}"}}> ({{\n'
                f'^bb1(%x0 : {els[0]}, %x1 : {els[1]}):\n'
                f'  %m = kernel.rescale %x0 {{input_zp = 0 : i32, output_zp = 0 : i32, multiplier = array<i32: 1>, '
                f'shift = array<i32: 1>, max_int = 127 : i32, min_int = -128 : i32, double_round = true}} : ({els[0]}) -> {els[1]}\n'
                f'  dart.yield %m : {els[1]}\n'
                f'}}) : (!dart.stream<{els[0]}>) -> !dart.stream<{els[1]}>')
    return (f'func.func @f({args}) {{\n'
            f'"dart.schedule"({", ".join(f"%arg{i}" for i in range(nops))}) <{{patterns = [{pats}], accelerator = "{accn}", '
            f'tiles = [[]], bounds = [{bs}], operandSegmentSizes = array<i32: {nops - 1}, 1>}}> ({{\n'
            f'^bb0({st}):\n{body}\ndart.yield %g : !dart.stream<{els[-1]}>\n'
            f'}}) : ({", ".join(tys)}) -> ()\nfunc.return\n}}')


def run_pass(acc, bounds, ops, tiled):
    """-> None (no rewrite) | list of (tstrides [[(step,bound)]], offset) per operand"""
    from xdsl.parser import Parser
    from snaxc.dialects.snax import LayoutCast
    from snaxc.transforms.set_memory_layout import SetMemoryLayout
    mod = Parser(xctx(), schedule_text(acc, bounds, ops)).parse_module()
    SetMemoryLayout(tiled=tiled).apply(xctx(), mod)
    casts = [op for op in mod.walk() if isinstance(op, LayoutCast)]
    if not casts:
        return None
    # the casts must feed the schedule operands in order
    sched = [op for op in mod.walk() if op.name == "dart.schedule"][0]
    assert [c.dest for c in casts] == list(sched.operands), "layout casts do not feed the schedule operands in order"
    out = []
    for c in casts:
        lay = c.dest.type.layout.data
        out.append(([[(s.step, s.bound) for s in t.strides] for t in lay.tstrides], lay.offset))
    return out


# ------------------------------------------------------------------ generator
BOUNDS = [1, 2, 2, 3, 4, 4, 5, 8, 8, 16]


def gen_rows(rng, n, bounds):
    """rows of one operand (rank x n) + shape"""
    rank = rng.choice([1, 2, 2, 2, 3, 3, 4])
    free = list(range(n))
    rng.shuffle(free)
    rows = [[0] * n for _ in range(rank)]
    for d in range(rank):
        fam = rng.choice(["single", "single", "tiled", "tiled", "conv", "strided", "broadcast", "random", "diag"])
        if fam == "broadcast" or not free:
            continue
        if fam == "single":
            rows[d][free.pop()] = 1
        elif fam == "tiled" and len(free) >= 2:
            i, j = free.pop(), free.pop()
            rows[d][j] = 1
            rows[d][i] = bounds[j] if rng.random() < 0.85 else rng.choice([2, 4, 8])
            if free and rng.random() < 0.2:   # conv on top of tiling: 8*d_i + d_j + d_k
                rows[d][free.pop()] = 1
        elif fam == "conv" and len(free) >= 2:
            rows[d][free.pop()] = 1
            rows[d][free.pop()] = 1
        elif fam == "strided":
            rows[d][free.pop()] = rng.choice([2, 3, 4])
            if free and rng.random() < 0.5:
                rows[d][free.pop()] = 1
        elif fam == "diag" and d > 0:
            js = [j for j in range(n) if rows[d - 1][j] != 0]
            if js:
                rows[d][rng.choice(js)] = 1
            elif free:
                rows[d][free.pop()] = 1
        else:
            for _ in range(rng.choice([1, 2, 3])):
                if free:
                    rows[d][free.pop()] = rng.choice([1, 1, 2, 3, 4, 6, 8, 16, -1])
    shape = []
    for d in range(rank):
        image = 1 + sum(abs(c) * (b - 1) for c, b in zip(rows[d], bounds))
        r = rng.random()
        if r < 0.6:
            shape.append(image)
        elif r < 0.75:
            shape.append(image * rng.choice([2, 3, 4]))
        elif r < 0.9:
            shape.append(max(1, image + rng.choice([-3, -1, 1, 2, 5, 7])))
        elif r < 0.95:
            shape.append(1)
        else:
            shape.append(rng.choice([6, 12, 18, 24, 36, 64]))
    return rows, shape


def gen_case(rng, edge=False):
    acc = rng.choice(["alu", "alu", "gemmx_mac", "gemmx_mac", "gemmx_rescale"])
    n = rng.choice([1, 2, 2, 3, 3, 4, 4, 5, 6])
    bounds = [rng.choice(BOUNDS) for _ in range(n)]
    ops = []
    for _ in range(ACCS[acc][2]):
        rows, shape = gen_rows(rng, n, bounds)
        ops.append({"shape": shape, "bw": rng.choice([8, 8, 16, 32, 32, 64]), "rows": rows, "layout": None})
    r = rng.random()
    if r < 0.06:      # an operand with an explicit TSL layout: the pass must not rewrite anything
        o = rng.choice(ops)
        o["layout"] = "#tsl.tsl<" + ", ".join(f"[{s}] -> ({rng.choice([1, 4, 64])})" for s in o["shape"]) + ">"
        o["tsl"] = True
    elif r < 0.10:    # an explicit strided layout is not a TSL layout: rewritten like any other operand
        o = rng.choice(ops)
        st, acc_ = [], 1
        for s in reversed(o["shape"]):
            st.insert(0, acc_)
            acc_ *= s
        o["layout"] = f"strided<[{', '.join(map(str, st))}]>"
    if edge:
        o = rng.choice(ops)
        d = rng.randrange(len(o["shape"]))
        o["shape"][d] = rng.choice([None, 0])
    tiled = rng.random() < 0.6
    return acc, bounds, ops, tiled


def nontrivial(o):
    acc = sum(1 for row in o["rows"] if any(row))
    return acc >= 2 or any(sum(1 for c in row if c) >= 2 for row in o["rows"])


# ------------------------------------------------------------------ Coq literals
def coq_stride(sb):
    return f"({optz(sb[0])}, {optz(sb[1])})"


def coq_layout(ts, off):
    return "(mkLayout " + coqlist(coqlist(coq_stride(sb) for sb in t) for t in ts) + " " + optz(off) + ")"


DYN = -9223372036854775808


def shape_ints(shape):
    from xdsl.dialects.builtin import DYNAMIC_INDEX
    return [DYNAMIC_INDEX if s is None else s for s in shape]


def coq_operand(o):
    lay = "(Some (mkLayout [] (Some 0%Z)))" if o.get("tsl") else "None"
    return f"(mkOperand {zlist(shape_ints(o['shape']))} {zlit(o['bw'])} {lay} {vlib.zlistlist(o['rows'])})"


def coq_result(res):
    if res is None:
        return "None"
    return "(Some " + coqlist(coq_layout(ts, off) for ts, off in res) + ")"


# ------------------------------------------------------------------ finding classes
def classify(bounds, o):
    shape = shape_ints(o["shape"])
    if any(s <= 0 for s in shape):
        return "nonpositive_shape_dim"
    return None


# ------------------------------------------------------------------ L1
def correspondence(ctx):
    rng = ctx.rng
    n = ctx.n(240, 6000)
    cases, meta, crashed = [], [], []
    for i in range(n):
        acc, bounds, ops, tiled = gen_case(rng, edge=(i % 25 == 24))
        try:
            res = run_pass(acc, bounds, ops, tiled)
        except Exception as e:
            # the model is total: a crash of the pass on an input of the theorems' domain (positive static
            # shapes) is a disagreement; on the finding class nonpositive_shape_dim it is only noted
            ctx.notes.append(f"set-memory-layout raised {e!r} on {acc} {bounds} {ops}")
            if all(classify(bounds, o) is None for o in ops):
                crashed.append({"name": "L1:set-memory-layout-crash", "error": repr(e)[:300],
                                "case": {"acc": acc, "tiled": tiled, "bounds": bounds, "ops": ops}})
            continue
        spatial = ACCS[acc][1]
        cases.append(f"({boollit(tiled)}, {zlit(spatial)}, {zlist(bounds)}, {coqlist(coq_operand(o) for o in ops)}, {coq_result(res)})")
        meta.append({"acc": acc, "tiled": tiled, "bounds": bounds, "ops": ops, "impl": res})
        for k, o in enumerate(ops):
            ctx.count({"acc": acc, "tiled": tiled, "bounds": bounds, "operand": o, "layout": None if res is None else res[k]},
                      nontrivial(o), f"{acc}{tiled}{bounds}{o}", f"{acc}:{'tiled' if tiled else 'flat'}")
    shards = []
    per = 80
    for a in range(0, len(cases), per):
        text = ["From Snax Require Import Base.Prelude Model.Tsl Model.C09SetLayout.",
                "Definition res_eqb (a b : option (list layout)) : bool := match a, b with Some x, Some y => list_eqb layout_eqb x y | None, None => true | _, _ => false end.",
                f"Definition cases : list (bool * Z * list Z * list operand * option (list layout)) := {coqlist(cases[a:a + per])}.",
                "Eval vm_compute in failing (fun c => match c with (t, sp, b, ops, r) => res_eqb (rewrite_schedule t sp b ops) r end) cases.",
                ]
        shards.append("\n".join(text) + "\n")
    outs = vlib.coq_eval_many("c09_", shards, timeout=600)
    dis = list(crashed)
    for si, (ok, out) in enumerate(outs):
        lists = vlib.parse_all_eval_lists(out)
        if not ok or len(lists) != 1:
            return [{"name": "cases-file", "detail": out[-2000:]}]
        for idx in lists[0]:
            dis.append({"name": "L1:set-memory-layout", "case": meta[si * per + idx], "coq_case": cases[si * per + idx][:800]})
    return dis


# ------------------------------------------------------------------ L2
def _prod(xs):
    r = 1
    for x in xs:
        r *= x
    return r


def check_layout(shape, ts, off, cap=5000):
    """the property on one produced layout; -> list of (what, detail)"""
    from snaxc.dialects.tsl import TiledStridedLayoutAttr
    from snaxc.ir.tsl import Stride, TiledStride, TiledStridedLayout
    fails = []
    lay = TiledStridedLayout([TiledStride([Stride(s, b) for (s, b) in t]) for t in ts], offset=off)
    tb = [_prod(b for (_, b) in t) for t in ts]
    if any(b is None or b <= 0 or s is None or s <= 0 for t in ts for (s, b) in t):
        fails.append(("nonpositive_stride", {"layout": str(lay)}))
        return fails
    if tb != list(shape):
        fails.append(("not_covering", {"tile_bound_products": tb, "shape": list(shape), "layout": str(lay)}))
    if _prod(tb) <= cap:
        av = [int(x) for x in lay.all_values()]
        if len(set(av)) != len(av):
            fails.append(("layout_self_overlap", {"layout": str(lay)}))
    if all(s > 0 for s in shape) and _prod(shape) <= cap:
        m = TiledStridedLayoutAttr(lay).get_affine_map()
        seen = {}
        for p in itertools.product(*[range(s) for s in shape]):
            a = m.eval(list(p), [])[0]
            if a in seen:
                fails.append(("two_elements_one_address", {"idx_a": list(seen[a]), "idx_b": list(p), "address": a, "layout": str(lay)}))
                break
            seen[a] = p
    if off != 0:
        fails.append(("nonzero_offset", {"offset": off}))
    return fails


def check_case(acc, bounds, ops, tiled):
    fails = []
    res = run_pass(acc, bounds, ops, tiled)
    has_tsl = any(o.get("tsl") for o in ops)
    if has_tsl:
        if res is not None:
            fails.append({"what": "explicit_layout_touched", "klass": None, "detail": {}})
        return fails
    if res is None:
        return [{"what": "no_layout_assigned", "klass": None, "detail": {}}]
    for k, (o, (ts, off)) in enumerate(zip(ops, res)):
        for what, detail in check_layout(shape_ints(o["shape"]), ts, off):
            fails.append({"what": what, "operand": k, "klass": classify(bounds, o), "detail": detail})
    return fails


def search(ctx, deep=False):
    rng = ctx.rng
    n = ctx.n(300, 4000) * (3 if deep else 1)
    fails = []
    for i in range(n):
        acc, bounds, ops, tiled = gen_case(rng, edge=(i % 40 == 39))
        try:
            fs = check_case(acc, bounds, ops, tiled)
        except Exception as e:
            # no layout is chosen at all: a failure of the property unless the input is in a finding class
            ctx.notes.append(f"L2: set-memory-layout raised {e!r}")
            ks = [k for k in (classify(bounds, o) for o in ops) if k]
            fs = [{"what": "pass_crashed", "klass": ks[0] if ks else None, "detail": {"error": repr(e)[:300]}}]
        for f in fs:
            f["input"] = {"acc": acc, "bounds": bounds, "ops": ops, "tiled": tiled}
            fails.append(f)
        ctx.count({"L2": acc, "bounds": bounds}, any(nontrivial(o) for o in ops), f"l2{acc}{bounds}{ops}{tiled}", "L2")
    return _dedup(fails)


def _dedup(fails):
    seen, out = set(), []
    for f in fails:
        k = (f["what"], f["klass"])
        if k not in seen:
            seen.add(k)
            out.append(f)
    return out


def replay_known(ctx, entry):
    w = entry["witness"]
    fs = check_case(w["acc"], w["bounds"], w["ops"], w["tiled"])
    return any(f["klass"] == entry["class"] for f in fs)


def replay(ctx, obj):
    f = obj.get("failure")
    if not f:
        print("no failing input recorded; broken obligations:", obj.get("no_longer_checks"))
        return 1
    i = f["input"]
    print(schedule_text(i["acc"], i["bounds"], i["ops"]))
    print("tiled =", i["tiled"])
    try:
        print("layouts:", run_pass(i["acc"], i["bounds"], i["ops"], i["tiled"]))
    except Exception as e:
        print("FAIL set-memory-layout raised", repr(e))
        return 1
    res = check_case(i["acc"], i["bounds"], i["ops"], i["tiled"])
    for r in res:
        print("FAIL", r)
    return 1 if res else 0
