"""C19 (e) token-level model Model/C19Text.v of the StridePattern / StreamerConfigurationAttr syntax.
L1 (i)  printed text of the real attributes, lexed by xDSL's MLIR lexer == model print_sp / print_cfg
L1 (ii) the real parser on printed and randomly damaged token strings == model parse_sp / parse_cfg
        (an exception of the real parser = None).
The property-level round trip on the implementation (L2) lives in c19_stride.py / c19_attrs.py."""
from __future__ import annotations

import io

import vlib
from vlib import coqlist, zlist, zlit

from props import c19_attrs as at

PART = "text"

IDENTS = {"ub": "IdUb", "ts": "IdTs", "ss": "IdSs", "opts": "IdOpts", "temp": "IdTemp", "spat": "IdSpat", "r": "IdR",
          "w": "IdW", "n": "IdN", "i": "IdI", "a": "IdA", "c": "IdC", "bm": "IdBm", "b": "IdB", "true": "IdTrue",
          "false": "IdFalse", "maxpool_ext": "IdMaxpool", "memset_ext": "IdMemset", "t": "IdT", "add_ext": "IdAddExt",
          "add_ext_long": "IdAddExtLong", "rescale_down_ext": "IdRescaleDown", "rescale_up_ext": "IdRescaleUp"}
PUNCT = {"LESS": "KLt", "GREATER": "KGt", "L_SQUARE": "KLSq", "R_SQUARE": "KRSq", "EQUAL": "KEq", "COMMA": "KComma",
         "MINUS": "KMinus"}


def lex(text):
    """-> list of (coq token, source text)"""
    from xdsl.utils.lexer import Input
    from xdsl.utils.mlir_lexer import MLIRLexer, MLIRTokenKind
    lx = MLIRLexer(Input(text, "<c19>"))
    out = []
    while True:
        t = lx.lex()
        if t.kind == MLIRTokenKind.EOF:
            break
        k = t.kind.name
        if k in PUNCT:
            out.append((PUNCT[k], t.text))
        elif k == "BARE_IDENT":
            out.append((f"(KId {IDENTS.get(t.text, 'IdOther')})", t.text))
        elif k == "INTEGER_LIT":
            out.append((f"(KInt {zlit(int(t.text, 0))})", t.text))
        else:
            out.append(("KOther", t.text))
    return out


def print_attr(a):
    s = io.StringIO()
    from xdsl.printer import Printer
    Printer(s).print_attribute(a)
    return s.getvalue()


def parse_attr(text):
    from xdsl.context import Context
    from xdsl.parser import Parser
    from snaxc.dialects.snax import Snax
    from snaxc.dialects.snax_stream import SnaxStream
    c = Context()
    c.load_dialect(Snax)
    c.load_dialect(SnaxStream)
    return Parser(c, text).parse_attribute()


POOL = [",", "-", "=", "[", "]", "<", ">", "r", "w", "n", "i", "a", "c", "bm", "b", "opts", "temp", "spat", "ub", "ts", "ss",
        "true", "false", "x", "8", "0", "3", "0x10", "(", ":", "t", "add_ext", "memset_ext"]


def damage(rng, toks):
    toks = list(toks)
    for _ in range(rng.choice([0, 1, 1, 1, 2, 3])):
        if not toks:
            break
        k = rng.randrange(len(toks))
        op = rng.random()
        if op < 0.3:
            del toks[k]
        elif op < 0.45:
            toks.insert(k, toks[k])
        elif op < 0.6 and k + 1 < len(toks):
            toks[k], toks[k + 1] = toks[k + 1], toks[k]
        elif op < 0.8:
            toks[k] = rng.choice(POOL)
        else:
            toks.insert(k, rng.choice(POOL))
    return toks


def coq_cfg(d):
    ty = {"r": "SReader", "w": "SWriter"}
    fl = {"n": "FNormal", "i": "FIrrelevant", "r": "FReuse"}
    op = {"a": "OAddrRemap", "c": "OChanMask", "bm": "OByteMask", "b": "OBroadcast", "maxpool_ext": "OMaxpool",
          "memset_ext": "OMemset", "t": "OTranspose", "add_ext": "OAddExt", "add_ext_long": "OAddExtLong",
          "rescale_down_ext": "ORescaleDown", "rescale_up_ext": "ORescaleUp"}
    ss = coqlist(f"(Streamer {ty[s['type']]} {coqlist(fl[f] for f in s['temp'])} {zlist(s['spat'])} {coqlist(op[o] for o in s['opts'])})"
                 for s in d["streamers"])
    return f"(SConfig {ss} {'SysXdma' if d['system'] == 'xdma' else 'SysRegular'})"


def gen_sp(rng):
    n = rng.choice([0, 1, 2, 3, 4])
    vals = [0, 1, 2, 8, 64, -1, -8, 100, 4096]
    return ([rng.choice(vals) for _ in range(n)], [rng.choice(vals) for _ in range(n)],
            [rng.choice(vals) for _ in range(rng.choice([0, 1, 2, 3]))])


def l1_prepare(ctx):
    rng = ctx.rng
    from snaxc.dialects.snax_stream import StridePattern
    n = ctx.n(150, 2000)
    pr_sp, pr_cfg, pa_sp, pa_cfg = [], [], [], []
    m_pr_sp, m_pr_cfg, m_pa_sp, m_pa_cfg = [], [], [], []
    for k in range(n):
        # ---- StridePattern
        ub, ts, ss = gen_sp(rng)
        text = print_attr(StridePattern(ub, ts, ss))
        toks = lex(text)[1:]                       # drop `#snax_stream.stride_pattern`
        sp = f"(SP {zlist(ub)} {zlist(ts)} {zlist(ss)})"
        pr_sp.append(f"({sp}, {coqlist(t for t, _ in toks)})")
        m_pr_sp.append(text)
        ctx.count({"part": PART, "print": text}, len(ub) >= 2, f"prsp{ub}{ts}{ss}", "text:print_stride_pattern")
        dtoks = damage(rng, [s for _, s in toks]) if k % 4 else [s for _, s in toks]
        dtext = " ".join(dtoks)
        try:
            a = parse_attr("#snax_stream.stride_pattern " + dtext)
            out = (f"(Some (SP {zlist(x.data for x in a.upper_bounds)} {zlist(x.data for x in a.temporal_strides)} "
                   f"{zlist(x.data for x in a.spatial_strides)}))")
        except Exception:
            out = "None"
        pa_sp.append(f"({coqlist(t for t, _ in lex(dtext))}, {out})")
        m_pa_sp.append(dtext)
        ctx.count({"part": PART, "parse": dtext, "ok": out != "None"}, True, f"pasp{dtext}", "text:parse_stride_pattern")
        # ---- streamer configuration
        d = at.gen_config(rng)
        text = print_attr(at.build(d))
        toks = lex(text)[1:]
        pr_cfg.append(f"({coq_cfg(d)}, {coqlist(t for t, _ in toks)})")
        m_pr_cfg.append(text)
        ctx.count({"part": PART, "print": text}, len(d["streamers"]) >= 2, f"prcfg{d}", "text:print_streamer_config")
        dtoks = damage(rng, [s for _, s in toks]) if k % 4 else [s for _, s in toks]
        dtext = " ".join(dtoks)
        try:
            out = "(Some " + coq_cfg(at.describe(parse_attr("#snax.streamer_config " + dtext))) + ")"
        except Exception:
            out = "None"
        pa_cfg.append(f"({coqlist(t for t, _ in lex(dtext))}, {out})")
        m_pa_cfg.append(dtext)
        ctx.count({"part": PART, "parse": dtext, "ok": out != "None"}, True, f"pacfg{dtext}", "text:parse_streamer_config")
    text = ["From Snax Require Import Base.Prelude Model.C19Stride Model.C19Text.",
            f"Definition cases_pr_sp := {coqlist(pr_sp)}.",
            "Eval vm_compute in failing (fun c : spattern * list stok => toks_eqb (print_sp (fst c)) (snd c)) cases_pr_sp.",
            f"Definition cases_pr_cfg := {coqlist(pr_cfg)}.",
            "Eval vm_compute in failing (fun c : sconfig * list stok => toks_eqb (print_cfg (fst c)) (snd c)) cases_pr_cfg.",
            f"Definition cases_pa_sp := {coqlist(pa_sp)}.",
            "Eval vm_compute in failing (fun c : list stok * option spattern => opt_spattern_eqb "
            "(match parse_sp (fst c) with Some (p, _) => Some p | None => None end) (snd c)) cases_pa_sp.",
            f"Definition cases_pa_cfg := {coqlist(pa_cfg)}.",
            "Eval vm_compute in failing (fun c : list stok * option sconfig => opt_cfg_eqb "
            "(match parse_cfg (fst c) with Some (p, _) => Some p | None => None end) (snd c)) cases_pa_cfg."]
    names = [("print StridePattern", m_pr_sp), ("print StreamerConfigurationAttr", m_pr_cfg),
             ("parse StridePattern", m_pa_sp), ("parse StreamerConfigurationAttr", m_pa_cfg)]

    def finish(results):
        ok, out = results[0]
        lists = vlib.parse_all_eval_lists(out)
        if not ok or len(lists) != 4:
            return [{"name": "L1:text-cases-file", "detail": out[-1500:]}]
        dis = []
        for (nm, meta), bad in zip(names, lists):
            for i in bad:
                dis.append({"name": "L1:" + nm, "case": meta[i]})
        return dis

    return ["\n".join(text) + "\n"], finish


def l2(ctx, deep):
    return []


def replay(ctx, f):
    return []
