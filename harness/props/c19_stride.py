"""C19 (b) StridePattern.canonicalize (snaxc/dialects/snax_stream.py).
generate : coq/Gen/StrideCanon.v (translator/py2coq.py, translator/specs/stride_pattern.py)
L1       : generated model vs the real method: exact equality of the three integer lists
L2       : real method: same temporal address sequence (own Python enumeration), spatial strides kept,
           idempotent; print -> parse round trip of the attribute.
"""
from __future__ import annotations

import io

import vlib
from vlib import coqlist, zlist

PART = "stride"


def generate(ctx):
    import py2coq
    spec = py2coq.load_spec(vlib.VERIF / "translator" / "specs" / "stride_pattern.py")
    text = py2coq.translate(ctx.repo, spec.SPEC)
    vlib.write_if_changed(vlib.COQ / "Gen" / spec.OUT, text)
    ctx.extra.setdefault("translator", {})["Gen/" + spec.OUT] = {
        "source": spec.SPEC.source, "source_sha1": vlib.repo_file_hash(spec.SPEC.source)}


def _SP():
    from snaxc.dialects.snax_stream import StridePattern
    return StridePattern


def gen_pattern(rng, nonneg=True, max_points=4096):
    while True:
        n = rng.choice([0, 1, 2, 2, 3, 3, 4, 4, 5, 6])
        ub, ts = [], []
        for k in range(n):
            b = rng.choice([0, 1, 1, 2, 2, 3, 4, 4, 8, 5])
            if not nonneg and rng.random() < 0.15:
                b = rng.choice([-1, -2, -3])
            r = rng.random()
            if k > 0 and r < 0.5:
                s = ub[-1] * ts[-1]                      # continues the previous dimension: merge candidate
                if rng.random() < 0.3:
                    # continues the last *kept* dimension (skipping unit bounds)
                    for j in range(k - 1, -1, -1):
                        if ub[j] != 1:
                            s = ub[j] * ts[j]
                            break
            elif r < 0.6:
                s = 0
            elif r < 0.65:
                s = rng.choice([-8, -1, -64])
            else:
                s = rng.choice([1, 2, 4, 8, 8, 16, 64, 256, 3, 100])
            ub.append(b)
            ts.append(s)
        total = 1
        for b in ub:
            total *= max(b, 1)
        if total <= max_points:
            break
    # (lists of different lengths cannot be built: StridePattern.verify rejects them)
    # spatial strides: empty, zero (short-circuits canonicalize), negative entries (print/parse of `-` in every list)
    ss = rng.choice([[], [8], [1], [8, 64], [0], [0, 8], [8, 0], [1, 8, 64], [-8], [64, -1]])
    return ub, ts, ss


def run_impl(ub, ts, ss):
    p = _SP()(ub, ts, ss).canonicalize()
    return ([x.data for x in p.upper_bounds], [x.data for x in p.temporal_strides], [x.data for x in p.spatial_strides])


def coq_sp(ub, ts, ss):
    return f"(SP {zlist(ub)} {zlist(ts)} {zlist(ss)})"


def l1_prepare(ctx):
    rng = ctx.rng
    n = ctx.n(300, 4000)
    cases, meta = [], []
    for i in range(n):
        ub, ts, ss = gen_pattern(rng, nonneg=(i % 3 != 0))
        try:
            out = "(Some " + coq_sp(*run_impl(ub, ts, ss)) + ")"
        except Exception:
            out = "None"
        cases.append(f"({coq_sp(ub, ts, ss)}, {out})")
        meta.append((ub, ts, ss))
        ctx.count({"part": PART, "pattern": [ub, ts, ss], "canonical": out}, len([b for b in ub if b != 1]) >= 2,
                  f"sp{ub}{ts}{ss}", "StridePattern.canonicalize")
    text = ["From Snax Require Import Base.Prelude Model.PyLib Model.C19Stride Gen.StrideCanon.",
            f"Definition cases_sp := {coqlist(cases)}.",
            "Eval vm_compute in failing (fun c : spattern * option spattern => "
            "opt_spattern_eqb (StridePattern_canonicalize (fst c)) (snd c)) cases_sp."]

    def finish(results):
        ok, out = results[0]
        lists = vlib.parse_all_eval_lists(out)
        if not ok or len(lists) != 1:
            return [{"name": "L1:stride-cases-file", "detail": out[-1500:]}]
        return [{"name": "L1:StridePattern.canonicalize", "case": meta[i], "impl": cases[i][-200:]} for i in lists[0]]

    return ["\n".join(text) + "\n"], finish


# ------------------------------------------------------------------ L2
def addr_seq(ub, ts):
    """temporal addresses in time order; index 0 is the innermost loop (zip truncates)"""
    dims = list(zip(ub, ts))
    seq = [0]
    for (b, s) in reversed(dims):       # build from the outermost inwards
        seq = [o + i * s for o in seq for i in range(max(b, 0))]
    return seq


def roundtrip(ub, ts, ss):
    from xdsl.context import Context
    from xdsl.parser import Parser
    from xdsl.printer import Printer
    from snaxc.dialects.snax_stream import SnaxStream
    a = _SP()(ub, ts, ss)
    s = io.StringIO()
    Printer(s).print_attribute(a)
    c = Context()
    c.load_dialect(SnaxStream)
    try:
        b = Parser(c, s.getvalue()).parse_attribute()
    except Exception as e:
        return s.getvalue(), "ERR " + repr(e)[:120]
    return s.getvalue(), (None if b == a else str(b))


def check_pattern(ub, ts, ss):
    out = []
    try:
        cu, ct, cs = run_impl(ub, ts, ss)
    except Exception as e:
        return [{"what": "StridePattern.canonicalize raises", "detail": repr(e)[:200]}]
    if cs != ss:
        out.append({"what": "StridePattern.canonicalize changes spatial strides", "detail": {"after": cs}})
    if all(b >= 0 for b in ub):
        a0, a1 = addr_seq(ub, ts), addr_seq(cu, ct)
        if a0 != a1:
            k = next((i for i, (x, y) in enumerate(zip(a0, a1)) if x != y), min(len(a0), len(a1)))
            out.append({"what": "StridePattern.canonicalize changes the address sequence",
                        "detail": {"canonical": [cu, ct, cs], "first_difference_at": k, "before": a0[max(0, k - 2):k + 4],
                                   "after": a1[max(0, k - 2):k + 4], "len_before": len(a0), "len_after": len(a1)}})
        try:
            if run_impl(cu, ct, cs) != (cu, ct, cs):
                out.append({"what": "StridePattern.canonicalize not idempotent",
                            "detail": {"once": [cu, ct, cs], "twice": list(run_impl(cu, ct, cs))}})
        except Exception as e:
            out.append({"what": "StridePattern.canonicalize raises on its own output", "detail": repr(e)[:200]})
    if len(ub) == len(ts):
        txt, diff = roundtrip(ub, ts, ss)
        if diff is not None:
            out.append({"what": "StridePattern print/parse", "detail": {"printed": txt, "reparsed": diff}})
    return out


def l2(ctx, deep):
    rng = ctx.rng
    n = ctx.n(500, 8000) * (4 if deep else 1)
    fails = []
    for i in range(n):
        ub, ts, ss = gen_pattern(rng, nonneg=True)
        if i % 4 == 0:
            ss = [s for s in ss if s != 0]        # zero spatial stride short-circuits canonicalize
        if i % 9 == 0 and ub:
            ub = [-b if rng.random() < 0.3 else b for b in ub]   # print/parse of negative entries
            ts = [-t if rng.random() < 0.3 else t for t in ts]
        ctx.count({"part": PART, "L2": [ub, ts, ss]}, len([b for b in ub if b != 1]) >= 2, f"l2sp{ub}{ts}{ss}", "L2:StridePattern")
        for f in check_pattern(ub, ts, ss):
            fails.append({"part": PART, "what": f["what"], "input": {"ub": ub, "ts": ts, "ss": ss}, "detail": f["detail"], "klass": None})
        if len(fails) > 20:
            break
    return fails


def replay(ctx, f):
    i = f["input"]
    print("StridePattern", i, "-> canonical", run_impl(i["ub"], i["ts"], i["ss"]))
    res = check_pattern(i["ub"], i["ts"], i["ss"])
    for r in res:
        print("FAIL", r)
    return res
