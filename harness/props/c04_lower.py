"""C04 part B — `convert-accfg-to-csr` against coq/Model/C04Csr.v.

L1: the real pass output, read back structurally as (csrw addr val | poll addr | loop/if) lists, must equal
    `lower_block amap program` (exact, inside Coq).
L2: (no lowering model involved) the read-back real output executed on the Coq CSR machine must produce,
    for sampled runtime inputs, exactly the CSR trace demanded by the source program's fine-grained run
    (`expand amap (frun p)`); no !accfg.state / !accfg.token typed value and no accfg op may survive.
"""
from __future__ import annotations

import vlib
from vlib import coqlist, zlit

import accir

STYLE_OF = {"snax_hwpe_mult": "BPoll1", "snax_alu": "BPoll3", "snax_gemmx": "BPoll3",
            "vt_poll1": "BPoll1", "vt_poll2": "BPoll2", "vt_poll3": "BPoll3", "vt_write4": "BWrite4"}
_REGISTERED = False


def ensure_registered():
    """Register test accelerators (one per barrier style of snaxc/accelerators/snax.py) in the shared context."""
    global _REGISTERED
    if _REGISTERED:
        return
    from snaxc.accelerators import snax as S

    def mk(name, barrier_cls):
        cls = type("VT_" + name, (S.SNAXAccelerator, barrier_cls), {
            "name": name,
            "convert_to_acc_ops": lambda self, op: [],
            "generate_acc_op": lambda self: (_ for _ in ()).throw(NotImplementedError()),
        })
        return cls
    ctx = accir.xctx()
    for name, b in (("vt_poll1", S.SNAXPollingBarrier), ("vt_poll2", S.SNAXPollingBarrier2),
                    ("vt_poll3", S.SNAXPollingBarrier3), ("vt_write4", S.SNAXPollingBarrier4)):
        if name not in ctx.registered_accelerator_names:
            ctx.register_accelerator(name, mk(name, b))
    _REGISTERED = True


# ---------------------------------------------------------------------------------------------- generation
def gen_decl(rng, acc_name, fields, malformed=False, both_launch=False):
    """accfg.accelerator declaration with distinct random addresses. Returns (text, info)."""
    pool = rng.sample(range(0x3C0, 0x3C0 + 64), len(fields) + 4)
    pool = [a for a in pool if a != 0x3C5]        # keep clear of the hwpe clear register
    fmap = {f: pool[i] for i, f in enumerate(fields)}
    if malformed and len(fmap) > 1:
        del fmap[rng.choice(sorted(fmap))]           # a field the program configures is not declared
    lnames = ["launch"] + (["launch_b"] if (both_launch or rng.random() < 0.5) else [])
    if rng.random() < 0.3:
        lnames.reverse()
    lmap = {f: pool[len(fields) + i] for i, f in enumerate(lnames)}
    barrier = pool[len(fields) + 2]
    d = lambda m: "{" + ", ".join(f"{k} = {v} : i32" for k, v in m.items()) + "}"
    text = (f'  "accfg.accelerator"() <{{name = @{acc_name}, fields = {d(fmap)}, launch_fields = {d(lmap)}, '
            f'barrier = {barrier} : i32}}> : () -> ()')
    return text


def gen_program(rng, malformed=False, reset=False):
    """A module with accelerator declarations and one function in lowering form, run through the real
    trace-states (+ dedup (+ overlap)) pipeline. Returns (module, info)."""
    ensure_registered()
    cfg = accir.GenCfg(launch_fields=True, max_items=rng.choice([2, 3, 4]), max_depth=rng.choice([1, 2, 3]),
                       p_for=0.25, p_if=0.2, p_call=0.1, p_pure=0.12)
    text, info = accir.gen_module(rng, cfg)
    styles = list(STYLE_OF)
    decls = []
    # gen_module's launch ops pass the launch value positionally with param_names ["launch"]
    fields_of = {}
    import re
    for a in info["accs"]:
        fs = set()
        for line in text.splitlines():
            if f'accfg.setup "{a}"' in line:
                fs.update(re.findall(r'"([A-Z])" = ', line))
        fields_of[a] = sorted(fs) or ["A"]
    ren = {}
    avail = list(styles)
    rng.shuffle(avail)
    for a in info["accs"]:
        ren[a] = avail.pop()
    for a in info["accs"]:
        text = text.replace(f'"{a}"', f'"{ren[a]}"')
        decls.append(gen_decl(rng, ren[a], fields_of[a], malformed))
    text = "builtin.module {\n" + "\n".join(decls) + "\n" + text + "}\n"
    mod = accir.parse(text)
    stage = rng.choice(["trace", "dedup", "dedup", "overlap", "overlap"])
    accir.trace_states(mod)
    if stage in ("dedup", "overlap"):
        accir.dedup(mod)
    if stage == "overlap":
        from snaxc.transforms.accfg_config_overlap import AccfgConfigOverlapPass
        AccfgConfigOverlapPass().apply(accir.xctx(), mod)
        mod.verify()
    if reset:
        from snaxc.transforms.accfg_insert_resets import InsertResetsPass
        InsertResetsPass().apply(accir.xctx(), mod)
        mod.verify()
    # the rewrite driver erases trivially dead pure ops while it walks; remove them up front so that the
    # comparison with the model is exact (dead ops have no influence on the CSR trace)
    from xdsl.transforms.dead_code_elimination import dce
    dce(mod)
    mod.verify()
    info = dict(info, stage=stage, accs=[ren[a] for a in info["accs"]], malformed=malformed)
    return mod, info



def hand_csr(rng):
    """Hand-threaded programs stressing value plumbing: setups fed by several DISTINCT index-typed values (each
    needs its own i32 cast), and scf.for / scf.if carrying the state together with several same-typed results
    whose values reach later CSR writes (DeleteAllStates has to keep them in order)."""
    ensure_registered()
    acc = rng.choice(sorted(STYLE_OF))
    ST = f'!accfg.state<"{acc}">'
    flds = ["A", "B", "C", "D"]
    def setup(out, frm, vals):
        return (f'{out} = accfg.setup "{acc}" ' + (f"from {frm} " if frm else "") + "to (" +
                ", ".join(f'"{f}" = {v} : {t}' for f, (v, t) in vals) + f") : {ST}")
    def launch(t, s, lv):
        if lv:
            names = ", ".join(f'"{n}"' for n, _ in lv)
            return (f'{t} = "accfg.launch"({", ".join(v for _, v in lv)}, {s}) <{{param_names = [{names}], accelerator = "{acc}"}}> : '
                    f'({", ".join("i32" for _ in lv)}, {ST}) -> !accfg.token<"{acc}">')
        return f'{t} = "accfg.launch"({s}) <{{param_names = [], accelerator = "{acc}"}}> : ({ST}) -> !accfg.token<"{acc}">'
    def await_(t):
        return f'"accfg.await"({t}) : (!accfg.token<"{acc}">) -> ()'
    def lv():
        r = rng.random()
        if r < 0.3:
            return []
        if r < 0.6:
            return [("launch", rng.choice(["%a", "%b"]))]
        two = [("launch", "%a"), ("launch_b", "%b")]
        rng.shuffle(two)
        return two
    ints = [("%a", "i32"), ("%b", "i32")]
    idxs = [("%p", "index"), ("%q", "index"), ("%r", "index")]
    L = []
    pool = ints + idxs
    vals0 = list(zip(flds, [rng.choice(idxs), rng.choice(idxs), rng.choice(pool), rng.choice(pool)]))
    rng.shuffle(vals0)
    L.append("  " + setup("%s0", None, vals0[:rng.choice([2, 3, 4])]))
    L += ["  " + launch("%t0", "%s0", lv()), "  " + await_("%t0")]
    kind = rng.choice(["for", "if", "for", "if", "both"])
    n_int = rng.choice([2, 2, 3])
    carried_t = ["i32"] * n_int + (["index"] if rng.random() < 0.4 else [])
    pos = rng.randrange(len(carried_t) + 1)          # where the state sits among the results
    cur_state = "%s0"
    fin = []
    if kind in ("for", "both"):
        inits = [rng.choice(["%a", "%b"]) if t == "i32" else rng.choice(["%p", "%q"]) for t in carried_t]
        args = [f"%x{j}" for j in range(len(carried_t))]
        ia = [f"{x} = {i}" for x, i in zip(args, inits)]
        ia.insert(pos, f"%sl = {cur_state}")
        tys = list(carried_t)
        tys.insert(pos, ST)
        L.append(f"  %fr:{len(tys)} = scf.for %i = %lb to %ub step %st iter_args({', '.join(ia)}) -> ({', '.join(tys)}) {{")
        body_vals = [("%i", "index")] + list(zip(args, carried_t))
        rng.shuffle(body_vals)
        B = [setup("%sb", "%sl", list(zip(flds, body_vals[:rng.choice([2, 3])]))),
             launch("%tb", "%sb", lv()), await_("%tb")]
        ys = []
        for j, (x, t) in enumerate(zip(args, carried_t)):
            if t == "i32":
                B.append(f"%y{j} = arith.{rng.choice(['addi', 'muli', 'subi'])} {x}, {rng.choice(['%a', '%b', x])} : i32")
            else:
                B.append(f"%y{j} = arith.addi {x}, %i : index")
            ys.append(f"%y{j}")
        if rng.random() < 0.3 and n_int >= 2:
            ys[0], ys[1] = ys[1], ys[0]               # values rotate through the iter_args
        ys.insert(pos, "%sb")
        B.append(f"scf.yield {', '.join(ys)} : {', '.join(tys)}")
        L += ["    " + b for b in B]
        L.append("  }")
        res = [f"%fr#{k}" for k in range(len(tys))]
        cur_state = res.pop(pos)
        fin = list(zip(res, carried_t))
    if kind in ("if", "both"):
        src = fin if fin else [(rng.choice(["%a", "%b"]), "i32") for _ in range(n_int)]
        tys = [t for _, t in src]
        p2 = rng.randrange(len(tys) + 1)
        tys2 = list(tys)
        tys2.insert(p2, ST)
        L.append(f"  %ir:{len(tys2)} = scf.if %c -> ({', '.join(tys2)}) {{")
        tv = [v for v, _ in src]
        L.append("    " + setup("%sti", cur_state, [("A", (tv[0], tys[0]))]))
        y1 = [f"%e{j}" for j in range(len(tys))]
        for j, (v, t) in enumerate(src):
            L.append(f"    %e{j} = arith.addi {v}, {v} : {t}")
        yy = list(y1)
        yy.insert(p2, "%sti")
        L.append(f"    scf.yield {', '.join(yy)} : {', '.join(tys2)}")
        L.append("  } else {")
        ev = list(reversed(tv)) if all(t == tys[0] for t in tys) else list(tv)
        ey = list(ev)
        ey.insert(p2, cur_state)
        L.append(f"    scf.yield {', '.join(ey)} : {', '.join(tys2)}")
        L.append("  }")
        res = [f"%ir#{k}" for k in range(len(tys2))]
        cur_state = res.pop(p2)
        fin = list(zip(res, tys))
    use = list(zip(flds, fin + [rng.choice(idxs)]))
    L.append("  " + setup("%sf", cur_state, use))
    L += ["  " + launch("%tf", "%sf", lv()), "  " + await_("%tf")]
    nf = 4
    decl = gen_decl(rng, acc, flds, both_launch=True)
    text = ("builtin.module {\n" + decl + "\n  func.func @f(%a : i32, %b : i32, %p : index, %q : index, %r : index, "
            "%lb : index, %ub : index, %st : index, %c : i1) {\n" + "\n".join(L) + "\n    func.return\n  }\n}\n")
    return text, ["val", "val", "val", "val", "val", "lb", "ub", "step", "cond"], f"hand:{kind}"


FIXED = [
    # the filecheck shape: state through scf.if, both branches
    ("if_state", '''builtin.module {
  "accfg.accelerator"() <{name = @snax_hwpe_mult, fields = {A = 976 : i32, B = 977 : i32, O = 979 : i32, nr_iters = 981 : i32},
                          launch_fields = {launch = 960 : i32}, barrier = 963 : i32}> : () -> ()
  func.func @f(%a : i32, %b : i32, %c : i32, %cst : i32, %i1 : i1) {
    %s9 = accfg.setup "snax_hwpe_mult" to ("A" = %a : i32, "B" = %b : i32, "O" = %c : i32, "nr_iters" = %a : i32) : !accfg.state<"snax_hwpe_mult">
    %t10 = "accfg.launch"(%cst, %s9) <{param_names = ["launch"], accelerator = "snax_hwpe_mult"}> : (i32, !accfg.state<"snax_hwpe_mult">) -> !accfg.token<"snax_hwpe_mult">
    "accfg.await"(%t10) : (!accfg.token<"snax_hwpe_mult">) -> ()
    %s13 = "scf.if"(%i1) ({
      %s14 = accfg.setup "snax_hwpe_mult" from %s9 to ("B" = %c : i32) : !accfg.state<"snax_hwpe_mult">
      %t15 = "accfg.launch"(%cst, %s14) <{param_names = ["launch"], accelerator = "snax_hwpe_mult"}> : (i32, !accfg.state<"snax_hwpe_mult">) -> !accfg.token<"snax_hwpe_mult">
      "accfg.await"(%t15) : (!accfg.token<"snax_hwpe_mult">) -> ()
      scf.yield %s14 : !accfg.state<"snax_hwpe_mult">
    }, {
      %s20 = accfg.setup "snax_hwpe_mult" from %s9 to ("B" = %c : i32, "O" = %b : i32) : !accfg.state<"snax_hwpe_mult">
      scf.yield %s20 : !accfg.state<"snax_hwpe_mult">
    }) : (i1) -> (!accfg.state<"snax_hwpe_mult">)
    %t21 = "accfg.launch"(%cst, %s13) <{param_names = ["launch"], accelerator = "snax_hwpe_mult"}> : (i32, !accfg.state<"snax_hwpe_mult">) -> !accfg.token<"snax_hwpe_mult">
    "accfg.await"(%t21) : (!accfg.token<"snax_hwpe_mult">) -> ()
    func.return
  }
}''', ["val", "val", "val", "val", "cond"]),
    # loop carrying a state AND an integer iter_arg; index-typed field value (index_cast inserted by the lowering)
    ("for_state_and_int", '''builtin.module {
  "accfg.accelerator"() <{name = @vt_write4, fields = {A = 970 : i32, B = 971 : i32}, launch_fields = {launch = 980 : i32, launch_b = 981 : i32}, barrier = 990 : i32}> : () -> ()
  func.func @f(%a : i32, %lb : index, %ub : index, %st : index) {
    %s0 = accfg.setup "vt_write4" to ("A" = %a : i32) : !accfg.state<"vt_write4">
    %r:2 = scf.for %i = %lb to %ub step %st iter_args(%s1 = %s0, %x = %a) -> (!accfg.state<"vt_write4">, i32) {
      %s2 = accfg.setup "vt_write4" from %s1 to ("B" = %i : index, "A" = %x : i32) : !accfg.state<"vt_write4">
      %t = "accfg.launch"(%x, %s2) <{param_names = ["launch"], accelerator = "vt_write4"}> : (i32, !accfg.state<"vt_write4">) -> !accfg.token<"vt_write4">
      "accfg.await"(%t) : (!accfg.token<"vt_write4">) -> ()
      %y = arith.addi %x, %a : i32
      scf.yield %s2, %y : !accfg.state<"vt_write4">, i32
    }
    %s3 = accfg.setup "vt_write4" from %r#0 to ("A" = %r#1 : i32) : !accfg.state<"vt_write4">
    %t2 = "accfg.launch"(%s3) <{param_names = [], accelerator = "vt_write4"}> : (!accfg.state<"vt_write4">) -> !accfg.token<"vt_write4">
    "accfg.await"(%t2) : (!accfg.token<"vt_write4">) -> ()
    func.return
  }
}''', ["val", "lb", "ub", "step"]),
    ("two_launch_fields", '''builtin.module {
  "accfg.accelerator"() <{name = @vt_poll3, fields = {A = 970 : i32, B = 972 : i32}, launch_fields = {launch_b = 981 : i32, launch = 980 : i32}, barrier = 975 : i32}> : () -> ()
  func.func @f(%a : i32, %b : i32, %c : i1) {
    %s0 = accfg.setup "vt_poll3" to ("B" = %b : i32, "A" = %a : i32) : !accfg.state<"vt_poll3">
    %t = "accfg.launch"(%b, %a, %s0) <{param_names = ["launch", "launch_b"], accelerator = "vt_poll3"}> : (i32, i32, !accfg.state<"vt_poll3">) -> !accfg.token<"vt_poll3">
    "accfg.await"(%t) : (!accfg.token<"vt_poll3">) -> ()
    scf.if %c {
      %s1 = accfg.setup "vt_poll3" from %s0 to ("A" = %b : i32) : !accfg.state<"vt_poll3">
      %t1 = "accfg.launch"(%a, %b, %s1) <{param_names = ["launch_b", "launch"], accelerator = "vt_poll3"}> : (i32, i32, !accfg.state<"vt_poll3">) -> !accfg.token<"vt_poll3">
      "accfg.await"(%t1) : (!accfg.token<"vt_poll3">) -> ()
      scf.yield
    }
    func.return
  }
}''', ["val", "val", "cond"]),
    ("poll2", '''builtin.module {
  "accfg.accelerator"() <{name = @vt_poll2, fields = {A = 970 : i32}, launch_fields = {launch = 980 : i32}, barrier = 975 : i32}> : () -> ()
  func.func @f(%a : i32, %b : i32) {
    %s0 = accfg.setup "vt_poll2" to ("A" = %a : i32) : !accfg.state<"vt_poll2">
    %t = "accfg.launch"(%b, %s0) <{param_names = ["launch"], accelerator = "vt_poll2"}> : (i32, !accfg.state<"vt_poll2">) -> !accfg.token<"vt_poll2">
    "accfg.await"(%t) : (!accfg.token<"vt_poll2">) -> ()
    func.return
  }
}''', ["val", "val"]),
]


# ---------------------------------------------------------------------------------------------- reading
class Unreadable(Exception):
    pass


def name_all_values(mod):
    """Give every SSA value a unique name hint (cosmetic) so that values can be recognised after the pass,
    which clones regions (DeleteAllStates) and thereby replaces the value objects."""
    seen = set()
    k = 0
    vals = []
    for op in mod.walk():
        vals += list(op.results)
        for r in op.regions:
            for b in r.blocks:
                vals += list(b.args)
    for v in vals:
        h = v.name_hint
        if h is None or h in seen:
            while True:
                k += 1
                h = f"u{k}"
                if h not in seen and all(x.name_hint != h for x in vals):
                    break
            v.name_hint = h
        seen.add(h)


def _is_state(t):
    from snaxc.dialects import accfg
    return isinstance(t, (accfg.StateType, accfg.TokenType))


class HintNames:
    """accir.Names facade that identifies the values of the lowered module by name hint."""

    def __init__(self, names: accir.Names):
        self.base = names
        self.h2i = {}
        for v, i in names.vals.items():
            if not _is_state(v.type):
                assert v.name_hint is not None and v.name_hint not in self.h2i, v.name_hint
                self.h2i[v.name_hint] = i
        self.acc, self.field, self.tag = names.acc, names.field, names.tag

    def known(self, v) -> bool:
        return (not _is_state(v.type)) and v.name_hint in self.h2i

    def val(self, v) -> int:
        if not self.known(v):
            raise Unreadable(f"value {v.name_hint!r} of type {v.type} is not a value of the source program")
        return self.h2i[v.name_hint]


def _const_of(v):
    from xdsl.dialects import arith
    from xdsl.dialects.builtin import IntegerAttr
    from xdsl.ir import OpResult
    if isinstance(v, OpResult) and isinstance(v.op, arith.ConstantOp) and isinstance(v.op.value, IntegerAttr):
        return int(v.op.value.value.data)
    return None


def read_cval(v, hn: HintNames):
    from xdsl.dialects import arith
    from xdsl.ir import OpResult
    if hn.known(v):
        return ["ref", hn.val(v)]
    c = _const_of(v)
    if c is not None:
        return ["const", c]
    if isinstance(v, OpResult) and isinstance(v.op, arith.IndexCastOp):
        src = v.op.operands[0]
        if hn.known(src):
            return ["cast", hn.val(src)]       # the i32 cast the lowering puts in front of an index-typed value
        return read_cval(src, hn)
    # constant expressions materialised by the lowering (pack_bitlist: shli / ori trees over constants)
    if isinstance(v, OpResult) and isinstance(v.op, (arith.ShLIOp, arith.OrIOp)):
        a, b = (read_cval(o, hn) for o in v.op.operands)
        if a[0] == "const" and b[0] == "const":
            return ["const", (a[1] << b[1]) if isinstance(v.op, arith.ShLIOp) else (a[1] | b[1])]
    raise Unreadable(f"csr operand {v} is neither a source value, a constant nor an index_cast of one")


def read_poll(op, hn):
    """scf.while () { b = const; k = const; s = csrr b; [s' = shrui s, k;] c = cmpi ne, s', k; condition(c) } do { yield }"""
    from xdsl.dialects import arith, llvm, scf
    before = list(op.before_region.block.ops)
    after = list(op.after_region.block.ops)
    if len(op.operands) or len(op.results) or len(after) != 1 or not isinstance(after[0], scf.YieldOp):
        raise Unreadable("unexpected scf.while shape")
    asm = [o for o in before if isinstance(o, llvm.InlineAsmOp)]
    if len(asm) != 1 or asm[0].asm_string.data != "csrr $0, $1" or len(asm[0].operands) != 1:
        raise Unreadable("polling loop without exactly one csrr")
    addr = _const_of(asm[0].operands[0])
    cond = before[-1]
    if addr is None or not isinstance(cond, scf.ConditionOp):
        raise Unreadable("polling loop: no immediate address / condition")
    cmp = cond.operands[0].owner
    if not isinstance(cmp, arith.CmpiOp) or int(cmp.predicate.value.data) != 1:   # ne
        raise Unreadable("polling loop condition is not cmpi ne")
    lhs, rhs = cmp.operands
    k = _const_of(rhs)
    shift = 0
    if isinstance(lhs.owner, arith.ShRUIOp):
        shift = _const_of(lhs.owner.operands[1])
        lhs = lhs.owner.operands[0]
    if lhs is not asm[0].results[0] or k is None or shift is None:
        raise Unreadable("polling loop compares something else than the csrr result")
    allowed = (arith.ConstantOp, llvm.InlineAsmOp, arith.ShRUIOp, arith.CmpiOp, scf.ConditionOp)
    if not all(isinstance(o, allowed) for o in before):
        raise Unreadable("unexpected op in polling loop")
    return {"op": "poll", "addr": addr, "shift": shift, "cmp": k}


def read_block(block, hn: HintNames):
    from xdsl.dialects import arith, llvm, scf
    from xdsl.traits import IsTerminator
    out, term = [], []
    for op in block.ops:
        if op.has_trait(IsTerminator):
            if isinstance(op, scf.YieldOp):
                term = [hn.val(o) for o in op.operands]
            continue
        if isinstance(op, llvm.InlineAsmOp):
            s = op.asm_string.data
            if s == "nop":
                continue
            if s == "csrw $0, $1" and len(op.operands) == 2 and not op.results:
                a = _const_of(op.operands[0])
                if a is None:
                    raise Unreadable("csrw with a non-immediate address")
                out.append({"op": "write", "addr": a, "val": read_cval(op.operands[1], hn)})
                continue
            raise Unreadable(f"inline asm {s!r}")
        if isinstance(op, scf.WhileOp):
            out.append(read_poll(op, hn))
            continue
        if isinstance(op, scf.ForOp):
            blk = op.body.block
            body, ys = read_block(blk, hn)
            out.append({"op": "for", "iv": hn.val(blk.args[0]), "lb": hn.val(op.lb), "ub": hn.val(op.ub),
                        "step": hn.val(op.step),
                        "iters": [[hn.val(a), hn.val(i)] for a, i in zip(blk.args[1:], op.iter_args)],
                        "results": [hn.val(r) for r in op.results], "body": body, "yields": ys})
            continue
        if isinstance(op, scf.IfOp):
            th, thy = read_block(op.true_region.block, hn)
            el, ely = read_block(op.false_region.block, hn) if op.false_region.blocks else ([], [])
            out.append({"op": "if", "cond": hn.val(op.cond), "results": [hn.val(r) for r in op.results],
                        "then": th, "then_y": thy, "else": el, "else_y": ely})
            continue
        if op.regions:
            raise Unreadable(f"op with regions: {op.name}")
        if op.results and not any(hn.known(r) for r in op.results):
            # an op introduced by the lowering: only address/zero constants and index casts are expected;
            # they are folded into the operands of the csr accesses
            if isinstance(op, (arith.ConstantOp, arith.IndexCastOp, arith.ShLIOp, arith.OrIOp)):
                continue
            raise Unreadable(f"unexpected new op {op.name}")
        out.append(accir.convert_op(op, hn))
    return out, term


def read_amap(mod, names: accir.Names):
    """accfg.accelerator declarations -> list indexed by accelerator id (None for undeclared)."""
    from snaxc.dialects import accfg
    decl = {}
    for op in mod.body.block.ops:
        if isinstance(op, accfg.AcceleratorOp):
            nm = op.name_prop.string_value()
            decl[nm] = {"fields": [(k, int(v.value.data)) for k, v in op.field_items()],
                        "launch": [(k, int(v.value.data)) for k, v in op.launch_field_items()],
                        "barrier": int(op.barrier.value.data), "style": STYLE_OF.get(nm)}
    return decl


def coq_amap(decl, names: accir.Names):
    inv = sorted(names.accs.items(), key=lambda kv: kv[1])
    items = []
    for nm, _ in inv:
        d = decl.get(nm)
        if d is None or d["style"] is None:
            raise Unreadable(f"accelerator {nm} is not declared / has no modelled barrier style")
        fl = lambda m: coqlist(f"({names.field(k)}%nat, {zlit(a)})" for k, a in m)
        items.append(f"(mkAccInfo {fl(d['fields'])} {fl(d['launch'])} {zlit(d['barrier'])} {d['style']})")
    return coqlist(items)


def _n(x):
    return f"{x}%nat"


def cstmt_to_coq(s):
    o = s["op"]
    nl = lambda xs: coqlist(_n(x) for x in xs)
    if o == "write":
        v = s["val"]
        return f"CWrite {zlit(s['addr'])} " + {"ref": f"(VRef {_n(v[1])})", "cast": f"(VCast {_n(v[1])})"}.get(v[0], f"(VConst {zlit(v[1])})")
    if o == "poll":
        return f"CPoll {zlit(s['addr'])} {zlit(s['shift'])} {zlit(s['cmp'])}"
    if o == "pure":
        return f"CPure {_n(s['dst'])} {accir.exp_to_coq(s['exp'])}"
    if o == "call":
        b = lambda x: "true" if x else "false"
        return f"CCall {_n(s['tag'])} {b(s['eff'])} {b(s['pure'])} {nl(s['dsts'])} {nl(s['args'])}"
    if o == "for":
        its = coqlist(f"({_n(a)}, {_n(i)})" for a, i in s["iters"])
        return (f"CFor {_n(s['iv'])} {_n(s['lb'])} {_n(s['ub'])} {_n(s['step'])} {its} {nl(s['results'])} "
                f"{cblock_to_coq(s['body'])} {nl(s['yields'])}")
    if o == "if":
        return (f"CIf {_n(s['cond'])} {nl(s['results'])} {cblock_to_coq(s['then'])} {nl(s['then_y'])} "
                f"{cblock_to_coq(s['else'])} {nl(s['else_y'])}")
    raise Unreadable(f"statement kind {o} cannot be part of a lowered program")


def cblock_to_coq(b):
    return coqlist(cstmt_to_coq(s) for s in b)


def surviving_state(mod):
    """L2 (direct): any !accfg.state / !accfg.token typed value or accfg op left in the module?"""
    bad = []
    for op in mod.walk():
        if op.name.startswith("accfg."):
            bad.append(f"op {op.name}")
        for r in op.results:
            if _is_state(r.type):
                bad.append(f"result of {op.name}")
        for o in op.operands:
            if _is_state(o.type):
                bad.append(f"operand of {op.name}")
        for reg in op.regions:
            for blk in reg.blocks:
                for a in blk.args:
                    if _is_state(a.type):
                        bad.append(f"block argument in {op.name}")
    return bad


def lower_case(mod, param_kinds):
    """Run the real pass on `mod`. Returns a case dict (with either 'after' or 'error')."""
    from snaxc.transforms.convert_accfg_to_csr import ConvertAccfgToCsrPass
    name_all_values(mod)
    names = accir.Names()
    before_text = accir.print_module(mod)
    progs = accir.convert_module(mod, names)
    assert list(progs) == ["f"], list(progs)
    decl = read_amap(mod, names)
    hn = HintNames(names)
    from xdsl.dialects.builtin import IndexType
    idx = sorted(i for v, i in names.vals.items() if isinstance(v.type, IndexType))
    case = {"before_text": before_text, "prog": progs["f"], "decl": decl, "kinds": param_kinds,
            "names": names, "has_reset": "accfg.reset" in before_text, "idx": idx}
    try:
        ConvertAccfgToCsrPass().apply(accir.xctx(), mod)
    except Exception as e:
        case["error"] = f"{type(e).__name__}: {e}"[:300]
        return case
    try:
        case["survivors"] = surviving_state(mod)
        mod.verify()
        f = [op for op in mod.body.block.ops if op.name == "func.func" and op.body.blocks][0]
        case["after"], _ = read_block(f.body.block, hn)
        case["after_text"] = accir.print_module(mod)
    except Unreadable as e:
        case["unreadable"] = str(e)[:300]
    except Exception as e:
        case["broken_output"] = f"{type(e).__name__}: {e}"[:300]
    return case


def gen_inputs(rng, kinds, style=None):
    info = {"params": [(None, None, k) for k in kinds]}
    return accir.gen_inputs(rng, info, style)


def make_cases(ctx, n):
    rng = ctx.rng
    cases = []
    for nm, text, kinds in FIXED:
        ensure_registered()
        c = lower_case(accir.parse(text), kinds)
        c["origin"] = nm
        cases.append(c)
    tries = 0
    while len(cases) < n + len(FIXED) and tries < 5 * n:
        tries += 1
        if rng.random() < 0.4:
            try:
                text, kinds, origin = hand_csr(rng)
                c = lower_case(accir.parse(text), kinds)
            except Exception as e:
                ctx.notes.append(f"hand generator failed: {type(e).__name__}: {str(e)[:200]}")
                continue
            c["origin"] = origin
            cases.append(c)
            continue
        malformed = rng.random() < 0.08
        reset = (not malformed) and rng.random() < 0.06
        try:
            mod, info = gen_program(rng, malformed=malformed, reset=reset)
        except Exception as e:   # the upstream pipeline (not this property) failed on the generated program
            ctx.notes.append(f"generator pipeline failed: {type(e).__name__}: {str(e)[:120]}")
            continue
        c = lower_case(mod, [k for (_, _, k) in info["params"]])
        c["origin"] = f"gen:{info['stage']}" + (":malformed" if malformed else "")
        c["info"] = {k: info[k] for k in ("loops", "ifs", "accs", "stage", "malformed")}
        cases.append(c)
    return cases


PRELUDE = "From Snax Require Import Base.Prelude Model.AccIR Model.AccSem Model.C04Csr.\n"


def eval_cases(ctx, cases, with_l1=True):
    """Returns (l1_bad_indices, l2_bad (index, input index)) over cases that have an 'after' or an 'error'."""
    rng = ctx.rng
    texts, index = [], []
    chunk = 12
    usable = [i for i, c in enumerate(cases) if "after" in c or "error" in c]
    for off in range(0, len(usable), chunk):
        ids = usable[off:off + chunk]
        l1, l2 = [], []
        for i in ids:
            c = cases[i]
            try:
                am = coq_amap(c["decl"], c["names"])
            except Unreadable as e:
                c["unreadable"] = str(e)
                continue
            p = accir.to_coq(c["prog"])
            if "after" in c:
                rb = cblock_to_coq(c["after"])
                ix = coqlist(_n(x) for x in c["idx"])
                l1.append((i, f"({am}, {ix}, {p}, Some {rb})"))
                ins = [gen_inputs(rng, c["kinds"], st) for st in ("zero", "one", "many", None, None)]
                c["inputs"] = ins
                for j, a in enumerate(ins):
                    l2.append(((i, j), f"({am}, {p}, {rb}, {accir.zlist(a)}, {zlit(j + 1)})"))
            else:
                ix = coqlist(_n(x) for x in c["idx"])
                l1.append((i, f"({am}, {ix}, {p}, None)"))
        t = PRELUDE
        t += f"Definition l1 : list (amapT * list nat * prog * option cblock) := {coqlist(x for _, x in l1)}.\n"
        t += ("Eval vm_compute in failing (fun c : amapT * list nat * prog * option cblock => match c with (am, ix, p, rb) => "
              "ocblock_eqb (lower_block am ix (p_body p)) rb end) l1.\n")
        t += f"Definition l2 : list (amapT * prog * cblock * list Z * Z) := {coqlist(x for _, x in l2)}.\n"
        t += ("Eval vm_compute in failing (fun c => match c with (am, p, rb, args, seed) => "
              "let co := test_coracle seed in "
              "octrace_eqb (expand am (co_busy co) 0%nat (frun (co_orc co) p args)) (crun co (p_params p) rb args) end) l2.\n")
        texts.append(t)
        index.append(([i for i, _ in l1], [k for k, _ in l2]))
    l1_bad, l2_bad, broken = [], [], []
    for (i1, i2), (ok, out) in zip(index, vlib.coq_eval_many("c04b", texts, timeout=600, par=8)):
        lists = vlib.parse_all_eval_lists(out)
        if not ok or len(lists) != 2:
            broken.append(out[-1500:])
            continue
        l1_bad += [i1[k] for k in lists[0]]
        l2_bad += [i2[k] for k in lists[1]]
    return l1_bad, l2_bad, broken


def _case_view(c):
    return {k: c.get(k) for k in ("origin", "before_text", "after_text", "error", "unreadable", "broken_output",
                                  "survivors", "inputs", "info") if c.get(k) is not None}


_CACHE = {}


def _run(ctx):
    if "r" not in _CACHE:
        cases = make_cases(ctx, ctx.n(45, 1500))
        l1_bad, l2_bad, broken = eval_cases(ctx, cases)
        _CACHE["r"] = (cases, l1_bad, l2_bad, broken)
    return _CACHE["r"]


def correspondence_B(ctx):
    cases, l1_bad, _, broken = _run(ctx)
    dis = [{"name": "L1:lower:cases-file", "detail": b} for b in broken]
    for i, c in enumerate(cases):
        nt = bool(c["prog"]["body"]) and ("after" in c)
        ctx.count({"L1": "lower", "origin": c["origin"], "n_stmts": len(c["prog"]["body"]), "error": c.get("error")},
                  nt, "B" + c["before_text"], "lower:" + c["origin"].split(":")[0] + (":error" if "error" in c else ""))
        if "unreadable" in c and not c["has_reset"]:
            dis.append(dict(name="L1:lower:unreadable-output", **_case_view(c)))
    for i in l1_bad:
        dis.append(dict(name="L1:lower", **_case_view(cases[i])))
    return dis


def search_B(ctx, deep):
    cases, _, l2_bad, broken = _run(ctx)
    fails = []
    for c in cases:
        if c.get("survivors"):
            fails.append({"part": "B", "what": "state_survives", "kind": c["origin"], "detail": c["survivors"][:5],
                          "klass": "has_reset" if c["has_reset"] else None, "case": _case_view(c)})
        elif c.get("broken_output"):
            fails.append({"part": "B", "what": "broken_output", "kind": c["origin"], "detail": c["broken_output"],
                          "klass": "has_reset" if c["has_reset"] else None, "case": _case_view(c)})
        elif c.get("error") and not c.get("info", {}).get("malformed"):
            fails.append({"part": "B", "what": "pass_raises", "kind": c["origin"], "detail": c["error"],
                          "klass": "has_reset" if c["has_reset"] else None, "case": _case_view(c)})
    for (i, j) in l2_bad:
        c = cases[i]
        fails.append({"part": "B", "what": "csr_trace_differs", "kind": c["origin"], "klass": None,
                      "detail": {"args": c["inputs"][j], "seed": j + 1}, "case": _case_view(c)})
    for c in cases:
        ctx.count({"L2": "lower", "origin": c["origin"]}, "after" in c, "L2B" + c["before_text"], "L2:lower")
    return fails


RESET_WITNESS = '''builtin.module {
  "accfg.accelerator"() <{name = @snax_hwpe_mult, fields = {A = 976 : i32}, launch_fields = {launch = 960 : i32}, barrier = 963 : i32}> : () -> ()
  func.func @f(%a : i32) {
    %s = accfg.setup "snax_hwpe_mult" to ("A" = %a : i32) : !accfg.state<"snax_hwpe_mult">
    %t = "accfg.launch"(%a, %s) <{param_names = ["launch"], accelerator = "snax_hwpe_mult"}> : (i32, !accfg.state<"snax_hwpe_mult">) -> !accfg.token<"snax_hwpe_mult">
    "accfg.await"(%t) : (!accfg.token<"snax_hwpe_mult">) -> ()
    accfg.reset %s : !accfg.state<"snax_hwpe_mult">
    func.return
  }
}'''


def replay_known(ctx, entry):
    if entry.get("class") != "has_reset":
        return False
    ensure_registered()
    c = lower_case(accir.parse(entry.get("witness", {}).get("mlir", RESET_WITNESS)), ["val"])
    return bool(c.get("survivors") or c.get("broken_output") or c.get("error"))


def replay(ctx, f):
    ensure_registered()
    case = f.get("case", {})
    text = case.get("before_text")
    if not text:
        print("no program recorded")
        return 1
    print("--- program before convert-accfg-to-csr\n" + text)
    kinds = []
    c = lower_case(accir.parse(text), kinds)
    for k in ("error", "unreadable", "broken_output", "survivors"):
        if c.get(k):
            print(f"{k}: {c[k]}")
    if "after_text" in c:
        print("--- after\n" + c["after_text"])
    bad = bool(c.get("survivors") or c.get("broken_output") or c.get("error") or c.get("unreadable"))
    if "after" in c and f.get("what") in ("csr_trace_differs", None):
        am = coq_amap(c["decl"], c["names"])
        p = accir.to_coq(c["prog"])
        rb = cblock_to_coq(c["after"])
        args = (f.get("detail") or {}).get("args") or []
        seed = (f.get("detail") or {}).get("seed", 1)
        t = PRELUDE + (f"Definition am : amapT := {am}.\nDefinition p := {p}.\nDefinition rb : cblock := {rb}.\n"
                       f"Definition co := test_coracle {zlit(seed)}.\n"
                       f"Eval vm_compute in (expand am (co_busy co) 0%nat (frun (co_orc co) p {accir.zlist(args)})).\n"
                       f"Eval vm_compute in (crun co (p_params p) rb {accir.zlist(args)}).\n"
                       f"Eval vm_compute in (ocblock_eqb (lower_block am {coqlist(_n(x) for x in c['idx'])} (p_body p)) (Some rb)).\n")
        ok, out = vlib.coq_eval("c04replay", t)
        print("--- expected CSR trace / CSR trace of the real output / model agrees with real output:\n" + out[-3000:])
        bad = bad or ("= false" in out) or not ok
    return 1 if bad else 0
