"""C10 — a tiled-strided layout means the same thing everywhere.

(H) hand model coq/Model/Tsl.v, L1 correspondence on every public method of the
TSL classes, L2 property-level search on the implementation.
"""
from __future__ import annotations

import io
import itertools

import vlib
from vlib import boollit, coqlist, optz, zlist, zlit

PROPERTY = "C10"
MODEL_TARGETS = ["Model/Tsl.vo", "Model/TslText.vo", "Model/TslOps.vo"]
RULE = ("layouts of rank 1-4, tile depth 1-3; bounds from {1,2,3,4,5,6,8}; steps from the induced contiguous "
        "lattice (permuted), padded lattices, random positive steps, repeated steps; dynamic outermost "
        "bound/step; offsets incl. negative and dynamic; a case is non-trivial when the layout has >= 2 "
        "strides with bound > 1; distinct = distinct (layout, method) pairs")
TRUSTED_BASE = [
    "Coq 8.16.1 kernel + vm_compute (no native_compute)",
    "hand model coq/Model/Tsl.v of snaxc/ir/tsl/*.py and TiledStridedLayoutAttr.get_affine_map, tied by L1 (this harness)",
    "harness/props/c10.py generators and Coq-literal printer; harness/xdsl_compat.py; xDSL 0.70 AffineMap.eval, Parser, Printer; numpy",
]
ASSUMPTIONS = [
    "theorems quantify over static layouts with positive bounds (layout_okb); dynamic entries are covered by L1/L2 only",
    "print/parse is modelled at token level (coq/Model/TslText.v); the lexer is not: L1 compares tokens produced by the "
    "harness's regex tokenizer (`tokenize`) from str(layout) / from the text handed to the real parser",
    "subview pointer arithmetic: only dynamic offsets are lowered by convert-memref-to-arith (static offsets live in the "
    "result type's layout offset, consumed by snax-copy-to-dma: property C05)",
]


def _impl():
    from snaxc.ir.tsl import Stride, TiledStride, TiledStridedLayout
    return Stride, TiledStride, TiledStridedLayout


# ---------------------------------------------------------------- generators
BOUNDS = [1, 2, 3, 4, 5, 6, 8]


def gen_layout(rng, allow_dynamic=True, max_total=768):
    """Returns (tstrides as list[list[(step,bound)]], offset)."""
    while True:
        rank = rng.choice([1, 1, 2, 2, 2, 3, 3, 4])
        depths = [rng.choice([1, 1, 2, 2, 3]) for _ in range(rank)]
        bounds = [[rng.choice(BOUNDS) for _ in range(d)] for d in depths]
        total = 1
        for bs in bounds:
            for b in bs:
                total *= b
        if total <= max_total:
            break
    positions = [(d, k) for d in range(rank) for k in range(depths[d])]
    mode = rng.choice(["lattice", "lattice", "padded", "random", "repeat", "rowmajor", "collide", "collide"])
    steps = {}
    if mode in ("lattice", "padded", "rowmajor"):
        order = list(positions)
        if mode == "rowmajor":
            order = list(reversed(positions))
        else:
            rng.shuffle(order)
        cur = rng.choice([1, 1, 1, 2, 4, 8])
        for (d, k) in order:
            steps[(d, k)] = cur
            cur = cur * bounds[d][k]
            if mode == "padded" and rng.random() < 0.4:
                cur += rng.choice([1, 2, 8])
    elif mode == "collide":
        # per dimension, every step is one of the extents (step*bound) / steps already present further in:
        # exercises squashing decisions against merged and un-merged neighbours (overlapping layouts included)
        for d in range(rank):
            base = rng.choice([1, 1, 2, 8])
            pool = [base]
            for k in reversed(range(depths[d])):
                st = rng.choice(pool)
                steps[(d, k)] = st
                pool.append(st * bounds[d][k])
                pool.append(st)
    elif mode == "random":
        for p in positions:
            steps[p] = rng.choice([1, 2, 3, 4, 5, 7, 8, 16, 32, 64, 100, -1, -4])
    else:
        pool = [rng.choice([1, 2, 4, 8, 16]) for _ in range(2)]
        for p in positions:
            steps[p] = rng.choice(pool)
    ts = [[(steps[(d, k)], bounds[d][k]) for k in range(depths[d])] for d in range(rank)]
    if allow_dynamic and rng.random() < 0.25:
        d = rng.randrange(rank)
        s, b = ts[d][0]
        ts[d][0] = (None if rng.random() < 0.7 else s, None)
    off = rng.choice([0, 0, 0, 1, 5, 64, -3, 1024])
    if allow_dynamic and rng.random() < 0.05:
        off = None
    return ts, off


def mk(ts, off):
    Stride, TiledStride, TSL = _impl()
    return TSL([TiledStride([Stride(s, b) for (s, b) in t]) for t in ts], offset=off)


def unmk(l):
    return [[(s.step, s.bound) for s in t.strides] for t in l.tstrides], l.offset


def is_static(ts):
    return all(s is not None and b is not None for t in ts for (s, b) in t)


def coq_stride(sb):
    return f"({optz(sb[0])}, {optz(sb[1])})"


def coq_layout(ts, off):
    return "(mkLayout " + coqlist(coqlist(coq_stride(sb) for sb in t) for t in ts) + " " + optz(off) + ")"


def nontrivial(ts):
    return sum(1 for t in ts for (_, b) in t if b is None or b > 1) >= 2


# ---------------------------------------------------------------- text
import re as _re

_TOK = _re.compile(r"\s*(\[|\]|\(|\)|->|,|:|\?|offset|>|-?\d+)")
_TOKNAME = {"[": "TLSq", "]": "TRSq", "(": "TLPar", ")": "TRPar", "->": "TArrow", ",": "TComma", ":": "TColon",
            "?": "TQuest", "offset": "TOffset", ">": "TGreater"}


def tokenize(text):
    """Trusted mini-lexer for the TSL text (the xDSL lexer is the real one)."""
    pos, toks = 0, []
    text = text.strip()
    while pos < len(text):
        m = _TOK.match(text, pos)
        if not m:
            return None
        t = m.group(1)
        toks.append(_TOKNAME[t] if t in _TOKNAME else f"(TInt {zlit(int(t))})")
        pos = m.end()
    return toks


_XCTX = []


def _xctx():
    if not _XCTX:
        from xdsl.context import Context
        from snaxc.dialects.tsl import TSL
        c = Context()
        c.load_dialect(TSL)
        _XCTX.append(c)
    return _XCTX[0]


def real_parse(body):
    """Parse `#tsl.tsl<body>` with the real parser. Returns (ts, off) or None on any error."""
    from xdsl.parser import Parser
    c = _xctx()
    try:
        a = Parser(c, f"#tsl.tsl<{body}>").parse_attribute()
        return unmk(a.data)
    except Exception:
        return None


def mutate_text(rng, body):
    r = rng.random()
    if r < 0.4:
        return body
    toks = _re.findall(r"\[|\]|\(|\)|->|,|:|\?|offset|-?\d+", body)
    if not toks:
        return body
    i = rng.randrange(len(toks))
    k = rng.random()
    if k < 0.3:
        del toks[i]
    elif k < 0.6:
        toks[i] = rng.choice(["?", "3", ",", "]", ")", "->", "offset", ":", "-2"])
    elif k < 0.8:
        toks.insert(i, rng.choice(["?", "7", ","]))
    else:
        toks = toks + [",", "offset", ":", rng.choice(["?", "4", "-1"])]
    return " ".join(toks)


# ---------------------------------------------------------------- L1
def correspondence(ctx):
    Stride, TiledStride, TSL = _impl()
    from snaxc.dialects.tsl import TiledStridedLayoutAttr
    rng = ctx.rng
    n = ctx.n(300, 4000)
    cases = {k: [] for k in ("canon", "allv", "ovl", "dense", "aff", "from", "lccb", "tb", "print", "parse", "bops", "sops", "subview")}
    meta = {k: [] for k in cases}
    crashed = []      # crashes of the implementation on inputs where the model is defined
    cases["_crashed"] = crashed
    for i in range(n):
        ts, off = gen_layout(rng)
        l = mk(ts, off)
        L = coq_layout(ts, off)
        nt = nontrivial(ts)
        # canonicalize (static and dynamic)
        cts, coff = unmk(l.canonicalize())
        cases["canon"].append(f"({L}, {coq_layout(cts, coff)})")
        meta["canon"].append((ts, off))
        ctx.count({"method": "canonicalize", "layout": str(l), "result": str(l.canonicalize())}, nt, f"canon{ts}{off}", "canonicalize")
        # tile bounds
        tb = l.tile_bounds()
        cases["tb"].append(f"({L}, {coqlist(coqlist(optz(b) for b in bs) for bs in tb)})")
        meta["tb"].append((ts, off))
        ctx.count({"method": "tile_bounds", "layout": str(l)}, nt, f"tb{ts}", "tile_bounds")
        # run-time views: bound ops / step ops evaluated, subview pointer arithmetic
        _ops_cases(rng, ctx, ts, off, l, L, nt, cases, meta)
        # textual form: printed tokens, and the real parser on (possibly damaged) text
        body = str(l)
        ptoks = tokenize(body)
        if ptoks is not None:
            cases["print"].append(f"({L}, {coqlist(ptoks)})")
            meta["print"].append((ts, off, body))
            ctx.count({"method": "__str__", "layout": body}, nt, f"pr{ts}{off}", "print")
        mbody = mutate_text(rng, body)
        mtoks = tokenize(mbody)
        if mtoks is not None:
            got = real_parse(mbody)
            exp = "None" if got is None else f"(Some {coq_layout(*got)})"
            cases["parse"].append(f"({coqlist(mtoks + ['TGreater'])}, {exp})")
            meta["parse"].append((mbody, got))
            ctx.count({"method": "TSLParser.parse", "text": mbody, "result": str(got)}, nt, f"pa{mbody}", "parse_ok" if got else "parse_err")
        if is_static(ts):
            av = [int(x) for x in l.all_values()]
            cases["allv"].append(f"({L}, {zlist(av)})")
            meta["allv"].append((ts, off))
            ctx.count({"method": "all_values", "layout": str(l), "n": len(av)}, nt, f"av{ts}", "all_values")
            cases["ovl"].append(f"({L}, {boollit(bool(l.self_overlaps()))})")
            meta["ovl"].append((ts, off))
            cases["dense"].append(f"({L}, {boollit(bool(l.is_dense()))})")
            meta["dense"].append((ts, off))
            ctx.count({"method": "is_dense/self_overlaps", "layout": str(l), "dense": bool(l.is_dense())}, nt, f"dn{ts}", "density")
            # affine map on points inside and outside the box
            m = TiledStridedLayoutAttr(l).get_affine_map()
            shape = [_prod(b for (_, b) in t) for t in ts]
            pts = []
            for _ in range(4):
                pts.append([rng.randrange(0, s) for s in shape])
            pts.append([s - 1 for s in shape])
            pts.append([s + rng.randrange(0, 3 * s) for s in shape])  # beyond the shape: outermost has no modulo
            for p in pts:
                v = m.eval(p, [])[0]
                cases["aff"].append(f"({L}, {zlist(p)}, {zlit(v)})")
                meta["aff"].append((ts, off, p))
                ctx.count({"method": "get_affine_map.eval", "layout": str(l), "idx": p, "addr": v}, nt, f"aff{ts}{p}", "affine_map")
        # from_stride
        simple = rng.choice([None, 1, 2, 4, 8, 3, 0])
        tbs = [rng.choice([None, 1, 2, 3, 4, 8, 0]) if k == 0 else rng.choice(BOUNDS + [0]) for k in range(rng.choice([1, 2, 3]))]
        fs = TiledStride.from_stride(simple, tbs)
        cases["from"].append(f"({optz(simple)}, {coqlist(optz(b) for b in tbs)}, {coqlist(coq_stride((s.step, s.bound)) for s in fs.strides)})")
        meta["from"].append((simple, tbs))
        ctx.count({"method": "from_stride", "simple": simple, "tile_bounds": tbs, "result": str(fs)}, len(tbs) > 1, f"fs{simple}{tbs}", "from_stride")
        # lccb against a layout with equal tile bounds
        ts2 = _perturb(rng, ts)
        l2 = mk(ts2, 0)
        start = rng.choice([1, 1, 2, 4, 8])
        try:
            r = l.largest_common_contiguous_block(l2, start)
            rr = coqlist(coq_stride((s.step, s.bound)) for s in r)
            cases["lccb"].append(f"({L}, {coq_layout(ts2, 0)}, {zlit(start)}, {rr})")
            meta["lccb"].append((ts, ts2, start))
            ctx.count({"method": "lccb", "a": str(l), "b": str(l2), "start": start, "result": [str(s) for s in r]}, len(r) > 1, f"lc{ts}{ts2}{start}", "lccb")
        except Exception as e:  # the model is total here (equal structure): a crash is a disagreement
            ctx.notes.append(f"lccb raised {e!r} on {l} / {l2}")
            crashed.append({"name": "L1:lccb-raised", "error": repr(e)[:300], "case": (ts, ts2, start)})

    text = ["From Snax Require Import Base.Prelude Model.Tsl Model.TslText Model.TslOps.",
            "Definition opt_zll_eqb (a b : option (list (list Z))) : bool := match a, b with Some x, Some y => list_eqb (list_eqb Z.eqb) x y | None, None => true | _, _ => false end.",
            "Definition opt_layout_eqb (a b : option layout) : bool := match a, b with Some x, Some y => layout_eqb x y | None, None => true | _, _ => false end."]
    tests = {
        "canon": "fun c : layout * layout => layout_eqb (canonicalize (fst c)) (snd c)",
        "tb": "fun c : layout * list (list (option Z)) => list_eqb (list_eqb optZ_eqb) (tile_bounds (fst c)) (snd c)",
        "allv": "fun c : layout * list Z => list_eqb Z.eqb (all_values (fst c)) (snd c)",
        "ovl": "fun c : layout * bool => Bool.eqb (self_overlaps (fst c)) (snd c)",
        "dense": "fun c : layout * bool => Bool.eqb (is_dense (fst c)) (snd c)",
        "aff": "fun c : layout * list Z * Z => affine_map_eval (fst (fst c)) (snd (fst c)) =? snd c",
        "from": "fun c : option Z * list (option Z) * tstride => tstride_eqb (from_stride (fst (fst c)) (snd (fst c))) (snd c)",
        "lccb": "fun c : layout * layout * Z * list stride => match c with (a, b, s, r) => tstride_eqb (lccb a b s) r end",
        "bops": "fun c : layout * list Z * option (list (list Z)) => opt_zll_eqb (bound_vals (tstrides (fst (fst c))) (snd (fst c))) (snd c)",
        "sops": "fun c : layout * list (list Z) * Z * list Z => match c with (l, bv, el, r) => list_eqb Z.eqb (step_vals l bv el) r end",
        "subview": "fun c : layout * Z * list (nat * Z) * Z => match c with (l, el, offs, r) => zsum (map (fun p : nat * Z => subview_contrib (nth (fst p) (tstrides l) []) el (snd p)) offs) =? r end",
        "print": "fun c : layout * list tok => list_eqb tok_eqb (print_layout (fst c)) (snd c)",
        "parse": "fun c : list tok * option layout => opt_layout_eqb (parse_layout (fst c)) (snd c)",
    }
    order = list(tests)
    header = "\n".join(text) + "\n"
    files = []
    for k in order:
        files.append(header + f"Definition cases_{k} := {coqlist(cases[k])}.\n"
                     f"Eval vm_compute in failing ({tests[k]}) cases_{k}.\n")
    results = vlib.coq_eval_many("c10_", files, timeout=900, par=8)
    dis = list(crashed)
    for k, (ok, out) in zip(order, results):
        lists = vlib.parse_all_eval_lists(out)
        if not ok or len(lists) != 1:
            dis.append({"name": f"cases-file:{k}", "detail": out[-1500:]})
            continue
        for idx in lists[0]:
            dis.append({"name": f"L1:{k}", "case": meta[k][idx], "coq_case": cases[k][idx][:600]})
            m = meta[k][idx]
            # layouts on which model and code disagree are the first inputs the property search tries
            if isinstance(m, tuple) and m and isinstance(m[0], list) and m[0] and isinstance(m[0][0], list):
                ctx.extra.setdefault("_suspects", []).append((m[0], m[1] if len(m) > 1 and not isinstance(m[1], list) else 0))
    return dis


def _eval_arith(val, env):
    """Evaluate an index-typed SSA value produced by arith ops (trusted mini-interpreter)."""
    from xdsl.dialects.arith import AddiOp, ConstantOp, DivUIOp, MuliOp
    if val in env:
        return env[val]
    op = val.owner
    if isinstance(op, ConstantOp):
        return op.value.value.data
    if isinstance(op, DivUIOp):
        return _eval_arith(op.lhs, env) // _eval_arith(op.rhs, env)
    if isinstance(op, MuliOp):
        return _eval_arith(op.lhs, env) * _eval_arith(op.rhs, env)
    if isinstance(op, AddiOp):
        return _eval_arith(op.lhs, env) + _eval_arith(op.rhs, env)
    if op.name == "memref.extract_aligned_pointer_as_index":
        return 0
    raise ValueError(f"cannot evaluate {op.name}")


_ELT = {1: "i8", 2: "i16", 4: "i32", 8: "i64"}


def _ops_cases(rng, ctx, ts, off, l, L, nt, cases, meta):
    from xdsl.dialects.arith import ConstantOp
    from xdsl.dialects.builtin import IndexType, IntegerType, MemRefType
    from xdsl.utils.test_value import create_ssa_value
    from snaxc.dialects.tsl import TiledStridedLayoutAttr
    a = TiledStridedLayoutAttr(l)
    # bound ops
    shape = []
    for t in ts:
        inner = _prod(b for (_, b) in t if b)
        if t[0][1] is None:
            shape.append(inner * rng.choice([1, 2, 3, 5]) + (rng.choice([0, 0, 1]) if inner > 1 else 0))
        else:
            shape.append(inner)
    try:
        _, mp = a.get_bound_ops([ConstantOp.from_int_and_width(n, IndexType()) for n in shape])
        bv = [[_eval_arith(mp[(d, k)].results[0], {}) for k in range(len(ts[d]))] for d in range(len(ts))]
        exp = "(Some " + coqlist(zlist(b) for b in bv) + ")"
    except AssertionError:
        mp, bv, exp = None, None, "None"
    cases["bops"].append(f"({L}, {zlist(shape)}, {exp})")
    meta["bops"].append((ts, shape))
    ctx.count({"method": "get_bound_ops", "layout": str(l), "shape": shape, "bounds": bv}, nt, f"bo{ts}{shape}", "bound_ops")
    if mp is not None and all(len(t) > 0 for t in ts) and len(ts) > 0:
        el = rng.choice([1, 2, 4, 8])
        in_bytes = rng.random() < 0.7
        try:
            if in_bytes:
                mt = MemRefType(IntegerType(8 * el), [-1 if t[0][1] is None else n for t, n in zip(ts, shape)], a)
                _, smp = a.get_step_ops(mp, create_ssa_value(mt), in_bytes=True)
            else:
                el = 1
                _, smp = a.get_step_ops(mp)
            sv = [_eval_arith(smp[(d, k)].results[0], {}) for d in range(len(ts)) for k in range(len(ts[d]))]
            cases["sops"].append(f"({L}, {coqlist(zlist(b) for b in bv)}, {zlit(el)}, {zlist(sv)})")
            meta["sops"].append((ts, bv, el))
            ctx.count({"method": "get_step_ops", "layout": str(l), "el_bytes": el, "steps": sv}, nt, f"so{ts}{bv}{el}", "step_ops")
        except Exception as e:  # bound ops exist and every tile list is non-empty: the model defines the steps
            ctx.notes.append(f"get_step_ops raised {e!r} on {l}")
            cases["_crashed"].append({"name": "L1:get_step_ops-raised", "error": repr(e)[:300], "case": (ts, off)})
    # subview pointer (static layouts only; every inner bound static by construction)
    # (the IR text of a dynamic layout offset cannot be parsed at all: known finding F21)
    if is_static(ts) and off is not None and all(b > 0 and s > 0 for t in ts for (s, b) in t):
        r = _subview_case(rng, ts, l)
        if isinstance(r, dict):
            cases["_crashed"].append(r)
        elif r is not None:
            el, offs, delta = r
            cases["subview"].append(f"({L}, {zlit(el)}, {coqlist(f'({d}%nat, {zlit(o)})' for d, o in offs)}, {zlit(delta)})")
            meta["subview"].append((ts, el, offs))
            ctx.count({"method": "LowerExtractAlignedPointerOp", "layout": str(l), "el_bytes": el, "offsets": offs, "delta": delta}, nt, f"sv{ts}{el}{offs}", "subview")


_OPT = []


def _subview_case(rng, ts, l):
    from xdsl.parser import Parser
    from snaxc.transforms.convert_memref_to_arith import ConvertMemrefToArithPass
    if not _OPT:
        from snaxc.tools.snax_opt_main import SNAXOptMain
        _OPT.append(SNAXOptMain(args=[str(vlib.VERIF / "notes" / "probe_c07_zero_trip.mlir")]).ctx)
    xctx = _OPT[0]
    el = rng.choice([1, 2, 4, 8])
    shape = [_prod(b for (_, b) in t) for t in ts]
    dyn = [d for d in range(len(ts)) if rng.random() < 0.6]
    if not dyn:
        dyn = [rng.randrange(len(ts))]
    offs = []
    for d in dyn:
        inner = _prod(b for (_, b) in ts[d][1:])
        if rng.random() < 0.75:
            offs.append((d, inner * rng.randrange(0, max(1, ts[d][0][1]))))
        else:
            offs.append((d, rng.randrange(0, shape[d])))
    srct = f"memref<{'x'.join(map(str, shape))}x{_ELT[el]}, #tsl.tsl<{l}>>"
    rest = f"memref<{'x'.join(['1'] * len(shape))}x{_ELT[el]}>"
    lines = [f'%src = "test.op"() : () -> ({srct})']
    names = {}
    for d, _ in offs:
        lines.append(f'%o{d} = "test.op"() : () -> (index)')
        names[d] = f"%o{d}"
    offtxt = ", ".join(names.get(d, "0") for d in range(len(shape)))
    lines.append(f"%sv = memref.subview %src[{offtxt}] [{', '.join(['1'] * len(shape))}] [{', '.join(['1'] * len(shape))}] : {srct} to {rest}")
    lines.append(f'%p = "memref.extract_aligned_pointer_as_index"(%sv) : ({rest}) -> index')
    lines.append('"test.op"(%p) : (index) -> ()')
    try:
        mod = Parser(xctx, "\n".join(lines)).parse_module()
        ConvertMemrefToArithPass().apply(xctx, mod)
        ops = list(mod.body.block.ops)
        env = {}
        k = 0
        for op in ops:
            if op.name == "test.op" and len(op.results) == 1 and str(op.results[0].type) == "index":
                env[op.results[0]] = offs[k][1]
                k += 1
        final = ops[-1]
        return el, offs, _eval_arith(final.operands[0], env)
    except Exception as e:  # static positive layout, in-range offsets: the lowering must succeed
        return {"name": "L1:subview-lowering-raised", "error": repr(e)[:300], "case": (ts, el, offs)}


def _prod(xs):
    r = 1
    for x in xs:
        r *= x
    return r


def _perturb(rng, ts):
    ts2 = [list(t) for t in ts]
    r = rng.random()
    if r < 0.3:
        return ts2
    # change some steps (bounds stay equal)
    for d in range(len(ts2)):
        for k in range(len(ts2[d])):
            if rng.random() < 0.3:
                s, b = ts2[d][k]
                ts2[d][k] = (rng.choice([1, 2, 4, 8, 16, 32, s if s is not None else 1]), b)
            elif rng.random() < 0.2:
                # same step, different bound at the same position (lccb itself does not require equal bounds)
                s, b = ts2[d][k]
                ts2[d][k] = (s, rng.choice([1, 2, 3, 4, 8]) if b is not None else b)
    return ts2


# ---------------------------------------------------------------- L2: the property on the implementation
def _roundtrip(l):
    from xdsl.parser import Parser
    from xdsl.printer import Printer
    from snaxc.dialects.tsl import TiledStridedLayoutAttr
    ctx = _xctx()
    s = io.StringIO()
    Printer(s).print_attribute(TiledStridedLayoutAttr(l))
    t = s.getvalue()
    try:
        b = Parser(ctx, t).parse_attribute()
        return t, unmk(b.data) == unmk(l), str(b.data)
    except Exception as e:
        return t, False, "ERR " + repr(e)[:100]


def check_layout(ts, off):
    """Property-level checks on the implementation. Returns list of (what, detail, klass)."""
    from snaxc.dialects.tsl import TiledStridedLayoutAttr
    l = mk(ts, off)
    fails = []
    t, ok, back = _roundtrip(l)
    if not ok:
        klass = "dynamic_offset_print" if off is None else None
        fails.append(("print_parse", {"printed": t, "reparsed": back}, klass))
    if is_static(ts) and all(b > 0 and s > 0 for tt in ts for (s, b) in tt):
        av = [int(x) for x in l.all_values()]
        shape = [_prod(b for (_, b) in tt) for tt in ts]
        m = TiledStridedLayoutAttr(l).get_affine_map()
        via_map = [m.eval(list(p), [])[0] for p in itertools.product(*[range(s) for s in shape])]
        if via_map != av:
            fails.append(("affine_map_vs_all_values", {"affine": via_map[:32], "all_values": av[:32]}, None))
        c = l.canonicalize()
        cav = [int(x) for x in c.all_values()]
        if cav != av:
            fails.append(("canonicalize_all_values", {"before": av[:32], "after": cav[:32], "canon": str(c)}, None))
        cshape = [_prod(s.bound for s in tt.strides) for tt in c.tstrides]
        if cshape != shape or c.offset != l.offset:
            fails.append(("canonicalize_shape_or_offset", {"before": shape, "after": cshape,
                                                           "offset_before": l.offset, "offset_after": c.offset}, None))
        else:
            mc = TiledStridedLayoutAttr(c).get_affine_map()
            via_c = [mc.eval(list(p), [])[0] for p in itertools.product(*[range(s) for s in shape])]
            if via_c != via_map:
                fails.append(("canonicalize_affine_map", {"before": via_map[:32], "after": via_c[:32]}, None))
        dup = len(set(av)) != len(av)
        if bool(l.self_overlaps()) != dup:
            fails.append(("self_overlaps", {"expected": dup}, None))
        dense = (not dup) and sorted(av) == list(range(len(av)))
        if bool(l.is_dense()) != dense:
            fails.append(("is_dense", {"expected": dense}, None))
    return fails


def check_from_strides(rng, strides=None, tbs=None):
    Stride, TiledStride, TSL = _impl()
    from snaxc.dialects.tsl import TiledStridedLayoutAttr
    if strides is None:
        rank = rng.choice([1, 2, 3])
        tbs = [[rng.choice([1, 2, 3, 4]) for _ in range(rng.choice([1, 2, 3]))] for _ in range(rank)]
        strides = [rng.choice([1, 2, 3, 8, 16, 100]) for _ in range(rank)]
    l = TSL.from_strides(strides, tbs, 0)
    shape = [_prod(b) for b in tbs]
    m = TiledStridedLayoutAttr(l).get_affine_map()
    for p in itertools.product(*[range(s) for s in shape]):
        want = sum(a * b for a, b in zip(strides, p))
        if m.eval(list(p), [])[0] != want:
            return [("from_strides_addr", {"strides": strides, "tile_bounds": tbs, "idx": list(p), "got": m.eval(list(p), [])[0], "want": want}, None)]
    if l.tile_bounds() != tbs:
        return [("from_strides_tile_bounds", {"strides": strides, "tile_bounds": tbs}, None)]
    return []


def check_ops(ts, off, sizes, el):
    """run-time views (property level, no model): for tile-aligned run-time sizes the evaluated bound ops are the static
    bounds, a dynamic outermost bound times the inner tile is the size, and every static step op is step * el_bytes."""
    from xdsl.dialects.arith import ConstantOp
    from xdsl.dialects.builtin import IndexType, IntegerType, MemRefType
    from xdsl.utils.test_value import create_ssa_value
    from snaxc.dialects.tsl import TiledStridedLayoutAttr
    a = TiledStridedLayoutAttr(mk(ts, off))
    _, mp = a.get_bound_ops([ConstantOp.from_int_and_width(n, IndexType()) for n in sizes])
    bv = [[_eval_arith(mp[(d, k)].results[0], {}) for k in range(len(ts[d]))] for d in range(len(ts))]
    for d, t in enumerate(ts):
        want = [b for (_, b) in t]
        if any(b is not None and b != g for b, g in zip(want, bv[d])) or _prod(bv[d]) != sizes[d]:
            return [("bound_ops", {"sizes": sizes, "dim": d, "bounds": bv[d], "el_bytes": el}, None)]
    mt = MemRefType(IntegerType(8 * el), [-1 if t[0][1] is None else n for t, n in zip(ts, sizes)], a)
    _, smp = a.get_step_ops(mp, create_ssa_value(mt), in_bytes=True)
    for d, t in enumerate(ts):
        for k, (st, _) in enumerate(t):
            got = _eval_arith(smp[(d, k)].results[0], {})
            if st is not None and got != st * el:
                return [("step_ops", {"sizes": sizes, "dim": d, "depth": k, "got": got, "want": st * el, "el_bytes": el}, None)]
    return []


def check_lccb(rng, ts, ts2=None, start=None):
    """the block reported for two layouts is contiguous in both and shared by both."""
    if ts2 is None:
        ts2 = _perturb(rng, ts)
        start = rng.choice([1, 2, 4, 8])
    a, b = mk(ts, 0), mk(ts2, 0)
    r = a.largest_common_contiguous_block(b, start)
    flat_a = [(d, k, s) for d, t in enumerate(ts) for k, s in enumerate(t)]
    if len(r) == 1 and r[0].step == start and r[0].bound == 1:
        return []
    cur = start
    used = set()
    for s in r:
        cands = [(d, k) for (d, k, sb) in flat_a if sb == (s.step, s.bound) and (d, k) not in used
                 and ts2[d][k] == (s.step, s.bound)]
        if not cands or s.step != cur:
            return [("lccb", {"a": str(a), "b": str(b), "start": start, "result": [str(x) for x in r],
                              "ts": ts, "ts2": ts2}, None)]
        used.add(cands[0])
        cur = None if (s.step is None or s.bound is None) else s.step * s.bound
    return []


def search(ctx, deep=False):
    rng = ctx.rng
    n = ctx.n(200, 3000) * (3 if deep else 1)
    fails = []
    for (ts, off) in ctx.extra.pop("_suspects", [])[:200]:
        try:
            ts = [[tuple(sb) for sb in t] for t in ts]
            for what, detail, klass in check_layout(ts, off if (off is None or isinstance(off, int)) else 0):
                fails.append({"what": what, "layout": [ts, off], "detail": detail, "klass": klass, "from": "L1 suspect"})
        except Exception:
            pass
    for i in range(n):
        ts, off = gen_layout(rng, allow_dynamic=(i % 3 == 0), max_total=512)
        sizes = [_prod(b for (_, b) in t if b) * (rng.choice([1, 2, 3, 5]) if t[0][1] is None else 1) for t in ts]
        ops = check_ops(ts, off, sizes, rng.choice([1, 2, 4, 8])) if all(s for t in ts for (s, _) in t if s is not None) else []
        for what, detail, klass in check_layout(ts, off) + check_lccb(rng, ts) + check_from_strides(rng) + ops:
            fails.append({"what": what, "layout": [ts, off], "detail": detail, "klass": klass})
        ctx.count({"L2": "layout", "layout": [ts, off]}, nontrivial(ts), f"l2{ts}{off}", "L2")
    return _dedup(fails)


def _dedup(fails):
    seen, out = set(), []
    for f in fails:
        k = (f["what"], f["klass"])
        if k not in seen:
            seen.add(k)
            out.append(f)
    return out


def replay_known(ctx, entry):
    w = entry["witness"]
    ts = [[tuple(sb) for sb in t] for t in w["layout"][0]]
    fails = check_layout(ts, w["layout"][1])
    return any(k == entry["class"] for (_, _, k) in fails)


def replay(ctx, obj):
    f = obj.get("failure")
    if not f:
        print("no failing input recorded; broken obligations:", obj.get("no_longer_checks"))
        return 1
    d = f.get("detail", {})
    if f.get("what") == "lccb" and "ts2" in d:
        tup = lambda x: [[tuple(sb) for sb in t] for t in x]
        res = check_lccb(None, tup(d["ts"]), tup(d["ts2"]), d["start"])
    elif str(f.get("what", "")).startswith("from_strides") and "strides" in d:
        res = check_from_strides(None, d["strides"], d["tile_bounds"])
    elif f.get("what") in ("bound_ops", "step_ops"):
        res = check_ops([[tuple(sb) for sb in t] for t in f["layout"][0]], f["layout"][1], d["sizes"], d["el_bytes"])
    else:
        ts = [[tuple(sb) for sb in t] for t in f["layout"][0]]
        res = check_layout(ts, f["layout"][1])
        print("layout:", mk(ts, f["layout"][1]))
    for r in res:
        print("FAIL", r)
    return 1 if res else 0
