"""C16 — returned schedules fit the accelerator template.

(H) hand models coq/Model/C16Matcher.v (exact rational row-space comparison instead of the float SVD,
the three extra checks) and coq/Model/C03Schedule.v (the search); L1: matcher vs the SVD implementation
(small-scope exhaustive by in-Coq enumeration + random literal cases), Template.matches and the checks on
generated template/schedule pairs; L2: the post-condition checked on every schedule the real
scheduler_backtrack yields, with an independent exact (Fraction) row-space oracle.
"""
from __future__ import annotations

import itertools

import numpy as np

import vlib
from vlib import boollit, coqlist, natlit, zlist, zlit

from props import dartlib as D
from props.c03 import _run_cases

PROPERTY = "C16"
MODEL_TARGETS = ["Model/C03Schedule.vo", "Model/C16Matcher.vo", "Model/C16Fits.vo", "Model/C16Enum.vo"]
RULE = ("matcher: every pair of integer matrices with entries -2..2 of the shapes listed in the evidence (in-Coq "
        "enumeration, product order), plus random pairs up to 4x6 (entries up to 64) built as row combinations / "
        "perturbations / rank-deficient variants, plus a large-entry family (nearly parallel rows, entries up to 2000) "
        "whose model/code deviations are classified by the class large_entries_float_tolerance (max |entry| > 300: known "
        "finding F-C16-2; outside the class exact agreement is required); Template.matches and the checks: template/schedule pairs of the C03 "
        "generator (derived / tiled / random families, broadcast operands, different ranks) plus a predicate family "
        "(non-matching pairs with 1-3 temporal dims and entries of every sign); L2: every yielded schedule "
        "of every generated case. Non-trivial = the two row spaces are equal with different matrices, or the search "
        "yields a schedule; distinct = distinct inputs")
TRUSTED_BASE = [
    "Coq 8.16.1 kernel + vm_compute (no native_compute)",
    "hand models coq/Model/C16Matcher.v, C03Schedule.v of snaxc/ir/dart/{access_pattern,scheduler}.py, tied by L1 (this harness)",
    "the float SVD (numpy.linalg.svd, tol=1e-10, np.allclose rtol) is MODELLED by exact rational row-space equality; "
    "agreement is checked on every run, not proved",
    "harness/props/dartlib.py converter/printer/generators and its Fraction-based rref oracle (L2 only)",
    "harness/xdsl_compat.py; numpy; xDSL 0.70 AffineMap.eval",
]
ASSUMPTIONS = [
    "backtrack_fits is proved for results with at least as many dims as the template (class fewer_dims_than_template is the known finding F12)",
    "templates have >= 1 dims and every operand pattern the same number of dims (wf_tmplb); schedules are well-formed (wf_schedb)",
    "rowspace_eqb is proved sound and complete for rational row-space equality; that numpy's SVD/tolerance code decides the same relation is checked (L1), not proved, "
    "and is known to fail inside the class large_entries_float_tolerance (F-C16-2: np.allclose's default rtol=1e-5)",
    "element sizes >= 1; exceptions raised inside checks are outside the model",
]

VALS = [-2, -1, 0, 1, 2]


def _svd(A, B):
    from snaxc.ir.dart.access_pattern import same_nonzero_singular_vectors
    return bool(same_nonzero_singular_vectors(A, B))


def _mat(rows, ncols):
    return np.array(rows, dtype=np.int_).reshape((len(rows), ncols))


# ---------------------------------------------------------------- L1 (a): small-scope exhaustive, enumerated inside Coq
def _enum_words(ra, rb, c, vals):
    mats_a = [np.array(t, dtype=np.int_).reshape((ra, c)) for t in itertools.product(vals, repeat=ra * c)]
    mats_b = [np.array(t, dtype=np.int_).reshape((rb, c)) for t in itertools.product(vals, repeat=rb * c)]
    words, bits = [], []
    for A in mats_a:
        row = [_svd(A, B) for B in mats_b]
        bits.append(row)
        for off in range(0, len(row), 32):
            w = 0
            for i, b in enumerate(row[off:off + 32]):
                if b:
                    w |= 1 << i
            words.append(w)
    return words, mats_a, mats_b, bits


def _enum_cases(ctx):
    shapes = [(1, 1, 2), (2, 1, 2)]
    if ctx.thorough:
        shapes += [(1, 1, 3), (1, 2, 2), (2, 2, 2), (3, 1, 2), (1, 3, 2)]   # larger shapes overflow the VM stack (non-tail-recursive list functions)
    dis, texts, info = [], [], []
    for (ra, rb, c) in shapes:
        words, ma, mb, bits = _enum_words(ra, rb, c, VALS)
        texts.append("From Snax Require Import Base.Prelude Model.C16Enum.\n"
                     f"Eval vm_compute in enum_mismatch {natlit(ra)} {natlit(rb)} {natlit(c)} {zlist(VALS)} {zlist(words)}.\n")
        info.append((ra, rb, c, ma, mb, bits))
        n_eq = sum(sum(r) for r in bits)
        ctx.histogram[f"enum-{ra}x{c}-vs-{rb}x{c}"] = len(ma) * len(mb)
        ctx.evaluations += len(ma) * len(mb)
        ctx.nontrivial_keys.add(f"enum{ra}{rb}{c}:{n_eq}")
        ctx.extra.setdefault("enumerated_shapes", []).append({"A": [ra, c], "B": [rb, c], "values": VALS, "pairs": len(ma) * len(mb), "equal": n_eq})
    if ctx.thorough:
        results = vlib.coq_eval_many("c16e", texts, timeout=1500, par=min(8, len(texts)))
    else:   # one file: the Require is paid once
        hdr = "From Snax Require Import Base.Prelude Model.C16Enum.\n"
        ok, out = vlib.coq_eval("c16e", hdr + "".join(t.replace(hdr, "") for t in texts), timeout=900)
        lists = vlib.parse_all_eval_lists(out)
        if ok and len(lists) == len(texts):
            results = [(True, "= " + ("[" + "; ".join(map(str, l)) + "]") + " : list nat") for l in lists]
        else:
            results = [(False, out)] * len(texts)
    for (ra, rb, c, ma, mb, bits), (ok, out) in zip(info, results):
        bad = vlib.parse_eval_list(out)
        if not ok or bad is None:
            dis.append({"name": "cases-file:c16-enum", "detail": out[-1500:]})
            continue
        wpa = (len(mb) + 31) // 32
        for w in bad[:5]:
            if w >= len(ma) * wpa:
                dis.append({"name": "L1:enum-length", "detail": bad})
                break
            ia, off = divmod(w, wpa)
            dis.append({"name": "L1:rowspace-enum", "case": {"A": ma[ia].tolist(), "B_block": [mb[j].tolist() for j in range(off * 32, min(len(mb), off * 32 + 32))],
                                                              "svd_bits": bits[ia][off * 32: off * 32 + 32]}})
    return dis


# ---------------------------------------------------------------- L1 (b): random matrix pairs as literals
def gen_pair(rng):
    c = rng.choice([1, 2, 3, 3, 4, 5, 6])
    ra = rng.choice([0, 1, 1, 2, 2, 3, 3, 4])
    big = rng.random() < 0.2
    ent = (lambda: rng.randint(-64, 64)) if big else (lambda: rng.choice([-3, -2, -1, 0, 0, 0, 1, 1, 2, 3]))
    A = [[ent() for _ in range(c)] for _ in range(ra)]
    mode = rng.choice(["comb", "comb", "perturb", "indep", "dep", "sub", "same"])
    if mode == "same" or ra == 0:
        B = [list(r) for r in A] if mode != "indep" else [[ent() for _ in range(c)] for _ in range(rng.choice([0, 1, 2]))]
    elif mode == "comb":       # B = M.A with a random integer M (equal space when M has full column rank)
        rb = rng.choice([ra, ra, ra + 1, max(1, ra - 1)])
        M = [[rng.choice([-2, -1, 0, 1, 1, 2]) for _ in range(ra)] for _ in range(rb)]
        B = [[sum(M[i][k] * A[k][j] for k in range(ra)) for j in range(c)] for i in range(rb)]
    elif mode == "perturb":
        B = [list(r) for r in A]
        i, j = rng.randrange(ra), rng.randrange(c)
        B[i][j] += rng.choice([-1, 1, 2])
    elif mode == "dep":        # add a dependent row and scale
        B = [list(r) for r in A] + [[2 * a - b for a, b in zip(A[0], A[-1])]]
        rng.shuffle(B)
    elif mode == "sub":
        B = [list(r) for r in A[:-1]]
    else:
        B = [[ent() for _ in range(c)] for _ in range(rng.choice([1, 2, 3, 4]))]
    return A, B, c, mode


def _random_pairs(ctx, n):
    rng = ctx.rng
    cases, meta = [], []
    for _ in range(n):
        A, B, c, mode = gen_pair(rng)
        want = _svd(_mat(A, c), _mat(B, c))
        cases.append(f"({vlib.zlistlist(A)}, {vlib.zlistlist(B)}, {boollit(want)})")
        meta.append(("rowspace", A, B, mode))
        ctx.count({"op": "same_nonzero_singular_vectors", "A": A, "B": B, "svd": want}, want and A != B, f"rs{A}{B}", f"rowspace-{mode}-{'eq' if want else 'ne'}")
    test = "fun c : list (list Z) * list (list Z) * bool => match c with (A, B, r) => Bool.eqb (rowspace_eqb A B) r end"
    return {"rs": cases}, {"rs": meta}, {"rs": test}


# ---------------------------------------------------------------- L1 (b'): large entries, nearly parallel rows (F-C16-2)
def _large_pairs(ctx, n):
    """model vs SVD code on the large-entry family.  Three facts per case: the Coq class predicate equals the harness's;
    the exact model equals the harness's exact (Fraction) oracle -- also inside the class; outside the class
    (max |entry| <= 300) the model equals the float SVD code as everywhere else.  A disagreement model/code INSIDE the
    class is the known finding F-C16-2 (counted, reported by the L2 stage), not an L1 disagreement."""
    rng = ctx.rng
    cases, meta = [], []
    for _ in range(n):
        A, B, c, mode = D.gen_large_pair(rng)
        svd = _svd(_mat(A, c), _mat(B, c))
        exact = D.same_rowspace(A, B, c)
        w = D.in_large_entry_class(A, B)
        cases.append(f"({vlib.zlistlist(A)}, {vlib.zlistlist(B)}, {boollit(exact)}, {boollit(svd)}, {boollit(w)})")
        meta.append(("rowspace-large", A, B, mode, {"svd": svd, "exact": exact, "in_class": w}))
        ctx.count({"op": "same_nonzero_singular_vectors (large)", "A": A, "B": B, "svd": svd, "exact": exact, "in_class": w},
                  svd != exact or (exact and A != B), f"rsl{A}{B}",
                  f"rowspace-large-{mode}-{'class' if w else 'outside'}-{'deviates' if svd != exact else 'agrees'}")
    test = ("fun c : list (list Z) * list (list Z) * bool * bool * bool => match c with (A, B, ex, sv, w) => "
            "Bool.eqb (large_entries_float_tolerance A B) w && Bool.eqb (rowspace_eqb A B) ex && (w || Bool.eqb (rowspace_eqb A B) sv) end")
    return {"rsl": cases}, {"rsl": meta}, {"rsl": test}


# ---------------------------------------------------------------- L1 (c,d): Template.matches and the checks
def _match_cases(ctx, n):
    from snaxc.ir.dart.scheduler import is_memory_flexible_enough, is_output_channel_stationary, is_pure_output_stationary
    rng = ctx.rng
    cases = {k: [] for k in ("match", "pos", "mem", "ocs")}
    meta = {k: [] for k in cases}
    for i in range(n):
        if i % 3 == 2:   # predicate family: several temporal dims, entries of every sign (pair need not match)
            tp, sp = D.gen_predicate_pair(rng)
            fam = "predicate"
        else:
            tp, sp, fam = D.gen_sched_case(rng)
        T, s = D.mk_template(tp), D.mk_schedule(sp)
        # make a share of the pairs line up as in the search: compare inner dims as the search does
        k = rng.randint(1, max(1, len(sp[0][0]) + 1))
        if rng.random() < 0.5:
            try:
                T2, s2 = T.inner_dims(k), s.inner_dims(k)
            except D.ERRS:
                T2, s2 = T, s
        else:
            T2, s2 = T, s
        TT, S = D.coq_tmpl(T2), D.coq_sched(s2)
        m = D.guarded(lambda: bool(T2.matches(s2)))
        if m is not None:
            cases["match"].append(f"({TT}, {S}, {boollit(m)})")
            meta["match"].append(("Template.matches", D.plain(T2), D.plain(s2)))
            ctx.count({"op": "Template.matches", "template": D.plain(T2), "schedule": D.plain(s2), "result": m}, m, f"m{D.plain(T2)}{D.plain(s2)}", f"matches-{fam}-{m}")
        if len(s2) and len(T2):
            r = bool(is_pure_output_stationary(T2, s2))
            cases["pos"].append(f"({TT}, {S}, {boollit(r)})")
            meta["pos"].append(("is_pure_output_stationary", D.plain(T2), D.plain(s2)))
            sizes = [rng.choice([1, 1, 2, 4, 8, 16]) for _ in range(rng.choice([len(s2), len(s2), max(0, len(s2) - 1)]))]
            r = bool(is_memory_flexible_enough(T2, s2, sizes))
            cases["mem"].append(f"({zlist(sizes)}, {TT}, {S}, {boollit(r)})")
            meta["mem"].append(("is_memory_flexible_enough", sizes, D.plain(T2), D.plain(s2)))
            nres = len(s2[-1].pattern.b)
            if nres >= 1:
                ch = rng.randrange(min(2, nres))
                r = bool(is_output_channel_stationary(T2, s2, ch))
                cases["ocs"].append(f"({natlit(ch)}, {TT}, {S}, {boollit(r)})")
                meta["ocs"].append(("is_output_channel_stationary", ch, D.plain(T2), D.plain(s2)))
            ctx.count({"op": "checks", "template": D.plain(T2), "schedule": D.plain(s2)}, s2.num_dims > T2.num_dims, f"ck{D.plain(T2)}{D.plain(s2)}{sizes}", "checks")
    tests = {
        "match": "fun c : tmpl * sched * bool => match c with (T, s, r) => Bool.eqb (matches T s) r end",
        "pos": "fun c : tmpl * sched * bool => match c with (T, s, r) => Bool.eqb (is_pure_output_stationary T s) r end",
        "mem": "fun c : list Z * tmpl * sched * bool => match c with (z, T, s, r) => Bool.eqb (is_memory_flexible_enough z T s) r end",
        "ocs": "fun c : nat * tmpl * sched * bool => match c with (ch, T, s, r) => Bool.eqb (is_output_channel_stationary ch T s) r end",
    }
    return cases, meta, tests


def _fits_cases(ctx, n):
    """the Coq post-condition [fitsb] and the class predicate [fewer_dims_than_template] agree with the harness's
    independent verdict (exact row-space oracle, bounds, spec_* statements) on schedules the real search yields --
    the same predicate is the theorem's hypothesis and the L2 classifier"""
    rng = ctx.rng
    cases, meta = [], []
    for i in range(n):
        tp, sp, fam = D.gen_sched_case(rng, max_points=100000)
        T, s = D.mk_template(tp), D.mk_schedule(sp)
        py, cq, cdesc = D.gen_checks(rng, len(sp))
        res = D.run_backtrack(T, s, py, cap=40)
        if res is None:
            continue
        for r in res[0][:3]:
            fewer = r.num_dims < T.num_dims
            fits = (not fewer) and not fits_failures(T, r, [], tp, cdesc)
            cases.append(f"({D.coq_tmpl(T)}, {D.coq_sched(r)}, {cq}, {boollit(fits)}, {boollit(fewer)})")
            meta.append(("fitsb", tp, D.plain(r), cdesc))
            ctx.count({"op": "fitsb", "template": tp, "result": D.plain(r), **cdesc, "fits": fits, "fewer": fewer}, True, f"fits{tp}{D.plain(r)}{cdesc}", f"fitsb-{fits}-{fewer}")
    test = ("fun c : tmpl * sched * list (tmpl -> sched -> bool) * bool * bool => match c with (T, r, ch, f, w) => "
            "Bool.eqb (fewer_dims_than_template T r) w && (w || Bool.eqb (fitsb matches ch T r) f) end")
    return {"fits": cases}, {"fits": meta}, {"fits": test}


def correspondence(ctx):
    dis = _enum_cases(ctx)
    cases, meta, tests = _random_pairs(ctx, ctx.n(400, 6000))
    c2, m2, t2 = _match_cases(ctx, ctx.n(150, 3000))
    cases.update(c2), meta.update(m2), tests.update(t2)
    c4, m4, t4 = _large_pairs(ctx, ctx.n(200, 3000))
    cases.update(c4), meta.update(m4), tests.update(t4)
    c3, m3, t3 = _fits_cases(ctx, ctx.n(120, 2000))
    cases.update(c3), meta.update(m3), tests.update(t3)
    dis += _run_cases("c16", "From Snax Require Import Base.Prelude Model.C03Schedule Model.C16Matcher Model.C16Fits.", cases, meta, tests,
                      chunk=200, nfiles=ctx.n(3, 12))
    return dis


# ---------------------------------------------------------------- L2: the post-condition on the implementation
def spec_pure_output_stationary(T, r):
    """independent statement: outside the template dims, no reduction column (all-zero in the output operand)
    precedes a parallel one"""
    A = r[-1].pattern.A
    n, td = A.shape[1], T.num_dims
    outer = [any(int(A[i, j]) != 0 for i in range(A.shape[0])) for j in range(max(0, n - td))] if td > 0 else []
    seen_reduction = False
    for par in outer:
        if not par:
            seen_reduction = True
        elif seen_reduction:
            return False
    return True


def spec_memory_flexible(T, r, sizes):
    """independent statement: with temporal dims present, every (operand, size) pair has a result row with a
    spatial stride of exactly 1 and only temporal strides that are multiples of ceil(8/size)"""
    n, td = r.num_dims, T.num_dims
    if not n > td:
        return True
    for p, size in zip(r, sizes):
        q = -(-8 // size)
        A = p.pattern.A
        ok = False
        for i in range(A.shape[0]):
            temporal = any(int(A[i, j]) % q != 0 for j in range(n - td))
            spatial = any(int(A[i, j]) == 1 for j in range(n - td, n))
            if spatial and not temporal:
                ok = True
        if not ok:
            return False
    return True


def fits_failures(T, r, checks, tp, cdesc=None):
    """independent statement of C16 on one returned schedule; returns list of (what, detail)."""
    out = []
    td, n = T.num_dims, r.num_dims
    if len(r) != len(T):
        return [("operand_count", {"template": len(T), "schedule": len(r)})]
    for o, (tpat, spat) in enumerate(zip(T, r)):
        sa = spat.pattern.A[:, n - td:]
        ta = tpat.pattern.A
        drop = ta.shape[0] - sa.shape[0]
        if drop > 0:
            ta = ta[drop:, :]
        if not D.same_rowspace(ta.tolist(), sa.tolist(), td):
            out.append(("inner_dims_rowspace", {"operand": o, "template_rows": ta.tolist(), "schedule_inner_rows": sa.tolist()}))
        for j in range(1, td + 1):
            tb = tpat.bounds[-j]
            if tb and spat.bounds[-j] > tb:
                out.append(("inner_bound", {"operand": o, "dim_from_inner": j, "template_bound": tb, "schedule_bound": spat.bounds[-j]}))
    if not T.matches(r):
        out.append(("matches_returned", {}))
    for i, c in enumerate(checks):
        if not c(T, r):
            out.append(("check_on_returned", {"check": i}))
    if cdesc is not None:
        if cdesc["checks"] in ("pos", "both") and not spec_pure_output_stationary(T, r):
            out.append(("not_pure_output_stationary", {}))
        if cdesc["checks"] in ("mem", "both") and not spec_memory_flexible(T, r, cdesc["sizes"]):
            out.append(("not_memory_flexible", {"sizes": cdesc["sizes"]}))
    return out


def check_case(tp, sp, cdesc):
    from snaxc.ir.dart.scheduler import is_memory_flexible_enough, is_pure_output_stationary
    T, s = D.mk_template(tp), D.mk_schedule(sp)
    py = []
    if cdesc["checks"] in ("pos", "both"):
        py.append(is_pure_output_stationary)
    if cdesc["checks"] in ("mem", "both"):
        py.append(lambda t, x: is_memory_flexible_enough(t, x, cdesc["sizes"]))
    res = D.run_backtrack(T, s, py, cap=150)
    if res is None:
        return [], 0
    out, _ = res
    fails = []
    for idx, r in enumerate(out):
        if r.num_dims < T.num_dims:
            fails.append({"what": "fewer_dims_than_template", "klass": "fewer_dims_than_template", "template": tp, "schedule": sp,
                          "checks": cdesc, "detail": {"result_index": idx, "result": D.plain(r), "result_dims": r.num_dims, "template_dims": T.num_dims}})
            continue
        for what, detail in fits_failures(T, r, py, tp, cdesc):
            fails.append({"what": what, "klass": None, "template": tp, "schedule": sp, "checks": cdesc,
                          "detail": {"result_index": idx, "result": D.plain(r), **detail}})
    return fails, len(out)


def check_pass_fits(layers):
    """the schedule the real dart-scheduler pass emits fits the accelerator's template: matcher (exact oracle),
    bounds, pure output stationarity and memory flexibility for the operands' true element sizes"""
    from props.c03 import run_pass
    try:
        res = run_pass(layers)
    except Exception as e:
        return [{"what": "pass_raises", "klass": None, "layers": layers, "detail": repr(e)[:300]}]
    fails = []
    for k, (T, pats, sizes, emitted) in enumerate(res):
        if emitted is None:
            fails.append({"what": "pass_unscheduled", "klass": None, "layers": layers, "detail": {"op_index": k}})
            continue
        r = D.mk_schedule(emitted)
        if r.num_dims < T.num_dims:
            fails.append({"what": "fewer_dims_than_template", "klass": "fewer_dims_than_template", "layers": layers,
                          "detail": {"op_index": k, "result": emitted}})
            continue
        for what, detail in fits_failures(T, r, [], None, {"checks": "both", "sizes": sizes}):
            fails.append({"what": "pass_" + what, "klass": None, "layers": layers, "detail": {"op_index": k, "emitted": emitted, "sizes": sizes, **detail}})
    return fails


def search(ctx, deep=False):
    rng = ctx.rng
    fails = []
    from props.c03 import gen_pass_module
    for i in range(ctx.n(15, 200)):
        layers = gen_pass_module(rng)
        fails += check_pass_fits(layers)
        ctx.count({"L2": "pass-fits", "layers": layers}, True, f"l2p{layers}", "L2-pass")
    for i in range(ctx.n(400, 5000) * (3 if deep else 1)):
        tp, sp, fam = D.gen_sched_case(rng, max_points=100000)
        if tp[0][0] == [] or any(len(p[0]) != len(tp[0][0]) for p in tp):
            continue
        _, _, cdesc = D.gen_checks(rng, len(sp))
        f, nres = check_case(tp, sp, cdesc)
        fails += f
        fails += check_predicates(tp, sp, cdesc)
        ctx.count({"L2": "fits", "template": tp, "schedule": sp, **cdesc, "results": nres}, nres > 0, f"l2{tp}{sp}{cdesc}", f"L2-{fam}")
    for i in range(ctx.n(200, 2500) * (3 if deep else 1)):
        tp, sp = D.gen_predicate_pair(rng)
        _, _, cdesc = D.gen_checks(rng, len(sp))
        fails += check_predicates(tp, sp, cdesc)
        ctx.count({"L2": "predicates", "template": tp, "schedule": sp, **cdesc}, True, f"l2q{tp}{sp}{cdesc}", "L2-predicate")
    for i in range(ctx.n(300, 4000) * (2 if deep else 1)):
        A, B, c, mode = D.gen_large_pair(rng)
        f = check_large_pair(A, B, c)
        fails += f
        ctx.count({"L2": "large-pair", "A": A, "B": B}, bool(f), f"l2L{A}{B}", f"L2-large-{mode}-{'deviates' if f else 'agrees'}")
    return _dedup(fails)


LARGE_CLASS = "large_entries_float_tolerance"


def check_large_pair(A, B, c):
    """the matcher's comparison against the exact row-space oracle on one pair; a deviation is classified with the
    same decidable predicate as the theorem side (Coq large_entries_float_tolerance, tied by L1 'rsl')"""
    svd = _svd(_mat(A, c), _mat(B, c))
    exact = D.same_rowspace(A, B, c)
    if svd == exact:
        return []
    return [{"what": "same_nonzero_singular_vectors_wrong", "klass": LARGE_CLASS if D.in_large_entry_class(A, B) else None,
             "A": A, "B": B, "ncols": c, "detail": {"implementation": svd, "exact_rowspace": exact,
                                                    "max_abs_entry": max(abs(x) for M in (A, B) for r in M for x in r)}}]


def check_predicates(tp, sp, cdesc):
    """the constraint predicates themselves against their independent statements, and Template.matches against
    the exact row-space oracle, on the pair as the search would present it at the last level"""
    from snaxc.ir.dart.scheduler import is_memory_flexible_enough, is_pure_output_stationary
    T, s = D.mk_template(tp), D.mk_schedule(sp)
    fails = []
    if len(T) == 0 or len(s) == 0:
        return fails
    got = bool(is_pure_output_stationary(T, s))
    if got != spec_pure_output_stationary(T, s):
        fails.append({"what": "is_pure_output_stationary_wrong", "klass": None, "template": tp, "schedule": sp, "checks": cdesc,
                      "detail": {"implementation": got, "statement": not got}})
    got = bool(is_memory_flexible_enough(T, s, cdesc["sizes"]))
    if got != spec_memory_flexible(T, s, cdesc["sizes"]):
        fails.append({"what": "is_memory_flexible_enough_wrong", "klass": None, "template": tp, "schedule": sp, "checks": cdesc,
                      "detail": {"implementation": got, "statement": not got, "sizes": cdesc["sizes"]}})
    if len(T) == len(s) and s.num_dims >= T.num_dims:
        td, n = T.num_dims, s.num_dims
        want = True
        for tpat, spat in zip(T, s):
            sa, ta = spat.pattern.A[:, n - td:], tpat.pattern.A
            drop = ta.shape[0] - sa.shape[0]
            if drop > 0:
                ta = ta[drop:, :]
            want = want and D.same_rowspace(ta.tolist(), sa.tolist(), td)
        got = bool(T.matches(s))
        if got != want:
            fails.append({"what": "matches_wrong", "klass": None, "template": tp, "schedule": sp, "checks": cdesc,
                          "detail": {"implementation": got, "exact_rowspace": want}})
    return fails


def _dedup(fails):
    seen, out = set(), []
    for f in fails:
        k = (f["what"], f["klass"])
        if k not in seen:
            seen.add(k)
            out.append(f)
    return out


def _plain_in(x):
    return [(list(b), [list(r) for r in rows], list(bb)) for (b, rows, bb) in x]


def replay_known(ctx, entry):
    w = entry["witness"]
    if entry["class"] == LARGE_CLASS:   # F-C16-2: the float comparison accepts a pair the exact oracle rejects
        fails = check_large_pair(w["A"], w["B"], w["ncols"])
        return any(f["klass"] == LARGE_CLASS for f in fails)
    fails, _ = check_case(_plain_in(w["template"]), _plain_in(w["schedule"]), w["checks"])
    return any(f["klass"] == entry["class"] for f in fails)


def replay(ctx, obj):
    f = obj.get("failure")
    if not f:
        print("no failing input recorded; broken obligations:", obj.get("no_longer_checks"))
        return 1
    if "A" in f and "B" in f:
        print("A:", f["A"], "B:", f["B"])
        res = check_large_pair(f["A"], f["B"], f["ncols"])
        for r in res:
            print("FAIL", r["what"], "class:", r["klass"], r["detail"])
        return 1 if res else 0
    if "layers" in f:
        print("layers:", f["layers"])
        res = check_pass_fits(f["layers"])
        for r in res:
            print("FAIL", r["what"], "class:", r["klass"], r["detail"])
        return 1 if res else 0
    tp, sp = _plain_in(f["template"]), _plain_in(f["schedule"])
    print("template:", tp)
    print("schedule:", sp, "checks:", f["checks"])
    res, n = check_case(tp, sp, f["checks"])
    res += check_predicates(tp, sp, f["checks"])
    print("yielded:", n)
    for r in res:
        print("FAIL", r["what"], "class:", r["klass"], r["detail"])
    return 1 if res else 0
