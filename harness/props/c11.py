"""C11 — allocations are big enough and never overlap while live.

(H) hand model coq/Model/C11Alloc.v (+ C11Life.v), L1 correspondence against the real passes
`snax-allocate{mode=static|minimalloc|auto}` and `memref-to-snax` driven in-process, L2 property-level
search on the implementation (no model involved).
"""
from __future__ import annotations

import vlib
from vlib import coqlist, zlit

PROPERTY = "C11"
MODEL_TARGETS = ["Model/C11Alloc.vo", "Model/C11Life.vo"]
RULE = ("static mode: 1-8 snax.alloc ops over 1-3 registered memory spaces with random (start, capacity), sizes "
        "0-300 bytes, alignments from {1,2,3,4,8,10,14,16,64} plus rare 0 / absent; some allocs nested in func/scf.for; "
        "a case is non-trivial when >= 2 allocs share a memory; distinct = distinct (memories, requests) tuples. "
        "memref-to-snax: memref.alloc in L1 with no layout or a TSL layout of rank 1-3, depth 1-3 (contiguous, padded, random "
        "steps; offsets; dynamic outermost bound/step with run-time dims that are / are not multiples of the inner tile), "
        "element types i8..i64, f32, f64; the emitted arith ops are interpreted. minimalloc/auto: functions with 1-5 "
        "top-level allocs over 1-2 memories, casts, subviews, memref.casts, views of views, uses nested in scf.for/scf.if, "
        "ops returning unrelated memrefs, memrefs leaving a region through scf.yield (results of scf.if / scf.for "
        "iter_args, F11b repaired); the Buffer list handed to the (stub) solver is read back")
TRUSTED_BASE = [
    "Coq 8.16.1 kernel + vm_compute (no native_compute)",
    "hand model coq/Model/C11Alloc.v of StaticAllocs / AllocOpRewrite, tied by L1 (this harness)",
    "harness/props/c11.py generators, IR-text builders, Coq-literal printer; harness/xdsl_compat.py, harness/minimalloc_stub.py; "
    "xDSL 0.70 Parser / PatternRewriteWalker",
]
ASSUMPTIONS = [
    "the real minimalloc solver is absent: it is a Section variable with the contract 'buffers with overlapping "
    "lifetimes get disjoint aligned ranges inside capacity'; the stub solver is only used to read the Problem back",
    "snax_alloc_l1 (dynamic mode, run time) is not modelled",
]

_CTX = None


def xctx():
    global _CTX
    if _CTX is None:
        from snaxc.tools.snax_opt_main import SNAXOptMain
        _CTX = SNAXOptMain(args=[str(vlib.REPO / "tests/filecheck/transforms/snax-allocate-static.mlir")]).ctx
    return _CTX


def parse(text):
    from xdsl.parser import Parser
    return Parser(xctx(), text).parse_module()


def struct_ty(rank):
    return f"!llvm.struct<(!llvm.ptr, !llvm.ptr, i32, !llvm.array<{rank} x i32>, !llvm.array<{rank} x i32>)>"


# ------------------------------------------------------------------ static mode
ALIGNS = [1, 1, 2, 3, 4, 8, 8, 10, 14, 16, 64]


def gen_static(rng):
    """-> (mems [(start, cap)], reqs [(mem, size, align|None)], nest [0|1|2 per request])"""
    nm = rng.choice([1, 1, 2, 3])
    mems = []
    for _ in range(nm):
        start = rng.choice([0, 0, 16, 100, 4096, 0x10000000, 7, 1000003])
        cap = rng.choice([64, 100, 256, 1000, 4096, 65536])
        mems.append((start, cap))
    n = rng.choice([1, 2, 3, 3, 4, 5, 6, 8])
    reqs = []
    for _ in range(n):
        m = rng.randrange(nm)
        size = rng.choice([0, 1, 3, 4, 13, 16, 32, 50, 64, 100, 128, 300, rng.randrange(0, 300)])
        r = rng.random()
        al = 0 if r < 0.03 else (None if r < 0.05 else rng.choice(ALIGNS))
        reqs.append((m, size, al))
    nest = [rng.choice([0, 0, 0, 1, 2]) for _ in reqs]
    return mems, reqs, nest


def static_text(reqs, nest):
    """module with the allocs in walk order; nest: 0 = module level, 1 = inside a func, 2 = inside scf.for in a func"""
    lines = ["builtin.module {"]
    for k, (m, size, al) in enumerate(reqs):
        alattr = "" if al is None else f", alignment = {al} : i32"
        alloc = (f'%s{k} = arith.constant {size} : index\n'
                 f'%d{k} = arith.constant 4 : index\n'
                 f'%a{k} = "snax.alloc"(%s{k}, %d{k}) <{{memory_space = "M{m}"{alattr}}}> : (index, index) -> {struct_ty(1)}')
        if nest[k] == 0:
            lines.append(alloc)
        elif nest[k] == 1:
            lines.append(f"func.func @f{k}() {{\n{alloc}\nfunc.return\n}}")
        else:
            lines.append(f"func.func @f{k}() {{\n%lb{k} = arith.constant 0 : index\n%ub{k} = arith.constant 4 : index\n"
                         f"%st{k} = arith.constant 1 : index\nscf.for %i{k} = %lb{k} to %ub{k} step %st{k} {{\n{alloc}\n}}\nfunc.return\n}}")
    lines.append("}")
    return "\n".join(lines)


def run_static(mems, reqs, nest):
    """-> ('ok', [addresses]) | ('full', None) | ('zerodiv', None)"""
    from xdsl.dialects import llvm
    from xdsl.dialects.builtin import StringAttr
    from snaxc.transforms.snax_allocate import SnaxAllocatePass
    from snaxc.util.snax_memory import SnaxMemory
    c = xctx()
    for i, (start, cap) in enumerate(mems):
        c.register_memory(SnaxMemory(StringAttr(f"M{i}"), cap, start))
    mod = parse(static_text(reqs, nest))
    try:
        SnaxAllocatePass(mode="static").apply(c, mod)
    except ZeroDivisionError:
        return "zerodiv", None
    except RuntimeError as e:
        if "is full" in str(e):
            return "full", None
        raise
    mod.verify()
    addrs = [op.input.owner.value.value.data for op in mod.walk() if isinstance(op, llvm.IntToPtrOp)]
    return "ok", addrs


def coq_ares(kind, addrs):
    if kind == "ok":
        return f"(AOk {vlib.zlist(addrs)})"
    return "(AErr ErrFull)" if kind == "full" else "(AErr ErrZeroDiv)"


def check_static_result(mems, reqs, kind, addrs):
    """L2: the property itself on the implementation's output (independent arithmetic)."""
    fails = []
    if kind == "ok":
        if len(addrs) != len(reqs):
            return [("static_count", {"addrs": addrs}, None)]
        per = {}
        for (m, size, al), a in zip(reqs, addrs):
            start, cap = mems[m]
            al = al or 0
            if al > 0 and a != (a // al) * al:
                fails.append(("static_misaligned", {"addr": a, "alignment": al}, None))
            if a < start or a + size > start + cap:
                fails.append(("static_out_of_window", {"addr": a, "size": size, "memory": mems[m]}, None))
            for (b, bs) in per.get(m, []):
                if a < b + bs and b < a + size:
                    fails.append(("static_overlap", {"a": [a, size], "b": [b, bs], "memory": m}, None))
            per.setdefault(m, []).append((a, size))
    elif kind == "full":
        # the error must be justified: packing in order with least aligned addresses does not fit
        cur = {}
        over = False
        for (m, size, al) in reqs:
            start, cap = mems[m]
            al = al or 0
            if al <= 0:
                over = True  # cannot judge
                break
            c0 = cur.get(m, start)
            a = -(-c0 // al) * al
            if a + size > start + cap:
                over = True
                break
            cur[m] = a + size
        if not over:
            fails.append(("static_spurious_full", {}, None))
    return fails


# ------------------------------------------------------------------ memref-to-snax sizes
EL = {"i8": 1, "i16": 2, "i32": 4, "i64": 8, "f32": 4, "f64": 8, "f16": 2}
SBOUNDS = [1, 2, 2, 3, 4, 4, 5, 8]


def gen_tsl(rng):
    """-> (tstrides [[(step|None, bound|None)]], offset, dims (run-time shape), static_shape [int|None])"""
    rank = rng.choice([1, 2, 2, 3])
    depths = [rng.choice([1, 1, 2, 2, 3]) for _ in range(rank)]
    bounds = [[rng.choice(SBOUNDS) for _ in range(d)] for d in depths]
    positions = [(d, k) for d in range(rank) for k in range(depths[d])]
    order = list(positions)
    mode = rng.choice(["lattice", "lattice", "padded", "rowmajor", "random"])
    if mode == "rowmajor":
        order = list(reversed(positions))
    else:
        rng.shuffle(order)
    steps, cur = {}, rng.choice([1, 1, 1, 2, 4])
    for (d, k) in order:
        steps[(d, k)] = cur if mode != "random" else rng.choice([1, 2, 3, 4, 7, 8, 16, 40, 64])
        cur *= bounds[d][k]
        if mode == "padded" and rng.random() < 0.4:
            cur += rng.choice([1, 2, 8, 16])
    ts = [[(steps[(d, k)], bounds[d][k]) for k in range(depths[d])] for d in range(rank)]
    dims, sshape = [], []
    for d in range(rank):
        inner = 1
        for (_, b) in ts[d][1:]:
            inner *= b
        r = rng.random()
        if r < 0.35:      # dynamic outermost bound (step dynamic or static)
            st = None if rng.random() < 0.6 else ts[d][0][0]
            ts[d][0] = (st, None)
            mult = rng.choice([1, 2, 3, 4])
            dv = inner * mult if rng.random() < 0.75 else inner * mult + rng.randrange(1, max(2, inner))
            if inner == 1:
                dv = mult
            dims.append(dv)
            sshape.append(None)
        else:
            full = inner * ts[d][0][1]
            if rng.random() < 0.06:   # a static shape that the layout's tile bounds do not cover
                full += rng.randrange(1, 4)
            dims.append(full)
            sshape.append(full)
    off = rng.choice([0, 0, 0, 0, 1, 3, 16, 64])
    return ts, off, dims, sshape


def tsl_str(ts, off):
    from snaxc.ir.tsl import Stride, TiledStride, TiledStridedLayout
    return str(TiledStridedLayout([TiledStride([Stride(s, b) for (s, b) in t]) for t in ts], offset=off))


def alloc_text(el, sshape, layout, ndyn, alignment):
    shp = "x".join("?" if n is None else str(n) for n in sshape)
    lay = f", #tsl.tsl<{layout}>" if layout else ""
    dyn = [f'%d{i} = "test.op"() : () -> index' for i in range(ndyn)]
    al = f"alignment = {alignment} : i64, " if alignment is not None else ""
    return ("builtin.module {\n" + "\n".join(dyn) + "\n"
            f'%m = "memref.alloc"({", ".join(f"%d{i}" for i in range(ndyn))}) <{{{al}operandSegmentSizes = array<i32: {ndyn}, 0>}}> : '
            f'({", ".join(["index"] * ndyn)}) -> memref<{shp}x{el}{lay}, "L1">\n}}')


def run_memref_to_snax(text, dyn_values):
    """run the pass, interpret the emitted arith ops -> dict(size, shapes, alignment) or None if not rewritten"""
    from xdsl.dialects import arith
    from snaxc.dialects import snax
    from snaxc.transforms.memref_to_snax import MemrefToSNAX
    mod = parse(text)
    MemrefToSNAX().apply(xctx(), mod)
    mod.verify()
    env, dyn = {}, list(dyn_values)
    for op in mod.body.block.ops:
        if op.name == "test.op":
            env[op.results[0]] = dyn.pop(0)
        elif isinstance(op, arith.ConstantOp):
            env[op.result] = op.value.value.data
        elif isinstance(op, arith.MuliOp):
            env[op.result] = env[op.lhs] * env[op.rhs]
        elif isinstance(op, arith.AddiOp):
            env[op.result] = env[op.lhs] + env[op.rhs]
        elif isinstance(op, arith.SubiOp):
            env[op.result] = env[op.lhs] - env[op.rhs]
        elif isinstance(op, arith.DivUIOp):
            assert env[op.lhs] >= 0 and env[op.rhs] > 0
            env[op.result] = env[op.lhs] // env[op.rhs]
        elif isinstance(op, snax.Alloc):
            return {"size": env[op.size], "shapes": [env[v] for v in op.shapes],
                    "alignment": op.alignment.value.data if op.alignment is not None else None,
                    "space": op.memory_space.data}
    return None


def gen_size_case(rng):
    el = rng.choice(["i8", "i16", "i32", "i32", "i64", "f32", "f64"])
    if rng.random() < 0.2:          # no layout
        rank = rng.choice([1, 2, 3])
        dims, sshape = [], []
        for _ in range(rank):
            n = rng.choice([1, 2, 3, 5, 8, 16])
            dims.append(n)
            sshape.append(None if rng.random() < 0.3 else n)
        return {"el": el, "ts": None, "off": 0, "dims": dims, "sshape": sshape}
    ts, off, dims, sshape = gen_tsl(rng)
    return {"el": el, "ts": ts, "off": off, "dims": dims, "sshape": sshape}


def run_size_case(c):
    dyn = [d for d, s in zip(c["dims"], c["sshape"]) if s is None]
    lay = tsl_str(c["ts"], c["off"]) if c["ts"] is not None else None
    return run_memref_to_snax(alloc_text(c["el"], c["sshape"], lay, len(dyn), 64), dyn)


def size_class(c):
    """known class of a size failure: some run-time dim exceeds the product of the (instantiated) tile bounds"""
    if c["ts"] is None:
        return None
    for t, dv in zip(c["ts"], c["dims"]):
        inner = 1
        for (_, b) in t[1:]:
            inner *= b
        b0 = t[0][1] if t[0][1] is not None else dv // inner
        if b0 * inner < dv:
            return "dim_not_covered_by_tile_bounds"
    return None


def check_size_case(c, res):
    """L2: allocated bytes >= offset*el + (largest element address over the memref's real index box)*el + el.
    Only for layouts whose steps are all static and positive (the address of an index is then defined by the type)."""
    import itertools
    el = EL[c["el"]]
    if res is None:
        return [("alloc_not_rewritten", {}, None)]
    fails = []
    if res["shapes"] != c["dims"]:
        fails.append(("alloc_shape_operands", {"got": res["shapes"], "want": c["dims"]}, None))
    if c["ts"] is None:
        n = 1
        for d in c["dims"]:
            n *= d
        if res["size"] < n * el:
            fails.append(("alloc_too_small", {"size": res["size"], "needed": n * el}, None))
        return fails
    if any(s is None or s <= 0 for t in c["ts"] for (s, _) in t):
        return fails
    total = 1
    for d in c["dims"]:
        total *= d
    if total > 6000:
        return fails
    mx, arg = -1, None
    for idx in itertools.product(*[range(d) for d in c["dims"]]):
        a = 0
        for x, t in zip(idx, c["ts"]):
            inner = [b for (_, b) in t[1:]]
            p = 1
            for b in inner:
                p *= b
            a += t[0][0] * (x // p)
            for k in range(1, len(t)):
                pk = 1
                for b in inner[k - 1:]:
                    pk *= b
                pk1 = 1
                for b in inner[k:]:
                    pk1 *= b
                a += t[k][0] * ((x % pk) // pk1)
        if a > mx:
            mx, arg = a, idx
    need = c["off"] * el + mx * el + el
    if res["size"] < need:
        fails.append(("alloc_too_small", {"size": res["size"], "needed": need, "index": list(arg), "address": mx}, size_class(c)))
    return fails


def coq_size_case(c, res):
    from vlib import optz, zlist
    el = EL[c["el"]]
    if c["ts"] is None:
        return ("none", f"({zlit(el)}, {zlist(c['dims'])}, {zlit(res['size'])})")
    lay = "(mkLayout " + coqlist(coqlist(f"({optz(s)}, {optz(b)})" for (s, b) in t) for t in c["ts"]) + " " + optz(c["off"]) + ")"
    return ("tsl", f"({zlit(el)}, {lay}, {zlist(c['dims'])}, {zlit(res['size'])})")


# ------------------------------------------------------------------ minimalloc / auto mode: lifetimes
ALIAS_OPS = {"builtin.unrealized_conversion_cast", "memref.subview", "memref.cast", "memref.reinterpret_cast",
             "memref.expand_shape", "memref.collapse_shape", "memref.transpose", "memref.view",
             "memref.memory_space_cast", "snax.layout_cast",
             # region ops: a memref result of scf.for aliases the corresponding init (zero trips / yielded block argument)
             "scf.for"}
# F11b (repaired in /repo 20eb1ea): a memref leaving a region through its terminator (scf.yield -> result of the
# enclosing scf.if / scf.for) aliases the buffer; the lifetime analysis now follows the memref results of the
# terminator's parent op, so `alias_followed` (coq/Model/C11Life.v) holds on every generated program again
MT = "memref<4x4xi32>"
SV = "memref<2x4xi32, strided<[4, 1]>>"
DC = "memref<?x?xi32>"
SVC = "memref<?x4xi32, strided<[4, 1]>>"


def gen_life_program(rng):
    """-> (text of a func with top-level snax.alloc ops, views, casts, nested uses), number of memories"""
    nm = rng.choice([1, 1, 2])
    nb = rng.choice([1, 2, 2, 3, 3, 4, 5])
    lines = ["%c4 = arith.constant 4 : index", "%c4b = arith.constant 4 : index", "%c0 = arith.constant 0 : index", "%c1 = arith.constant 1 : index",
             "%cond = arith.constant true"]
    live = []     # (value name, type) of memref-typed values visible at top level
    cnt = [0]

    def fresh(p):
        cnt[0] += 1
        return f"%{p}{cnt[0]}"

    def use_text(vals):
        return f'"test.op"({", ".join(v for v, _ in vals)}) : ({", ".join(t for _, t in vals)}) -> ()'

    def view_text(src):
        v, t = src
        if t == MT:
            if rng.random() < 0.6:
                n = fresh("v")
                return n, SV, (f'{n} = "memref.subview"({v}) <{{operandSegmentSizes = array<i32: 1, 0, 0, 0>, static_offsets = array<i64: 0, 0>, '
                               f'static_sizes = array<i64: 2, 4>, static_strides = array<i64: 1, 1>}}> : ({MT}) -> {SV}')
            n = fresh("k")
            return n, DC, f'{n} = "memref.cast"({v}) : ({MT}) -> {DC}'
        if t == SV:
            n = fresh("k")
            return n, SVC, f'{n} = "memref.cast"({v}) : ({SV}) -> {SVC}'
        n = fresh("u")   # anything else: an unrealized cast back to an index-like token and again to a memref
        return n, MT, f'{n} = "builtin.unrealized_conversion_cast"({v}) : ({t}) -> {MT}'

    allocated = 0
    steps = rng.randrange(nb, nb + 10)
    for _ in range(steps + nb):
        r = rng.random()
        if allocated < nb and (r < 0.35 or not live):
            k = allocated
            allocated += 1
            size = rng.choice([16, 32, 64, 64, 100, 128])
            al = rng.choice([1, 1, 4, 8, 16, 64])
            m = rng.randrange(nm)
            lines.append(f"%sz{k} = arith.constant {size} : index")
            lines.append(f'%a{k} = "snax.alloc"(%sz{k}, %c4, %c4b) <{{memory_space = "M{m}", alignment = {al} : i32}}> : (index, index, index) -> {struct_ty(2)}')
            lines.append(f'%m{k} = "builtin.unrealized_conversion_cast"(%a{k}) : ({struct_ty(2)}) -> {MT}')
            live.append((f"%m{k}", MT))
            if rng.random() < 0.15:   # a second cast of the same descriptor
                lines.append(f'%n{k} = "builtin.unrealized_conversion_cast"(%a{k}) : ({struct_ty(2)}) -> {MT}')
                live.append((f"%n{k}", MT))
        elif r < 0.55 and live:
            lines.append(use_text(rng.sample(live, min(len(live), rng.choice([1, 1, 2])))))
        elif r < 0.75 and live:
            n, t, txt = view_text(rng.choice(live))
            lines.append(txt)
            live.append((n, t))
        elif r < 0.85 and live:      # uses nested in control flow (lifted to the enclosing top-level op)
            vals = rng.sample(live, min(len(live), rng.choice([1, 2])))
            inner = use_text(vals)
            if rng.random() < 0.4:   # a view created and used inside the loop
                n, t, txt = view_text(rng.choice(live))
                inner = txt + "\n" + use_text([(n, t)])
            if rng.random() < 0.5:
                body = f"scf.for %i{fresh('i')[1:]} = %c0 to %c4 step %c1 {{\n{inner}\n}}"
                if rng.random() < 0.3:
                    body = f"scf.for %j{fresh('j')[1:]} = %c0 to %c4 step %c1 {{\n{body}\n}}"
            else:
                body = f"scf.if %cond {{\n{inner}\n}}"
            lines.append(body)
        elif r < 0.89 and any(t == MT for _, t in live):
            # a buffer (or view) leaves a region through the terminator: the result of the scf.if / scf.for aliases it
            mts = [v for v, t in live if t == MT]
            x, y = rng.choice(mts), rng.choice(mts)
            n = fresh("e")
            if rng.random() < 0.6:
                # optionally each branch also USES the buffer the other branch yields (a plain nested use of a buffer
                # next to the terminator through which it escapes, in either visiting order of the use list)
                ua = (use_text([(y, MT)]) + "\n") if rng.random() < 0.6 else ""
                ub = (use_text([(x, MT)]) + "\n") if rng.random() < 0.6 else ""
                lines.append(f"{n} = scf.if %cond -> ({MT}) {{\n{ua}scf.yield {x} : {MT}\n}} else {{\n{ub}scf.yield {y} : {MT}\n}}")
            else:
                it = fresh("it")
                yv = it if rng.random() < 0.5 else y
                lines.append(f"{n} = scf.for %i{fresh('i')[1:]} = %c0 to %c4 step %c1 iter_args({it} = {x}) -> ({MT}) {{\n"
                             f"scf.yield {yv} : {MT}\n}}")
            live.append((n, MT))
        elif live:                   # an op that takes the buffer and returns a memref that is NOT a view of it
            v, t = rng.choice(live)
            n = fresh("r")
            lines.append(f'{n} = "test.op"({v}) : ({t}) -> {MT}')
            if rng.random() < 0.5:
                live.append((n, MT))
    if live and rng.random() < 0.5:
        lines.append(use_text([rng.choice(live)]))
    text = "builtin.module {\nfunc.func public @f() {\n" + "\n".join(lines) + "\nfunc.return\n}\n}"
    return text, nm


def convert_func(func_op):
    """xDSL func body -> abstract use-list program (trusted converter, structural).
    -> (ops [dict(kind, top, ops, res, alias, size, align, mem)], alloc_ops [op])"""
    from xdsl.dialects import arith
    from xdsl.dialects.builtin import MemRefType
    from xdsl.traits import IsTerminator
    ids = {}

    def vid(v):
        if v not in ids:
            ids[v] = len(ids) + 1
        return ids[v]
    out, alloc_ops = [], []
    for top, top_op in enumerate(func_op.body.block.ops):
        for op in top_op.walk():
            kind = "KOther"
            size = al = mem = 0
            if op.name == "snax.alloc" and op is top_op:
                kind = "KAlloc"
                size = op.size.owner.value.value.data
                al = op.alignment.value.data if op.alignment is not None else 0
                mem = int(op.memory_space.data[1:])
                alloc_ops.append(op)
            elif op.name == "builtin.unrealized_conversion_cast":
                kind = "KCast"
            out.append({"kind": kind, "top": top, "ops": [vid(v) for v in op.operands],
                        "res": [(vid(r), isinstance(r.type, MemRefType)) for r in op.results],
                        "alias": op.name in ALIAS_OPS, "size": size, "align": al, "mem": mem})
            # a terminator nested in a region hands its operands to the results of the enclosing op (scf.yield in
            # scf.if / scf.for / ...).  The analysis (after the repair of F11b) treats ANY operand of such a terminator
            # as leaving through EVERY memref-typed result of the parent: one pseudo-op with the terminator's operands
            # and the parent's memref results (followed: memref flag true); ground truth: they alias the operand.
            parent = op.parent_op()
            if op is not top_op and op.has_trait(IsTerminator) and parent is not None and len(op.operands) > 0:
                pres = [(vid(r), True) for r in parent.results if isinstance(r.type, MemRefType)]
                if pres:
                    out.append({"kind": "KOther", "top": top, "ops": [vid(v) for v in op.operands], "res": pres,
                                "alias": True, "size": 0, "align": 0, "mem": 0, "escape": True})
    return out, alloc_ops


def coq_prog(prog):
    from vlib import boollit
    items = []
    for o in prog:
        res = coqlist(f"({r}%nat, {boollit(m)})" for r, m in o["res"])
        ops = coqlist(f"{x}%nat" for x in o["ops"])
        items.append(f"(mkOp {o['kind']} {o['top']}%nat {ops} {res} {boollit(o['alias'])} {zlit(o['size'])} {zlit(o['align'])} {o['mem']}%nat)")
    return coqlist(items)


def run_minimalloc(text, nm, mode):
    """-> dict(prog, problems {mem: [(start,end,size,align)]}, addrs [(mem, addr, size)], module)"""
    import minimalloc_stub
    from xdsl.dialects import func, llvm
    from xdsl.dialects.builtin import StringAttr
    from snaxc.transforms.snax_allocate import SnaxAllocatePass
    from snaxc.util.snax_memory import SnaxMemory
    c = xctx()
    mems = [(0x10000 * (3 * i + 1), 65536) for i in range(nm)]   # disjoint windows
    for i, (start, cap) in enumerate(mems):
        c.register_memory(SnaxMemory(StringAttr(f"M{i}"), cap, start))
    mod = parse(text)
    f = [op for op in mod.walk() if isinstance(op, func.FuncOp)][0]
    prog, alloc_ops = convert_func(f)
    idmap = {str(hash(op)): (k, int(op.memory_space.data[1:])) for k, op in enumerate(alloc_ops)}
    shape_vals = [list(op.shapes) for op in alloc_ops]
    del minimalloc_stub.PROBLEMS[:]
    SnaxAllocatePass(mode=mode).apply(c, mod)
    mod.verify()
    problems, offsets, capacities = {}, {}, {}
    for pr in list(minimalloc_stub.PROBLEMS):
        ms = {idmap[b.id][1] for b in pr.buffers}
        assert len(ms) == 1
        m_ = ms.pop()
        problems[m_] = [(b.start_time, b.end_time, b.size, b.alignment) for b in pr.buffers]
        capacities[m_] = pr.capacity
        offsets[m_] = minimalloc_stub.Problem(pr.buffers, pr.capacity).solve()
    del minimalloc_stub.PROBLEMS[:]
    descrs = extract_descriptors(mod)
    addrs = [op.input.owner.value.value.data for op in mod.walk() if isinstance(op, llvm.IntToPtrOp)]
    return {"prog": prog, "problems": problems, "offsets": offsets, "capacities": capacities, "descrs": descrs, "shape_vals": shape_vals, "addrs": addrs, "mems": mems, "module": mod,
            "alloc_meta": [(int(op_mem), sz) for (op_mem, sz) in [(o["mem"], o["size"]) for o in prog if o["kind"] == "KAlloc"]]}


def true_use_tops(prog, alloc_index):
    """independent of the implementation: top-level indices of every op that uses the buffer or a view/cast of it"""
    allocs = [o for o in prog if o["kind"] == "KAlloc"]
    a = allocs[alloc_index]
    vals = {a["res"][0][0]}
    changed = True
    while changed:
        changed = False
        for o in prog:
            if o["alias"] and any(x in vals for x in o["ops"]):
                for r, _ in o["res"]:
                    if r not in vals:
                        vals.add(r)
                        changed = True
    return a["top"], sorted(o["top"] for o in prog if any(x in vals for x in o["ops"]))


def check_life(run):
    """L2 on the implementation: the interval handed to the solver covers every use of the buffer and of its
    views; buffers that are live at the same time got disjoint ranges; no use after the inserted dealloc."""
    fails = []
    prog = run["prog"]
    allocs = [o for o in prog if o["kind"] == "KAlloc"]
    per_mem = {}
    for k, a in enumerate(allocs):
        per_mem.setdefault(a["mem"], []).append(k)
    spans = {}
    for m, ks in per_mem.items():
        bufs = run["problems"].get(m)
        if bufs is None or len(bufs) != len(ks):
            fails.append(("problem_missing", {"memory": m}, None))
            continue
        # the solver places offsets in [0, capacity): with any other capacity a correct solver may leave the window
        if run["capacities"].get(m) != run["mems"][m][1]:
            fails.append(("solver_capacity", {"memory": m, "window (start, capacity)": run["mems"][m],
                                              "capacity_handed_to_solver": run["capacities"].get(m)}, None))
        for k, (st, en, sz, al) in zip(ks, bufs):
            top, uses = true_use_tops(prog, k)
            last = max(uses) if uses else top
            spans[k] = (top, last)
            if st != top or sz != allocs[k]["size"] or al != allocs[k]["align"]:
                fails.append(("buffer_fields", {"alloc": k, "buffer": [st, en, sz, al]}, None))
            if en < last:
                direct = [o["top"] for o in prog if allocs[k]["res"][0][0] in o["ops"]]
                klass = None
                fails.append(("lifetime_misses_use", {"alloc": k, "buffer_interval": [st, en], "last_use_incl_views": last,
                                                      "last_direct_use": max(direct) if direct else None}, klass))
    # addresses: allocs in order of appearance (one inttoptr per alloc)
    if len(run["addrs"]) == len(allocs):
        for i in range(len(allocs)):
            for j in range(i + 1, len(allocs)):
                if allocs[i]["mem"] != allocs[j]["mem"] or i not in spans or j not in spans:
                    continue
                (s1, e1), (s2, e2) = spans[i], spans[j]
                if max(s1, s2) <= min(e1, e2):   # both live at some top-level index
                    a1, a2 = run["addrs"][i], run["addrs"][j]
                    if a1 < a2 + allocs[j]["size"] and a2 < a1 + allocs[i]["size"]:
                        fails.append(("live_buffers_overlap", {"allocs": [i, j], "addresses": [a1, a2],
                                                               "sizes": [allocs[i]["size"], allocs[j]["size"]], "live": [spans[i], spans[j]]}, None))
        pos = {}
        for i, a in enumerate(allocs):
            start, cap = run["mems"][a["mem"]]
            ad = run["addrs"][i]
            kth = pos.get(a["mem"], 0)
            pos[a["mem"]] = kth + 1
            offs = run["offsets"].get(a["mem"])
            if offs is not None and kth < len(offs) and ad != offs[kth] + start:
                fails.append(("address_not_offset_plus_start", {"alloc": i, "address": ad, "solver_offset": offs[kth], "memory_start": start}, None))
            if ad < start or ad + a["size"] > start + cap or (a["align"] > 0 and (ad - start) % a["align"] != 0):
                fails.append(("minimalloc_range", {"alloc": i, "address": ad}, None))
        for i, d in enumerate(run["descrs"][:len(allocs)]):
            if d["ptr"] != ("const", run["addrs"][i]) or d["aligned"] != d["ptr"] or d["offset"] != 0 or d["sizes"] != run["shape_vals"][i]:
                fails.append(("descriptor_fields", {"alloc": i, "ptr": d["ptr"], "aligned": d["aligned"], "offset": d["offset"]}, None))
    else:
        fails.append(("address_count", {"addrs": run["addrs"]}, None))
    # deallocs: no use of the buffer or a view of it after its dealloc
    from xdsl.dialects import func
    f = [op for op in run["module"].walk() if isinstance(op, func.FuncOp)][0]
    order = {op: i for i, op in enumerate(f.walk())}
    for op in f.walk():
        if op.name == "memref.dealloc":
            vals, work = set(), [op.operands[0]]
            # the deallocated value and everything aliasing the same descriptor
            root = op.operands[0].owner.operands[0] if op.operands[0].owner.name == "builtin.unrealized_conversion_cast" else op.operands[0]
            work = [root]
            while work:
                v = work.pop()
                if v in vals:
                    continue
                vals.add(v)
                for u in v.uses:
                    if u.operation.name in ALIAS_OPS:
                        work.extend(u.operation.results)
            for v in vals:
                for u in v.uses:
                    if u.operation is not op and order[u.operation] > order[op]:
                        fails.append(("use_after_dealloc", {"user": u.operation.name}, None))
    return fails


# ------------------------------------------------------------------ memref descriptors (create_memref_struct), dynamic mode
def extract_descriptors(mod):
    """every llvm.insertvalue chain that starts at llvm.mlir.undef, in walk order ->
    [dict(ptr, aligned, offset, sizes [SSAValue of the shape operand], call)] (structural, trusted)"""
    from xdsl.dialects import arith, func, llvm
    chains, by_res = [], {}
    for op in mod.walk():
        if isinstance(op, llvm.InsertValueOp):
            cont = op.container
            ch = dict(by_res.pop(cont)) if cont in by_res else ({} if isinstance(cont.owner, llvm.UndefOp) else None)
            if ch is None:
                continue
            ch[tuple(op.position.get_values())] = op.value
            by_res[op.res] = ch
    for res, ch in by_res.items():
        chains.append((res, ch))

    def src(v):
        o = v.owner
        if isinstance(o, llvm.IntToPtrOp):
            return ("const", o.input.owner.value.value.data), None
        if isinstance(o, llvm.ExtractValueOp) and isinstance(o.container.owner, llvm.LoadOp):
            call = o.container.owner.ptr.owner
            if isinstance(call, func.CallOp) and call.callee.root_reference.data == "snax_alloc_l1":
                return ("field", tuple(o.position.get_values())[0]), call
        return ("other", str(v)), None
    out = []
    for res, ch in chains:
        p, call = src(ch[(0,)])
        a, call2 = src(ch[(1,)])
        off = ch[(2,)].owner.value.value.data if isinstance(ch[(2,)].owner, arith.ConstantOp) else None
        sizes = []
        i = 0
        while (3, i) in ch:
            v = ch[(3, i)]
            if v.owner.name == "builtin.unrealized_conversion_cast":
                v = v.owner.operands[0]
            sizes.append(v)
            i += 1
        out.append({"ptr": p, "aligned": a, "offset": off, "sizes": sizes, "call": call or call2, "result": res})
    return out


def coq_psrc(p):
    return f"(PConst {zlit(p[1])})" if p[0] == "const" else (f"(PField {p[1]}%nat)" if p[0] == "field" else "(PField 99%nat)")


def coq_descr(d, shape_vals):
    from vlib import optz
    idx = [shape_vals.index(v) if v in shape_vals else 99 for v in d["sizes"]]
    # with repeated shape operands `index` picks the first: normalise the expected list the same way
    call_al = None
    if d["call"] is not None:
        call_al = d["call"].arguments[1].owner.value.value.data
    return (f"(mkDescr {coq_psrc(d['ptr'])} {coq_psrc(d['aligned'])} {zlit(d['offset'] if d['offset'] is not None else -1)} "
            f"{coqlist(f'{i}%nat' for i in idx)} {optz(call_al)})")


def gen_dynamic(rng):
    """-> list of allocs: (rank, size const|None (dynamic), alignment, memory 'L1'|'M0')"""
    n = rng.choice([1, 2, 3, 4])
    out = []
    for _ in range(n):
        out.append({"rank": rng.choice([1, 2, 3]), "size": rng.choice([None, None, 16, 64, 100]),
                    "al": rng.choice([1, 4, 8, 16, 64, 256]), "mem": "L1" if rng.random() < 0.85 else "M0"})
    return out


def dynamic_text(allocs):
    lines = ["builtin.module {", "func.func public @f() {"]
    for k, a in enumerate(allocs):
        if a["size"] is None:
            lines.append(f'%s{k} = "test.op"() : () -> index')
        else:
            lines.append(f"%s{k} = arith.constant {a['size']} : index")
        shp = []
        for j in range(a["rank"]):
            lines.append(f'%d{k}_{j} = "test.op"() : () -> index')
            shp.append(f"%d{k}_{j}")
        lines.append(f'%a{k} = "snax.alloc"(%s{k}, {", ".join(shp)}) <{{memory_space = "{a["mem"]}", alignment = {a["al"]} : i32}}> : '
                     f'({", ".join(["index"] * (a["rank"] + 1))}) -> {struct_ty(a["rank"])}')
        mt = "memref<" + "x".join(["?"] * a["rank"]) + "xi32>"
        lines.append(f'%m{k} = "builtin.unrealized_conversion_cast"(%a{k}) : ({struct_ty(a["rank"])}) -> {mt}')
        lines.append(f'"test.op"(%m{k}) : ({mt}) -> ()')
    lines += ["func.return", "}", "}"]
    return "\n".join(lines)


def run_dynamic(allocs, mode):
    """-> list per alloc: None (left as snax.alloc) | dict(descr, shape_vals, size_val, call)"""
    from xdsl.dialects.builtin import StringAttr
    from snaxc.dialects import snax
    from snaxc.transforms.snax_allocate import SnaxAllocatePass
    from snaxc.util.snax_memory import SnaxMemory
    c = xctx()
    c.register_memory(SnaxMemory(StringAttr("M0"), 65536, 0x20000))
    mod = parse(dynamic_text(allocs))
    before = [op for op in mod.walk() if isinstance(op, snax.Alloc)]
    info = [(list(op.shapes), op.size, op.result) for op in before]
    users = [next(iter(op.result.uses)).operation for op in before]   # the cast that consumes the descriptor
    SnaxAllocatePass(mode=mode).apply(c, mod)
    mod.verify()
    ds = {d["result"]: d for d in extract_descriptors(mod)}
    out = []
    for (shapes, size, _), user in zip(info, users):
        d = ds.get(user.operands[0])
        if d is None:
            out.append(None)
        else:
            out.append({"descr": d, "shape_vals": shapes, "size_val": size})
    return out


def check_dynamic(allocs, res, mode):
    """L2: the descriptor of a run-time allocation: base pointer = field 0 and aligned pointer = field 1 of the
    struct returned by snax_alloc_l1(size of this alloc, alignment of this alloc); offset 0; sizes = shape operands."""
    fails = []
    for k, (a, r) in enumerate(zip(allocs, res)):
        if a["mem"] != "L1":
            if r is not None:
                fails.append(("dynamic_rewrote_non_l1", {"alloc": k}, None))
            continue
        if r is None:
            fails.append(("dynamic_not_rewritten", {"alloc": k}, None))
            continue
        d = r["descr"]
        call = d["call"]
        if d["ptr"] != ("field", 0) or d["aligned"] != ("field", 1):
            fails.append(("descriptor_pointers", {"alloc": k, "ptr": d["ptr"], "aligned": d["aligned"]}, None))
        if d["offset"] != 0:
            fails.append(("descriptor_offset", {"alloc": k, "offset": d["offset"]}, None))
        if d["sizes"] != r["shape_vals"]:
            fails.append(("descriptor_sizes", {"alloc": k}, None))
        if call is None or call.arguments[0] is not r["size_val"] or call.arguments[1].owner.value.value.data != a["al"]:
            fails.append(("alloc_call_arguments", {"alloc": k}, None))
    return fails


# ------------------------------------------------------------------ L1
def _shards(header, ctype, test, cases, meta, label, per):
    """-> list of (text, 1, decode) jobs, `per` cases per Coq file"""
    jobs = []
    for a in range(0, len(cases), per):
        text = [header, f"Definition cases : list ({ctype}) := {coqlist(cases[a:a + per])}.",
                f"Eval vm_compute in failing ({test}) cases."]

        def dec(lists, a=a):
            return [{"name": label, "case": meta[a + i], "coq_case": cases[a + i][:600]} for i in lists[0]]
        jobs.append(("\n".join(text) + "\n", 1, dec))
    return jobs


def correspondence(ctx):
    rng = ctx.rng
    dis = []
    # --- static mode
    n = ctx.n(100, 2000)
    cases, meta = [], []
    for _ in range(n):
        mems, reqs, nest = gen_static(rng)
        kind, addrs = run_static(mems, reqs, nest)
        L = (coqlist(f"({zlit(s)}, {zlit(c)})" for s, c in mems),
             coqlist(f"({m}%nat, ({zlit(sz)}, {zlit(al or 0)}))" for m, sz, al in reqs))
        cases.append(f"({L[0]}, {L[1]}, {coq_ares(kind, addrs)})")
        meta.append({"mems": mems, "reqs": reqs, "nest": nest, "impl": [kind, addrs]})
        shared = len(reqs) - len({m for m, _, _ in reqs})
        ctx.count({"mode": "static", "mems": mems, "reqs": reqs, "result": [kind, addrs]}, shared >= 1,
                  f"st{mems}{reqs}", "static:" + kind)
    hdr = "From Snax Require Import Base.Prelude Model.Tsl Model.C11Alloc."
    jobs = _shards(hdr, "list (Z*Z) * list mreq * ares (list Z)",
                   "fun c => match c with (m, r, res) => ares_eqb (static_multi m r) res end", cases, meta, "L1:static", 400)
    jobs += _corr_sizes(ctx) + _corr_life(ctx)
    outs = vlib.coq_eval_many("c11_", [j[0] for j in jobs], timeout=900, par=6)
    for (txt, nlists, dec), (ok, out) in zip(jobs, outs):
        lists = vlib.parse_all_eval_lists(out)
        if not ok or len(lists) != nlists:
            return [{"name": "cases-file", "detail": out[-2000:]}]
        dis += dec(lists)
    return dis


def _corr_sizes(ctx):
    rng = ctx.rng
    n = ctx.n(150, 3000)
    none_cases, tsl_cases, meta_n, meta_t = [], [], [], []
    for _ in range(n):
        c = gen_size_case(rng)
        res = run_size_case(c)
        if res is None:
            raise RuntimeError(f"memref-to-snax did not rewrite {c}")
        kind, lit = coq_size_case(c, res)
        (none_cases if kind == "none" else tsl_cases).append(lit)
        (meta_n if kind == "none" else meta_t).append({"case": c, "impl": res})
        dyn = any(x is None for x in c["sshape"])
        ctx.count({"pass": "memref-to-snax", "case": c, "size": res["size"]}, c["ts"] is not None,
                  f"sz{c}", "size:" + ("none" if c["ts"] is None else ("dynamic" if dyn else "static")))
    hdr = "From Snax Require Import Base.Prelude Model.Tsl Model.C11Alloc."
    return (_shards(hdr, "Z * list Z * Z", "fun c => match c with (el, dims, r) => size_none el dims =? r end",
                    none_cases, meta_n, "L1:memref-to-snax(no layout)", 400)
            + _shards(hdr, "Z * layout * list Z * Z",
                      "fun c => match c with (el, l, dims, r) => optZ_eqb (size_tsl el l dims) (Some r) end",
                      tsl_cases, meta_t, "L1:memref-to-snax(tsl)", 250))


def _corr_life(ctx):
    rng = ctx.rng
    n = ctx.n(45, 2000)
    cases, meta, dcases, dmeta = [], [], [], []
    for _ in range(ctx.n(40, 1000)):      # dynamic mode / auto with a dynamically sized alloc
        allocs_d = gen_dynamic(rng)
        mode_d = "dynamic" if rng.random() < 0.5 or all(a["size"] is not None for a in allocs_d) else "auto"
        for a_, r_ in zip(allocs_d, run_dynamic(allocs_d, mode_d)):
            if r_ is not None:
                dcases.append(f"({coq_descr(r_['descr'], r_['shape_vals'])}, descr_dynamic {zlit(a_['al'])} {a_['rank']}%nat)")
                dmeta.append({"allocs": allocs_d, "mode": mode_d})
        ctx.count({"pass": f"snax-allocate{{mode={mode_d}}}", "allocs": allocs_d}, True, f"dyn{allocs_d}{mode_d}", f"descr:{mode_d}")
    for _ in range(n):
        text, nm = gen_life_program(rng)
        mode = rng.choice(["minimalloc", "minimalloc", "auto"])
        run = run_minimalloc(text, nm, mode)
        bufs = []
        for m in range(nm):
            bl = run["problems"].get(m, [])
            bufs.append(coqlist(f"(mkBuf {st}%nat {en}%nat {zlit(sz)} {zlit(al)})" for st, en, sz, al in bl))
        cases.append(f"({coq_prog(run['prog'])}, {coqlist(bufs)})")
        meta.append({"text": text, "mode": mode, "problems": run["problems"], "escape": any(o.get("escape") for o in run["prog"])})
        allocs_ = [o for o in run["prog"] if o["kind"] == "KAlloc"]
        pos_ = {}
        if len(run["descrs"]) == len(allocs_):
            for a_, d_, sv_ in zip(allocs_, run["descrs"], run["shape_vals"]):
                kth = pos_.get(a_["mem"], 0)
                pos_[a_["mem"]] = kth + 1
                off_ = run["offsets"][a_["mem"]][kth]
                dcases.append(f"({coq_descr(d_, sv_)}, descr_const (pointer_of {zlit(run['mems'][a_['mem']][0])} {zlit(off_)}) {len(sv_)}%nat)")
                dmeta.append({"text": text, "mode": mode, "alloc_memory": a_["mem"], "solver_offset": off_,
                              "impl_descriptor": [d_["ptr"], d_["aligned"], d_["offset"]]})
        else:
            raise RuntimeError("descriptor count != alloc count")
        nviews = sum(1 for o in run["prog"] if o["alias"] and o["kind"] != "KCast")
        ctx.count({"pass": f"snax-allocate{{mode={mode}}}", "buffers": run["problems"]}, nviews >= 1, text, f"life:{mode}")
    jobs, per = [], 15
    for a in range(0, len(cases), per):
        text = ["From Snax Require Import Base.Prelude Model.C11Life.",
                f"Definition cases : list (list aop * list (list buffer)) := {coqlist(cases[a:a + per])}.",
                # the model computes the Buffer list of the real pass on every program, and every converted program
                # satisfies the hypotheses of the safety theorems (wf_prog: alias_followed, alloc_alone, distinct indices)
                "Definition ok (c : list aop * list (list buffer)) : bool := wf_prog (fst c) && "
                "list_eqb (list_eqb buffer_eqb) (map (buffers_in (fst c)) (seq 0 (length (snd c)))) (snd c).",
                "Eval vm_compute in failing ok cases."]

        def dec(lists, a=a):
            return [{"name": "L1:minimalloc-lifetimes", "case": meta[a + idx], "coq_case": cases[a + idx][:600]} for idx in lists[0]]
        jobs.append(("\n".join(text) + "\n", 1, dec))
    jobs += _shards("From Snax Require Import Base.Prelude Model.Tsl Model.C11Alloc.", "descr * descr",
                    "fun c => descr_eqb (fst c) (snd c)", dcases, dmeta, "L1:memref-descriptor", 400)
    return jobs


# ------------------------------------------------------------------ L2
def search(ctx, deep=False):
    rng = ctx.rng
    fails = []
    n = ctx.n(150, 2000) * (3 if deep else 1)
    for _ in range(n):
        mems, reqs, nest = gen_static(rng)
        kind, addrs = run_static(mems, reqs, nest)
        for what, detail, klass in check_static_result(mems, reqs, kind, addrs):
            fails.append({"what": what, "mode": "static", "input": {"mems": mems, "reqs": reqs, "nest": nest},
                          "impl": [kind, addrs], "detail": detail, "klass": klass})
        ctx.count({"L2": "static", "reqs": reqs}, len(reqs) > 1, f"l2st{mems}{reqs}", "L2:static")
    for _ in range(ctx.n(250, 3000) * (3 if deep else 1)):
        c = gen_size_case(rng)
        res = run_size_case(c)
        for what, detail, klass in check_size_case(c, res):
            fails.append({"what": what, "mode": "size", "input": c, "impl": res, "detail": detail, "klass": klass})
        ctx.count({"L2": "size", "case": c}, c["ts"] is not None, f"l2sz{c}", "L2:size")
    for _ in range(ctx.n(150, 2000) * (3 if deep else 1)):
        text, nm = gen_life_program(rng)
        mode = rng.choice(["minimalloc", "auto"])
        run = run_minimalloc(text, nm, mode)
        for what, detail, klass in check_life(run):
            fails.append({"what": what, "mode": "life", "input": {"text": text, "nm": nm, "pass_mode": mode},
                          "impl": {"problems": run["problems"], "addrs": run["addrs"]}, "detail": detail, "klass": klass})
        ctx.count({"L2": "life"}, True, "l2lf" + text, "L2:life")
    for _ in range(ctx.n(80, 1000) * (3 if deep else 1)):
        allocs_d = gen_dynamic(rng)
        mode_d = "dynamic" if rng.random() < 0.5 or all(a["size"] is not None for a in allocs_d) else "auto"
        for what, detail, klass in check_dynamic(allocs_d, run_dynamic(allocs_d, mode_d), mode_d):
            fails.append({"what": what, "mode": "dynamic", "input": {"allocs": allocs_d, "pass_mode": mode_d}, "detail": detail, "klass": klass})
        ctx.count({"L2": "dynamic", "allocs": allocs_d}, True, f"l2dy{allocs_d}{mode_d}", "L2:dynamic")
    return _dedup(fails)


def _dedup(fails):
    seen, out = set(), []
    for f in fails:
        k = (f["what"], f["klass"])
        if k not in seen:
            seen.add(k)
            out.append(f)
    return out


def replay_known(ctx, entry):
    w = entry["witness"]
    if w.get("kind") == "life":
        return any(k == entry["class"] for (_, _, k) in check_life(run_minimalloc(w["text"], w["nm"], w["pass_mode"])))
    c = {"el": w["el"], "ts": [[tuple(sb) for sb in t] for t in w["ts"]], "off": w["off"], "dims": w["dims"], "sshape": w["sshape"]}
    return any(k == entry["class"] for (_, _, k) in check_size_case(c, run_size_case(c)))


def replay(ctx, obj):
    f = obj.get("failure")
    if not f:
        print("no failing input recorded; broken obligations:", obj.get("no_longer_checks"))
        return 1
    if f.get("mode") == "static":
        i = f["input"]
        mems = [tuple(m) for m in i["mems"]]
        reqs = [tuple(r) for r in i["reqs"]]
        kind, addrs = run_static(mems, reqs, i["nest"])
        print("memories (start, capacity):", mems)
        print("requests (memory, size, alignment):", reqs)
        print("implementation:", kind, addrs)
        res = check_static_result(mems, reqs, kind, addrs)
        for r in res:
            print("FAIL", r)
        return 1 if res else 0
    if f.get("mode") == "size":
        c = f["input"]
        if c["ts"] is not None:
            c["ts"] = [[tuple(sb) for sb in t] for t in c["ts"]]
        res = run_size_case(c)
        print("memref.alloc:", c, "\nimplementation:", res)
        fs = check_size_case(c, res)
        for r in fs:
            print("FAIL", r)
        return 1 if fs else 0
    if f.get("mode") == "life":
        i = f["input"]
        print(i["text"])
        run = run_minimalloc(i["text"], i["nm"], i["pass_mode"])
        print("buffers handed to the solver:", run["problems"], "\naddresses:", run["addrs"])
        fs = check_life(run)
        for r in fs:
            print("FAIL", r)
        return 1 if fs else 0
    if f.get("mode") == "dynamic":
        i = f["input"]
        print(dynamic_text(i["allocs"]))
        fs = check_dynamic(i["allocs"], run_dynamic(i["allocs"], i["pass_mode"]), i["pass_mode"])
        for r in fs:
            print("FAIL", r)
        return 1 if fs else 0
    print("unknown replay kind")
    return 1
