"""C11 — allocations are big enough and never overlap while live.

(H) hand model coq/Model/C11Alloc.v (+ C11Life.v), L1 correspondence against the real passes
`snax-allocate{mode=static|minimalloc|auto}` and `memref-to-snax` driven in-process, L2 property-level
search on the implementation (no model involved).
"""
from __future__ import annotations

import vlib
from vlib import coqlist, zlit

PROPERTY = "C11"
MODEL_TARGETS = ["Model/C11Alloc.vo"]
RULE = ("static mode: 1-8 snax.alloc ops over 1-3 registered memory spaces with random (start, capacity), sizes "
        "0-300 bytes, alignments from {1,2,3,4,8,10,14,16,64} plus rare 0 / absent; some allocs nested in func/scf.for; "
        "a case is non-trivial when >= 2 allocs share a memory; distinct = distinct (memories, requests) tuples")
TRUSTED_BASE = [
    "Coq 8.16.1 kernel + vm_compute (no native_compute)",
    "hand model coq/Model/C11Alloc.v of StaticAllocs / AllocOpRewrite, tied by L1 (this harness)",
    "harness/props/c11.py generators, IR-text builders, Coq-literal printer; harness/xdsl_compat.py, harness/minimalloc_stub.py; "
    "xDSL 0.70 Parser / PatternRewriteWalker",
]
ASSUMPTIONS = [
    "the real minimalloc solver is absent: it is a Section variable with the contract 'buffers with overlapping "
    "lifetimes get disjoint aligned ranges inside capacity'; the stub solver is only used to read the Problem back",
    "snax_alloc_l1 (dynamic mode, run time) is not modelled",
]

_CTX = None


def xctx():
    global _CTX
    if _CTX is None:
        from snaxc.tools.snax_opt_main import SNAXOptMain
        _CTX = SNAXOptMain(args=[str(vlib.REPO / "tests/filecheck/transforms/snax-allocate-static.mlir")]).ctx
    return _CTX


def parse(text):
    from xdsl.parser import Parser
    return Parser(xctx(), text).parse_module()


def struct_ty(rank):
    return f"!llvm.struct<(!llvm.ptr, !llvm.ptr, i32, !llvm.array<{rank} x i32>, !llvm.array<{rank} x i32>)>"


# ------------------------------------------------------------------ static mode
ALIGNS = [1, 1, 2, 3, 4, 8, 8, 10, 14, 16, 64]


def gen_static(rng):
    """-> (mems [(start, cap)], reqs [(mem, size, align|None)], nest [0|1|2 per request])"""
    nm = rng.choice([1, 1, 2, 3])
    mems = []
    for _ in range(nm):
        start = rng.choice([0, 0, 16, 100, 4096, 0x10000000, 7, 1000003])
        cap = rng.choice([64, 100, 256, 1000, 4096, 65536])
        mems.append((start, cap))
    n = rng.choice([1, 2, 3, 3, 4, 5, 6, 8])
    reqs = []
    for _ in range(n):
        m = rng.randrange(nm)
        size = rng.choice([0, 1, 3, 4, 13, 16, 32, 50, 64, 100, 128, 300, rng.randrange(0, 300)])
        r = rng.random()
        al = 0 if r < 0.03 else (None if r < 0.05 else rng.choice(ALIGNS))
        reqs.append((m, size, al))
    nest = [rng.choice([0, 0, 0, 1, 2]) for _ in reqs]
    return mems, reqs, nest


def static_text(reqs, nest):
    """module with the allocs in walk order; nest: 0 = module level, 1 = inside a func, 2 = inside scf.for in a func"""
    lines = ["builtin.module {"]
    for k, (m, size, al) in enumerate(reqs):
        alattr = "" if al is None else f", alignment = {al} : i32"
        alloc = (f'%s{k} = arith.constant {size} : index\n'
                 f'%d{k} = arith.constant 4 : index\n'
                 f'%a{k} = "snax.alloc"(%s{k}, %d{k}) <{{memory_space = "M{m}"{alattr}}}> : (index, index) -> {struct_ty(1)}')
        if nest[k] == 0:
            lines.append(alloc)
        elif nest[k] == 1:
            lines.append(f"func.func @f{k}() {{\n{alloc}\nfunc.return\n}}")
        else:
            lines.append(f"func.func @f{k}() {{\n%lb{k} = arith.constant 0 : index\n%ub{k} = arith.constant 4 : index\n"
                         f"%st{k} = arith.constant 1 : index\nscf.for %i{k} = %lb{k} to %ub{k} step %st{k} {{\n{alloc}\n}}\nfunc.return\n}}")
    lines.append("}")
    return "\n".join(lines)


def run_static(mems, reqs, nest):
    """-> ('ok', [addresses]) | ('full', None) | ('zerodiv', None)"""
    from xdsl.dialects import llvm
    from xdsl.dialects.builtin import StringAttr
    from snaxc.transforms.snax_allocate import SnaxAllocatePass
    from snaxc.util.snax_memory import SnaxMemory
    c = xctx()
    for i, (start, cap) in enumerate(mems):
        c.register_memory(SnaxMemory(StringAttr(f"M{i}"), cap, start))
    mod = parse(static_text(reqs, nest))
    try:
        SnaxAllocatePass(mode="static").apply(c, mod)
    except ZeroDivisionError:
        return "zerodiv", None
    except RuntimeError as e:
        if "is full" in str(e):
            return "full", None
        raise
    mod.verify()
    addrs = [op.input.owner.value.value.data for op in mod.walk() if isinstance(op, llvm.IntToPtrOp)]
    return "ok", addrs


def coq_ares(kind, addrs):
    if kind == "ok":
        return f"(AOk {vlib.zlist(addrs)})"
    return "(AErr ErrFull)" if kind == "full" else "(AErr ErrZeroDiv)"


def check_static_result(mems, reqs, kind, addrs):
    """L2: the property itself on the implementation's output (independent arithmetic)."""
    fails = []
    if kind == "ok":
        if len(addrs) != len(reqs):
            return [("static_count", {"addrs": addrs}, None)]
        per = {}
        for (m, size, al), a in zip(reqs, addrs):
            start, cap = mems[m]
            al = al or 0
            if al > 0 and a != (a // al) * al:
                fails.append(("static_misaligned", {"addr": a, "alignment": al}, None))
            if a < start or a + size > start + cap:
                fails.append(("static_out_of_window", {"addr": a, "size": size, "memory": mems[m]}, None))
            for (b, bs) in per.get(m, []):
                if a < b + bs and b < a + size:
                    fails.append(("static_overlap", {"a": [a, size], "b": [b, bs], "memory": m}, None))
            per.setdefault(m, []).append((a, size))
    elif kind == "full":
        # the error must be justified: packing in order with least aligned addresses does not fit
        cur = {}
        over = False
        for (m, size, al) in reqs:
            start, cap = mems[m]
            al = al or 0
            if al <= 0:
                over = True  # cannot judge
                break
            c0 = cur.get(m, start)
            a = -(-c0 // al) * al
            if a + size > start + cap:
                over = True
                break
            cur[m] = a + size
        if not over:
            fails.append(("static_spurious_full", {}, None))
    return fails


# ------------------------------------------------------------------ L1
def correspondence(ctx):
    rng = ctx.rng
    dis = []
    # --- static mode
    n = ctx.n(150, 2000)
    cases, meta = [], []
    for _ in range(n):
        mems, reqs, nest = gen_static(rng)
        kind, addrs = run_static(mems, reqs, nest)
        L = (coqlist(f"({zlit(s)}, {zlit(c)})" for s, c in mems),
             coqlist(f"({m}%nat, ({zlit(sz)}, {zlit(al or 0)}))" for m, sz, al in reqs))
        cases.append(f"({L[0]}, {L[1]}, {coq_ares(kind, addrs)})")
        meta.append({"mems": mems, "reqs": reqs, "nest": nest, "impl": [kind, addrs]})
        shared = len(reqs) - len({m for m, _, _ in reqs})
        ctx.count({"mode": "static", "mems": mems, "reqs": reqs, "result": [kind, addrs]}, shared >= 1,
                  f"st{mems}{reqs}", "static:" + kind)
    text = ["From Snax Require Import Base.Prelude Model.Tsl Model.C11Alloc."]
    text.append(f"Definition cases_static : list (list (Z*Z) * list mreq * ares (list Z)) := {coqlist(cases)}.")
    text.append("Eval vm_compute in failing (fun c => match c with (m, r, res) => ares_eqb (static_multi m r) res end) cases_static.")
    ok, out = vlib.coq_eval("c11", "\n".join(text) + "\n", timeout=600)
    lists = vlib.parse_all_eval_lists(out)
    if not ok or len(lists) != 1:
        return [{"name": "cases-file", "detail": out[-2000:]}]
    for idx in lists[0]:
        dis.append({"name": "L1:static", "case": meta[idx], "coq_case": cases[idx][:600]})
    return dis


# ------------------------------------------------------------------ L2
def search(ctx, deep=False):
    rng = ctx.rng
    fails = []
    n = ctx.n(150, 2000) * (3 if deep else 1)
    for _ in range(n):
        mems, reqs, nest = gen_static(rng)
        kind, addrs = run_static(mems, reqs, nest)
        for what, detail, klass in check_static_result(mems, reqs, kind, addrs):
            fails.append({"what": what, "mode": "static", "input": {"mems": mems, "reqs": reqs, "nest": nest},
                          "impl": [kind, addrs], "detail": detail, "klass": klass})
        ctx.count({"L2": "static", "reqs": reqs}, len(reqs) > 1, f"l2st{mems}{reqs}", "L2:static")
    return _dedup(fails)


def _dedup(fails):
    seen, out = set(), []
    for f in fails:
        k = (f["what"], f["klass"])
        if k not in seen:
            seen.add(k)
            out.append(f)
    return out


def replay_known(ctx, entry):
    return False


def replay(ctx, obj):
    f = obj.get("failure")
    if not f:
        print("no failing input recorded; broken obligations:", obj.get("no_longer_checks"))
        return 1
    if f.get("mode") == "static":
        i = f["input"]
        mems = [tuple(m) for m in i["mems"]]
        reqs = [tuple(r) for r in i["reqs"]]
        kind, addrs = run_static(mems, reqs, i["nest"])
        print("memories (start, capacity):", mems)
        print("requests (memory, size, alignment):", reqs)
        print("implementation:", kind, addrs)
        res = check_static_result(mems, reqs, kind, addrs)
        for r in res:
            print("FAIL", r)
        return 1 if res else 0
    print("unknown replay kind")
    return 1
