"""C06 — setup/compute overlap keeps every launch's configuration.

(H) hand model coq/Model/C06Overlap.v of the two rewrite patterns of accfg_config_overlap.py (with
scoped_setups.py / helpers.py).  L1: every invocation of `match_and_rewrite` of both pattern classes on
generated programs is recorded (wrapping the classes inside this process) and compared with the model's rule
applied to the same setup op — the rewritten IR when the pattern rewrote, `None` when it bailed out.
L2: the real IR before/after each recorded rewrite (and before/after the whole pass) is executed on the shared
Coq semantics (Model/AccSem.v) for sampled runtime inputs and the traces are compared; scoping of the real
output is checked (`wf_scope`, `module.verify()`).  Failures are classified with the Coq predicate
`safe_after_loop` (known finding F4 = not_SafeAfterLoop).
"""
from __future__ import annotations

import vlib
from vlib import coqlist, zlit

import accir

PROPERTY = "C06"
MODEL_TARGETS = ["Model/AccIR.vo", "Model/AccSem.vo", "Model/C06Overlap.vo"]
RULE = ("programs: (a) accir.gen_module functions (1-2 accelerators x 1-3 fields, nested scf.for/scf.if to depth 3, "
        "calls with/without accfg.effects<none>, pure chains from loop induction variables) run through the real "
        "accfg-trace-states + accfg-dedup, (b) hand-threaded loops: 1-3 launches per body, integer iter_args "
        "feeding the setup, setups fed by pure chains / pure opaque ops / impure ops, launches before the setup, "
        "a register value that is also an intermediate of a later-listed register value, "
        "launches in front of the setup directly in the body or nested in an scf.if / scf.for, setups fed by results "
        "of side-effect-free scf.if / scf.for ops that capture later body values (loop level and block level), "
        "post-loop launches with and without re-configuration (the F4 probe); every match_and_rewrite invocation "
        "of both patterns is one L1 case (distinct = distinct (IR, matched op, pattern)); a case is non-trivial "
        "when the pattern rewrote the IR or the matched setup has an input state. L2 inputs: trip counts 0-4, "
        "lb != 0, step != 1, both branch outcomes, 3 oracle seeds.")
TRUSTED_BASE = [
    "Coq 8.16.1 kernel + vm_compute (no native_compute)",
    "shared abstract IR / semantics coq/Model/AccIR.v, AccSem.v and the structural converter harness/accir.py",
    "hand model coq/Model/C06Overlap.v of BlockLevelSetupAwaitOverlapPattern / LoopLevelSetupAwaitOverlapPattern / "
    "get_scoped_setup_inputs / lazy_move_up / copy_with_new_dependent_vals, tied by L1 per rewrite in this harness",
    "harness/props/c06.py (generators, class wrapping, literal printing); harness/xdsl_compat.py; xDSL 0.70 rewriter, "
    "is_side_effect_free",
]
ASSUMPTIONS = [
    "integers are mathematical (i + step does not wrap)",
    "a setup value that is the result of an scf.for / scf.if makes the dependency closure bail out, in the model and "
    "(since /repo fix 09d2c36) in the Python; generated programs contain that shape",
    "xDSL's greedy driver is not modelled: theorems are per rule application",
]
ALLOWED_AXIOMS: list[str] = []

PRELUDE = "From Snax Require Import Base.Prelude Model.AccIR Model.AccSem Model.C06Overlap Model.C06BlockSide Model.C06LoopSide.\n"

ACC_DECL = ""   # the overlap pass does not look at accfg.accelerator ops


# ------------------------------------------------------------------------------------------------ programs
def _launch(t, s, a="acc", lv=None):
    if lv:
        return (f'{t} = "accfg.launch"({lv}, {s}) <{{param_names = ["launch"], accelerator = "{a}"}}> : '
                f'(i32, !accfg.state<"{a}">) -> !accfg.token<"{a}">')
    return (f'{t} = "accfg.launch"({s}) <{{param_names = [], accelerator = "{a}"}}> : '
            f'(!accfg.state<"{a}">) -> !accfg.token<"{a}">')


def _await(t, a="acc"):
    return f'"accfg.await"({t}) : (!accfg.token<"{a}">) -> ()'


ST = '!accfg.state<"acc">'

PROBE_F4 = f'''func.func @f(%x : i32, %v : i32, %lb : index, %ub : index, %st : index) {{
  %s0 = accfg.setup "acc" to ("A" = %v : i32) : {ST}
  %r = scf.for %i = %lb to %ub step %st iter_args(%l0 = %s0) -> ({ST}) {{
    %w = arith.index_cast %i : index to i32
    %s1 = accfg.setup "acc" from %l0 to ("A" = %w : i32) : {ST}
    {_launch("%t1", "%s1")}
    {_await("%t1")}
    %s2 = accfg.setup "acc" from %s1 to ("A" = %v : i32) : {ST}
    {_launch("%t2", "%s2")}
    {_await("%t2")}
    scf.yield %s2 : {ST}
  }}
  {_launch("%t3", "%r")}
  {_await("%t3")}
  func.return
}}
'''
PROBE_KINDS = ["val", "val", "lb", "ub", "step"]


def hand_loop(rng, force=None):
    """A hand-threaded loop in the shape the lowering produces, with the variations the guards look at.
    `force` fixes some of the drawn choices (the corpus of canonical shapes that runs first in every check)."""
    F = force or {}
    two_fields = rng.random() < 0.6
    int_iter = rng.random() < 0.5                  # loop-carried integer feeding the setup
    chain = rng.choice(["cast", "add", "add_rev", "mul_add", "const", "opaque_pure", "impure", "outer", "add_rev", "load", "load",
                        "region_if", "region_for", "shared"])
    if chain == "shared":
        two_fields = True
    nested_relaunch = rng.random() < 0.2           # the state is launched again inside an scf.if before the next setup
    load_later = rng.random() < 0.3                # later setups take their value from memory, behind a store
    double_launch = rng.random() < 0.15            # the new state is launched twice: three uses of one state
    launch_first = rng.random() < 0.12             # a launch in front of the setup (guard)
    # a launch on the loop-carried state in front of the setup but NESTED in a region (guard must look into regions:
    # /repo fix 9047e02; without it that launch observes the next iteration's configuration)
    nested_launch_first = rng.choice([""] * 11 + ["if", "if", "for"])
    region_later = rng.random() < 0.2              # a later setup of the body is fed by a region op capturing a later value
    feed_k = rng.random() < 0.75                   # the loop-carried integer is a register value of the moved setup
    n_launch = rng.choice([1, 1, 2, 3])
    post = rng.choice(["none", "launch", "setup_all_launch", "setup_part_launch", "call_launch", "launch", "if_launch"])
    pre_setup = rng.random() < 0.8
    two_fields, int_iter, chain = F.get("two_fields", two_fields), F.get("int_iter", int_iter), F.get("chain", chain)
    if chain == "shared":
        two_fields = True
    launch_first, nested_launch_first = F.get("launch_first", launch_first), F.get("nested_launch_first", nested_launch_first)
    n_launch, post, feed_k = F.get("n_launch", n_launch), F.get("post", post), F.get("feed_k", feed_k)
    L = []
    params = ["%x : i32", "%v : i32", "%lb : index", "%ub : index", "%st : index", "%c : i1", "%buf : memref<?xi32>"]
    kinds = ["val", "val", "lb", "ub", "step", "cond", "val"]
    flds = ["A", "B"] if two_fields else ["A"]
    L.append(f'  %s0 = accfg.setup "acc" to (' + ", ".join(f'"{f}" = %v : i32' for f in flds) + f') : {ST}')
    if not pre_setup:
        L[-1] = f'  %s0 = accfg.setup "acc" to () : {ST}'
    iters = f"iter_args(%l0 = %s0" + (", %k0 = %x" if int_iter else "") + ")"
    rty = f"({ST}" + (", i32" if int_iter else "") + ")"
    res = "%r:2" if int_iter else "%r"
    L.append(f"  {res} = scf.for %i = %lb to %ub step %st {iters} -> {rty} {{")
    B = []
    launch_direct = launch_first and rng.random() < 0.4   # ... as the op DIRECTLY in front of the setup, awaited behind it
    if launch_first and not launch_direct:
        B += [_launch("%tq", "%l0"), _await("%tq")]
    if nested_launch_first == "if":
        B += ["scf.if %c {", "  " + _launch("%tnq", "%l0"), "  " + _await("%tnq"), "  scf.yield", "}"]
    elif nested_launch_first == "for":
        B += ["scf.for %jq = %lb to %ub step %st {", "  " + _launch("%tnq", "%l0"), "  " + _await("%tnq"), "  scf.yield", "}"]
    B.append("%w = arith.index_cast %i : index to i32")
    val = "%w"
    if chain == "add":
        B.append("%w2 = arith.addi %w, %x : i32")
        val = "%w2"
    elif chain == "add_rev":
        B.append("%w2 = arith.addi %x, %w : i32")     # the loop-dependent value is the SECOND operand
        val = "%w2"
    elif chain == "mul_add":
        B += ["%w2 = arith.muli %w, %v : i32", "%w3 = arith.addi %w2, %w : i32"]
        val = "%w3"
    elif chain == "const":
        B.append("%w2 = arith.constant 5 : i32")
        val = "%w2"
    elif chain == "opaque_pure":
        B.append('%w2 = "test.pureop"(%w) : (i32) -> i32')
        val = "%w2"
    elif chain == "load":
        # the register value comes from memory; a store to the same location sits in front of the load or
        # later in the body (the next iteration's descriptor)
        if rng.random() < 0.5:
            B.append("memref.store %x, %buf[%i] : memref<?xi32>")
        B.append("%w2 = memref.load %buf[%i] : memref<?xi32>")
        val = "%w2"
    elif chain == "impure":
        B.append('%w2 = "test.op"(%w) : (i32) -> i32')
        val = "%w2"
    elif chain == "shared":
        # one register value is also an intermediate of a later-listed register value: the order in which the
        # dependency walk discovers the ops is not a topological order
        B += ["%w2 = arith.addi %w, %x : i32", "%w3 = arith.muli %w2, %v : i32"]
        val = "%w2"
    elif chain == "region_if":
        # the value is the result of a side-effect-free scf.if whose region CAPTURES a value of the body
        # (get_scoped_setup_inputs follows operands only; ops with regions are immovable: /repo fix 09d2c36)
        B += ["%u2 = arith.addi %w, %x : i32",
              "%w2 = scf.if %c -> (i32) {", "  scf.yield %u2 : i32", "} else {", "  scf.yield %x : i32", "}"]
        val = "%w2"
    elif chain == "region_for":
        B += ["%u2 = arith.addi %w, %x : i32",
              "%w2 = scf.for %jr = %lb to %ub step %st iter_args(%ar = %w) -> (i32) {",
              "  %nr = arith.addi %ar, %u2 : i32", "  scf.yield %nr : i32", "}"]
        val = "%w2"
    elif chain == "outer":
        val = "%x"
    sv = [("A", val)]
    if chain == "shared":
        sv.append(("B", "%w3"))
    elif int_iter and feed_k:
        sv.append(("B", "%k0"))
    elif two_fields and rng.random() < 0.7:
        sv.append(("B", "%x"))
    if rng.random() < 0.3:
        B.append("%u = arith.addi %x, %v : i32")      # an op that does not feed the setup
    if launch_direct:
        B.append(_launch("%tq", "%l0"))
    B.append(f'%s1 = accfg.setup "acc" from %l0 to (' + ", ".join(f'"{f}" = {x} : i32' for f, x in sv) + f') : {ST}')
    if launch_direct:
        B.append(_await("%tq"))
    cur = "%s1"
    for j in range(n_launch):
        if j > 0:
            nv = rng.choice(["%v", "%x", "%w"])
            if load_later:
                B.append(f"memref.store %v, %buf[%i] : memref<?xi32>")
                B.append(f"%ld{j} = memref.load %buf[%i] : memref<?xi32>")
                nv = f"%ld{j}"
            elif region_later:
                # block level: the region op sits between the previous launch and this setup and captures %cz,
                # which is defined between them as well (moving the scf.if behind the launch would put it above %cz)
                B += [f"%cz{j} = arith.addi %w, %v : i32",
                      f"%rz{j} = scf.if %c -> (i32) {{", f"  scf.yield %cz{j} : i32", "} else {", "  scf.yield %x : i32", "}"]
                nv = f"%rz{j}"
            B.append(f'%sx{j} = accfg.setup "acc" from {cur} to ("A" = {nv} : i32) : {ST}')
            cur = f"%sx{j}"
        B += [_launch(f"%t{j}", cur, lv="%x" if rng.random() < 0.3 else None), _await(f"%t{j}")]
        if double_launch and j == 0:
            B += [_launch("%td", cur), _await("%td")]
        if nested_relaunch and j < n_launch - 1:
            B += ["scf.if %c {", "  " + _launch(f"%tn{j}", cur), "  " + _await(f"%tn{j}"), "  scf.yield", "}"]
    if chain == "load" and rng.random() < 0.6:
        B.append("memref.store %v, %buf[%i] : memref<?xi32>")
    if int_iter:
        B.append("%k1 = arith.addi %k0, %v : i32")
    B.append(f"scf.yield {cur}" + (", %k1" if int_iter else "") + f" : {ST}" + (", i32" if int_iter else ""))
    L += ["    " + b for b in B]
    L.append("  }")
    r0 = "%r#0" if int_iter else "%r"
    if post == "launch":
        L += ["  " + _launch("%tp", r0), "  " + _await("%tp")]
    elif post == "setup_all_launch":
        L.append(f'  %sp = accfg.setup "acc" from {r0} to (' + ", ".join(f'"{f}" = %x : i32' for f in flds) + f') : {ST}')
        L += ["  " + _launch("%tp", "%sp"), "  " + _await("%tp")]
    elif post == "setup_part_launch":
        L.append(f'  %sp = accfg.setup "acc" from {r0} to ("B" = %x : i32) : {ST}')
        L += ["  " + _launch("%tp", "%sp"), "  " + _await("%tp")]
    elif post == "call_launch":
        L.append("  func.call @foo() : () -> ()")
        L.append(f'  %sp = accfg.setup "acc" to ("A" = %x : i32) : {ST}')
        L += ["  " + _launch("%tp", "%sp"), "  " + _await("%tp")]
    elif post == "if_launch":
        L.append("  scf.if %c {")
        L += ["    " + _launch("%tp", r0), "    " + _await("%tp"), "    scf.yield", "  }"]
    text = "func.func @f(" + ", ".join(params) + ") {\n" + "\n".join(L) + "\n  func.return\n}\nfunc.func private @foo() -> ()\n"
    return text, kinds, f"hand:{chain}:{post}"


def gen_source(rng):
    """Returns (module, param kinds, origin)."""
    r = rng.random()
    if r < 0.45:
        text, kinds, origin = hand_loop(rng)
        return accir.parse(text), kinds, origin
    cfg = accir.GenCfg(launch_fields=rng.random() < 0.3, max_items=rng.choice([2, 3, 4]), max_depth=rng.choice([1, 2, 3]),
                       p_for=0.3, p_if=0.15, p_call=0.1, p_pure=0.15)
    text, info = accir.gen_module(rng, cfg)
    mod = accir.parse(text)
    accir.trace_states(mod)
    accir.dedup(mod)
    return mod, [k for (_, _, k) in info["params"]], "gen:dedup"


# ------------------------------------------------------------------------------------------------ recording
def run_overlap_recorded(mod):
    """Apply the real accfg-config-overlap with both pattern classes wrapped. Returns (names, records, before, after)."""
    from snaxc.dialects import accfg
    from snaxc.transforms import accfg_config_overlap as M
    names = accir.Names()
    recs = []
    whole_before = accir.convert_module(mod, names)["f"]

    def wrap(cls, kind):
        orig = cls.match_and_rewrite

        def mr(self, op, rewriter):
            if not isinstance(op, accfg.SetupOp):
                return orig(self, op, rewriter)
            before = accir.convert_module(mod, names)["f"]
            nf = len(names.vals)
            o = names.val(op.out_state)
            had = rewriter.has_done_action
            orig(self, op, rewriter)
            changed = bool(rewriter.has_done_action and not had)
            after = accir.convert_module(mod, names)["f"] if changed else None
            recs.append({"kind": kind, "before": before, "o": o, "nf": nf, "after": after,
                         "has_in": op.in_state is not None if not changed else True})
        cls.match_and_rewrite = mr
        return orig
    o1 = wrap(M.BlockLevelSetupAwaitOverlapPattern, "block")
    o2 = wrap(M.LoopLevelSetupAwaitOverlapPattern, "loop")
    try:
        M.AccfgConfigOverlapPass().apply(accir.xctx(), mod)
    finally:
        M.BlockLevelSetupAwaitOverlapPattern.match_and_rewrite = o1
        M.LoopLevelSetupAwaitOverlapPattern.match_and_rewrite = o2
    mod.verify()
    whole_after = accir.convert_module(mod, names)["f"]
    return names, recs, whole_before, whole_after


class ProgTable:
    """distinct program literals are defined once per cases file"""

    def __init__(self):
        self.idx = {}
        self.defs = []

    def __call__(self, prog) -> str:
        lit = accir.to_coq(prog)
        if lit not in self.idx:
            self.idx[lit] = f"P{len(self.idx)}"
            self.defs.append(f"Definition {self.idx[lit]} : prog := {lit}.")
        return self.idx[lit]


# witnesses of repaired defects (known/C06.json "fixed"): part of every run, so that reverting a fix is seen whatever the seed
# canonical shapes that run first in every check (the remaining choices of hand_loop stay random)
CORPUS_FORCE = [
    dict(chain="add", int_iter=True, feed_k=True, launch_first=False, nested_launch_first="", n_launch=1, post="setup_all_launch"),
    dict(chain="mul_add", int_iter=True, feed_k=True, launch_first=False, nested_launch_first="", n_launch=2, post="launch"),
    dict(chain="shared", int_iter=False, launch_first=False, nested_launch_first="", n_launch=2, post="none"),
    dict(chain="add_rev", int_iter=False, launch_first=False, nested_launch_first="if", n_launch=1, post="setup_all_launch"),
    dict(chain="cast", int_iter=True, feed_k=False, launch_first=True, nested_launch_first="", n_launch=1, post="none"),
    dict(chain="region_if", int_iter=False, launch_first=False, nested_launch_first="", n_launch=2, post="none"),
]

PROBES_FIXED = [
    ("probe_c06_nested_launch_before_setup.mlir", ["val", "val", "lb", "ub", "step", "cond"], "probe:fixed:nested_launch"),
    ("probe_c06_pure_if_captures_later_value.mlir", ["val", "val", "cond"], "probe:fixed:region_op"),
]


def make_cases(ctx, n, hand_only=False):
    rng = ctx.rng
    out = []
    srcs = [(accir.parse(PROBE_F4.replace("@f(", "@f(").replace("func.func @f", "func.func @f")), PROBE_KINDS, "probe:F4")]
    for fname, kinds, origin in PROBES_FIXED:
        srcs.append((accir.parse((vlib.VERIF / "notes" / fname).read_text()), kinds, origin))
    for force in CORPUS_FORCE:
        text, kinds, origin = hand_loop(rng, force)
        srcs.append((accir.parse(text), kinds, "corpus:" + origin))
    tries = 0
    while len(srcs) < n + 1 + len(PROBES_FIXED) + len(CORPUS_FORCE) and tries < 4 * n:
        tries += 1
        try:
            if hand_only:
                text, kinds, origin = hand_loop(rng)
                srcs.append((accir.parse(text), kinds, origin))
            else:
                srcs.append(gen_source(rng))
        except Exception as e:
            ctx.notes.append(f"generator pipeline failed: {type(e).__name__}: {str(e)[:100]}")
    for mod, kinds, origin in srcs:
        text = accir.print_module(mod)
        c = {"origin": origin, "kinds": kinds, "before_text": text}
        try:
            names, recs, wb, wa = run_overlap_recorded(mod)
            c.update(recs=recs, whole_before=wb, whole_after=wa, after_text=accir.print_module(mod))
        except Exception as e:
            c["error"] = f"{type(e).__name__}: {str(e)[:300]}"
        out.append(c)
    return out


def eval_cases(ctx, cases):
    rng = ctx.rng
    texts, index = [], []
    chunk = 6
    good = [i for i, c in enumerate(cases) if "recs" in c]
    for off in range(0, len(good), chunk):
        ids = good[off:off + chunk]
        T = ProgTable()
        l1, l2, sc = [], [], []
        for i in ids:
            c = cases[i]
            ins = [accir.gen_inputs(rng, {"params": [(None, None, k) for k in c["kinds"]]}, st)
                   for st in ("zero", "one", "many", None, None, None)]
            c["inputs"] = ins
            # AccSem records an event for every opaque op, also for side-effect-free ones, so moving a pure opaque
            # op across an await is visible in the shared semantics although it is harmless: L1 only for that shape
            do_l2 = "opaque_pure" not in c["origin"]
            for r_i, r in enumerate(c["recs"]):
                b = T(r["before"])
                a = f"(Some {T(r['after'])})" if r["after"] is not None else "None"
                l1.append(((i, r_i), f"({'true' if r['kind'] == 'loop' else 'false'}, {b}, {r['o']}%nat, {r['nf']}%nat, {a})"))
                if r["after"] is not None and do_l2:
                    for j, args in enumerate(ins):
                        l2.append(((i, r_i, j), f"({'true' if r['kind'] == 'loop' else 'false'}, {b}, {T(r['after'])}, {r['o']}%nat, "
                                                f"{accir.zlist(args)}, {zlit(j % 3 + 1)})"))
                    sc.append(((i, r_i), f"({b}, {T(r['after'])})"))
            # the whole pass
            for j, args in enumerate(ins[:4] if do_l2 else []):
                l2.append(((i, -1, j), f"(false, {T(c['whole_before'])}, {T(c['whole_after'])}, 0%nat, {accir.zlist(args)}, {zlit(j % 3 + 1)})"))
            sc.append(((i, -1), f"({T(c['whole_before'])}, {T(c['whole_after'])})"))
        t = PRELUDE + "\n".join(T.defs) + "\n"
        t += f"Definition l1 : list (bool * prog * nat * nat * option prog) := {coqlist(x for _, x in l1)}.\n"
        t += ("Eval vm_compute in failing (fun c : bool * prog * nat * nat * option prog => match c with (lp, b, o, nf, a) => "
              "oprog_eqb (if lp then loop_overlap b o nf else block_overlap b o) a end) l1.\n")
        t += f"Definition l2 : list (bool * prog * prog * nat * list Z * Z) := {coqlist(x for _, x in l2)}.\n"
        # traces differ at all
        t += ("Eval vm_compute in failing (fun c : bool * prog * prog * nat * list Z * Z => match c with (lp, b, a, o, args, seed) => "
              "trace_sim_b (run (test_oracle seed) b args) (run (test_oracle seed) a args) end) l2.\n")
        # traces differ although the rewrite is a block rewrite or SafeAfterLoop holds
        t += ("Eval vm_compute in failing (fun c : bool * prog * prog * nat * list Z * Z => match c with (lp, b, a, o, args, seed) => "
              "trace_sim_b (run (test_oracle seed) b args) (run (test_oracle seed) a args) "
              "|| (lp && negb (safe_after_loop b o)) end) l2.\n")
        t += f"Definition sc : list (prog * prog) := {coqlist(x for _, x in sc)}.\n"
        t += "Eval vm_compute in failing (fun c : prog * prog => negb (wf_scope (fst c)) || wf_scope (snd c)) sc.\n"
        # block rewrites of the real pass outside the side condition of C06_block_overlap_preserves (statistics)
        t += ("Eval vm_compute in failing (fun c : bool * prog * nat * nat * option prog => match c with (lp, b, o, nf, a) => "
              "lp || match a with None => true | Some _ => block_overlap_side_ok b o end end) l1.\n")
        # loop rewrites of the real pass outside the side conditions of C06_loop_overlap_inside_rule / _preserves
        t += ("Eval vm_compute in failing (fun c : bool * prog * nat * nat * option prog => match c with (lp, b, o, nf, a) => "
              "negb lp || match a with None => true | Some _ => loop_inside_side_ok b o nf end end) l1.\n")
        t += ("Eval vm_compute in failing (fun c : bool * prog * nat * nat * option prog => match c with (lp, b, o, nf, a) => "
              "negb lp || match a with None => true | Some _ => loop_overlap_side_ok b o nf end end) l1.\n")
        texts.append(t)
        index.append(([k for k, _ in l1], [k for k, _ in l2], [k for k, _ in sc]))
    res = {"l1": [], "l2_any": [], "l2_viol": [], "scope": [], "broken": [], "side_fail": [], "loop_in_fail": [], "loop_full_fail": []}
    for (i1, i2, i3), (ok, out) in zip(index, vlib.coq_eval_many("c06", texts, timeout=900, par=8)):
        lists = vlib.parse_all_eval_lists(out)
        if not ok or len(lists) != 7:
            res["broken"].append(out[-1500:])
            continue
        res["l1"] += [i1[k] for k in lists[0]]
        res["l2_any"] += [i2[k] for k in lists[1]]
        res["l2_viol"] += [i2[k] for k in lists[2]]
        res["scope"] += [i3[k] for k in lists[3]]
        res["side_fail"] += [i1[k] for k in lists[4]]
        res["loop_in_fail"] += [i1[k] for k in lists[5]]
        res["loop_full_fail"] += [i1[k] for k in lists[6]]
    return res


_CACHE = {}


def _run(ctx):
    if "r" not in _CACHE:
        cases = make_cases(ctx, ctx.n(42, 1200))
        _CACHE["r"] = (cases, eval_cases(ctx, cases))
    return _CACHE["r"]


def _run_deep(ctx):
    """More programs for the search of a failing input when an obligation broke (hand-threaded family only: it
    carries the shapes the guards and the clone construction depend on)."""
    if "deep" not in _CACHE:
        cases = make_cases(ctx, ctx.n(70, 300), hand_only=True)
        _CACHE["deep"] = (cases, eval_cases(ctx, cases))
    return _CACHE["deep"]


def _view(c, rec=None):
    v = {k: c.get(k) for k in ("origin", "before_text", "after_text", "error") if c.get(k) is not None}
    if rec is not None:
        v["rewrite"] = {"pattern": rec["kind"], "setup_out_id": rec["o"], "nf": rec["nf"], "rewrote": rec["after"] is not None,
                        "before": accir.to_coq(rec["before"]), "after": accir.to_coq(rec["after"]) if rec["after"] else None}
    return v


def correspondence(ctx):
    cases, res = _run(ctx)
    nblock = sum(1 for c in cases for r in c.get("recs", []) if r["kind"] == "block" and r["after"] is not None)
    ctx.extra["block_rewrites"] = nblock
    ctx.extra["block_rewrites_inside_side_condition"] = nblock - len(res["side_fail"])
    nloop = sum(1 for c in cases for r in c.get("recs", []) if r["kind"] == "loop" and r["after"] is not None)
    ctx.extra["loop_rewrites"] = nloop
    ctx.extra["loop_rewrites_inside_loop_inside_side_ok"] = nloop - len(res["loop_in_fail"])
    ctx.extra["loop_rewrites_inside_loop_overlap_side_ok"] = nloop - len(res["loop_full_fail"])
    dis = [{"name": "L1:overlap:cases-file", "detail": b} for b in res["broken"]]
    for c in cases:
        if "error" in c:
            dis.append(dict(name="L1:overlap:pass-crashed", **_view(c)))
            continue
        for r in c["recs"]:
            ctx.count({"L1": "overlap", "pattern": r["kind"], "origin": c["origin"], "rewrote": r["after"] is not None},
                      r["after"] is not None or r["has_in"],
                      f"{r['kind']}{r['o']}{accir.to_coq(r['before'])}",
                      f"{r['kind']}:{'rewrote' if r['after'] is not None else 'bailed'}")
    for (i, r_i) in res["l1"]:
        dis.append(dict(name=f"L1:overlap:{cases[i]['recs'][r_i]['kind']}", **_view(cases[i], cases[i]["recs"][r_i])))
    return dis


def search(ctx, deep=False):
    fails = _search_in(ctx, *_run(ctx))
    if deep and not any(f["klass"] is None for f in fails):
        fails += _search_in(ctx, *_run_deep(ctx))
    # one representative per (what, klass)
    out, seen2 = [], set()
    for f in fails:
        k = (f["what"], f["klass"])
        if k not in seen2:
            seen2.add(k)
            out.append(f)
    return out


def _search_in(ctx, cases, res):
    fails = []
    viol = set(res["l2_viol"])
    seen = set()
    for key in res["l2_any"]:
        i, r_i, j = key
        c = cases[i]
        klass = None if key in viol else "not_SafeAfterLoop"
        if r_i == -1 and klass is None:
            # whole pass: known class iff some recorded loop rewrite of this run is outside SafeAfterLoop
            if any((i, k, jj) in set(res["l2_any"]) - viol for k in range(len(c["recs"])) for jj in range(6)):
                klass = "not_SafeAfterLoop"
        if (i, r_i) in seen:
            continue
        seen.add((i, r_i))
        fails.append({"what": "launch_observes_other_registers" if r_i >= 0 else "whole_pass_trace_differs",
                      "klass": klass, "args": c["inputs"][j], "seed": j % 3 + 1,
                      "case": _view(c, c["recs"][r_i] if r_i >= 0 else None),
                      "whole": None if r_i >= 0 else {"before": accir.to_coq(c["whole_before"]), "after": accir.to_coq(c["whole_after"])}})
    for c in cases:
        if "error" in c:       # the pass crashed on a generated program: that program is the failing input
            fails.append({"what": "pass_crashed", "klass": None, "detail": c["error"], "case": _view(c)})
    for (i, r_i) in res["scope"]:
        c = cases[i]
        fails.append({"what": "use_before_definition", "klass": None, "case": _view(c, c["recs"][r_i] if r_i >= 0 else None)})
    for c in cases:
        if "recs" in c:
            ctx.count({"L2": "overlap", "origin": c["origin"], "rewrites": sum(1 for r in c["recs"] if r["after"] is not None)},
                      any(r["after"] is not None for r in c["recs"]), "L2" + c["before_text"], "L2:" + c["origin"].split(":")[0])
    return fails


def _replay_text(text, kinds, args_list, show=False):
    """Run the real pass on `text`; returns (differs_any, class_is_unsafe, output)."""
    mod = accir.parse(text)
    names, recs, wb, wa = run_overlap_recorded(mod)
    loops = [r for r in recs if r["kind"] == "loop" and r["after"] is not None]
    t = PRELUDE + f"Definition b : prog := {accir.to_coq(wb)}.\nDefinition a : prog := {accir.to_coq(wa)}.\n"
    for args in args_list:
        t += (f"Eval vm_compute in (trace_sim_b (run (test_oracle 1) b {accir.zlist(args)}) (run (test_oracle 1) a {accir.zlist(args)})).\n")
        if show:
            t += f"Eval vm_compute in (map show_event (run (test_oracle 1) b {accir.zlist(args)})).\n"
            t += (f"Eval vm_compute in (map (fun oe => show_against (fst oe) (snd oe)) (combine (run (test_oracle 1) b {accir.zlist(args)}) "
                  f"(run (test_oracle 1) a {accir.zlist(args)}))).\n")
    for r in loops:
        t += f"Eval vm_compute in (safe_after_loop {accir.to_coq(r['before'])} {r['o']}%nat).\n"
    ok, out = vlib.coq_eval("c06replay", t)
    import re
    bools = re.findall(r"=\s*(true|false)\s*:\s*bool", out)
    sims = bools[:len(args_list)]
    safes = bools[len(args_list):]
    return (not ok) or ("false" in sims), ("false" in safes), out, accir.print_module(mod)


def replay_known(ctx, entry):
    w = entry["witness"]
    differs, unsafe, _, _ = _replay_text(w["mlir"], w["kinds"], w["args"])
    return differs and unsafe


def replay(ctx, obj):
    f = obj.get("failure")
    if not f:
        print("no failing input recorded; broken obligations:")
        for b in obj.get("no_longer_checks", []):
            print("  ", b.get("kind"), b.get("name"), str(b.get("detail"))[:1500])
        return 1
    case = f["case"]
    print("--- program before accfg-config-overlap\n" + case["before_text"])
    args = f.get("args")
    differs, unsafe, out, after = _replay_text(case["before_text"], None, [args] if args else [], show=True)
    print("--- after\n" + after)
    print("--- sim / original trace / optimised trace shown on the original's known fields / SafeAfterLoop per loop rewrite\n" + out[-4000:])
    return 1 if differs or f.get("what") == "use_before_definition" else 0
