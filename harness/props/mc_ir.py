"""Shared helpers of the multi-core properties C13 / C14 / C15 (trusted, structural).

* an AccContext with every dialect and accelerator (incl. snax_xdma, which snaxc_main registers
  from the hardware configuration)
* MLIR text snippets for the generators
* the *specification* classifier of operations (what the property calls a data-movement /
  compute operation), independent of snaxc/util/dispatching_rules.py
"""
from __future__ import annotations

_CTX = None


def xctx():
    global _CTX
    if _CTX is None:
        from snaxc.tools.snax_opt_main import SNAXOptMain
        from snaxc.accelerators.snax_xdma import SNAXXDMAAccelerator
        import vlib
        some = str(vlib.REPO / "tests/filecheck/transforms/dispatch_regions.mlir")
        _CTX = SNAXOptMain(args=[some]).ctx
        try:
            _CTX.register_accelerator("snax_xdma", lambda: SNAXXDMAAccelerator())
        except ValueError:
            pass
    return _CTX


def parse(text: str):
    from xdsl.parser import Parser
    return Parser(xctx(), text).parse_module()


def rule_kind(op) -> str:
    """what the repo's dispatching rules say (may raise when they say both)"""
    from snaxc.util.dispatching_rules import dispatch_to_compute, dispatch_to_dm
    d, c = bool(dispatch_to_dm(op, xctx())), bool(dispatch_to_compute(op, xctx()))
    if d and c:
        return "BOTH"
    return "KDM" if d else ("KCompute" if c else "KOther")


XDMA_KERNELS = {("add", "i32")}  # kernels (by generator name) an xDMA extension provides


def spec_kind(op) -> str:
    """the property's own notion: copies and xDMA-extension streaming regions are data movement,
    linalg.generic and every other streaming region are accelerator/compute work"""
    n = op.name
    if n == "memref.copy":
        return "KDM"
    if n == "linalg.generic":
        return "KCompute"
    if n in ("dart.operation", "dart.schedule", "dart.access_pattern", "snax_stream.streaming_region"):
        acc = op.accelerator.data if getattr(op, "accelerator", None) is not None else None
        if acc == "snax_xdma":
            gen = op.body.block.first_op
            kern = gen.body.block.first_op if gen is not None and gen.name == "dart.generic" else None
            if kern is not None and kern.name.startswith("kernel."):
                key = (kern.name.split(".")[1], str(kern.operands[0].type))
                if key in XDMA_KERNELS:
                    return "KDM"
        return "KCompute"
    return "KOther"


# ------------------------------------------------------------------ text snippets
MAP1 = "affine_map<(d0) -> (d0)>"


def t_copy(a, b, ty="memref<64xi32>"):
    return f'"memref.copy"({a}, {b}) : ({ty}, {ty}) -> ()'


def t_generic(ins, outs, uid, ty="memref<64xi32>", el="i32"):
    """linalg.generic ins(...) outs(...) with an elementwise body (reads ins and outs, writes outs)"""
    n = len(ins) + len(outs)
    maps = ", ".join([MAP1] * n)
    args = ", ".join(f"%g{uid}_{i} : {el}" for i in range(n))
    itys = ", ".join([ty] * len(ins))
    otys = ", ".join([ty] * len(outs))
    ins_s = f"ins({', '.join(ins)} : {itys}) " if ins else ""
    return (f'linalg.generic {{indexing_maps = [{maps}], iterator_types = ["parallel"]}} '
            f'{ins_s}outs({", ".join(outs)} : {otys}) {{\n'
            f'^bb0({args}):\n  linalg.yield %g{uid}_0 : {el}\n}}')


def t_stream(acc, kern, a, b, c, uid, el="i32", n=64):
    ty = f"memref<{n}x{el}>"
    st = f"!dart.stream<{el}>"
    return (f'"dart.operation"({a}, {b}, {c}) <{{patterns = [{MAP1}, {MAP1}, {MAP1}], accelerator = "{acc}", '
            f'operandSegmentSizes = array<i32: 2, 1>}}> ({{\n'
            f'^bb0(%s{uid}_0 : {st}, %s{uid}_1 : {st}, %s{uid}_2 : {st}):\n'
            f'  %s{uid}_3 = "dart.generic"(%s{uid}_0, %s{uid}_1) <{{library_call = "{acc}"}}> ({{\n'
            f'  ^bb1(%s{uid}_x : {el}, %s{uid}_y : {el}, %s{uid}_z : {el}):\n'
            f'    %s{uid}_4 = kernel.{kern} %s{uid}_x, %s{uid}_y : {el}, {el} -> {el}\n'
            f'    dart.yield %s{uid}_4 : {el}\n'
            f'  }}) : ({st}, {st}) -> {st}\n'
            f'  dart.yield %s{uid}_3 : {st}\n'
            f'}}) : ({ty}, {ty}, {ty}) -> ()')


def has_inner_ops(op) -> bool:
    return any(True for r in op.regions for b in r.blocks for _ in b.ops)
