"""C15 — pipelined double-buffered loops equal the sequential loop.

(H) hand model coq/Model/C15Pipeline.v of construct-pipeline / pipeline-duplicate-buffers /
unroll-pipeline.
L1: generated loops (of the recognised shape, and loops with a stray op between / behind the stages, which the
    passes must leave unchanged) are run through the three real passes; the result is
    interpreted (index arithmetic evaluated, memrefs resolved to (allocation, offset)) into
    barrier-separated phases of op instances with read/write footprints and compared, exactly, with
    the phases the model computes (phase structure, evaluated index expressions, parity-selected
    copies, set of duplicated buffers / NotImplementedError), for trip counts 0..6.
L2: on the real output only: every phase is free of cross-core conflicts (so by drf_phase every
    interleaving gives the same memory), the final contents of all observable buffers equal those of
    the interpreted original loop (free-algebra values), and no tile outside the original footprint
    is touched; failures are classified by the Coq predicates small_trip / safe_pipe.
"""
from __future__ import annotations

import vlib
from vlib import boollit, coqlist, zlit
from props import mc_ir

PROPERTY = "C15"
MODEL_TARGETS = ["Model/C15Pipeline.vo"]
RULE = ("loops `scf.for lb to %ub step st` (lb in {0,1,2}, st in {1,2,3}, mostly 0/1) with 2-4 barrier-separated "
        "stages of memref.copy / linalg.generic (accumulating or not) over function-argument buffers accessed "
        "through index-dependent subviews (tiles) and loop-invariant allocs chained stage to stage; an adversarial "
        "stream adds shared writes, non-adjacent uses, accumulating producers, tile/whole-buffer aliasing, several "
        "ops per stage; a malformed stream puts an op that is neither a stage op nor a barrier behind a barrier or inside a "
        "stage (not the recognised shape: the passes must leave the loop alone), some loops are followed by a copy "
        "into a tile at offset %lb (second user of the lower-bound constant); a fixed corpus of loop descriptions runs "
        "first; every loop is evaluated for ub = 0..6. Non-trivial = pipeline constructed; distinct = "
        "distinct (loop description, ub)")
TRUSTED_BASE = [
    "Coq 8.16.1 kernel + vm_compute (no native_compute)",
    "hand model coq/Model/C15Pipeline.v, tied by L1",
    "harness/props/c15.py: loop generator, interpreter of the real IR (arith on index, memref.subview/alloc/select, scf.for) "
    "into footprint events, footprint convention (copy reads src writes dst; linalg.generic reads ins, and outs iff the body uses them, writes outs); "
    "mc_ir.py; xdsl_compat shim; xDSL 0.70",
]
ASSUMPTIONS = [
    "memref.copy runs on the DM core, linalg.generic on the compute core, cluster barriers separate phases (what C13/C14 establish)",
    "operations are interpreted in the free algebra over buffer contents (equality there implies equality for every concrete kernel)",
    "tiles of one buffer at different offsets are distinct buffers (offsets are multiples of the tile size)",
]

NBUF_ARGS = 4  # %x0..%x2 : memref<64xi32>, %x3 : memref<8xi32> function arguments (ids 0..3); allocs get ids 10..
TILE = 8


class Unsupported(Exception):
    pass


# ------------------------------------------------------------------ loop descriptions
# operand: ("F", b) | ("T", b, stride)    op: dict(vid, kind, ins, outs, acc)

def gen_loop(rng, adversarial=False):
    """a loop description; an op never names the same buffer twice (linalg.generic would alias in and out),
    a stage may (two ops of one stage reading the same buffer)"""
    while True:
        d = _gen_loop(rng, adversarial)
        ok = True
        for st in d["stages"]:
            for o in st:
                opnds = o["ins"] + o["outs"]
                if len(opnds) != len(set(opnds)):
                    ok = False
                # memref.copy needs equal shapes: no whole 64-element argument (%x0..%x2) on a copy (the second op of
                # a stage may pick the extra whole-buffer input of the first one as its source)
                if o["kind"] == "copy" and any(x[0] == "F" and x[1] < 3 for x in opnds):
                    ok = False
        if ok:
            return d


def _gen_loop(rng, adversarial=False):
    S = rng.choice([2, 3, 3, 3, 4])
    nalloc = S + 1
    allocs = list(range(10, 10 + nalloc))
    stages = []
    vid = 0
    stride = rng.choice([TILE, TILE, 2 * TILE])
    prev = None
    for k in range(S):
        ops = []
        nops = 1 if rng.random() < 0.75 else 2
        for j in range(nops):
            vid += 1
            if j == 0:
                src = ("T", 0, stride) if k == 0 else ("F", prev)
                dst = ("T", 1, stride) if k == S - 1 else ("F", allocs[k])
            else:  # a second, independent op of the stage on its own private buffers
                src = ("T", 2, stride) if rng.random() < 0.6 else rng.choice(ops[0]["ins"])
                dst = ("F", allocs[S])
                if any(o["outs"] == [dst] for st in stages for o in st) or rng.random() < 0.5:
                    src, dst = ("F", allocs[S]), ("T", 2, stride)
                    if any(("F", allocs[S]) in o["outs"] + o["ins"] for st in stages for o in st):
                        continue
            kind = rng.choice(["copy", "generic", "generic"])
            acc = False
            ins, outs = [src], [dst]
            if kind == "generic":
                if rng.random() < 0.3:
                    extra = ("T", 2, stride) if rng.random() < 0.5 else ("F", 2)
                    if extra not in ins + outs:
                        ins = ins + [extra]
                if k == S - 1 and rng.random() < 0.3:
                    acc = True  # accumulate into the output tile: safe
            ops.append({"vid": vid, "kind": kind, "ins": ins, "outs": outs, "acc": acc})
        if not ops:
            continue
        stages.append(ops)
        prev = allocs[k]
    if adversarial:
        mutate_adversarial(rng, stages, allocs, stride)
    lb, st = 0, 1
    r = rng.random()
    if r < 0.12:
        lb = rng.choice([1, 2])
    elif r < 0.24:
        st = rng.choice([2, 3])
    d = {"stages": stages, "allocs": allocs, "lb": lb, "st": st}
    # malformed / edge stream: an op that is neither a stage op nor a barrier (an arith.constant) directly behind the
    # barrier of stage k ("after"; k = S-1: between the last barrier and the yield) or between the last op of stage k
    # and its barrier ("in"): not the recognised shape
    if rng.random() < 0.15:
        d["stray"] = [rng.choice(["after", "after", "in"]), rng.randrange(len(stages))]
    # a second user of the lower-bound constant behind the loop (one shared %c0 is the normal situation after CSE)
    if rng.random() < 0.3:
        d["post"] = True
    return d


def mutate_adversarial(rng, stages, allocs, stride):
    S = len(stages)
    m = rng.choice(["acc_producer", "ww", "nonadjacent", "skip", "skip", "alias", "consumer_writes", "two_readers", "arg_buffer", "stride0"])
    gens = [(k, o) for k, st in enumerate(stages) for o in st if o["kind"] == "generic"]
    if m == "acc_producer" and gens:
        k, o = rng.choice(gens)
        o["acc"] = True
    elif m == "ww" and S >= 3:
        b = ("F", allocs[-1])
        for k in (0, S - 1):
            o = stages[k][0]
            if o["kind"] == "generic":
                o["outs"] = o["outs"] + [b]
            else:
                stages[k].append({"vid": 90 + k, "kind": "copy", "ins": [("F", 3)], "outs": [b], "acc": False})
    elif m == "nonadjacent" and S >= 3:
        stages[S - 1].append({"vid": 95, "kind": "generic", "ins": [stages[0][0]["outs"][0]], "outs": [("T", 2, stride)], "acc": False})
    elif m == "skip" and S >= 3:
        # the buffer produced by stage 0 is consumed by stage 2 only
        b = stages[0][0]["outs"][0]
        if b[0] == "F" and stages[1][0]["ins"][0] == b:
            if stages[1][0]["kind"] == "copy":
                stages[1][0]["ins"][0] = ("F", 3)  # a tile-sized argument buffer (memref.copy needs equal shapes)
            else:
                stages[1][0]["ins"][0] = ("T", 2, stride) if ("T", 2, stride) not in [x for o in stages[1] for x in o["ins"] + o["outs"]] else ("F", 2)
            tgt = stages[2][0]
            if b not in tgt["ins"] + tgt["outs"] and tgt["kind"] == "generic":
                tgt["ins"] = tgt["ins"] + [b]
            elif b not in [x for o in stages[2] for x in o["ins"] + o["outs"]]:
                stages[2].append({"vid": 94, "kind": "generic", "ins": [b], "outs": [("F", allocs[-1])], "acc": False})
    elif m == "alias":
        stages[S - 1].append({"vid": 96, "kind": "generic", "ins": [("F", 0)], "outs": [("T", 2, stride)], "acc": False})
        stages[0].append({"vid": 97, "kind": "copy", "ins": [("T", 2, stride)], "outs": [("T", 0, stride)], "acc": False})
    elif m == "consumer_writes" and S >= 2:
        b = stages[0][0]["outs"][0]
        if b[0] == "F":
            stages[1].append({"vid": 98, "kind": "copy", "ins": [("F", 3)], "outs": [b], "acc": False})
    elif m == "two_readers" and S >= 2:
        b = stages[0][0]["outs"][0]
        if b[0] == "F":
            stages[1].append({"vid": 99, "kind": "generic", "ins": [b], "outs": [("T", 2, stride)], "acc": False})
    elif m == "arg_buffer" and S >= 2:
        old = stages[0][0]["outs"][0]
        for st in stages:
            for o in st:
                o["ins"] = [("F", 3) if x == old else x for x in o["ins"]]
                o["outs"] = [("F", 3) if x == old else x for x in o["outs"]]
    elif m == "stride0":
        for st in stages:
            for o in st:
                o["ins"] = [("T", x[1], 0) if x[0] == "T" and x[1] == 1 else x for x in o["ins"]]
                o["outs"] = [("T", x[1], 0) if x[0] == "T" and x[1] == 1 else x for x in o["outs"]]


def loop_text(d):
    """MLIR text of the loop description."""
    L = ["func.func @f(%x0 : memref<64xi32>, %x1 : memref<64xi32>, %x2 : memref<64xi32>, %x3 : memref<8xi32>, %ub : index) {",
         f"  %lb = arith.constant {d['lb']} : index", f"  %step = arith.constant {d['st']} : index"]
    strides = sorted({x[2] for st in d["stages"] for o in st for x in o["ins"] + o["outs"] if x[0] == "T"})
    for s in strides:
        L.append(f"  %cs{s} = arith.constant {s} : index")
    for b in d["allocs"]:
        L.append(f"  %b{b} = memref.alloc() : memref<{TILE}xi32>")
    L.append("  scf.for %i = %lb to %ub step %step {")
    tiles = sorted({(x[1], x[2]) for st in d["stages"] for o in st for x in o["ins"] + o["outs"] if x[0] == "T"})
    for s in strides:
        L.append(f"    %o{s} = arith.muli %i, %cs{s} : index")
    sty = f"memref<{TILE}xi32, strided<[1], offset: ?>>"
    for (b, s) in tiles:
        L.append(f"    %t{b}_{s} = memref.subview %x{b}[%o{s}][{TILE}][1] : memref<64xi32> to {sty}")

    def name(x):
        if x[0] == "T":
            return f"%t{x[1]}_{x[2]}", sty
        if x[1] < NBUF_ARGS:
            return f"%x{x[1]}", ("memref<64xi32>" if x[1] < 3 else f"memref<{TILE}xi32>")
        return f"%b{x[1]}", f"memref<{TILE}xi32>"

    stray = d.get("stray")
    for k, st in enumerate(d["stages"]):
        for o in st:
            if o["kind"] == "copy":
                (a, ta), (b, tb) = name(o["ins"][0]), name(o["outs"][0])
                L.append(f'    "memref.copy"({a}, {b}) {{vid = {o["vid"]} : i64}} : ({ta}, {tb}) -> ()')
            else:
                ins = [name(x) for x in o["ins"]]
                outs = [name(x) for x in o["outs"]]
                n = len(ins) + len(outs)
                maps = ", ".join(["affine_map<(d0) -> (d0)>"] * n)
                args = ", ".join(f"%g{o['vid']}_{i} : i32" for i in range(n))
                yv = f"%g{o['vid']}_0"
                body = ""
                if o["acc"]:
                    body = f"      %g{o['vid']}_s = arith.addi %g{o['vid']}_0, %g{o['vid']}_{len(ins)} : i32\n"
                    yv = f"%g{o['vid']}_s"
                ys = ", ".join([yv] * len(outs))
                yts = ", ".join(["i32"] * len(outs))
                L.append(f'    linalg.generic {{indexing_maps = [{maps}], iterator_types = ["parallel"]}} '
                         f'ins({", ".join(a for a, _ in ins)} : {", ".join(t for _, t in ins)}) '
                         f'outs({", ".join(a for a, _ in outs)} : {", ".join(t for _, t in outs)}) attrs = {{vid = {o["vid"]} : i64}} {{\n'
                         f'    ^bb0({args}):\n{body}      linalg.yield {ys} : {yts}\n    }}')
        if stray and stray[0] == "in" and stray[1] == k:
            L.append("    %stray = arith.constant 7 : index")
        L.append('    "snax.cluster_sync_op"() : () -> ()')
        if stray and stray[0] == "after" and stray[1] == k:
            L.append("    %stray = arith.constant 7 : index")
    L.append("  }")
    if d.get("post"):
        L.append(f"  %tpost = memref.subview %x2[%lb][{TILE}][1] : memref<64xi32> to {sty}")
        L.append(f'  "memref.copy"(%x3, %tpost) {{vid = {POST_VID} : i64}} : (memref<{TILE}xi32>, {sty}) -> ()')
    L += ["  func.return", "}"]
    return "\n".join(L)


POST_VID = 200


def post_events(d):
    """the phase behind the loop (every loop ends with a barrier): the copy %x3 -> tile of %x2 at offset lb"""
    return [[(POST_VID, 1, [bid(3, 0)], [bid(2, d["lb"])])]] if d.get("post") else []


STAGE_OPS = ("memref.copy", "linalg.generic", "dart.operation", "dart.schedule", "dart.access_pattern", "snax_stream.streaming_region")


def body_tokens(fop):
    """the loop body as ConstructPipeline scans it (read off the parsed IR, before the passes): the ops behind the
    leading index ops up to the scf.yield, as TStage / TSync / TOther"""
    loops = [op for op in fop.walk() if op.name == "scf.for"]
    if len(loops) != 1:
        raise Unsupported("expected exactly one loop")
    toks = []
    for op in loops[0].body.block.ops:
        if op.name == "scf.yield":
            break
        toks.append("TStage" if op.name in STAGE_OPS else "TSync" if op.name == "snax.cluster_sync_op" else "TOther")
    while toks and toks[0] == "TOther":
        toks.pop(0)
    return toks


# ------------------------------------------------------------------ interpreter of the real IR
def bid(b, off):
    return off * 4096 + b  # same encoding as Model/C15Pipeline.v bid


class Interp:
    """Evaluates a function: returns the list of phases; a phase is a list of
    (vid, core, reads, writes) with footprints as encoded buffer ids."""

    def __init__(self, fop, alloc_ids, ub):
        self.env = {}
        self.alloc_ids = alloc_ids
        self.phases = [[]]
        blk = fop.body.blocks[0]
        for i, a in enumerate(blk.args):
            self.env[a] = ("buf", i, 0) if i < NBUF_ARGS else ub
        self.run_block(blk)

    def val(self, v):
        return self.env[v]

    def run_block(self, blk):
        for op in blk.ops:
            self.step(op)

    def step(self, op):
        n = op.name
        e = self.env
        if n == "arith.constant":
            e[op.results[0]] = op.value.value.data
        elif n in ("arith.addi", "arith.subi", "arith.muli", "arith.remui", "arith.divui"):
            a, b = self.val(op.operands[0]), self.val(op.operands[1])
            if n == "arith.addi":
                r = a + b
            elif n == "arith.subi":
                r = a - b
            elif n == "arith.muli":
                r = a * b
            elif n == "arith.remui":
                r = (a % (1 << 64)) % b
            else:
                r = (a % (1 << 64)) // b
            e[op.results[0]] = r
        elif n == "arith.cmpi":
            a, b = self.val(op.operands[0]), self.val(op.operands[1])
            p = op.predicate.value.data
            e[op.results[0]] = {0: a == b, 1: a != b, 2: a < b, 3: a <= b, 4: a > b, 5: a >= b}[p]
        elif n == "arith.select":
            c = self.val(op.operands[0])
            e[op.results[0]] = self.val(op.operands[1] if c else op.operands[2])
        elif n == "memref.alloc":
            e[op.results[0]] = ("buf", self.alloc_ids[id(op)], 0)
        elif n == "memref.subview":
            base = self.val(op.source)
            offs = [self.val(o) for o in op.offsets]
            st = [x for x in op.static_offsets.get_values()]
            off = offs[0] if offs else st[0]
            e[op.results[0]] = ("buf", base[1], base[2] + off)
        elif n == "scf.for":
            lb, ub, st = self.val(op.lb), self.val(op.ub), self.val(op.step)
            if st <= 0:
                raise Unsupported("step <= 0")
            i = lb
            while i < ub:
                e[op.body.block.args[0]] = i
                self.run_block(op.body.block)
                i += st
        elif n in ("scf.yield", "func.return"):
            pass
        elif n == "snax.cluster_sync_op":
            self.phases.append([])
        elif n == "memref.copy":
            s, d = self.val(op.source), self.val(op.destination)
            self.phases[-1].append((op.attributes["vid"].value.data, 1, [bid(s[1], s[2])], [bid(d[1], d[2])]))
        elif n == "linalg.generic":
            ins = [self.val(x) for x in op.inputs]
            outs = [self.val(x) for x in op.outputs]
            nin = len(ins)
            acc = any(list(a.uses) for a in op.body.block.args[nin:])
            reads = [bid(x[1], x[2]) for x in ins] + ([bid(x[1], x[2]) for x in outs] if acc else [])
            self.phases[-1].append((op.attributes["vid"].value.data, 0, reads, [bid(x[1], x[2]) for x in outs]))
        else:
            raise Unsupported(f"interpreter: {n}")

    def result(self):
        ph = self.phases
        if ph and not ph[-1]:
            ph = ph[:-1]
        return ph


def find_func(mod):
    for op in mod.walk():
        if op.name == "func.func" and op.sym_name.data == "f":
            return op
    raise Unsupported("no function")


def alloc_ids_of(fop, d):
    ids = {}
    allocs = [op for op in fop.walk() if op.name == "memref.alloc"]
    for op, b in zip(allocs, d["allocs"]):
        ids[id(op)] = b
    return ids, allocs


def real_pipeline(d):
    """run the three real passes; returns (module, alloc id map, status) status in ok|notimpl"""
    from snaxc.transforms.pipeline.construct_pipeline import ConstructPipelinePass
    from snaxc.transforms.pipeline.pipeline_duplicate_buffers import PipelineDuplicateBuffersPass
    from snaxc.transforms.pipeline.unroll_pipeline import UnrollPipelinePass
    c = mc_ir.xctx()
    mod = mc_ir.parse(loop_text(d))
    fop = find_func(mod)
    ids, keep = alloc_ids_of(fop, d)
    toks = body_tokens(fop)
    ConstructPipelinePass().apply(c, mod)
    constructed = any(op.name == "pipeline.pipeline" for op in mod.walk())
    try:
        PipelineDuplicateBuffersPass().apply(c, mod)
    except NotImplementedError:
        return mod, ids, "notimpl", constructed, [], toks
    UnrollPipelinePass().apply(c, mod)
    mod.verify()
    dups = []
    for op in find_func(mod).walk():
        if op.name == "memref.alloc" and id(op) not in ids:
            prev = op.prev_op
            if prev is None or id(prev) not in ids or prev.name != "memref.alloc":
                raise Unsupported("cannot attribute a new alloc to the buffer it duplicates")
            ids[id(op)] = ids[id(prev)] + 1000
            dups.append(ids[id(prev)])
    return (mod, keep), ids, "ok", constructed, sorted(dups), toks


def real_sequential(d, ub):
    mod = mc_ir.parse(loop_text(d))
    fop = find_func(mod)
    ids, _ = alloc_ids_of(fop, d)
    return Interp(fop, ids, ub).result()


# ------------------------------------------------------------------ Coq literals
def coq_operand(x):
    return f"Fixed {zlit(x[1])}" if x[0] == "F" else f"Tile {zlit(x[1])} {zlit(x[2])}"


def coq_sop(o):
    core = 1 if o["kind"] == "copy" else 0
    return (f"mkSop {zlit(o['vid'])} {zlit(core)} {coqlist(coq_operand(x) for x in o['ins'])} "
            f"{coqlist(coq_operand(x) for x in o['outs'])} {boollit(o['acc'])}")


def coq_pipe(d):
    return "(mkPipe " + coqlist(coqlist(coq_sop(o) for o in st) for st in d["stages"]) + " " + vlib.zlist(d["allocs"]) + ")"


def coq_ev(e):
    return f"mkOp [{zlit(e[0])}] {zlit(e[1])} {vlib.zlist(e[2])} {vlib.zlist(e[3])}"


def coq_phases(phs):
    return coqlist(coqlist(coq_ev(e) for e in ph) for ph in phs)


HEADER = "From Snax Require Import Base.Prelude Model.MultiCore Model.C15Pipeline.\n"
UBS = [0, 1, 2, 3, 4, 5, 6]

# model's prediction of what the three passes produce, compared per ub
L1_DEFS = """
Definition model_out (p : pipe) (lb st : Z) (body : list btok) (ub : Z) : option (list (list mop)) :=
  if recognised p lb st body then
    match dups p with
    | None => None
    | Some ds => Some (pipe_events p ds ub st)
    end
  else Some (seq_events p lb ub st).
(* post: the phase behind the loop (a copy into a tile at offset lb), the same before and after the passes *)
Definition l1_ok (c : pipe * Z * Z * list btok * list (list mop) * option (list Z) * list (Z * list (list mop) * list (list mop))) : bool :=
  match c with (p, lb, st, body, post, rd, runs) =>
    match rd with
    | None => match (if recognised p lb st body then dups p else Some []) with None => true | Some _ => false end
    | Some ds =>
        match (if recognised p lb st body then dups p else Some []) with
        | Some ds' => list_eqb Z.eqb ds ds' &&
            forallb (fun r => match r with (ub, sq, pp) =>
               phases_eqb (seq_events p lb ub st ++ post) sq &&
               match model_out p lb st body ub with Some m => phases_eqb (m ++ post) pp | None => false end end) runs
        | None => false
        end
    end
  end.
"""


def build_case(d):
    """returns (coq literal of the L1/L2 case, info) ; runs the real passes and the interpreter"""
    res = real_pipeline(d)
    modk, ids, status, constructed, dups, toks = res
    head = f"{coq_pipe(d)}, {zlit(d['lb'])}, {zlit(d['st'])}, {coqlist(toks)}, {coq_phases(post_events(d))}"
    if status == "notimpl":
        return f"({head}, None, [])", {"status": status, "constructed": constructed}, []
    mod, keep = modk
    runs = []
    raw = []
    for ub in UBS:
        sq = real_sequential(d, ub)
        pp = Interp(find_func(mod), ids, ub).result()
        runs.append(f"({zlit(ub)}, {coq_phases(sq)}, {coq_phases(pp)})")
        raw.append((ub, sq, pp))
    lit = f"({head}, Some {vlib.zlist(dups)}, {coqlist(runs)})"
    return lit, {"status": status, "constructed": constructed, "dups": dups}, raw


CASE_TY = "pipe * Z * Z * list btok * list (list mop) * option (list Z) * list (Z * list (list mop) * list (list mop))"
SH = 12


def _chain(S, **extra):
    """load / (compute)* / store chain over allocs 10.., one op per stage"""
    st = []
    for k in range(S):
        src = ("T", 0, TILE) if k == 0 else ("F", 9 + k)
        dst = ("T", 1, TILE) if k == S - 1 else ("F", 10 + k)
        st.append([{"vid": k + 1, "kind": "copy" if k in (0, S - 1) else "generic", "ins": [src], "outs": [dst], "acc": False}])
    return {"stages": st, "allocs": list(range(10, 11 + S)), "lb": 0, "st": 1, **extra}


def _skip_loop():
    """the buffer written by stage 0 is read by stage 2 only (not adjacent: the pass must refuse)"""
    d = _chain(3)
    d["stages"][1][0]["ins"] = [("F", 3)]
    d["stages"][1][0]["kind"] = "copy"
    d["stages"][2][0] = {"vid": 3, "kind": "generic", "ins": [("F", 11), ("F", 10)], "outs": [("T", 1, TILE)], "acc": False}
    return d


# minimised members of classes that were missed or found late once; they run first in L1 and L2
CORPUS = [
    _chain(3, stray=["after", 1]),      # op behind the barrier of the 2nd of 3 stages: not the recognised shape
    _chain(2, stray=["after", 1]),      # op between the last barrier and the yield
    _chain(3, stray=["in", 2]),         # op between the last stage op and its barrier
    _chain(3, stray=["after", 0]),
    _chain(3, post=True),               # the lower-bound constant has a second user behind the loop
    _chain(2, post=True),
    _chain(4),
    _skip_loop(),
]


def correspondence(ctx):
    rng = ctx.rng
    n = ctx.n(45, 300)
    dis, cases, meta = [], [], []
    for i in range(-len(CORPUS), n):
        d = _norm_loop(CORPUS[i + len(CORPUS)]) if i < 0 else gen_loop(rng, adversarial=(i % 3 == 2))
        try:
            lit, info, _ = build_case(d)
        except Unsupported as e:
            dis.append({"name": "L1:convert", "detail": str(e), "loop": d})
            continue
        except Exception as e:
            dis.append({"name": "L1:pass-crash", "detail": repr(e)[:300], "loop": d})
            continue
        cases.append(lit)
        meta.append(d)
        for ub in (UBS if info["status"] == "ok" else [None]):
            ctx.count({"loop": d, "ub": ub, **info}, info.get("constructed", False), f"{d}{ub}",
                      f"S={len(d['stages'])},{info['status']}")
    shards = [cases[i:i + SH] for i in range(0, len(cases), SH)]
    texts = [HEADER + L1_DEFS + f"Definition cs : list ({CASE_TY}) := {coqlist(sh)}.\nEval vm_compute in failing l1_ok cs.\n"
             for sh in shards]
    res = vlib.coq_eval_many("c15l1_", texts, timeout=600)
    for si, (ok, out) in enumerate(res):
        lists = vlib.parse_all_eval_lists(out)
        if not ok or len(lists) != 1:
            dis.append({"name": "L1:cases-file", "detail": out[-1500:]})
            continue
        for idx in lists[0]:
            dis.append({"name": "L1:pipeline-phases", "loop": meta[si * SH + idx], "text": loop_text(meta[si * SH + idx])})
    return dis


# ------------------------------------------------------------------ L2
L2_DEFS = """
Definition obs_of (sq : list (list mop)) : list Z := footprint sq.
(* 0 = fine; otherwise bit 1: a phase has a cross-core conflict, bit 2: observable result differs,
   bit 4: touches a buffer outside the original footprint *)
Definition l2_code (p : pipe) (ds : list Z) (sq pp : list (list mop)) : Z :=
  let allowed := footprint sq ++ flat_map (fun b => [bid b 0; bid (b + DUPOFF) 0]) (ds ++ p_allocs p) in
  let locals := flat_map (fun b => [bid b 0; bid (b + DUPOFF) 0]) (p_allocs p) in
  let obs := filter (fun x => negb (memb x locals)) (footprint sq ++ footprint pp) in
  (if all_drf pp then 0 else 1) + (if same_result obs sq pp then 0 else 2) + (if within allowed pp then 0 else 4).
(* class of the input: 1 = small_trip, 2 = not safe_pipe, 0 = inside the proved domain *)
Definition l2_class (p : pipe) (ds : list Z) (lb st : Z) (body : list btok) (ub : Z) : Z :=
  match (if recognised p lb st body then dups p else Some []) with
  | Some ds' => if negb (list_eqb Z.eqb ds ds') then 0   (* the pass duplicated something else than it should: no excuse *)
                else if small_trip (nstages p) lb ub st then 1 else if safe_pipe p ds then 0 else 2
  | None => 0                                            (* the pass should have refused this loop *)
  end.
Definition l2_eval (c : pipe * Z * Z * list btok * list (list mop) * option (list Z) * list (Z * list (list mop) * list (list mop))) : list Z :=
  match c with (p, lb, st, body, post, rd, runs) =>
    match rd with
    | None => []
    | Some ds => flat_map (fun r => match r with (ub, sq, pp) => [l2_code p ds sq pp; l2_class p ds lb st body ub] end) runs
    end
  end.
"""
KLASS = {0: None, 1: "small_trip", 2: "unsafe_sharing"}
WHAT = {1: "two cores conflict inside one phase", 2: "final buffer contents differ from the sequential loop", 4: "a tile outside the original iteration range is touched"}


def run_l2(ctx, loops):
    fails, cases, meta = [], [], []
    for d in loops:
        try:
            lit, info, raw = build_case(d)
        except Unsupported as e:
            fails.append({"what": "convert", "detail": str(e), "loop": d, "klass": None})
            continue
        except Exception as e:
            fails.append({"what": "pass crash / invalid IR", "detail": repr(e)[:300], "loop": d, "klass": None})
            continue
        if info["status"] != "ok":
            continue
        cases.append(lit)
        meta.append(d)
    shards = [cases[i:i + SH] for i in range(0, len(cases), SH)]
    texts = [HEADER + L2_DEFS + f"Definition cs : list ({CASE_TY}) := {coqlist(sh)}.\nEval vm_compute in map l2_eval cs.\n"
             for sh in shards]
    res = vlib.coq_eval_many("c15l2_", texts, timeout=600)
    import re
    for si, (ok, out) in enumerate(res):
        m = re.search(r"=\s*(\[.*\])\s*:\s*list \(list Z\)", out, re.S)
        if not ok or not m:
            fails.append({"what": "L2 cases file", "detail": out[-1500:], "klass": None})
            continue
        rows = [[int(x) for x in re.findall(r"-?\d+", row)] for row in re.findall(r"\[([^\[\]]*)\]", m.group(1))]
        for ci, row in enumerate(rows):
            d = meta[si * SH + ci]
            for ui in range(len(row) // 2):
                code, cls = row[2 * ui], row[2 * ui + 1]
                if code:
                    what = "; ".join(w for b, w in WHAT.items() if code & b)
                    fails.append({"what": what, "code": code, "loop": d, "ub": UBS[ui], "klass": KLASS[cls]})
    return fails


def search(ctx, deep=False):
    rng = ctx.rng
    n = ctx.n(40, 250) * (3 if deep else 1)
    loops = [_norm_loop(d) for d in CORPUS]
    for i in range(n):
        d = gen_loop(rng, adversarial=(i % 4 == 3))
        loops.append(d)
        ctx.count({"L2": "loop", "S": len(d["stages"]), "lb": d["lb"], "st": d["st"]}, True, str(d), "L2")
    fails = run_l2(ctx, loops)
    ctx.extra["L2_failures_by_class"] = {str(k): sum(1 for f in fails if f["klass"] == k) for k in {f["klass"] for f in fails}}
    # one representative per class, smallest ub first
    fails.sort(key=lambda f: (f.get("ub", 0), len(str(f.get("loop")))))
    seen, out = set(), []
    for f in fails:
        if f["klass"] not in seen:
            seen.add(f["klass"])
            out.append(f)
    return out


def _norm_loop(d):
    d = dict(d)
    d["stages"] = [[{**o, "ins": [tuple(x) for x in o["ins"]], "outs": [tuple(x) for x in o["outs"]]} for o in st] for st in d["stages"]]
    return d


_KNOWN_CACHE = None


def replay_known(ctx, entry):
    """all witnesses are evaluated in one Coq run (first call), then looked up"""
    global _KNOWN_CACHE
    if _KNOWN_CACHE is None:
        loops = [_norm_loop(e["witness"]["loop"]) for e in vlib.load_known(PROPERTY)]
        _KNOWN_CACHE = run_l2(ctx, loops)
    w = entry["witness"]
    d = _norm_loop(w["loop"])
    return any(f["klass"] == entry["class"] and f.get("loop") == d and f.get("ub") == w.get("ub", f.get("ub"))
               for f in _KNOWN_CACHE)


def replay(ctx, obj):
    f = obj.get("failure")
    if not f or "loop" not in f:
        print("no failing input recorded; broken obligations:", obj.get("no_longer_checks"))
        return 1
    d = _norm_loop(f["loop"])
    print(loop_text(d))
    fails = run_l2(ctx, [d])
    for x in fails:
        print("FAIL ub=%s class=%s: %s" % (x.get("ub"), x["klass"], x["what"]))
    try:
        (mod, _), ids, status, _, dups, _ = real_pipeline(d)
        print("---- real output\n" + str(mod))
    except Exception as e:
        print("passes:", repr(e))
    return 1 if fails else 0
