"""Shared by the C03 / C16 plugins: generators, converters between the real dart pattern
classes and the Coq literals of coq/Model/C03Schedule.v, and implementation-side evaluation.

The converter is structural: bounds tuple -> list, A -> list of its columns (A.T), b -> list.
"""
from __future__ import annotations

import itertools
from fractions import Fraction

import numpy as np

from vlib import coqlist, optz, zlist, zlit

BOUNDS = [1, 2, 3, 4, 6, 8, 12, 16]
ERRS = (ValueError, IndexError, ZeroDivisionError, AssertionError)


def impl():
    from snaxc.ir.dart.access_pattern import Schedule, SchedulePattern, Template, TemplatePattern
    from snaxc.ir.dart.affine_transform import AffineTransform
    return Schedule, SchedulePattern, Template, TemplatePattern, AffineTransform


# ------------------------------------------------------------------ plain data <-> implementation
# plain pattern = (bounds list, A as list of rows (may be [] with ncols kept apart), b list, ncols)

def mk_at(rows, b, ncols):
    AffineTransform = impl()[4]
    A = np.array(rows, dtype=np.int_).reshape((len(b), ncols))
    return AffineTransform(A, np.array(b, dtype=np.int_))


def mk_schedule(pats):
    Schedule, SchedulePattern = impl()[0], impl()[1]
    return Schedule(SchedulePattern(tuple(bs), mk_at(rows, b, len(bs))) for (bs, rows, b) in pats)


def mk_template(pats):
    Template, TemplatePattern = impl()[2], impl()[3]
    return Template(TemplatePattern(tuple(bs), mk_at(rows, b, len(bs))) for (bs, rows, b) in pats)


def plain(coll):
    """collection -> list of (bounds, rows, b)"""
    return [(list(p.bounds), [[int(v) for v in r] for r in p.pattern.A.tolist()], [int(v) for v in p.pattern.b.tolist()])
            for p in coll]


def cols_of(p):
    return [[int(v) for v in c] for c in p.pattern.A.T.tolist()]


# ------------------------------------------------------------------ Coq literals
def coq_spat(p):
    return f"(@mkPat Z {zlist(p.bounds)} {coqlist(zlist(c) for c in cols_of(p))} {zlist(p.pattern.b.tolist())})"


def coq_tpat(p):
    return (f"(@mkPat (option Z) {coqlist(optz(b) for b in p.bounds)} "
            f"{coqlist(zlist(c) for c in cols_of(p))} {zlist(p.pattern.b.tolist())})")


def coq_sched(s):
    return "(" + coqlist(coq_spat(p) for p in s) + " : sched)"


def coq_tmpl(t):
    return "(" + coqlist(coq_tpat(p) for p in t) + " : tmpl)"


def coq_opt(x, f):
    return "None" if x is None else f"(Some {f(x)})"


def guarded(f):
    """run f(); an exception of the implementation is the model's None"""
    try:
        return f()
    except ERRS:
        return None


# ------------------------------------------------------------------ generators
def gen_matrix(rng, nres, ndims, style=None):
    style = style or rng.choice(["unit", "unit", "sparse", "dense", "tiled"])
    rows = [[0] * ndims for _ in range(nres)]
    for i in range(nres):
        for j in range(ndims):
            if style == "unit":
                v = 1 if rng.random() < 1.5 / max(1, ndims) else 0
            elif style == "sparse":
                v = rng.choice([0, 0, 0, 1, 1, 2, -1, 3])
            elif style == "tiled":
                v = rng.choice([0, 0, 1, 2, 4, 8])
            else:
                v = rng.randint(-3, 3)
            rows[i][j] = v
    return rows


def gen_bounds(rng, ndims, max_points=1500):
    while True:
        bs = [rng.choice(BOUNDS) for _ in range(ndims)]
        tot = 1
        for b in bs:
            tot *= b
        if tot <= max_points:
            return bs


def gen_schedule_plain(rng, ndims=None, nops=None, max_points=1500, nres_list=None):
    if ndims is None:
        ndims = rng.choice([0, 1, 1, 2, 2, 2, 3, 3, 3, 4, 4, 5])
    if nops is None:
        nops = rng.choice([1, 1, 2, 2, 3, 3, 4])
    bs = gen_bounds(rng, ndims, max_points)
    pats = []
    for o in range(nops):
        nres = nres_list[o] if nres_list else rng.choice([0, 1, 1, 2, 2, 2, 3])
        rows = gen_matrix(rng, nres, ndims)
        b = [rng.choice([0, 0, 0, 1, -2, 3]) for _ in range(nres)]
        pats.append((list(bs), rows, b))
    return pats


def gen_template_plain(rng, ndims=None, nops=None, nres_list=None):
    if ndims is None:
        ndims = rng.choice([1, 1, 2, 2, 3, 3, 4])
    if nops is None:
        nops = rng.choice([1, 1, 2, 2, 3, 3, 4])
    bs = [rng.choice([None, None, 1, 2, 2, 3, 4, 4, 8, 0]) for _ in range(ndims)]
    pats = []
    for o in range(nops):
        nres = nres_list[o] if nres_list else rng.choice([1, 1, 2, 2, 3])
        rows = gen_matrix(rng, nres, ndims)
        pats.append((list(bs), rows, [0] * nres))
    return pats


# ------------------------------------------------------------------ implementation-side image
def image_of(s, limit=200000):
    """list (lexicographic over the box of operand 0) of the tuple of operand indices, computed with
    the implementation's own AffineTransform.eval"""
    if len(s) == 0:
        return [()]
    bs = s[0].bounds
    tot = 1
    for b in bs:
        tot *= b
    if tot > limit:
        return None
    out = []
    for x in itertools.product(*[range(b) for b in bs]):
        xv = np.array(x, dtype=np.int_)
        out.append(tuple(tuple(int(v) for v in p.pattern.eval(xv)) for p in s))
    return out


def same_multiset(a, b):
    return sorted(a) == sorted(b)


def coq_image(img):
    return coqlist(coqlist(zlist(t) for t in tup) for tup in img)


# ------------------------------------------------------------------ exact row-space comparison (L2 oracle)
def rref(rows, ncols):
    m = [[Fraction(v) for v in r] for r in rows]
    piv, r = [], 0
    for c in range(ncols):
        pr = next((i for i in range(r, len(m)) if m[i][c] != 0), None)
        if pr is None:
            continue
        m[r], m[pr] = m[pr], m[r]
        pv = m[r][c]
        m[r] = [v / pv for v in m[r]]
        for i in range(len(m)):
            if i != r and m[i][c] != 0:
                f = m[i][c]
                m[i] = [a - f * b for a, b in zip(m[i], m[r])]
        piv.append(c)
        r += 1
    return [tuple(row) for row in m[:r]]


def same_rowspace(a_rows, b_rows, ncols):
    """exact: reduced row echelon forms (unique per row space) coincide"""
    return rref(a_rows, ncols) == rref(b_rows, ncols)


# ------------------------------------------------------------------ scheduler cases
def gen_sched_case(rng, max_points=600):
    """(template plain, schedule plain, family).  Families:
       derived : the schedule contains (a permutation of) the template's columns among extra dims
       tiled   : the template is a tiling of a small base pattern (test_tiling_* shape)
       random  : independent template and schedule"""
    fam = rng.choice(["derived", "derived", "derived", "tiled", "tiled", "random"])
    nops = rng.choice([1, 1, 2, 2, 3, 3, 4])
    if fam == "random":
        nres = [rng.choice([1, 1, 2, 2, 3]) for _ in range(nops)]
        tp = gen_template_plain(rng, nops=nops, nres_list=nres)
        sp = gen_schedule_plain(rng, ndims=rng.choice([1, 2, 2, 3, 3, 4]), nops=nops if rng.random() < 0.9 else nops + 1,
                                max_points=max_points, nres_list=[max(0, r - rng.choice([0, 0, 0, 1])) for r in nres] + [1])
        return tp, sp, fam
    if fam == "derived":
        td = rng.choice([1, 1, 2, 2, 3])
        nres = [rng.choice([1, 1, 2, 2, 3]) for _ in range(nops)]
        style = rng.choice(["unit", "unit", "sparse", "tiled"])
        tb = [rng.choice([None, None, 2, 2, 3, 4, 8, 1]) for _ in range(td)]   # 1: a unit template dim must still be enforced
        trows = [gen_matrix(rng, nres[o], td, style) for o in range(nops)]
        n = rng.choice([max(1, td - 1), td, td, td + 1, td + 1, td + 2])
        n = min(n, 4)
        pos = rng.sample(range(n), min(td, n))          # schedule dim of template dim j (for j < len(pos))
        while True:
            sb = [rng.choice(BOUNDS) for _ in range(n)]
            for j, q in enumerate(pos):
                if tb[j]:
                    sb[q] = tb[j] * rng.choice([1, 1, 2, 3]) if rng.random() < 0.85 else rng.choice(BOUNDS)
            tot = 1
            for b in sb:
                tot *= b
            if tot <= max_points:
                break
        sp = []
        for o in range(nops):
            drop = 1 if (nres[o] > 1 and rng.random() < 0.15) else 0   # broadcast: schedule has fewer results
            rows = [[0] * n for _ in range(nres[o] - drop)]
            for i in range(nres[o] - drop):
                for q in range(n):
                    if q in pos:
                        rows[i][q] = trows[o][i + drop][pos.index(q)]
                    else:
                        # temporal (non-template) dims: also negative strides (audit: a sign-sensitive
                        # predicate or matcher must see them outside the template dims too)
                        rows[i][q] = rng.choice([0, 0, 0, 1, 2, -1, -2]) if rng.random() < 0.5 else 0
            sp.append((list(sb), rows, [0] * (nres[o] - drop)))
        tp = [(list(tb), trows[o], [0] * nres[o]) for o in range(nops)]
        return tp, sp, fam
    # tiled: base pattern over m dims; template splits some dims into (outer None, inner t)
    m = rng.choice([1, 1, 2, 2])
    nres = [rng.choice([1, 1, 2]) for _ in range(nops)]
    base = [gen_matrix(rng, nres[o], m, "unit") for o in range(nops)]
    split = [rng.choice([None, 2, 2, 4]) for _ in range(m)]
    tb, tcols = [], [[] for _ in range(nops)]
    for j in range(m):
        t = split[j]
        if t:
            if rng.random() < 0.7:
                tb += [None, t]
                for o in range(nops):
                    tcols[o] += [[t * base[o][i][j] for i in range(nres[o])], [base[o][i][j] for i in range(nres[o])]]
            else:
                tb += [t]
                for o in range(nops):
                    tcols[o] += [[base[o][i][j] for i in range(nres[o])]]
        else:
            tb += [None]
            for o in range(nops):
                tcols[o] += [[base[o][i][j] for i in range(nres[o])]]
    td = len(tb)
    trows = [[[tcols[o][j][i] for j in range(td)] for i in range(nres[o])] for o in range(nops)]
    extra = rng.choice([0, 0, 1])
    n = m + extra
    while True:
        sb = [rng.choice(BOUNDS) for _ in range(extra)] + [(split[j] or 1) * rng.choice([1, 2, 2, 3, 4]) for j in range(m)]
        tot = 1
        for b in sb:
            tot *= b
        if tot <= max_points:
            break
    sp = []
    for o in range(nops):
        rows = [[rng.choice([0, 0, 1, 1, -1]) for _ in range(extra)] + list(base[o][i]) for i in range(nres[o])]
        sp.append((list(sb), rows, [0] * nres[o]))
    tp = [(list(tb), trows[o], [0] * nres[o]) for o in range(nops)]
    return tp, sp, fam


def gen_predicate_pair(rng):
    """(template plain, schedule plain) for the constraint predicates alone: the predicates only read
    template.num_dims and the schedule matrices, so the pair need not match; the schedule has 1-3 temporal
    dims outside the template and entries of every sign (unit / sparse / dense / tiled styles)."""
    nops = rng.choice([1, 1, 2, 2, 3])
    tp = gen_template_plain(rng, ndims=rng.choice([1, 1, 2, 2, 3]), nops=nops)
    n = len(tp[0][0]) + rng.choice([1, 2, 2, 3])
    sp = gen_schedule_plain(rng, ndims=n, nops=nops, max_points=10 ** 12,
                            nres_list=[rng.choice([1, 1, 2, 2, 3]) for _ in range(nops)])
    return tp, sp


LARGE_ENTRY_BOUND = 300   # mirrors large_entry_bound of coq/Model/C16Fits.v (class large_entries_float_tolerance, F-C16-2)


def in_large_entry_class(A, B):
    """the decidable class of known finding F-C16-2, same predicate as Coq's large_entries_float_tolerance"""
    return any(abs(int(x)) > LARGE_ENTRY_BOUND for M in (A, B) for r in M for x in r)


def gen_large_pair(rng):
    """(A rows, B rows, ncols, mode): nearly parallel integer rows, entries up to ~2000 (plus a part with entries
    <= 250, outside the class, where model and code must still agree).  Modes: consec ((n, n-1, ..) vs (n-1, n-2, ..)),
    perturb (u vs u +- 1 in a few places), scaled (B = k * A: equal spaces), each optionally with a common extra row."""
    c = rng.choice([2, 2, 3, 3, 4])
    M = rng.choice([64, 128, 200, 250, 250, 320, 400, 400, 700, 1000, 1500, 2000])
    mode = rng.choice(["consec", "consec", "perturb", "perturb", "scaled"])
    if mode == "consec":
        n = rng.randint(max(8, M // 2), M)
        shape = [rng.choice([0, 0, 1]) for _ in range(c)]      # which entries are n-1 instead of n
        shape[rng.randrange(c)] = 1
        shape[(shape.index(1) + 1) % c] = 0
        sign = [rng.choice([1, 1, -1]) for _ in range(c)]
        u = [sg * (n - sh) for sg, sh in zip(sign, shape)]
        v = [sg * (n - 1 - sh) for sg, sh in zip(sign, shape)]
    elif mode == "perturb":
        u = [rng.randint(-M, M) for _ in range(c)]
        if not any(u):
            u[0] = M
        v = [max(-M, min(M, x + rng.choice([-1, 0, 0, 1]))) for x in u]
    else:
        k = rng.choice([2, 3, -1])
        u = [rng.randint(-(M // abs(k)), M // abs(k)) for _ in range(c)]
        v = [k * x for x in u]
    A, B = [u], [v]
    if rng.random() < 0.3:                                      # a common second row
        w = [0] * c
        w[rng.randrange(c)] = 1
        A, B = [u, w], ([w, v] if rng.random() < 0.5 else [v, w])
    return A, B, c, mode


def gen_checks(rng, nops):
    """(python callables, Coq list literal, description)"""
    from snaxc.ir.dart.scheduler import is_memory_flexible_enough, is_pure_output_stationary
    which = rng.choice(["none", "none", "pos", "pos", "mem", "both", "both"])
    sizes = [rng.choice([1, 1, 2, 4, 8]) for _ in range(nops)]
    py, cq = [], []
    if which in ("pos", "both"):
        py.append(is_pure_output_stationary)
        cq.append("is_pure_output_stationary")
    if which in ("mem", "both"):
        py.append(lambda t, s, sizes=sizes: is_memory_flexible_enough(t, s, sizes))
        cq.append(f"is_memory_flexible_enough {zlist(sizes)}")
    return py, "[" + "; ".join(cq) + "]", {"checks": which, "sizes": sizes}


def run_backtrack(T, s, checks, cap=400):
    """(yielded list, raised?) or None when more than cap results"""
    from snaxc.ir.dart.scheduler import scheduler_backtrack
    out, raised = [], False
    try:
        for r in scheduler_backtrack(T, s, extra_checks=checks):
            out.append(r)
            if len(out) > cap:
                return None
    except ERRS:
        raised = True
    return out, raised
