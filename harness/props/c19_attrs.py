"""C19 (e) print -> parse of snax.StreamerConfigurationAttr (snaxc/dialects/snax.py); the StridePattern attribute
round trip is checked in c19_stride.py.  L2 only (the property on the implementation, structural comparison:
Streamer / StreamerConfiguration define no __eq__)."""
from __future__ import annotations

import io

PART = "attrs"
KNOWN_XDMA = "xdma_system_type_print"
EXT_OPTS = ["maxpool_ext", "memset_ext", "t", "add_ext", "add_ext_long", "rescale_down_ext", "rescale_up_ext"]


def _mods():
    from snaxc.accelerators.streamers import streamers as st
    from snaxc.dialects import snax
    return st, snax


def gen_config(rng):
    """-> plain description: {"system": "reg"|"xdma", "streamers": [{"type","temp","spat","opts"}]}"""
    n = rng.choice([1, 1, 2, 3, 4, 5])
    streamers = []
    for _ in range(n):
        opts = [o for o in ["a", "c", "bm", "b"] if rng.random() < 0.3]
        if rng.random() < 0.25:      # xDMA extension options (the other keys of STREAMER_OPT_MAP)
            opts += [o for o in EXT_OPTS if rng.random() < 0.3]
        rng.shuffle(opts)
        streamers.append({
            "type": rng.choice(["r", "w"]),
            "temp": [rng.choice(["n", "n", "n", "i", "r"]) for _ in range(rng.choice([0, 1, 2, 3, 3, 4, 6]))],
            "spat": [rng.choice([1, 2, 4, 8, 8, 16, 64, 0]) for _ in range(rng.choice([0, 1, 1, 2, 3]))],
            "opts": opts,
        })
    return {"system": "xdma" if rng.random() < 0.15 else "reg", "streamers": streamers}


def build(desc):
    st, snax = _mods()
    from snaxc.accelerators.streamers.extensions import STREAMER_OPT_MAP
    optmap = dict(STREAMER_OPT_MAP)
    ss = [st.Streamer(st.StreamerType(s["type"]), s["temp"], s["spat"], [optmap[o]() for o in s["opts"]]) for s in desc["streamers"]]
    return snax.StreamerConfigurationAttr(st.StreamerConfiguration(ss, st.StreamerSystemType(desc["system"])))


def describe(attr):
    c = attr.data
    return {"system": c.system_type().value,
            "streamers": [{"type": s.type.value, "temp": [f.value for f in s.temporal_dims], "spat": list(s.spatial_dims),
                           "opts": [o.name for o in s.opts]} for s in c.streamers]}


def roundtrip(desc):
    from xdsl.context import Context
    from xdsl.parser import Parser
    from xdsl.printer import Printer
    st, snax = _mods()
    a = build(desc)
    s = io.StringIO()
    Printer(s).print_attribute(a)
    c = Context()
    c.load_dialect(snax.Snax)
    try:
        b = Parser(c, s.getvalue()).parse_attribute()
    except Exception as e:
        return s.getvalue(), "ERR " + repr(e)[:160]
    return s.getvalue(), describe(b)


def check_config(desc):
    txt, back = roundtrip(desc)
    if back == desc:
        return []
    klass = None
    if isinstance(back, dict) and back["streamers"] == desc["streamers"] and desc["system"] == "xdma" and back["system"] == "reg":
        klass = KNOWN_XDMA
    return [{"what": "StreamerConfigurationAttr print/parse", "detail": {"printed": txt, "reparsed": back}, "klass": klass}]


def l1_prepare(ctx):
    return [], (lambda results: [])


def l2(ctx, deep):
    rng = ctx.rng
    n = ctx.n(400, 5000) * (3 if deep else 1)
    fails = []
    # the option alphabet of Model/C19Text.v (sopt) and of this generator must be the key set of STREAMER_OPT_MAP
    from snaxc.accelerators.streamers.extensions import STREAMER_OPT_MAP
    if sorted(STREAMER_OPT_MAP) != sorted(["a", "c", "bm", "b"] + EXT_OPTS):
        fails.append({"part": PART, "what": "STREAMER_OPT_MAP differs from the modelled option alphabet",
                      "input": {"opt_names": sorted(STREAMER_OPT_MAP)}, "detail": {"modelled": sorted(["a", "c", "bm", "b"] + EXT_OPTS)}, "klass": None})
    for _ in range(n):
        d = gen_config(rng)
        ctx.count({"part": PART, "L2": d}, len(d["streamers"]) > 1 or bool(d["streamers"][0]["opts"]), f"cfg{d}", "L2:StreamerConfigurationAttr")
        for f in check_config(d):
            fails.append({"part": PART, "what": f["what"], "input": d, "detail": f["detail"], "klass": f["klass"]})
    return fails


def replay_known(ctx, entry):
    return any(f["klass"] == entry["class"] for f in check_config(entry["witness"]["config"]))


def replay(ctx, f):
    if "opt_names" in f["input"]:
        from snaxc.accelerators.streamers.extensions import STREAMER_OPT_MAP
        print("STREAMER_OPT_MAP keys:", sorted(STREAMER_OPT_MAP), "modelled:", sorted(["a", "c", "bm", "b"] + EXT_OPTS))
        return [f] if sorted(STREAMER_OPT_MAP) != sorted(["a", "c", "bm", "b"] + EXT_OPTS) else []
    res = check_config(f["input"])
    print("config:", f["input"])
    for r in res:
        print("FAIL", r)
    return res
