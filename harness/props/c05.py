"""C05 — DMA lowering of a copy moves every element to its layout position.

(H) hand model coq/Model/C05Copy.v (+ C05Dyn.v) of snaxc/transforms/snax_copy_to_dma.py.
L1: the real pass `snax-copy-to-dma` is run in-process on a generated memref.copy; the emitted IR is
    read back (symbolically, fail-closed) as loop nest + DMA-call parameters and compared inside Coq
    with `lower` / `lower_memref` of the model.
L2: the real emitted IR is executed by a small concrete interpreter (scf.for / arith / memref.dim /
    extract_* / snax_dma_* calls) on a byte memory whose source footprint holds position tags; the
    destination contents and the read/write footprints are compared with the layout semantics
    (digits x steps), no model involved.
"""
from __future__ import annotations

import itertools

import vlib
from vlib import boollit, coqlist, optz, zlist, zlit

PROPERTY = "C05"
MODEL_TARGETS = ["Model/C05Copy.vo", "Model/C05Dyn.vo"]
RULE = ("memref.copy between two memrefs of rank 1-4 with shared tile bounds (tile depth 1-3, bounds from "
        "{1,2,3,4,5,8}), element 1/2/4/8 bytes; layouts: TSL lattices sharing a random contiguous prefix, padded, "
        "random and repeated steps (equal steps in different dimensions), unit bounds, offsets; strided<[..], offset> "
        "and identity layouts reconstructed through from_strides; dynamic outer dims / dynamic strides / dynamic "
        "offsets resolved on sampled run-time shapes; non-trivial = at least one remaining stride (2-D transfer "
        "or loop nest); distinct = distinct (source, destination, element size, run-time shape)")
TRUSTED_BASE = [
    "Coq 8.16.1 kernel + vm_compute (no native_compute)",
    "hand model coq/Model/C05Copy.v of snaxc/transforms/snax_copy_to_dma.py (tied by L1 each run) and coq/Model/Tsl.v (C10)",
    "DMA semantics: copy1d/copy2d in C05Copy.v = _mlir_ciface_snax_dma_1d/2d_transfer of runtime/include/snax_rt.h "
    "(burst i moves `size` bytes from src+i*src_stride to dst+i*dst_stride); the hardware is not modelled",
    "harness/props/c05.py: MLIR text generator, symbolic reader of the emitted IR (affine pointer forms), concrete "
    "interpreter of scf.for/arith.{constant,muli,addi,divui}/memref.{dim,extract_aligned_pointer_as_index,"
    "extract_strided_metadata}/func.call used by L2; harness/xdsl_compat.py; xDSL 0.70 parser/rewriter",
]
ASSUMPTIONS = [
    "theorems are about static layouts with positive bounds and static offsets; dynamic dims/strides/offsets are "
    "covered by the model + L1/L2 on sampled run-time shapes",
    "source and destination byte footprints are disjoint and the destination layout does not self-overlap "
    "(hypotheses of copy_correct; memref.copy is undefined otherwise)",
    "the memref shape equals the product of the tile bounds per dimension (the type verifier does not enforce it)",
]

KNOWN_CLASS = "equal_valued_stride_in_block"
EL_BITS = [8, 16, 32, 64, 8, 16, 32, 1, 4, 12]
BOUNDS = [1, 2, 2, 3, 4, 4, 5, 8]


# ------------------------------------------------------------------------------------------
# case generation
# ------------------------------------------------------------------------------------------
def _prod(xs):
    r = 1
    for x in xs:
        r *= x
    return r


def _lattice(rng, order, bounds, pad=False, start=1):
    steps, cur = {}, start
    for p in order:
        steps[p] = cur
        cur *= bounds[p[0]][p[1]]
        if pad and rng.random() < 0.4:
            cur += rng.choice([1, 2, 8])
    return steps


def gen_tsl_pair(rng, max_total=600):
    while True:
        rank = rng.choice([1, 2, 2, 2, 3, 3, 4])
        depths = [rng.choice([1, 1, 2, 2, 3]) for _ in range(rank)]
        bounds = [[rng.choice(BOUNDS) for _ in range(d)] for d in depths]
        if _prod(b for bs in bounds for b in bs) <= max_total:
            break
    pos = [(d, k) for d in range(rank) for k in range(depths[d])]
    mode = rng.choice(["prefix", "prefix", "prefix", "same", "padded", "random", "repeat", "rowmajor", "eqvalue"])
    if mode in ("prefix", "padded", "same", "rowmajor"):
        o1 = list(pos)
        rng.shuffle(o1)
        if mode == "rowmajor":
            o1 = list(reversed(pos))
        k = rng.randrange(0, len(pos) + 1)
        rest = o1[k:]
        rng.shuffle(rest)
        o2 = o1[:k] + rest if mode != "same" else list(o1)
        s1 = _lattice(rng, o1, bounds, pad=(mode == "padded"))
        s2 = _lattice(rng, o2, bounds, pad=(mode == "padded" and rng.random() < 0.5))
    elif mode == "random":
        s1 = {p: rng.choice([1, 2, 3, 4, 8, 16, 32, 64, 100]) for p in pos}
        s2 = {p: (s1[p] if rng.random() < 0.5 else rng.choice([1, 2, 4, 8, 16, 32, 64])) for p in pos}
    elif mode == "repeat":
        pool = [rng.choice([1, 2, 4, 8]) for _ in range(2)]
        s1 = {p: rng.choice(pool) for p in pos}
        s2 = {p: rng.choice(pool) for p in pos}
    else:  # eqvalue: a contiguous source, destination lattice in another order; duplicate bounds likely
        o1 = list(pos)
        rng.shuffle(o1)
        s1 = _lattice(rng, o1, bounds)
        # make one more source stride carry the value of the innermost one
        if len(pos) >= 2:
            a, b = o1[0], rng.choice(o1[1:])
            bounds[b[0]][b[1]] = bounds[a[0]][a[1]]
            s1[b] = s1[a]
        o2 = list(o1)
        if len(o2) > 2:
            t = o2[1:]
            rng.shuffle(t)
            o2 = o2[:1] + t
        s2 = _lattice(rng, o2, bounds)
    src = [[(s1[(d, k)], bounds[d][k]) for k in range(depths[d])] for d in range(rank)]
    dst = [[(s2[(d, k)], bounds[d][k]) for k in range(depths[d])] for d in range(rank)]
    return src, dst, mode


def gen_case(rng, allow_dynamic=False):
    """A case: dict(shape (None = dynamic dim), bits, src, dst, rshape) where src/dst are
    ("tsl", tstrides, offset) | ("strided", strides, offset) | ("none",)."""
    kind = rng.choice(["tsl", "tsl", "tsl", "tsl", "strided", "strided", "mixed", "none", "mixed"])
    bits = rng.choice(EL_BITS)
    off = lambda: rng.choice([0, 0, 0, 1, 3, 16, 100])  # noqa: E731
    if kind == "tsl":
        s, d, mode = gen_tsl_pair(rng)
        shape = [_prod(b for (_, b) in t) for t in s]
        case = {"shape": shape, "bits": bits, "src": ("tsl", s, off()), "dst": ("tsl", d, off()), "mode": mode}
    elif kind == "none":
        rank = rng.choice([1, 2, 3, 4])
        shape = [rng.choice([1, 2, 3, 4, 5, 8]) for _ in range(rank)]
        case = {"shape": shape, "bits": bits, "src": ("none",), "dst": ("none",), "mode": "none"}
    else:
        rank = rng.choice([1, 2, 2, 3, 4])
        shape = [rng.choice([1, 2, 3, 4, 5, 8]) for _ in range(rank)]

        def strided():
            if rng.random() < 0.2:
                return ("none",)
            order = list(range(rank))
            if rng.random() < 0.4:
                rng.shuffle(order)
            else:
                order.reverse()
            st, cur = {}, 1
            for dd in order:
                st[dd] = cur
                cur *= shape[dd]
                if rng.random() < 0.3:
                    cur += rng.choice([1, 3, 8])
            if rng.random() < 0.1:
                st[rng.randrange(rank)] = rng.choice([1, 2, 4])
            return ("strided", [st[dd] for dd in range(rank)], off())

        if kind == "strided":
            case = {"shape": shape, "bits": bits, "src": strided(), "dst": strided(), "mode": "strided"}
        else:  # one side TSL (tiled), the other strided/none reconstructed with its tile bounds
            s, d, _ = gen_tsl_pair(rng)
            shape = [_prod(b for (_, b) in t) for t in s]
            rank = len(shape)
            t = ("tsl", s, off())
            o = strided()
            case = {"shape": shape, "bits": bits, "mode": "mixed"}
            if rng.random() < 0.5:
                case["src"], case["dst"] = t, o
            else:
                case["src"], case["dst"] = o, t
    case["rshape"] = list(case["shape"])
    if allow_dynamic:
        _make_dynamic(rng, case)
    return case


def _make_dynamic(rng, case):
    """Turn some static information into run-time information (same run-time values)."""
    shape = case["shape"]
    rank = len(shape)
    r = rng.random()
    tsl_sides = [k for k in ("src", "dst") if case[k][0] == "tsl"]
    if tsl_sides:
        # a dynamic outermost bound of one dimension (both sides: equal tile bounds), static steps
        if r < 0.5:
            d = rng.randrange(rank)
            for k in tsl_sides:
                ts = [list(t) for t in case[k][1]]
                s, b = ts[d][0]
                ts[d][0] = (s, None)
                case[k] = ("tsl", ts, case[k][2])
            case["shape"] = [None if i == d else x for i, x in enumerate(shape)]
            case["dyn"] = "tsl-bound"
        return
    if r < 0.7:
        dyn_dims = [i for i in range(rank) if rng.random() < 0.5]
        case["shape"] = [None if i in dyn_dims else x for i, x in enumerate(shape)]
        for k in ("src", "dst"):
            if case[k][0] == "strided":
                st = list(case[k][1])
                # strides that depend on a dynamic size are dynamic too (as MLIR would have them)
                st = [None if (rng.random() < 0.5 and dyn_dims) else x for x in st]
                o = case[k][2]
                if rng.random() < 0.3:
                    o = None
                case[k] = ("strided", st, o)
                case.setdefault("rt", {})[k] = None
        case["dyn"] = "strided"


def el_bytes(case):
    return (case["bits"] + 7) // 8      # FixedBitwidthType.size


def gen_dyn_case(rng):
    """(case, twin): `twin` is a fully static case; `case` hides some of its information behind `?`
    (dynamic dims, strides, offsets; dynamic outer tile bound / step of a TSL).  Run-time values = twin."""
    bits = rng.choice(EL_BITS)
    if rng.random() < 0.5:
        # strided / identity layouts with dynamic dims, strides and offsets
        while True:
            twin = gen_case(rng)
            if twin["src"][0] != "tsl" and twin["dst"][0] != "tsl":
                break
        twin["bits"] = bits
        for k in ("src", "dst"):
            if twin[k][0] == "strided" and rng.random() < 0.7:
                twin[k] = ("strided", twin[k][1], rng.choice([1, 3, 16, 100]))
        case = dict(twin)
        rank = len(twin["shape"])
        dyn = [i for i in range(rank) if rng.random() < 0.5]
        case["shape"] = [None if i in dyn else x for i, x in enumerate(twin["shape"])]
        for k in ("src", "dst"):
            if twin[k][0] == "strided":
                # `?` strides are treated by the lowering as equal and contiguous (largest_common_contiguous_block
                # compares None == None): only hide strides that really are the row-major ones
                rm, cur = [], 1
                for x in reversed(twin["shape"]):
                    rm.insert(0, cur)
                    cur *= x
                hide = list(twin[k][1]) == rm or rng.random() < 0.3
                st = [None if (hide and rng.random() < 0.5) else x for x in twin[k][1]]
                off = None if rng.random() < 0.6 else twin[k][2]
                case[k] = ("strided", st, off)
        case["mode"] = "dyn-strided"
        return case, twin
    # TSL pair with a dynamic outermost tile (bound and possibly step) in one dimension
    while True:
        rank = rng.choice([1, 2, 2, 3])
        depths = [rng.choice([1, 2, 2, 3]) for _ in range(rank)]
        bounds = [[rng.choice(BOUNDS) for _ in range(d)] for d in depths]
        if _prod(b for bs in bounds for b in bs) <= 600:
            break
    pos = [(d, k) for d in range(rank) for k in range(depths[d])]
    dd = rng.randrange(rank)
    P = (dd, 0)
    bounds[dd][0] = rng.choice([2, 3, 4, 5])           # at least two outer tiles at run time

    def order():
        o = [p for p in pos if p != P]
        rng.shuffle(o)
        return o + [P]
    o1 = order()
    o2 = order() if rng.random() < 0.6 else list(o1)
    s1, s2 = _lattice(rng, o1, bounds), _lattice(rng, o2, bounds)
    for st, o in ((s1, o1), (s2, o2)):
        # ties: a unit-bound stride placed after the anchor (in iteration order) takes the largest static step
        anchor = o[-2] if len(o) >= 2 else None
        if anchor is not None:
            for p in pos:
                if p != P and p > anchor and bounds[p[0]][p[1]] == 1 and rng.random() < 0.7:
                    st[p] = st[anchor]
    def lay(st, dynstep):
        ts = [[(st[(d, k)], bounds[d][k]) for k in range(depths[d])] for d in range(rank)]
        tw = [list(t) for t in ts]
        ts[dd][0] = (None if dynstep else st[P], None)
        return ts, tw
    # a dynamic step needs a static stride to anchor the contiguity rule
    def anchored(st):
        # the code anchors dynamic steps at the FIRST stride (iteration order) with the largest static step;
        # keep only layouts where that stride also has the largest bound among the tied ones (otherwise the
        # real get_step_ops resolves `?` to an overlapping step: observed, see the final report)
        others = [p for p in pos if p != P]
        if not others:
            return False
        m = max(st[p] for p in others)
        tied = [p for p in others if st[p] == m]
        return bounds[tied[0][0]][tied[0][1]] == max(bounds[p[0]][p[1]] for p in tied)
    a, at = lay(s1, (anchored(s1) or rng.random() < 0.35) and rng.random() < 0.6)
    b, bt = lay(s2, (anchored(s2) or rng.random() < 0.35) and rng.random() < 0.6)
    shape = [_prod(x for x in bs) for bs in bounds]
    oa, ob = rng.choice([0, 0, 2]), rng.choice([0, 0, 5])
    twin = {"shape": shape, "bits": bits, "src": ("tsl", at, oa), "dst": ("tsl", bt, ob), "mode": "dyn-tsl", "rshape": list(shape)}
    case = dict(twin)
    case["shape"] = [None if i == dd else x for i, x in enumerate(shape)]
    case["src"], case["dst"] = ("tsl", a, oa), ("tsl", b, ob)
    return case, twin


def coq_rtmd(case, twin, side):
    if case[side][0] != "strided":
        return "None"
    st, off = rt_descriptor(case, side, twin)
    return f"(Some ({zlist(st)}, {zlit(off)}))"


def is_tsl_static(ts):
    return all(s is not None and b is not None for t in ts for (s, b) in t)


# ------------------------------------------------------------------------------------------
# run-time descriptors (what memref.dim / extract_strided_metadata return at run time)
# ------------------------------------------------------------------------------------------
def rt_descriptor(case, side, static_case):
    """(strides, offset) in elements at run time for a strided/none memref; from the static twin."""
    lay = static_case[side]
    rshape = case["rshape"]
    if lay[0] == "strided":
        return list(lay[1]), lay[2]
    if lay[0] == "none":
        st, cur = [], 1
        for x in reversed(rshape):
            st.insert(0, cur)
            cur *= x
        return st, 0
    return None, None


# ------------------------------------------------------------------------------------------
# MLIR text
# ------------------------------------------------------------------------------------------
def _tsl_str(ts, off):
    def q(x):
        return "?" if x is None else str(x)
    parts = []
    for t in ts:
        parts.append("[" + ", ".join(q(b) for (_, b) in t) + "] -> (" + ", ".join(q(s) for (s, _) in t) + ")")
    r = ", ".join(parts)
    if off != 0:
        r += f", offset: {q(off)}"
    return f"#tsl.tsl<{r}>"


def memref_type(shape, bits, lay):
    base = "x".join(["?" if x is None else str(x) for x in shape] + [f"i{bits}"])   # rank 0: memref<i32>
    if lay[0] == "none":
        return f"memref<{base}>"
    if lay[0] == "strided":
        st = ", ".join("?" if x is None else str(x) for x in lay[1])
        o = "" if lay[2] == 0 else (", offset: ?" if lay[2] is None else f", offset: {lay[2]}")
        return f"memref<{base}, strided<[{st}]{o}>>"
    return f"memref<{base}, {_tsl_str(lay[1], lay[2])}>"


def mlir_text(case):
    ta = memref_type(case["shape"], case["bits"], case["src"])
    tb = memref_type(case["shape"], case["bits"], case["dst"])
    return (f"func.func @f(%a : {ta}, %b : {tb}) {{\n"
            f'  "memref.copy"(%a, %b) : ({ta}, {tb}) -> ()\n  func.return\n}}\n')


_CTX = None


def _xctx():
    global _CTX
    if _CTX is None:
        from snaxc.tools.snax_opt_main import SNAXOptMain
        _CTX = SNAXOptMain(args=[str(vlib.VERIF / "notes" / "probe_c05_equal_valued_strides.mlir")]).ctx
    return _CTX


def run_pass(text):
    from xdsl.parser import Parser
    from snaxc.transforms.snax_copy_to_dma import SNAXCopyToDMA
    mod = Parser(_xctx(), text).parse_module()
    SNAXCopyToDMA().apply(_xctx(), mod)
    mod.verify()
    return mod


def _func_of(mod):
    for op in mod.ops:
        if op.name == "func.func" and op.sym_name.data == "f":
            return op
    raise ReadError("function f not found")


# ------------------------------------------------------------------------------------------
# symbolic reader of the emitted IR  (L1)
# ------------------------------------------------------------------------------------------
class ReadError(Exception):
    pass


class Aff:
    """base pointer symbol (None/'src'/'dst') + constant + coefficient per induction variable."""
    __slots__ = ("base", "c", "iv")

    def __init__(self, base=None, c=0, iv=None):
        self.base, self.c, self.iv = base, c, dict(iv or {})

    def is_const(self):
        return self.base is None and not any(self.iv.values())

    def add(self, o):
        if self.base and o.base:
            raise ReadError("sum of two pointers")
        iv = dict(self.iv)
        for k, v in o.iv.items():
            iv[k] = iv.get(k, 0) + v
        return Aff(self.base or o.base, self.c + o.c, iv)

    def mul(self, o):
        if o.is_const():
            a, k = self, o.c
        elif self.is_const():
            a, k = o, self.c
        else:
            raise ReadError("non-affine product")
        if a.base:
            raise ReadError("pointer scaled")
        return Aff(None, a.c * k, {i: v * k for i, v in a.iv.items()})


def _rt_env(case, static_case):
    """what the run-time queries on %a / %b return."""
    env = {}
    for side, name in (("src", "a"), ("dst", "b")):
        st, off = rt_descriptor(case, side, static_case)
        env[name] = {"shape": case["rshape"], "strides": st, "offset": off}
    return env


def _arg_name(val, fn):
    args = fn.body.block.args
    for i, a in enumerate(args):
        if val is a:
            return "ab"[i]
    raise ReadError("run-time query on a non-argument")


def read_code(mod, case, static_case=None):
    """Returns the nested tuple form: ("for", ub, body) | ("dma1", s, d, n) | ("dma2", s, d, n, ss, ds, rep),
    s/d = (const, [coeff per enclosing loop, outermost first])."""
    fn = _func_of(mod)
    rt = _rt_env(case, static_case or case)
    vals = {}

    def const(v, what):
        a = vals[v]
        if not a.is_const():
            raise ReadError(f"{what} is not a run-time constant")
        return a.c

    def ptr(v, want, ivs):
        a = vals[v]
        if a.base != want:
            raise ReadError(f"pointer operand based on {a.base}, expected {want}")
        extra = set(a.iv) - set(ivs)
        if any(a.iv[i] for i in extra):
            raise ReadError("pointer depends on a foreign induction variable")
        return (a.c, [a.iv.get(i, 0) for i in ivs])

    def block(ops, ivs):
        found = None
        for op in ops:
            n = op.name
            if n == "arith.constant":
                vals[op.results[0]] = Aff(None, op.value.value.data)
            elif n == "arith.muli":
                vals[op.results[0]] = vals[op.operands[0]].mul(vals[op.operands[1]])
            elif n == "arith.addi":
                vals[op.results[0]] = vals[op.operands[0]].add(vals[op.operands[1]])
            elif n == "arith.divui":
                a, b = const(op.operands[0], "dividend"), const(op.operands[1], "divisor")
                if b <= 0 or a < 0:
                    raise ReadError("divui outside the non-negative domain")
                vals[op.results[0]] = Aff(None, a // b)
            elif n == "memref.dim":
                who = _arg_name(op.operands[0], fn)
                vals[op.results[0]] = Aff(None, rt[who]["shape"][const(op.operands[1], "dim index")])
            elif n == "memref.extract_aligned_pointer_as_index":
                who = _arg_name(op.operands[0], fn)
                vals[op.results[0]] = Aff("src" if who == "a" else "dst", 0)
            elif n == "memref.extract_strided_metadata":
                who = _arg_name(op.operands[0], fn)
                d = rt[who]
                if d["strides"] is None:
                    raise ReadError("strided metadata of a TSL memref")
                rank = len(d["shape"])
                res = op.results
                vals[res[0]] = Aff("opaque")
                vals[res[1]] = Aff(None, d["offset"])
                for i in range(rank):
                    vals[res[2 + i]] = Aff(None, d["shape"][i])
                    vals[res[2 + rank + i]] = Aff(None, d["strides"][i])
            elif n == "scf.for":
                if found is not None:
                    raise ReadError("two loops / calls in one block")
                lb, ub, st = (const(o, "loop bound") for o in op.operands[:3])
                if lb != 0 or st != 1 or len(op.operands) != 3:
                    raise ReadError("loop is not `0 to ub step 1` without iter_args")
                iv = op.body.block.args[0]
                vals[iv] = Aff(None, 0, {iv: 1})
                found = ("for", ub, block(op.body.block.ops, ivs + [iv]))
            elif n == "func.call":
                if found is not None:
                    raise ReadError("two loops / calls in one block")
                callee = op.callee.root_reference.data
                o = op.operands
                if callee == "snax_dma_1d_transfer":
                    found = ("dma1", ptr(o[0], "src", ivs), ptr(o[1], "dst", ivs), const(o[2], "size"))
                elif callee == "snax_dma_2d_transfer":
                    found = ("dma2", ptr(o[0], "src", ivs), ptr(o[1], "dst", ivs),
                             *(const(x, "2d parameter") for x in o[2:6]))
                else:
                    raise ReadError(f"call to {callee}")
            elif n in ("scf.yield", "func.return"):
                if op.operands:
                    raise ReadError("yield/return with operands")
            else:
                raise ReadError(f"unexpected op {n}")
        if found is None:
            raise ReadError("no DMA call in block")
        return found

    return block(fn.body.block.ops, [])


def coq_code(t):
    def aff(a):
        return f"({zlit(a[0])}, {zlist(a[1])})"
    if t[0] == "for":
        return f"(CFor {zlit(t[1])} {coq_code(t[2])})"
    if t[0] == "dma1":
        return f"(CDma1 {aff(t[1])} {aff(t[2])} {zlit(t[3])})"
    return f"(CDma2 {aff(t[1])} {aff(t[2])} " + " ".join(zlit(x) for x in t[3:7]) + ")"


def coq_stride(sb):
    return f"({optz(sb[0])}, {optz(sb[1])})"


def coq_layout(ts, off):
    return "(mkLayout " + coqlist(coqlist(coq_stride(sb) for sb in t) for t in ts) + " " + optz(off) + ")"


def coq_mlayout(lay):
    if lay[0] == "none":
        return "LNone"
    if lay[0] == "strided":
        return f"(LStrided {coqlist(optz(x) for x in lay[1])} {optz(lay[2])})"
    return f"(LTsl {coq_layout(lay[1], lay[2])})"


def case_static(case):
    # a zero-sized dimension is treated by the pass as a dynamic one (`[x.data] if x.data > 0 else [None]`)
    return all(x is not None and x > 0 for x in case["shape"]) and all(
        (lay[0] == "none") or (lay[0] == "strided" and lay[2] is not None and all(x is not None for x in lay[1]))
        or (lay[0] == "tsl" and lay[2] is not None and is_tsl_static(lay[1])) for lay in (case["src"], case["dst"]))


def nontrivial_code(t):
    return t[0] != "dma1"


def case_key(case):
    return repr((case["shape"], case["bits"], case["src"], case["dst"], case["rshape"]))


# ------------------------------------------------------------------------------------------
# L1
# ------------------------------------------------------------------------------------------
def correspondence(ctx):
    rng = ctx.rng
    n = ctx.n(300, 5000)
    cases, metas = [], []
    dis = []
    pairs = [(c, c) for c in CORPUS + [gen_case(rng) for _ in range(n)]] + [gen_dyn_case(rng) for _ in range(n // 2)]
    for c, tw in pairs:
        try:
            mod = run_pass(mlir_text(c))
            code = read_code(mod, c, tw)
            lit = f"(Some {coq_code(code)})"
            nt = nontrivial_code(code)
        except ReadError as e:
            dis.append({"name": "L1:reader", "case": c, "detail": str(e)})
            continue
        except Exception as e:  # the pass raised: the model must say None
            lit, nt, code = "None", False, ("raise", repr(e)[:80])
        shape = coqlist(optz(x) for x in c["shape"])
        cases.append(f"({shape}, {coq_mlayout(c['src'])}, {coq_mlayout(c['dst'])}, {zlit(el_bytes(c))}, "
                     f"{zlist(c['rshape'])}, {coq_rtmd(c, tw, 'src')}, {coq_rtmd(c, tw, 'dst')}, {boollit(case_static(c))}, {lit})")
        metas.append(c)
        ctx.count({"case": c, "code": str(code)[:300]}, nt, case_key(c), f"L1:{c['mode']}:{code[0]}")
    test = ("fun c : list (option Z) * mlayout * mlayout * Z * list Z * rtmd * rtmd * bool * option code => "
            "match c with (sh, a, b, el, rs, ma, mb, st, r) => ocode_eqb (lower_memref_dyn sh a b el rs ma mb) r && "
            "(if st then ocode_eqb (lower_memref sh a b el rs) r else true) end")
    texts, spans = [], []
    SH = 250
    for i in range(0, len(cases), SH):
        texts.append("From Snax Require Import Base.Prelude Model.Tsl Model.C05Copy Model.C05Dyn.\n"
                     f"Definition cases := {coqlist(cases[i:i + SH])}.\n"
                     f"Eval vm_compute in failing ({test}) cases.\n")
        spans.append(i)
    for (ok, out), base in zip(vlib.coq_eval_many("c05l1_", texts, timeout=600), spans):
        lists = vlib.parse_all_eval_lists(out)
        if not ok or len(lists) != 1:
            return dis + [{"name": "cases-file", "detail": out[-2000:]}]
        for idx in lists[0]:
            dis.append({"name": "L1:lower", "case": metas[base + idx], "coq_case": cases[base + idx][:900]})
    return dis


# ------------------------------------------------------------------------------------------
# L2: concrete execution of the real emitted IR on a byte memory
# ------------------------------------------------------------------------------------------
class ExecError(Exception):
    pass


def exec_ir(mod, rt, psrc, pdst, memory, reads, writes):
    fn = _func_of(mod)
    vals = {}

    def block(ops):
        for op in ops:
            n = op.name
            if n == "arith.constant":
                vals[op.results[0]] = op.value.value.data
            elif n == "arith.muli":
                vals[op.results[0]] = vals[op.operands[0]] * vals[op.operands[1]]
            elif n == "arith.addi":
                vals[op.results[0]] = vals[op.operands[0]] + vals[op.operands[1]]
            elif n == "arith.divui":
                a, b = vals[op.operands[0]], vals[op.operands[1]]
                if a < 0 or b <= 0:
                    raise ExecError("divui outside the non-negative domain")
                vals[op.results[0]] = a // b
            elif n == "memref.dim":
                vals[op.results[0]] = rt[_arg_name(op.operands[0], fn)]["shape"][vals[op.operands[1]]]
            elif n == "memref.extract_aligned_pointer_as_index":
                vals[op.results[0]] = psrc if _arg_name(op.operands[0], fn) == "a" else pdst
            elif n == "memref.extract_strided_metadata":
                d = rt[_arg_name(op.operands[0], fn)]
                if d["strides"] is None:
                    raise ExecError("strided metadata of a TSL memref")
                rank = len(d["shape"])
                vals[op.results[0]] = None
                vals[op.results[1]] = d["offset"]
                for i in range(rank):
                    vals[op.results[2 + i]] = d["shape"][i]
                    vals[op.results[2 + rank + i]] = d["strides"][i]
            elif n == "scf.for":
                lb, ub, st = (vals[o] for o in op.operands[:3])
                if st <= 0:
                    raise ExecError("non-positive loop step")
                i = lb
                while i < ub:
                    vals[op.body.block.args[0]] = i
                    block(op.body.block.ops)
                    i += st
            elif n == "func.call":
                callee = op.callee.root_reference.data
                a = [vals[o] for o in op.operands]
                if callee == "snax_dma_1d_transfer":
                    dma(a[0], a[1], a[2])
                elif callee == "snax_dma_2d_transfer":
                    for i in range(a[5]):
                        dma(a[0] + i * a[3], a[1] + i * a[4], a[2])
                else:
                    raise ExecError(f"call to {callee}")
            elif n in ("scf.yield", "func.return"):
                pass
            else:
                raise ExecError(f"unexpected op {n}")

    def dma(s, d, n):
        data = [memory.get(s + k) for k in range(n)]
        for k in range(n):
            reads.add(s + k)
            writes.add(d + k)
            memory[d + k] = data[k]

    block(fn.body.block.ops)


def _digits(x, bounds):
    ds = []
    for j in range(len(bounds)):
        inner = _prod(bounds[j + 1:])
        dgt = x // inner
        if j > 0:
            dgt = (x % (inner * bounds[j])) // inner
        ds.append(dgt)
    return ds


def resolved_layout(case, side, static_case):
    """Run-time (tstrides with concrete (step, bound), offset) of one side, independent of the code
    under test: TSL as given (static twin), strided/none = one tile per dimension."""
    lay = static_case[side]
    if lay[0] == "tsl":
        return [list(t) for t in lay[1]], lay[2]
    st, off = rt_descriptor(case, side, static_case)
    return [[(st[i], case["rshape"][i])] for i in range(len(st))], off


def elem_addr(ts, off, idx):
    a = off
    for t, x in zip(ts, idx):
        for (s, _), dgt in zip(t, _digits(x, [b for (_, b) in t])):
            a += s * dgt
    return a


def check_case(case, static_case=None):
    """Property-level check on the implementation.  Returns a list of (what, detail)."""
    sc = static_case or case
    el = el_bytes(case)
    rshape = case["rshape"]
    sts, soff = resolved_layout(case, "src", sc)
    dts, doff = resolved_layout(case, "dst", sc)
    box = list(itertools.product(*[range(x) for x in rshape]))
    saddr = {i: elem_addr(sts, soff, i) for i in box}
    daddr = {i: elem_addr(dts, doff, i) for i in box}
    span = (max([abs(v) for v in saddr.values()] + [abs(v) for v in daddr.values()] + [1]) + 2) * el + 64
    psrc, pdst = 10 * span, 20 * span
    memory = {}
    sfoot, dfoot = set(), set()
    for i in box:
        for k in range(el):
            a = psrc + saddr[i] * el + k
            sfoot.add(a)
            memory[a] = ("S", saddr[i], k)       # tag = (source element address, byte)
            dfoot.add(pdst + daddr[i] * el + k)
    for a in dfoot:
        memory.setdefault(a, ("D0", a))
    try:
        mod = run_pass(mlir_text(case))
    except AssertionError:
        return []          # loud refusal (assert in the pass): not a silent miscompilation
    except Exception as e:
        return [("pass-raised", {"error": repr(e)[:200]})]
    reads, writes = set(), set()
    rt = _rt_env(case, sc)
    try:
        exec_ir(mod, rt, psrc, pdst, memory, reads, writes)
    except ExecError as e:
        return [("exec-error", {"error": str(e)})]
    fails = []
    injective = len(set(daddr.values())) == len(daddr)
    if injective:
        for i in box:
            for k in range(el):
                got = memory.get(pdst + daddr[i] * el + k)
                if got != ("S", saddr[i], k):
                    fails.append(("element", {"idx": list(i), "byte": k, "dst_byte_addr": daddr[i] * el + k,
                                              "expected_src_elem_addr": saddr[i], "got": repr(got)}))
                    break
            if fails:
                break
    if not reads <= sfoot:
        a = min(reads - sfoot)
        fails.append(("read-outside-source", {"addr_rel": a - psrc}))
    if not writes <= dfoot:
        a = min(writes - dfoot)
        fails.append(("write-outside-destination", {"addr_rel": a - pdst}))
    return fails


KLASSES = {9: KNOWN_CLASS, 10: "dynamic_step_no_static_anchor", 20: "dynamic_step_anchor_tie",
           30: "dynamic_stride_in_block"}


def classify(cases):
    """Class code per case, computed by the Coq predicates: 9 = not Safe_lccb (static cases),
    10/20/30 = dyn_class 1/2/3 (Model/C05Dyn.v), 0 = none."""
    if not cases:
        return []
    lits = []
    for c in cases:
        shape = coqlist(optz(x) for x in c["shape"])
        lits.append(f"({shape}, {coq_mlayout(c['src'])}, {coq_mlayout(c['dst'])}, {boollit(case_static(c))})")
    text = ("From Snax Require Import Base.Prelude Model.Tsl Model.C05Copy Model.C05Dyn.\n"
            f"Definition cases : list (list (option Z) * mlayout * mlayout * bool) := {coqlist(lits)}.\n"
            "Eval vm_compute in map (fun c : list (option Z) * mlayout * mlayout * bool => match c with (sh, a, b, st) => "
            "if st then (if safe_lccb (to_tsl sh a b) (to_tsl sh b a) then 0 else 9) else 10 * dyn_class sh a b end) cases.\n")
    ok, out = vlib.coq_eval("c05cls", text, timeout=300)
    lists = vlib.parse_all_eval_lists(out)
    if not ok or len(lists) != 1 or len(lists[0]) != len(cases):
        return [0] * len(cases)
    return lists[0]


def search(ctx, deep=False):
    rng = ctx.rng
    n = ctx.n(200, 4000) * (3 if deep else 1)
    raw = []
    pairs = [(c, c) for c in CORPUS + [gen_case(rng) for _ in range(n)]] + [gen_dyn_case(rng) for _ in range(n // 2)]
    for c, tw in pairs:
        try:
            res = check_case(c, tw)
        except Exception as e:  # harness problem on this case: report, never hide
            res = [("harness-crash", {"error": repr(e)[:300]})]
        ctx.count({"L2": c, "failures": len(res)}, _prod(c["rshape"]) > 1, "l2" + case_key(c), f"L2:{c['mode']}")
        for what, detail in res:
            raw.append({"what": what, "case": c, "twin": tw, "detail": detail, "mlir": mlir_text(c)})
    codes = classify([f["case"] for f in raw])
    for f, code in zip(raw, codes):
        f["klass"] = None
        if code in KLASSES and f["what"] in ("element", "write-outside-destination", "read-outside-source"):
            f["klass"] = KLASSES[code]
    seen, out = set(), []
    for f in sorted(raw, key=lambda f: _prod(f["case"]["rshape"])):
        key = (f["what"], f["klass"])
        if key not in seen:
            seen.add(key)
            out.append(f)
    return out


def _norm_case(c):
    def lay(x):
        if x[0] == "tsl":
            return ("tsl", [[tuple(sb) for sb in t] for t in x[1]], x[2])
        if x[0] == "strided":
            return ("strided", list(x[1]), x[2])
        return ("none",)
    c = dict(c)
    c["src"], c["dst"] = lay(c["src"]), lay(c["dst"])
    return c


def replay_known(ctx, entry):
    w = entry["witness"]
    c = _norm_case(w["case"] if "case" in w else w)
    tw = _norm_case(w["twin"]) if "twin" in w else c
    fails = check_case(c, tw)
    return any(x == "element" for (x, _) in fails) and KLASSES.get(classify([c])[0]) == entry["class"]


def replay(ctx, obj):
    f = obj.get("failure")
    if not f:
        print("no failing input recorded; broken obligations:", obj.get("no_longer_checks"))
        return 1
    c = _norm_case(f["case"])
    tw = _norm_case(f["twin"]) if f.get("twin") else c
    print(mlir_text(c))
    try:
        mod = run_pass(mlir_text(c))
        print("emitted:", read_code(mod, c, tw))
    except Exception as e:
        print("pass/reader:", repr(e))
    res = check_case(c, tw)
    for r in res:
        print("FAIL", r)
    print("class code (9 = not Safe_lccb, 10/20/30 = dynamic classes, 0 = none):", classify([c])[0])
    return 1 if res else 0


# minimised inputs that run first (regressions + the F6 witness shape)
CORPUS = [
    {"shape": [8, 8], "bits": 32, "mode": "corpus", "rshape": [8, 8],
     "src": ("tsl", [[(4, 2), (1, 4)], [(32, 2), (8, 4)]], 0), "dst": ("tsl", [[(16, 2), (1, 4)], [(32, 2), (4, 4)]], 7)},
    {"shape": [5, 5], "bits": 32, "mode": "corpus", "rshape": [5, 5],
     "src": ("strided", [10, 1], 0), "dst": ("strided", [20, 1], 3)},
    {"shape": [2, 3], "bits": 16, "mode": "corpus", "rshape": [2, 3], "src": ("none",), "dst": ("none",)},
    {"shape": [4, 6], "bits": 8, "mode": "corpus", "rshape": [4, 6],
     "src": ("none",), "dst": ("tsl", [[(12, 2), (1, 2)], [(4, 3), (2, 2)]], 0)},
    # rank 0 (audit): get_total_size_op asserts (`total_size_op is not None`); the model says None
    {"shape": [], "bits": 32, "mode": "corpus", "rshape": [], "src": ("none",), "dst": ("none",)},
    # zero-sized dimensions (audit): `[x.data] if x.data > 0 else [None]` makes the bound dynamic; the generators never
    # draw a 0, the model (shape_tile_bounds) does have the branch
    {"shape": [0, 3], "bits": 8, "mode": "corpus", "rshape": [0, 3], "src": ("strided", [3, 1], 0), "dst": ("strided", [4, 1], 2)},
    {"shape": [2, 0], "bits": 16, "mode": "corpus", "rshape": [2, 0], "src": ("none",), "dst": ("strided", [1, 2], 0)},
    {"shape": [3, 0, 2], "bits": 32, "mode": "corpus", "rshape": [3, 0, 2], "src": ("strided", [1, 3, 3], 0), "dst": ("none",)},
]
