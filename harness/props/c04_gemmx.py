"""C04 — SNAXGEMMXAccelerator.lower_acc_launch, channel-wise rescale path (launch op with m / mult_vals /
shift_vals attributes) against coq/Model/C04Gemmx.v.  L1: real lowered function == lower_setup ++
gemmx_launch_special ++ lower_await.  L2 (no model): every write to a declared launch register carries the
launch value the launch op gives for that register; the gemm core is launched once per channel group."""
from __future__ import annotations

import vlib
from vlib import coqlist, zlit

import accir
from props import c04_lower as B

PRELUDE = "From Snax Require Import Base.Prelude Model.AccIR Model.AccSem Model.C04Csr Model.C04Gemmx.\n"
ST = '!accfg.state<"snax_gemmx">'


def gen_case(rng):
    from snaxc.accelerators.snax_gemmx import SNAXGEMMXAccelerator
    acc = SNAXGEMMXAccelerator()
    n = acc.n
    decl = accir.print_module(acc.generate_acc_op()) if False else None
    import io
    from xdsl.printer import Printer
    sio = io.StringIO()
    Printer(sio).print_op(acc.generate_acc_op())
    decl = "  " + sio.getvalue()
    groups = rng.choice([1, 2, 2, 3])
    mults = [rng.randrange(0, 120) for _ in range(n * groups)]
    shifts = [rng.randrange(0, 60) for _ in range(n * groups)]
    m_attr = rng.choice([groups * rng.randrange(1, 9), rng.randrange(1, 40)])
    lp = [("launch_streamer", "%x"), ("launch_gemmx", "%y")]
    if rng.random() < 0.5:
        lp.reverse()
    if rng.random() < 0.25:
        lp = [(k, "%x") for k, _ in lp]        # the compiler-generated case: same value for both
    sfields = rng.sample(["K", "N", "M", "subtractions", "csr0", "temporal_loop_bound", "bypassSIMD"], rng.choice([1, 2, 3]))
    text = (f'''builtin.module {{
{decl}
  func.func @f(%a : i32, %x : i32, %y : i32) {{
    %s = accfg.setup "snax_gemmx" to (''' + ", ".join(f'"{f}" = %a : i32' for f in sfields) + f''') : {ST}
    %t = "accfg.launch"({lp[0][1]}, {lp[1][1]}, %s) <{{param_names = ["{lp[0][0]}", "{lp[1][0]}"], accelerator = "snax_gemmx"}}> {{m = {m_attr} : i32, mult_vals = array<i32: {", ".join(map(str, mults))}>, shift_vals = array<i32: {", ".join(map(str, shifts))}>}} : (i32, i32, {ST}) -> !accfg.token<"snax_gemmx">
    "accfg.await"(%t) : (!accfg.token<"snax_gemmx">) -> ()
    func.return
  }}
}}
''')
    return text, {"n": n, "groups": groups, "mults": mults, "shifts": shifts, "m": m_attr, "launch": dict(lp),
                  "default_barrier": int(acc.generate_acc_op().barrier.value.data)}


def run_case(text, info):
    from snaxc.transforms.convert_accfg_to_csr import ConvertAccfgToCsrPass
    mod = accir.parse(text)
    B.name_all_values(mod)
    names = accir.Names()
    progs = accir.convert_module(mod, names)
    decl = B.read_amap(mod, names)
    hn = B.HintNames(names)
    c = {"before_text": accir.print_module(mod), "prog": progs["f"], "decl": decl, "names": names, "info": info}
    try:
        ConvertAccfgToCsrPass().apply(accir.xctx(), mod)
        mod.verify()
        f = [op for op in mod.body.block.ops if op.name == "func.func" and op.body.blocks][0]
        c["after"], _ = B.read_block(f.body.block, hn)
        c["after_text"] = accir.print_module(mod)
    except Exception as e:
        c["error"] = f"{type(e).__name__}: {e}"[:300]
    return c


def direct_check(c):
    """L2 on the implementation: launch registers receive the launch values."""
    d = c["decl"]["snax_gemmx"]
    la = dict(d["launch"])
    val_id = {}
    for s in c["prog"]["body"]:
        if s["op"] == "launch":
            inv = {v: k for k, v in c["names"].fields.items()}
            for f, v in s["fields"]:
                val_id[inv[f]] = v
    fails = []
    for reg in ("launch_streamer", "launch_gemmx"):
        ws = [s["val"] for s in c["after"] if s["op"] == "write" and s["addr"] == la[reg]]
        want = ["ref", val_id[reg]]
        n_want = 1 if reg == "launch_streamer" else c["info"]["groups"]
        if ws != [want] * n_want:
            fails.append({"register": reg, "addr": la[reg], "written": ws, "expected": [want] * n_want})
    return fails


_CACHE = {}


def _run(ctx):
    if "r" in _CACHE:
        return _CACHE["r"]
    rng = ctx.rng
    cases = []
    for _ in range(ctx.n(8, 200)):
        text, info = gen_case(rng)
        cases.append(run_case(text, info))
    lits = []
    idx = []
    for i, c in enumerate(cases):
        if "after" not in c:
            continue
        names = c["names"]
        fid = lambda k: f"{names.field(k)}%nat"
        info = c["info"]
        am = B.coq_amap(c["decl"], names)
        nsh = (info["n"] + 3) // 4
        g = (f"(mkGx {zlit(info['n'])} {fid('M')} {fid('temporal_loop_bound')} " +
             coqlist(fid(f"shift_{j}") for j in range(nsh)) + " " + coqlist(fid(f"mult_{j}") for j in range(info["n"])) +
             f" {fid('launch_gemmx')} {fid('launch_streamer')} {zlit(info['default_barrier'])})")
        setup = [s for s in c["prog"]["body"] if s["op"] == "setup"][0]
        launch = [s for s in c["prog"]["body"] if s["op"] == "launch"][0]
        fv = lambda fs: coqlist(f"({f}%nat, {v}%nat)" for f, v in fs)
        lits.append(f"({am}, {g}, {fv(setup['fields'])}, {fv(launch['fields'])}, {zlit(info['m'])}, {accir.zlist(info['mults'])}, "
                    f"{accir.zlist(info['shifts'])}, {B.cblock_to_coq(c['after'])})")
        idx.append(i)
    t = PRELUDE
    t += ("Definition cs : list (amapT * gx * list (field * val) * list (field * val) * Z * list Z * list Z * cblock) := "
          + coqlist(lits) + ".\n")
    t += ("Eval vm_compute in failing (fun c : amapT * gx * list (field * val) * list (field * val) * Z * list Z * list Z * cblock => "
          "match c with (am, g, sf, lf, m, mu, sh, rb) => match am with ai :: _ => "
          "match lower_setup [] ai sf, gemmx_launch_special g ai m mu sh lf with "
          "| Some a, Some b => cblock_eqb (a ++ b ++ lower_await ai) rb | _, _ => false end | [] => false end end) cs.\n")
    ok, out = vlib.coq_eval("c04g", t, timeout=600)
    lists = vlib.parse_all_eval_lists(out)
    bad = [idx[k] for k in lists[0]] if ok and len(lists) == 1 else None
    _CACHE["r"] = (cases, bad, out)
    return _CACHE["r"]


def _view(c):
    return {k: c.get(k) for k in ("before_text", "after_text", "error", "info") if c.get(k) is not None}


def correspondence_G(ctx):
    cases, bad, out = _run(ctx)
    dis = []
    if bad is None:
        return [{"name": "L1:gemmx-launch:cases-file", "detail": out[-1500:]}]
    for c in cases:
        ctx.count({"L1": "gemmx-launch", "groups": c["info"]["groups"], "m": c["info"]["m"]}, c["info"]["groups"] > 1,
                  "G" + c["before_text"], "gemmx-launch")
        if "error" in c:
            dis.append(dict(name="L1:gemmx-launch:pass-raises", **_view(c)))
    for i in bad:
        dis.append(dict(name="L1:gemmx-launch", **_view(cases[i])))
    return dis


def search_G(ctx, deep):
    cases, _, _ = _run(ctx)
    fails = []
    for c in cases:
        if "after" in c:
            for d in direct_check(c):
                fails.append({"part": "G", "what": "launch_register_gets_other_value", "kind": "gemmx-channelwise", "klass": None,
                              "detail": d, "case": _view(c)})
    return fails


def replay(ctx, f):
    case = f["case"]
    print("--- program\n" + case["before_text"])
    c = run_case(case["before_text"], case["info"])
    if "after_text" in c:
        print("--- after\n" + c["after_text"])
    res = direct_check(c) if "after" in c else [c.get("error")]
    for r in res:
        print("FAIL", r)
    return 1 if res else 0
