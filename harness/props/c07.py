"""C07 — assumed accelerator state is always a subset of the real state.

(H) hand models coq/Model/AccInfer.v of snaxc/inference/trace_acc_state.py (infer_state_of /
state_intersection / loop head+result rules) and coq/Model/AccWeave.v of _weave_states_in_region /
has_accfg_effects / calc_if_state_delta / find_existing_block_arg, tied by L1: weave(before) ==
real accfg-trace-states output modulo renaming of SSA values; the model's table == the real
infer_state_of dictionaries (exact, incl. dict order) on every state value of every generated
program after the real accfg-trace-states, AND the decidable certificate wf_prog (the
hypothesis of theorem C07_certified_inference_sound) holds for the real table on the real output.
L2 (property on the implementation, no model): the real woven IR is executed on the Coq machine
with the REAL tables as ghost assertions (chk_prog) for sampled runtime inputs, and the woven
program must have the trace of the un-woven one.
"""
from __future__ import annotations

import json

import vlib

import acc_common as AC
import accir

PROPERTY = "C07"
MODEL_TARGETS = ["Model/AccInfer.vo", "Model/AccWeave.vo", "Model/AccInferTy.vo"]
HEADER_W = "From Snax Require Import Base.Prelude Model.AccIR Model.AccSem Model.AccInfer Model.AccInferTy Model.AccDedup Model.AccWeave.\n"
RULE = ("functions in lowering form: 1-2 accelerators x 1-3 fields, full-field setup+launch+await triples with "
        "values from arguments/constants/loop-derived arithmetic, scf.for (runtime lb/ub/step) and scf.if "
        "(runtime or loop-derived condition, with/without else) nested to depth 3, func.call with/without "
        "accfg.effects<none> at every depth, optionally pre-threaded `from` states and launch fields; runtime "
        "inputs give trip counts 0-4, lb != 0, step > 1, both branch outcomes; a case is non-trivial when the "
        "program has a loop or an if and at least one state value with a non-empty inferred dictionary; "
        "distinct = distinct program texts; plus ops annotated accfg.effects<full>, and (L2) accfg-trace-states "
        "re-run on its own fully threaded output")
TRUSTED_BASE = [
    "Coq 8.16.1 kernel + vm_compute (no native_compute)",
    "abstract machine coq/Model/AccSem.v (the specification of what a launch observes) and the certificate wf/chk of coq/Model/AccInfer.v",
    "harness/accir.py (structural xDSL -> abstract IR converter, own computation of the effects flag), harness/acc_common.py, this plugin",
    "harness/xdsl_compat.py; xDSL 0.70 parser/rewriter/is_side_effect_free",
]
ASSUMPTIONS = [
    "the theorem is about tables that pass the decidable certificate wf_prog; that the table of the real infer_state_of "
    "passes it on the real accfg-trace-states output is checked per generated program (L1), not proved for all programs",
    "the model weave (coq/Model/AccWeave.v) of _weave_states_in_region is tied to the code by exact comparison modulo renaming (L1); that its output always passes wf_prog / has the input's trace is validated per run, not proved",
    "ops with regions other than scf.for/scf.if, and accfg.effects on scf ops, are outside the abstract IR (converter rejects them): "
    "the `elif op.regions` branch of _weave_states_in_region (third hunk of fix 9e575e1) is covered by no model, L1 or L2",
    "cert_side of the woven program is evaluated per run, not proved for the weave model; on re-threaded IR (an scf.if that already has a "
    "state result) it is false (C07_rethreaded_if_refuted) and only the per-run ghost execution of L2 speaks about soundness there",
    "the inferred dictionaries are compared as dictionaries (key order of infer_state_of is not observable by its two users)",
    "integers are mathematical (no wrap-around); opaque calls may rewrite every register of every accelerator (oracle)",
]


def _cfg(rng, i):
    c = accir.GenCfg()
    if i % 4 == 1:
        c.threaded = True
    if i % 4 == 2:
        c.launch_fields = True
    if i % 5 == 3:
        c.p_call = 0.3
        c.p_noeff = 0.3
    if i % 7 == 0:
        c.max_items = 6
    if i % 4 == 3:
        c.p_prethreaded = 0.6     # hand-threaded loops followed by un-threaded code
    if i % 3 == 0:
        c.p_repeat = 0.5
        c.n_vals = 2
    if i % 5 == 4:
        c.p_call = 0.3
        c.p_efffull = 0.4         # ops annotated accfg.effects<full> (non-call "test.op" / func.call) clobber too
    return c


def _gen(ctx, n, tag):
    out = []
    for i in range(n):
        text, info = accir.gen_module(ctx.rng, _cfg(ctx.rng, i))
        st = AC.Staged(text)
        ins = [accir.gen_inputs(ctx.rng, info) for _ in range(2)]
        ins.append(accir.gen_inputs(ctx.rng, info, "zero"))
        ins.append(accir.gen_inputs(ctx.rng, info, "many"))
        out.append((text, info, st, ins))
        nt = (info["loops"] + info["ifs"] > 0) and st.table is not None and any(d for _, d in st.table)
        ctx.count({"stage": tag, "loops": info["loops"], "ifs": info["ifs"],
                   "states": None if st.table is None else len(st.table), "text_head": text[:160]},
                  nt, tag + text, tag + ("+loop" if info["loops"] else "") + ("+if" if info["ifs"] else ""))
    return out


_SUSPECTS: list = []


# ---------------------------------------------------------------- L1
def correspondence(ctx):
    progs = _gen(ctx, ctx.n(60, 1000), "L1")
    dis = []
    cases, meta = [], []
    for text, info, st, ins in progs:
        if st.error:
            if st.error[0] == "crash":
                dis.append({"name": "L1:pass-crash", "text": text, "error": st.error[1]})
            continue
        cases.append(f"({accir.to_coq(st.traced)}, {AC.tbl_coq(st.table)}, {accir.to_coq(st.before)})")
        meta.append(text)
    shards = AC.shard(list(zip(cases, meta)), 8)
    texts = []
    for sh in shards:
        texts.append(HEADER_W + f"Definition cases : list (prog * tbl * prog) := {accir._l(c for c, _ in sh)}.\n"
                     "Definition astate_same (a b : astate) : bool := Nat.eqb (length a) (length b) && st_sub a b && st_sub b a.\n"
                     "Eval vm_compute in failing (fun c => match c with (p, t, b) => forallb (fun s => astate_same (tlook (ainfer p) s) (tlook t s)) (map fst t) end) cases.\n"
                     "Eval vm_compute in failing (fun c => match c with (p, t, b) => wf_prog (tfun t) p end) cases.\n"
                     "Eval vm_compute in failing (fun c => match c with (p, t, b) => weave_ok b p end) cases.\n"
                     "Eval vm_compute in failing (fun c => match c with (p, t, b) => cert_side p end) cases.\n")
    res = vlib.coq_eval_many("c07l1_", texts, timeout=900)
    for sh, (ok, out) in zip(shards, res):
        lists = vlib.parse_all_eval_lists(out)
        if not ok or len(lists) != 4:
            dis.append({"name": "L1:cases-file", "detail": out[-1500:]})
            continue
        for idx in lists[3]:
            dis.append({"name": "L1:cert_side-fails(hypothesis of C07_model_inference_sound: well-threaded, typed per accelerator, unique state definitions, SSA scoping)", "text": sh[idx][1]})
        for idx in lists[0]:
            dis.append({"name": "L1:infer_state_of-vs-ainfer", "text": sh[idx][1]})
        for idx in lists[1]:
            dis.append({"name": "L1:real-table-not-certified(wf_prog)", "text": sh[idx][1]})
        for idx in lists[2]:
            dis.append({"name": "L1:_weave_states_in_region-vs-weave", "text": sh[idx][1]})
    # programs on which model and code disagree are searched first (with more inputs) by L2
    infos = {text: info for (text, info, st, ins) in progs}
    _SUSPECTS[:] = [(d["text"], infos[d["text"]]) for d in dis if d.get("text") in infos][:24]
    return dis


# ---------------------------------------------------------------- L2
F42 = "prethreaded_if"


def _has_state_if(text, fn):
    """class of known finding F42, evaluated on the INPUT text (the pass crashed, so there is no staged program):
    some scf.if of the function already has a !accfg.state result.  Same predicate as Coq's prethreaded_if."""
    try:
        from xdsl.dialects import scf
        from snaxc.dialects import accfg
        f = AC.find_func(accir.parse(text), fn)
        return any(isinstance(op, scf.IfOp) and any(isinstance(r.type, accfg.StateType) for r in op.results)
                   for op in f.walk())
    except Exception:
        return False


def _l2_cases(items):
    """items: (text, st, ins). Returns failures via Coq: ghost check + trace equality before/woven."""
    fails = []
    live = [(t, st, ins) for (t, st, ins) in items if not st.error]
    for t, st, ins in items:
        if st.error and st.error[0] == "crash":
            # F42: only the verifier error of the misaligned scf.for on an input that already has an scf.if state result
            k = F42 if ("Body block must have induction and loop-carried variables" in st.error[1]
                        and _has_state_if(t, st.fn)) else None
            fails.append({"what": "pass-crash" + ("(re-run on threaded IR)" if k else ""), "text": t, "fn": st.fn,
                          "error": st.error[1], "klass": k})
    shards = AC.shard(live, 8)
    texts = []
    for sh in shards:
        cs = [f"({accir.to_coq(st.before)}, {accir.to_coq(st.traced)}, {AC.tbl_coq(st.table)}, "
              f"{accir._l(accir.zlist(x) for x in ins)})" for (_, st, ins) in sh]
        texts.append(AC.HEADER + f"Definition cases : list (prog * prog * tbl * list (list Z)) := {accir._l(cs)}.\n"
                     "Definition ghost_ok (c : prog * prog * tbl * list (list Z)) := match c with (p0, p1, t, ins) =>\n"
                     "  forallb (fun a => forallb (fun sd => match chk_prog (tfun t) (test_oracle sd) p1 a with [] => true | _ => false end) [1]) ins end.\n"
                     "Definition trace_ok (c : prog * prog * tbl * list (list Z)) := match c with (p0, p1, t, ins) =>\n"
                     "  forallb (fun a => trace_sim_b (run (test_oracle 1) p0 a) (run (test_oracle 1) p1 a)) ins end.\n"
                     "Eval vm_compute in failing ghost_ok cases.\nEval vm_compute in failing trace_ok cases.\n")
    res = vlib.coq_eval_many("c07l2_", texts, timeout=900)
    for sh, (ok, out) in zip(shards, res):
        lists = vlib.parse_all_eval_lists(out)
        if not ok or len(lists) != 2:
            fails.append({"what": "cases-file", "detail": out[-1500:], "klass": None})
            continue
        for idx in lists[0]:
            fails.append(_witness(sh[idx], "assumed-state-contradicted"))
        for idx in lists[1]:
            fails.append(_witness(sh[idx], "weaving-changed-trace"))
    return fails


def _witness(item, what):
    """A failing program with its inputs; the explanation (per-input Coq output) is added lazily
    for the failures that are reported (see search)."""
    text, st, ins = item
    return {"what": what, "text": text, "fn": st.fn, "inputs": ins, "_st": st, "klass": None}


def _explain(st, ins):
    src = (AC.HEADER + f"Definition p0 := {accir.to_coq(st.before)}.\nDefinition p1 := {accir.to_coq(st.traced)}.\n"
           f"Definition t := {AC.tbl_coq(st.table)}.\nDefinition ins := {accir._l(accir.zlist(x) for x in ins)}.\n"
           "Eval vm_compute in map (fun a => chk_prog (tfun t) (test_oracle 1) p1 a) ins.\n"
           "Eval vm_compute in map (fun a => trace_sim_b (run (test_oracle 1) p0 a) (run (test_oracle 1) p1 a)) ins.\n"
           "Eval vm_compute in map (fun a => map show_event (run (test_oracle 1) p1 a)) ins.\n")
    ok, out = vlib.coq_eval("c07x", src)
    inv = {v: k for k, v in st.names.val_names.items()}
    return {"coq_output": out[-3000:], "value_names": {str(k): v for k, v in st.names.val_names.items()},
            "fields": st.names.fields, "real_table": st.table, "woven_ir": getattr(st, "traced_text", "")}


def search(ctx, deep=False):
    n = ctx.n(56, 800) * (3 if deep else 1)
    progs = _gen(ctx, n, "L2")
    items = []
    # the design-phase probes are part of every search
    for path, fn, ins in PROBES:
        items.append((open(path).read(), AC.Staged(open(path).read(), fn), ins))
        ctx.count({"probe": path, "fn": fn}, True, path + fn, "probe")
    for text, info in _SUSPECTS:
        ins = [accir.gen_inputs(ctx.rng, info, sty) for sty in (None, None, None, None, "one", "many", "many", "zero")]
        items.append((text, AC.Staged(text), ins))
    items += [(t, st, ins) for (t, info, st, ins) in progs]
    # accfg-trace-states re-run on its own output (fully threaded IR): the certificate does not apply when an scf.if
    # already has a state result (C07_rethreaded_if_refuted), so the real tables are executed as ghost assertions and
    # the trace is compared here; every 3rd program with an scf.if / a loop
    k = 0
    for (t, info, st, ins) in progs:
        if st.error or not (info["ifs"] or info["loops"]):
            continue
        k += 1
        if k % 3 == 0:
            st2 = AC.Staged(st.traced_text)
            items.append((st.traced_text, st2, ins))
            ctx.count({"rerun": t[:120]}, True, "rerun" + t, "rerun" + ("-crash" if st2.error else ""))
    fails = _l2_cases(items)
    seen, out = set(), []
    # report a semantic failure (concrete runtime input) before loud failures of the pass
    fails.sort(key=lambda f: 0 if f["what"] == "assumed-state-contradicted" else 1)
    for f in fails:
        if f["what"] not in seen:
            seen.add(f["what"])
            st = f.pop("_st", None)
            if st is not None:
                f["detail"] = _explain(st, f["inputs"])
            out.append(f)
    return out


N = "/verif/notes/"
PROBES = [
    (N + "probe_c07_zero_trip.mlir", "zt", [[7, 9, 0, 0, 1], [7, 9, 0, 1, 1], [7, 9, 2, 7, 2]]),
    (N + "probe_c07_nested_effects.mlir", "ifcall", [[7, 9, 0], [7, 9, 1]]),
    (N + "probe_c07_nested_effects.mlir", "forcall", [[7, 9, 0, 0, 1], [7, 9, 0, 2, 1]]),
    (N + "probe_c07_nested_effects.mlir", "zerotrip", [[7, 9, 11, 0, 0, 1], [7, 9, 11, 0, 2, 1]]),
    (N + "probe_c07_region_op.mlir", "region_cond_setup", [[7, 9, 11, 1, 1], [7, 9, 11, 0, 1], [7, 9, 11, 1, 0]]),
    (N + "probe_c07_region_op.mlir", "region_setup", [[7, 9, 11, 1], [7, 9, 11, 0]]),
    (N + "probe_c07_region_op.mlir", "region_call", [[7, 9, 1], [7, 9, 0]]),
    (N + "probe_c01_two_config_loop.mlir", "two_cfg", [[7, 9, 11, 0, 0, 1], [7, 9, 11, 0, 1, 1], [7, 9, 11, 0, 3, 1]]),
]


def replay_known(ctx, entry):
    w = entry["witness"]
    text = open(w["file"]).read()
    fails = _l2_cases([(text, AC.Staged(text, w["fn"]), w.get("inputs") or [])])
    return any(f.get("klass") == entry["class"] for f in fails)


def replay(ctx, obj):
    f = obj.get("failure")
    if not f or "text" not in f:
        print("no failing input recorded; broken obligations:", json.dumps(obj.get("no_longer_checks"), indent=1)[:3000])
        return 1
    st = AC.Staged(f["text"], f.get("fn", "f"))
    if st.error:
        print("pass failed:", st.error)
        return 1
    print(st.traced_text)
    d = _explain(st, f.get("inputs") or [])
    print(d["coq_output"])
    bad = "false" in d["coq_output"] or any(x.strip() not in ("[]", "") for x in [])
    fails = _l2_cases([(f["text"], st, f.get("inputs") or [])])
    for x in fails:
        print("FAIL", x["what"])
    return 1 if fails else 0
