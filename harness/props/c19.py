"""C19 — canonical forms and alternative representations denote the same object.

Parts (each in harness/props/c19_<part>.py, all driven from here):
  pack    (H) pack_bitlist op DAG                      Model/C19Pack.v
  affine  (T) canonicalize_affine.py                   Gen/CanonAffine.v (translator/py2coq.py) + (H) Model/XdslAffine.v
  stride  (T) StridePattern.canonicalize                Gen/StrideCanon.v + semantics Model/C19Stride.v
  transform (H) AffineTransform, AccessPattern.canonicalize/inner_dims   Model/C19Transform.v
  text    (H) token-level print/parse of both attributes               Model/C19Text.v
  attrs   (L2) StreamerConfigurationAttr / StridePattern print -> parse
Every part exposes  l1_prepare(ctx) -> (coq texts, finish(results) -> [disagreement])   l2(ctx, deep) -> [failure]   replay(ctx, failure) -> [fail].
"""
from __future__ import annotations

import importlib

import vlib

PROPERTY = "C19"
PART_NAMES = ["pack", "affine", "stride", "transform", "attrs", "text"]
MODEL_TARGETS = ["Model/C19Pack.vo", "Model/PyLib.vo", "Model/XdslAffine.vo", "Gen/CanonAffine.vo",
                 "Model/C19Stride.vo", "Gen/StrideCanon.vo", "Model/C19Transform.vo", "Model/C19Text.vo"]
RULE = ("pack: 0-9 (value, offset) pairs, each a Python int (edge values of the width, negative, out of range) or one of 4 "
        "pre-existing SSA values/ops with arbitrary run-time contents, dtype in {8,16,32,64}, length mismatches; non-trivial = "
        ">= 2 fields. affine: random trees of depth <= 4 over d0-d2, s0, constants {0,+-1,2,3,4,5,8,16,-2,-3} and "
        "+,*,floordiv,mod(,ceildiv), raw (arbitrary AffineBinaryOpExpr shapes) and affine-shaped, operands swapped at random; "
        "non-trivial = canonicalisation changes the tree; evaluation on the box [-2,3]^3 x {0,3} and random points in +-1000. "
        "stride: rank 0-6, bounds {0,1,2,3,4,5,8} (negative for L1), strides continuing the previous (kept) dimension, zero, "
        "negative or random, spatial strides incl. 0 and negative; non-trivial = >= 2 non-unit bounds. transform: maps with 0-4 dims / 0-3 "
        "results (pure affine incl. nested constant products, non-linear, div/mod, symbols, out-of-range dims), matrices over "
        "{0,+-1,2,3,8,-4,16} incl. empty shapes, shape mismatches, access bounds {None,0,1,2,3,4,8}. attrs: 1-5 streamers, "
        "0-6 temporal flags, 0-3 spatial dims, option subsets in any order (a c bm b and the 7 xDMA extension names of "
        "STREAMER_OPT_MAP), xDMA system type")
TRUSTED_BASE = [
    "Coq 8.16.1 kernel + vm_compute (no native_compute)",
    "translator/py2coq.py + translator/specs/{canonicalize_affine,stride_pattern}.py (meaning of the Python subset; views of xDSL classes)",
    "hand models coq/Model/XdslAffine.v (xDSL 0.70 AffineExpr smart constructors; L1 each run), C19Pack.v, C19Transform.v, C19Stride.v (pattern semantics), C19Text.v (token-level printer/parser), PyLib.v",
    "harness/props/c19*.py generators, xDSL/numpy -> Coq literal converters, the Python interpreter of arith ops and the address enumerator used by L2",
    "xDSL 0.70 (AffineExpr, AffineMap.eval, arith ops, IntegerAttr normalisation, Parser/Printer), numpy, harness/xdsl_compat.py",
]
ASSUMPTIONS = [
    "theorems about canonicalize_expr are partial-correctness statements (result = Some r): termination is not proved (budget monotonicity and budget irrelevance are)",
    "eval totalises x // 0 and x % 0 (Z.div/Z.modulo by 0); dims/symbols are total functions of the position",
    "stride patterns: upper bounds >= 0 (refuted for two negative bounds, Example in Props/C19.v); index 0 is the innermost loop",
    "from_affine_map/to_affine_map round trip: results are pure affine (is_affine); refuted for a raw product of two dimensions",
    "AffineTransform matrices are lists over Z: numpy int64 wrap-around is not modelled; an empty batch carries no width; AccessPattern.canonicalize is onto only for static bounds >= 1 (a bound 0 is dropped, Example in Props/C19.v); PatternCollection.canonicalize/inner_dims (map over patterns) not modelled",
    "arith.shli is modelled as shift in Z followed by truncation to w bits (a shift amount >= w gives 0; MLIR: poison)",
    "print/parse is modelled at token level (Model/C19Text.v): xDSL's lexer is trusted; enum values spelled as string literals are not modelled; spatial dims >= 0 (the parser rejects negative ones); streamer options = the 11 parameterless classes of STREAMER_OPT_MAP (the L2 search reports a changed key set)",
]
ALLOWED_AXIOMS: list[str] = []


def _parts():
    return [importlib.import_module(f"props.c19_{p}") for p in PART_NAMES]


def generate(ctx):
    for p in _parts():
        if hasattr(p, "generate"):
            p.generate(ctx)


def correspondence(ctx):
    """every part prepares its Coq cases files; all files are compiled in parallel; every part reads its results"""
    texts, plan = [], []
    for p in _parts():
        t, finish = p.l1_prepare(ctx)
        plan.append((p, len(texts), len(t), finish))
        texts += t
    results = vlib.coq_eval_many("c19_", texts, timeout=900, par=8)
    dis = []
    for (p, off, n, finish) in plan:
        dis += finish(results[off:off + n]) or []
    return dis


def search(ctx, deep=False):
    import traceback
    fails, crashes = [], []
    for p in _parts():
        try:
            fails += p.l2(ctx, deep) or []
        except Exception:          # keep searching in the other parts; a crash alone is still reported (fail-closed)
            crashes.append({"part": p.PART, "what": "L2 search crashed", "input": None,
                            "detail": traceback.format_exc()[-1500:], "klass": None})
    if crashes and not [f for f in fails if f.get("klass") is None]:
        fails += crashes
    # keep one failure per (part, what, klass); unknown-class failures first
    seen, out = set(), []
    for f in sorted(fails, key=lambda f: f.get("klass") is not None):
        k = (f.get("part"), f.get("what"), f.get("klass"))
        if k not in seen:
            seen.add(k)
            out.append(f)
    return out


def _part_of(name):
    for p in _parts():
        if p.PART == name:
            return p
    raise KeyError(name)


def replay_known(ctx, entry):
    p = _part_of(entry["witness"]["part"])
    return p.replay_known(ctx, entry)


def replay(ctx, obj):
    f = obj.get("failure")
    if not f:
        print("no failing input recorded; broken obligations:", obj.get("no_longer_checks"))
        return 1
    res = _part_of(f["part"]).replay(ctx, f)
    return 1 if res else 0
