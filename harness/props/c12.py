"""C12 — materialised casts deliver the right data to every consumer.

(H) hand models coq/Model/C12Const.v (transpose_tuple, transform_constant) and coq/Model/C12Casts.v
(RealizeMemrefCasts on a block-structured use-list program; set-memory-space at type level).
L1: (a) transform_constant / transpose_tuple of the real code on generated layouts and contents vs the
    model (element lists); (b) the real passes `set-memory-space` then `realize-memref-casts` are run
    in-process on generated functions; the IR before and after realize is converted (structurally) to the
    abstract program and `canon (realize_all before)` is compared with `canon after` inside Coq;
    (c) memory spaces after set-memory-space vs the type-level model.
L2: the property on the implementation: (a) new[addr_L idx] = old[row-major idx] on the real transformed
    constant; (b) symbolic buffer-contents execution of the real before/after programs (trip counts 0-2):
    same observation trace of every operation and same final contents of the function's buffers;
    (c) every linalg operand in L1 / signature in L3 after set-memory-space.
"""
from __future__ import annotations

import itertools

import vlib
from vlib import coqlist, optz, zlist, zlit

PROPERTY = "C12"
MODEL_TARGETS = ["Model/C12Const.vo", "Model/C12Casts.vo"]
RULE = ("constants: dense TSL layouts of rank 1-3 / depth 1-3 (bounds 1,2,3,4; lattice steps in a random order), "
        "non-dense and dynamic variants, element types i8/i16/i32, random contents; transpose_tuple on random "
        "rows x cols; programs: public functions with 2-4 memref arguments and optional allocations, 1-6 operations "
        "(linalg.generic with 0-2 inputs and one or two outputs, each plain / accumulating / in-place, memref.copy as an "
        "opaque user), optionally inside scf.for loops, optionally returning an allocation or an argument (the L1->L3 "
        "cast HandleFuncReturns inserts is realised by a copy before func.return), memory spaces assigned by the real set-memory-space (shared casts "
        "per operand) or written explicitly as chains memory_space_cast -> layout_cast with several users; "
        "non-trivial = at least one cast realised with a copy; distinct = distinct program texts / (layout, data)")
TRUSTED_BASE = [
    "Coq 8.16.1 kernel + vm_compute (no native_compute)",
    "hand models coq/Model/C12Const.v, coq/Model/C12Casts.v (tied by L1 each run); Model/Tsl.v (C10) for is_dense",
    "harness/props/c12.py: program generator, structural converter xDSL IR -> abstract items (op kinds from "
    "ins/outs membership and use of the output block argument), symbolic buffer-contents interpreter used by L2, "
    "canonical renaming of the real output; xdsl_compat shim; xDSL 0.70; numpy",
    "semantics of the abstract machine: an operation observes the whole contents of what it reads and replaces "
    "the whole contents of what it writes (no partial writes); casts alias their source in the original program",
]
ASSUMPTIONS = [
    "realize_coherent is proved for one application of the repaired RealizeMemrefCasts on a flat block (uses of the "
    "cast directly in the block, no loops inside the block, no other name of the source buffer used in the block) in "
    "any state and for any order of users; nested uses and whole-pass behaviour are covered by correspondence and search",
    "transform_constant is modelled at element granularity; dense => mixed_radix_sorted is proved for positive steps "
    "(C12_dense_mixed_radix_sorted) and still checked on every generated layout",
    "numpy argsort is stable on the short arrays that occur (insertion sort below 17 elements)",
    "dynamic shapes and dart operations are outside the model (IR generator does not emit them); globals read through subviews: L2 probe on the real pass only, no Coq model",
]

CLASS_ORDER = "output_use_before_first_input_use"
CLASS_ACC = "accumulating_output_not_input"
CLASS_SCOPE = "shared_cast_not_dominating"
CLASS_WINDOW = "foreign_access_in_window"
CLASS_NESTED = "copy_out_inside_loop"
CLASS_NESTED_IN = "copy_in_inside_loop"


def _prod(xs):
    r = 1
    for x in xs:
        r *= x
    return r


# ==========================================================================================
# (i) constants
# ==========================================================================================
def gen_dense_layout(rng):
    rank = rng.choice([1, 2, 2, 3])
    depths = [rng.choice([1, 2, 2, 3]) for _ in range(rank)]
    bounds = [[rng.choice([1, 2, 2, 3, 4]) for _ in range(d)] for d in depths]
    pos = [(d, k) for d in range(rank) for k in range(depths[d])]
    order = list(pos)
    rng.shuffle(order)
    steps, cur = {}, 1
    mode = rng.choice(["dense", "dense", "dense", "dense", "gap", "dyn", "unit"])
    for p in order:
        steps[p] = cur
        cur *= bounds[p[0]][p[1]]
        if mode == "gap" and rng.random() < 0.4:
            cur += 1
    if mode == "unit":
        for p in pos:
            if bounds[p[0]][p[1]] == 1:
                steps[p] = rng.choice([1, 3, 7, 100])
    ts = [[(steps[(d, k)], bounds[d][k]) for k in range(depths[d])] for d in range(rank)]
    if mode == "dyn":
        d = rng.randrange(rank)
        ts[d][0] = (None, None)
    return ts, mode


def _mk_layout(ts):
    from snaxc.ir.tsl import Stride, TiledStride, TiledStridedLayout
    return TiledStridedLayout([TiledStride([Stride(s, b) for (s, b) in t]) for t in ts], offset=0)


def real_transform_constant(ts, bits, values):
    """Returns the new element list or None."""
    import warnings
    from xdsl.dialects import builtin
    from snaxc.dialects.tsl import TiledStridedLayoutAttr
    from snaxc.transforms.realize_memref_casts import transform_constant
    shape = [_prod((b if b is not None else 1) for (_, b) in t) for t in ts]
    ty = builtin.MemRefType(builtin.IntegerType(bits), shape)
    src = builtin.DenseIntOrFPElementsAttr.from_list(ty, values)
    with warnings.catch_warnings():
        warnings.simplefilter("ignore")
        new = transform_constant(src, TiledStridedLayoutAttr(_mk_layout(ts)))
    if new is None:
        return None
    return [int(x) for x in new.get_values()]


def coq_stride(sb):
    return f"({optz(sb[0])}, {optz(sb[1])})"


def coq_layout(ts, off=0):
    return "(mkLayout " + coqlist(coqlist(coq_stride(sb) for sb in t) for t in ts) + " " + optz(off) + ")"


def _digits(x, bounds):
    ds = []
    for j in range(len(bounds)):
        inner = _prod(bounds[j + 1:])
        ds.append((x // inner) % bounds[j])
    return ds


def check_constant(ts, bits, values):
    """L2: new[addr_L idx] == old[row_major idx] on the real output."""
    try:
        new = real_transform_constant(ts, bits, values)
    except Exception as e:
        return [("transform_constant-raised", {"error": repr(e)[:200]})]
    if new is None:
        return []
    shape = [_prod(b for (_, b) in t) for t in ts]
    for idx in itertools.product(*[range(s) for s in shape]):
        rm = 0
        for x, s in zip(idx, shape):
            rm = rm * s + x
        addr = 0
        for t, x in zip(ts, idx):
            for (st, _), dg in zip(t, _digits(x, [b for (_, b) in t])):
                addr += st * dg
        if not (0 <= addr < len(new)) or new[addr] != values[rm]:
            return [("constant-element", {"idx": list(idx), "addr": addr, "expected": values[rm],
                                          "got": new[addr] if 0 <= addr < len(new) else None})]
    return []


# ==========================================================================================
# (ii) programs
# ==========================================================================================
MT = "memref<16xi32>"


def gen_program(rng):
    """A program description: nargs, nallocs, body = list of statements
    ("gen", ins, out, mode) | ("copy", a, b) | ("for", n, body); values are names."""
    nargs = rng.choice([2, 2, 3, 4])
    nallocs = rng.choice([0, 0, 1])
    vals = [f"%a{i}" for i in range(nargs)] + [f"%m{i}" for i in range(nallocs)]
    style = rng.choice(["plain", "plain", "explicit"])
    # few distinct values => several users per cast
    pool = rng.sample(vals, k=min(len(vals), rng.choice([1, 2, 2, 3])))

    def stmts(depth, n):
        out = []
        for _ in range(n):
            r = rng.random()
            if r < 0.12 and depth < 2:
                inner = stmts(depth + 1, rng.choice([1, 2, 3]))
                if not inner:       # an empty scf.for is erased by the rewriter's dead-code elimination
                    inner = [("gen", [], rng.choice(pool), "plain")]
                out.append(("for", rng.choice([0, 1, 2, 3]), inner))
            elif r < 0.2:
                a, b = rng.choice(vals), rng.choice(vals)
                if a != b:
                    out.append(("copy", a, b))
            else:
                o = rng.choice(pool)
                nin = rng.choice([0, 1, 1, 2])
                ins = [rng.choice(pool if rng.random() < 0.7 else vals) for _ in range(nin)]
                mode = rng.choice(["plain", "plain", "plain", "acc"]) if ins or rng.random() < 0.3 else "plain"
                if len(vals) > 1 and rng.random() < 0.15:
                    # two outputs (distinct buffers), each plain or accumulating
                    o2 = rng.choice([v for v in vals if v != o])
                    out.append(("gen2", ins, [o, o2], [mode, rng.choice(["plain", "acc"])]))
                else:
                    out.append(("gen", ins, o, mode))
        return out

    body = stmts(0, rng.choice([1, 2, 3, 4, 5, 6]))
    # a returned memref (plain style only: set-memory-space tags the result L3 and HandleFuncReturns casts an
    # L1 allocation to it; that cast is realised by an L3 allocation filled before func.return)
    ret = None
    if style == "plain" and rng.random() < 0.25:
        ret = rng.choice(vals)
    p = {"nargs": nargs, "nallocs": nallocs, "body": body, "style": style, "chain": rng.random() < 0.5}
    if ret is not None:
        p["ret"] = ret
    return p


def _generic(ins, out, mode, ty_of):
    """out / mode: one output and its mode, or equally long lists of outputs and modes."""
    outs = out if isinstance(out, list) else [out]
    modes = mode if isinstance(mode, list) else [mode]
    n, m = len(ins), len(outs)
    maps = ", ".join(["affine_map<(i) -> (i)>"] * (n + m))
    ins_s = ""
    if n:
        ins_s = "ins(" + ", ".join(ins) + " : " + ", ".join(ty_of(v) for v in ins) + ") "
    onames = ["%o"] if m == 1 else [f"%o{j}" for j in range(m)]
    args = ", ".join([f"%x{k} : i32" for k in range(n)] + [f"{o} : i32" for o in onames])
    body, ys = "", []
    for j, (o, md) in enumerate(zip(onames, modes)):
        sfx = "" if m == 1 else str(j)
        if md == "acc":
            first = "%x0" if n else o
            body += f"    %sc{sfx} = arith.addi {first}, {o} : i32\n"
            ys.append(f"%sc{sfx}")
        elif n:
            ys.append("%x0")
        else:
            body += f"    %kc{sfx} = arith.constant 7 : i32\n"
            ys.append(f"%kc{sfx}")
    body += "    linalg.yield " + ", ".join(ys) + " : " + ", ".join(["i32"] * m) + "\n"
    return (f'  linalg.generic {{indexing_maps = [{maps}], iterator_types = ["parallel"]}} {ins_s}'
            f"outs({', '.join(outs)} : {', '.join(ty_of(v) for v in outs)}) {{\n  ^bb0({args}):\n{body}  }}\n")


def program_text(p):
    """MLIR text.  style plain: no memory spaces (set-memory-space assigns them).
    style explicit: arguments in L3, every used value goes through an explicit cast chain to L1
    (memory_space_cast, optionally followed by a layout_cast), shared by all its users."""
    nargs, nallocs = p["nargs"], p["nallocs"]
    explicit = p["style"] == "explicit"
    l3 = 'memref<16xi32, "L3">'
    l1 = 'memref<16xi32, "L1">'
    l1s = 'memref<16xi32, strided<[1]>, "L1">'
    aty = l3 if explicit else MT
    head = ", ".join(f"%a{i} : {aty}" for i in range(nargs))
    ret = p.get("ret")
    lines = [f"func.func public @f({head}){' -> ' + MT if ret else ''} {{\n"]
    lines.append("  %c0 = arith.constant 0 : index\n  %c1 = arith.constant 1 : index\n")
    for i in range(nallocs):
        t = l1 if explicit else MT
        lines.append(f'  %m{i} = "memref.alloc"() <{{operandSegmentSizes = array<i32: 0, 0>}}> : () -> {t}\n')
    types = {}
    for i in range(nargs):
        types[f"%a{i}"] = aty
    for i in range(nallocs):
        types[f"%m{i}"] = l1 if explicit else MT
    alias = {}
    if explicit:
        used = []

        def collect(body):
            for s in body:
                if s[0] in ("gen", "gen2"):
                    for v in list(s[1]) + (list(s[2]) if s[0] == "gen2" else [s[2]]):
                        if v not in used:
                            used.append(v)
                elif s[0] == "for":
                    collect(s[2])
        collect(p["body"])
        for k, v in enumerate(used):
            if types[v] == l3:
                lines.append(f'  %k{k} = "memref.memory_space_cast"({v}) : ({l3}) -> {l1}\n')
                cur, ct = f"%k{k}", l1
                if p["chain"] and k % 2 == 0:
                    lines.append(f'  %l{k} = "snax.layout_cast"({cur}) : ({l1}) -> {l1s}\n')
                    cur, ct = f"%l{k}", l1s
                alias[v] = cur
                types[cur] = ct
    cnt = [0]

    def emit(body, ind):
        for s in body:
            if s[0] in ("gen", "gen2"):
                ins = [alias.get(v, v) for v in s[1]]
                out = [alias.get(v, v) for v in s[2]] if s[0] == "gen2" else alias.get(s[2], s[2])
                lines.append(_generic(ins, out, s[3], lambda v: types[v]).replace("\n  ", "\n  " + ind).replace("  linalg", ind + "  linalg", 1))
            elif s[0] == "copy":
                lines.append(f'{ind}  "memref.copy"({s[1]}, {s[2]}) : ({types[s[1]]}, {types[s[2]]}) -> ()\n')
            else:
                cnt[0] += 1
                lines.append(f"{ind}  %n{cnt[0]} = arith.constant {s[1]} : index\n")
                lines.append(f"{ind}  scf.for %i{cnt[0]} = %c0 to %n{cnt[0]} step %c1 {{\n")
                emit(s[2], ind + "  ")
                lines.append(f"{ind}  }}\n")

    emit(p["body"], "")
    lines.append(f"  func.return {ret} : {MT}\n}}\n" if ret else "  func.return\n}\n")
    return "".join(lines)


_CTX = None


def _xctx():
    global _CTX
    if _CTX is None:
        from snaxc.tools.snax_opt_main import SNAXOptMain
        _CTX = SNAXOptMain(args=[str(vlib.VERIF / "notes" / "probe_c05_equal_valued_strides.mlir")]).ctx
    return _CTX


def parse(text):
    from xdsl.parser import Parser
    return Parser(_xctx(), text).parse_module()


def run_set_memory_space(mod):
    from snaxc.transforms.set_memory_space import SetMemorySpace
    SetMemorySpace().apply(_xctx(), mod)
    mod.verify()


def run_realize(mod):
    from snaxc.transforms.realize_memref_casts import RealizeMemrefCastsPass
    RealizeMemrefCastsPass().apply(_xctx(), mod)
    mod.verify()


class ConvError(Exception):
    pass


class Conv:
    """Structural conversion xDSL IR -> abstract items.  Operation/loop/type ids are stable across the
    before/after conversions of the same module (keyed by the Python object / type text)."""

    def __init__(self):
        self.opid, self.tyid, self.trips = {}, {}, {}

    def _op(self, op):
        return self.opid.setdefault(id(op), len(self.opid))

    def _ty(self, t):
        return self.tyid.setdefault(str(t), len(self.tyid))

    def convert(self, mod):
        fn = [o for o in mod.ops if o.name == "func.func" and o.sym_name.data == "f"][0]
        vals = {}
        for a in fn.body.block.args:
            vals[a] = len(vals)
        nargs = len(vals)

        def val(v):
            return vals.setdefault(v, len(vals))

        def is_memref(v):
            return str(v.type).startswith("memref")

        def block(ops):
            out = []
            for op in ops:
                n = op.name
                if n in ("memref.memory_space_cast", "snax.layout_cast"):
                    s = val(op.operands[0])
                    out.append(("cast", val(op.results[0]), s, self._ty(op.results[0].type), self._ty(op.operands[0].type)))
                elif n == "memref.alloc":
                    out.append(("alloc", val(op.results[0])))
                elif n == "memref.copy":
                    a = val(op.operands[0])
                    out.append(("copy", a, val(op.operands[1])))
                elif n == "linalg.generic":
                    ins, outs = list(op.inputs), list(op.outputs)
                    bargs = op.body.block.args
                    uses, seen = [], []
                    for v in ins + outs:
                        if not is_memref(v) or v in seen:
                            continue
                        seen.append(v)
                        i_in = v in ins
                        i_out = v in outs
                        reads_out = any(len(list(bargs[len(ins) + k].uses)) > 0 for k, o in enumerate(outs) if o is v)
                        if i_in and i_out:
                            k = "KInOut"
                        elif i_in:
                            k = "KIn"
                        else:
                            k = "KOutAcc" if reads_out else "KOut"
                        uses.append((val(v), k))
                    out.append(("op", self._op(op), uses))
                elif n == "func.return":
                    out.append(("op", self._op(op), [(val(v), "KRet") for v in op.operands if is_memref(v)]))
                elif n == "scf.for":
                    lid = self._op(op)
                    ub = op.operands[1].owner
                    self.trips[lid] = ub.value.value.data if ub.name == "arith.constant" else 1
                    out.append(("loop", lid, block(op.body.block.ops)))
                elif n in ("arith.constant", "scf.yield"):
                    pass
                else:
                    mem = [v for v in list(op.operands) + list(op.results) if is_memref(v)]
                    if mem:
                        raise ConvError(f"unexpected op {n} on memrefs")
            return out

        return nargs, block(fn.body.block.ops)


def canon_py(nargs, items):
    m = {k: k for k in range(nargs)}

    def r(v):
        return m.setdefault(v, len(m))

    def go(l):
        out = []
        for it in l:
            if it[0] == "op":
                out.append(("op", it[1], [(r(v), k) for (v, k) in it[2]]))
            elif it[0] == "cast":
                s = r(it[2])
                out.append(("cast", r(it[1]), s, it[3], it[4]))
            elif it[0] == "alloc":
                out.append(("alloc", r(it[1])))
            elif it[0] == "copy":
                a = r(it[1])
                out.append(("copy", a, r(it[2])))
            else:
                out.append(("loop", it[1], go(it[2])))
        return out
    return go(items)


def coq_items(l):
    def nat(n):
        return f"{n}%nat"

    def one(it):
        if it[0] == "op":
            return f"(IOp {nat(it[1])} " + coqlist(f"({nat(v)}, {k})" for (v, k) in it[2]) + ")"
        if it[0] == "cast":
            return f"(ICast {nat(it[1])} {nat(it[2])} {nat(it[3])} {nat(it[4])})"
        if it[0] == "alloc":
            return f"(IAlloc {nat(it[1])})"
        if it[0] == "copy":
            return f"(ICopy {nat(it[1])} {nat(it[2])})"
        return f"(ILoop {nat(it[1])} {coq_items(it[2])})"
    return coqlist(one(x) for x in l)


# ---- symbolic machine (L2) -----------------------------------------------------------------
READS = {"KIn": True, "KOut": False, "KOutAcc": True, "KInOut": True, "KOther": True, "KRet": True}
WRITES = {"KIn": False, "KOut": True, "KOutAcc": True, "KInOut": True, "KOther": True, "KRet": False}


def sym_exec(nargs, items, trips):
    alias, mem, trace = {}, {}, []
    for k in range(nargs):
        alias[k] = ("buf", k)
        mem[("buf", k)] = ("init", k)
    fresh = [0]

    def buf(v):
        if v not in alias:          # a value defined by an op we do not model: its own buffer
            alias[v] = ("buf", v)
            mem[alias[v]] = ("init", v)
        return alias[v]

    def run(l):
        for it in l:
            if it[0] == "op":
                obs = tuple(mem[buf(v)] for (v, k) in it[2] if READS[k])
                trace.append((it[1], obs))
                for j, (v, k) in enumerate([u for u in it[2] if WRITES[u[1]]]):
                    mem[buf(v)] = ("wr", it[1], j, obs)
            elif it[0] == "cast":
                alias[it[1]] = buf(it[2])
            elif it[0] == "alloc":
                fresh[0] += 1
                alias[it[1]] = ("alloc", it[1], fresh[0])
                mem[alias[it[1]]] = ("uninit",)
            elif it[0] == "copy":
                mem[buf(it[2])] = mem[buf(it[1])]
            else:
                for _ in range(trips.get(it[1], 1)):
                    run(it[2])
    run(items)
    return trace, {k: mem[("buf", k)] for k in range(nargs)}


def has_uninit(t):
    if t == ("uninit",):
        return True
    return isinstance(t, tuple) and any(has_uninit(x) for x in t if isinstance(x, tuple))


def check_program(p):
    """Returns (failures, info) where info holds the abstract programs."""
    text = program_text(p)
    mod = parse(text)
    if p["style"] != "explicit":
        run_set_memory_space(mod)
    conv = Conv()
    nargs, before = conv.convert(mod)
    run_realize(mod)
    _, after = conv.convert(mod)
    fails = []
    for scale in (None, 0, 1, 2):
        trips = dict(conv.trips) if scale is None else {k: scale for k in conv.trips}
        t1, m1 = sym_exec(nargs, before, trips)
        t2, m2 = sym_exec(nargs, after, trips)
        if t1 != t2:
            k = next((i for i, (a, b) in enumerate(zip(t1, t2)) if a != b), min(len(t1), len(t2)))
            fails.append(("observation", {"trips": trips, "event": k,
                                          "original": repr(t1[k])[:300] if k < len(t1) else None,
                                          "realized": repr(t2[k])[:300] if k < len(t2) else None}))
            break
        if m1 != m2:
            b = next(k for k in m1 if m1[k] != m2[k])
            fails.append(("final-contents", {"trips": trips, "buffer": b, "original": repr(m1[b])[:300],
                                             "realized": repr(m2[b])[:300]}))
            break
    return fails, {"nargs": nargs, "before": before, "after": after, "text": text}


def check_spaces(p):
    """(iii): after set-memory-space every linalg operand is in L1, the signature is in L3."""
    if p["style"] == "explicit":
        return []
    mod = parse(program_text(p))
    run_set_memory_space(mod)
    fails = []
    for op in mod.walk():
        if op.name == "linalg.generic":
            for v in op.operands:
                if str(v.type).startswith("memref") and '"L1"' not in str(v.type):
                    fails.append(("operand-not-L1", {"type": str(v.type)}))
        if op.name == "func.func" and op.sym_name.data == "f":
            for t in list(op.function_type.inputs) + list(op.function_type.outputs):
                if str(t).startswith("memref") and '"L3"' not in str(t):
                    fails.append(("signature-not-L3", {"type": str(t)}))
    return fails[:1]



# ==========================================================================================
# (iii) memory spaces after set-memory-space: more function shapes; (i) transposed constants as a pass
# ==========================================================================================
def _fill(out, ty, ind="  "):
    return (f'{ind}linalg.generic {{indexing_maps = [affine_map<(i) -> (i)>], iterator_types = ["parallel"]}} '
            f"outs({out} : {ty}) {{\n{ind}^bb0(%o : i32):\n{ind}  %k = arith.constant 7 : i32\n{ind}  linalg.yield %k : i32\n{ind}}}\n")


def gen_space_program(rng):
    """Function shapes that matter for memory spaces: private functions (arguments stay untagged), public
    functions with tagged / untagged arguments and untagged memref results, allocations."""
    vis = rng.choice(["public", "public", "private", ""])      # "" = no keyword = public (MLIR default)
    nargs = rng.choice([0, 1, 2])
    tags = [rng.choice(["", "", ', "L3"', ', "L1"']) for _ in range(nargs)]
    result = rng.choice(["none", "alloc", "arg"]) if (nargs or True) else "none"
    if result == "arg" and nargs == 0:
        result = "alloc"
    args = ", ".join(f"%a{i} : memref<16xi32{tags[i]}>" for i in range(nargs))
    rty = None
    body = ""
    if result == "alloc":
        rty = "memref<16xi32>"
        body += '  %m = "memref.alloc"() <{operandSegmentSizes = array<i32: 0, 0>}> : () -> memref<16xi32>\n'
        body += _fill("%m", "memref<16xi32>")
    elif result == "arg":
        rty = f"memref<16xi32{tags[0]}>"
    for i in range(nargs):
        body += _fill(f"%a{i}", f"memref<16xi32{tags[i]}>")
    ret = f"  func.return {'%m' if result == 'alloc' else '%a0'} : {rty}\n" if rty else "  func.return\n"
    sig = f" -> {rty}" if rty else ""
    return {"text": f"func.func {vis + ' ' if vis else ''}@f({args}){sig} {{\n{body}{ret}}}\n", "vis": vis, "tags": tags,
            "result": result}


def _space_of(t):
    s = str(t)
    return "ML1" if '"L1"' in s else ("ML3" if '"L3"' in s else "MNone")


def check_space_program(sp):
    """Returns (failures, signature pairs (before, after)) on the real set-memory-space."""
    mod = parse(sp["text"])
    fn = [o for o in mod.ops if o.name == "func.func"][0]
    before = [_space_of(t) for t in list(fn.function_type.inputs) + list(fn.function_type.outputs) if str(t).startswith("memref")]
    run_set_memory_space(mod)
    fails = []
    fn = [o for o in mod.ops if o.name == "func.func"][0]
    after = [_space_of(t) for t in list(fn.function_type.inputs) + list(fn.function_type.outputs) if str(t).startswith("memref")]
    for op in mod.walk():
        if op.name == "linalg.generic":
            for v in op.operands:
                if str(v.type).startswith("memref") and _space_of(v.type) != "ML1":
                    fails.append(("operand-not-L1", {"type": str(v.type)}))
    if sp["vis"] in ("public", ""):
        for b, a in zip(before, after):
            if a == "MNone":
                fails.append(("signature-untagged", {"before": b, "after": a}))
    return fails[:1], list(zip(before, after))


def gen_transpose_case(rng):
    d0, d1 = rng.choice([1, 2, 3, 4, 5]), rng.choice([1, 2, 3, 4, 8])
    vals = [rng.randrange(-40, 40) for _ in range(d0 * d1)]
    return d0, d1, vals


def run_transpose_pass(d0, d1, vals):
    """arith.constant tensor<d0 x d1> transposed by a linalg.generic: the real RemoveTransposeConstants pattern.
    Returns the values of the constant that replaces the generic (row-major, shape d1 x d0)."""
    from xdsl.pattern_rewriter import PatternRewriteWalker
    from snaxc.transforms.frontend.remove_transpose_constants import RemoveTransposeConstants
    rows = ", ".join("[" + ", ".join(str(vals[i * d1 + j]) for j in range(d1)) + "]" for i in range(d0))
    text = (f"func.func @t() -> tensor<{d1}x{d0}xi32> {{\n"
            f"  %c = arith.constant dense<[{rows}]> : tensor<{d0}x{d1}xi32>\n"
            f"  %e = tensor.empty() : tensor<{d1}x{d0}xi32>\n"
            "  %r = linalg.generic {indexing_maps = [affine_map<(x, y) -> (y, x)>, affine_map<(x, y) -> (x, y)>], "
            f'iterator_types = ["parallel", "parallel"]}} ins(%c : tensor<{d0}x{d1}xi32>) outs(%e : tensor<{d1}x{d0}xi32>) {{\n'
            "  ^bb0(%a : i32, %b : i32):\n    linalg.yield %a : i32\n"
            f"  }} -> tensor<{d1}x{d0}xi32>\n  func.return %r : tensor<{d1}x{d0}xi32>\n}}\n")
    mod = parse(text)
    PatternRewriteWalker(RemoveTransposeConstants()).rewrite_module(mod)
    consts = [o for o in mod.walk() if o.name == "arith.constant"]
    gens = [o for o in mod.walk() if o.name == "linalg.generic"]
    if gens or len(consts) != 1:
        return None
    return [int(x) for x in consts[0].value.get_values()]

# ==========================================================================================
# L2 probe: memref.global read through subviews (ApplyLayoutCastSubviewGlobal / ApplyLayoutCastGlobal)
# ==========================================================================================
class _NoVerdict(Exception):
    pass


def _type_addr(ty, idx):
    """element address of logical index idx in a buffer of memref type ty (i8: element = byte)"""
    from xdsl.dialects import builtin
    from snaxc.dialects.tsl import TiledStridedLayoutAttr
    lay = ty.layout
    shape = ty.get_shape()
    if isinstance(lay, builtin.NoneAttr):
        a = 0
        for k, s in zip(idx, shape):
            a = a * s + k
        return a
    if isinstance(lay, TiledStridedLayoutAttr):
        t = lay.data
        if t.is_dynamic() or t.offset is None:
            raise _NoVerdict("dynamic tsl")
        a = t.offset
        for k, ts in zip(idx, t.tstrides):
            rem = k
            for s in reversed(ts.strides):
                a += (rem % s.bound) * s.step
                rem //= s.bound
        return a
    if isinstance(lay, builtin.StridedLayoutAttr):
        off = lay.get_offset()
        st = lay.get_strides()
        if off is None or any(x is None for x in st):
            raise _NoVerdict("dynamic strided")
        return off + sum(k * x for k, x in zip(idx, st))
    raise _NoVerdict("layout " + str(lay))


def _resolve_global_view(val):
    """val -> (global symbol name, function logical index -> element address in the global's buffer)"""
    from xdsl.dialects import memref
    from xdsl.ir import OpResult
    if not isinstance(val, OpResult):
        raise _NoVerdict("block argument")
    op = val.op
    if isinstance(op, memref.GetGlobalOp):
        ty = val.type
        return op.name_.string_value(), (lambda idx: _type_addr(ty, idx))
    if isinstance(op, memref.SubviewOp):
        offs = [int(x) for x in op.static_offsets.iter_values()]
        strs = [int(x) for x in op.static_strides.iter_values()]
        if len(op.offsets) or len(op.sizes) or len(op.strides):
            raise _NoVerdict("dynamic subview")
        g, f = _resolve_global_view(op.source)
        return g, (lambda idx: f([o + k * s for o, k, s in zip(offs, idx, strs)]))
    raise _NoVerdict(op.name)


def gen_global_case(rng):
    r0 = rng.choice([0, 8])
    second = rng.choice(["none", "none", "subview", "subview", "whole", "cast_subview"])
    vals = list(range(256))
    rng.shuffle(vals)
    return {"r0": r0, "second": second, "vals": [v - 128 for v in vals]}


def global_case_text(c):
    rows = ", ".join("[" + ", ".join(str(c["vals"][i * 16 + j]) for j in range(16)) + "]" for i in range(16))
    sv = "memref<8x16xi8, strided<[16, 1], offset: %d>>"
    tsl = "memref<8x16xi8, #tsl.tsl<[8] -> (8), [2, 8] -> (64, 1)>>"
    r0 = c["r0"]
    o0 = 8 - r0
    lines = [
        '"memref.global"() <{alignment = 64 : i64, constant, initial_value = dense<[' + rows + ']> : tensor<16x16xi8>, '
        'sym_name = "global", sym_visibility = "private", type = memref<16x16xi8>}> : () -> ()',
        "func.func @f() {",
        "  %0 = memref.get_global @global : memref<16x16xi8>",
        f"  %1 = memref.subview %0[{r0}, 0] [8, 16] [1, 1] : memref<16x16xi8> to {sv % (16 * r0)}",
        f'  %2 = "snax.layout_cast"(%1) : ({sv % (16 * r0)}) -> {tsl}',
        f'  "test.op"(%2) {{tag = 1 : i32}} : ({tsl}) -> ()',
    ]
    if c["second"] == "subview":
        lines += [f"  %3 = memref.subview %0[{o0}, 0] [8, 16] [1, 1] : memref<16x16xi8> to {sv % (16 * o0)}",
                  f'  "test.op"(%3) {{tag = 2 : i32}} : ({sv % (16 * o0)}) -> ()']
    elif c["second"] == "whole":
        lines += ['  "test.op"(%0) {tag = 3 : i32} : (memref<16x16xi8>) -> ()']
    elif c["second"] == "cast_subview":
        lines += [f"  %3 = memref.subview %0[{o0}, 0] [8, 16] [1, 1] : memref<16x16xi8> to {sv % (16 * o0)}",
                  f'  %4 = "snax.layout_cast"(%3) : ({sv % (16 * o0)}) -> {tsl}',
                  f'  "test.op"(%4) {{tag = 4 : i32}} : ({tsl}) -> ()']
    lines += ["  func.return", "}"]
    return "\n".join(lines) + "\n"


def check_global_case(c):
    """Runs the real realize-memref-casts pass; every test.op operand that is still a (sub)view of a global must
    read, at every logical index, the value the original global held there.  Returns (failures, consumers decided)."""
    from xdsl.dialects import memref
    from snaxc.dialects.tsl import TiledStridedLayoutAttr
    from snaxc.transforms.realize_memref_casts import RealizeMemrefCastsPass
    mod = parse(global_case_text(c))
    RealizeMemrefCastsPass().apply(_xctx(), mod)
    mod.verify()
    globs = {}
    for o in mod.walk():
        if isinstance(o, memref.GlobalOp):
            globs[o.sym_name.data] = [int(x) for x in o.initial_value.get_values()]
    row0 = {1: c["r0"], 2: 8 - c["r0"], 3: 0, 4: 8 - c["r0"]}
    fails, decided = [], 0
    for o in mod.walk():
        if o.name != "test.op":
            continue
        tag = o.attributes["tag"].value.data
        try:
            g, addr = _resolve_global_view(o.operands[0])
            oty = o.operands[0].type
            shape = oty.get_shape()
            mem = globs[g]
            bad = []
            for i in range(shape[0]):
                for j in range(shape[1]):
                    want = c["vals"][(row0[tag] + i) * 16 + j]
                    # (a) the view chain (subview offsets applied to the source's layout), and
                    # (b) the consumer's own operand type (static offsets live in the type: what lowering uses)
                    # (b) only for identity / strided operand types, whose offset is absolute by MLIR semantics; a
                    # TSL-typed subview result carries no offset in its type (the pointer comes from the subview)
                    ways = [("chain", addr([i, j]))]
                    if not isinstance(oty.layout, TiledStridedLayoutAttr):
                        ways.append(("type", _type_addr(oty, [i, j])))
                    for how, a in ways:
                        got = mem[a] if 0 <= a < len(mem) else None
                        if got != want:
                            bad.append([how, i, j, want, got])
            decided += 1
            if bad:
                fails.append(("global-consumer-reads-wrong-elements",
                              {"consumer_tag": tag, "wrong": len(bad), "first (addressing, i, j, expected, got)": bad[:4]}))
        except _NoVerdict:
            continue
    return fails, decided


# ==========================================================================================
# L1
# ==========================================================================================
def correspondence(ctx):
    rng = ctx.rng
    dis = []
    # ---- (a) constants
    n = ctx.n(100, 1500)
    cases, metas = [], []
    for _ in range(n):
        ts, mode = gen_dense_layout(rng)
        bits = rng.choice([8, 16, 32])
        static = all(s is not None and b is not None for t in ts for (s, b) in t)
        total = _prod((b if b else 1) for t in ts for (_, b) in t)
        vals = [rng.randrange(0, 100) for _ in range(total)]
        raised = False
        try:
            new = real_transform_constant(ts, bits, vals)
        except Exception:
            new, raised = None, True
        lit = "(Some None)" if new is None else f"(Some (Some {zlist(new)}))"
        if raised:
            lit = "None"
        dense = False
        if static:
            dense = bool(_mk_layout(ts).is_dense())
        cases.append(f"({coq_layout(ts)}, {zlist(vals)}, {lit})")
        metas.append({"layout": ts, "bits": bits, "values": vals[:16], "mode": mode})
        ctx.count({"const": ts, "mode": mode, "transformed": new is not None}, new is not None and total > 1,
                  f"tc{ts}{vals}", f"L1:const:{mode}")
    tt, tmeta = [], []
    rem = __import__("snaxc.transforms.frontend.remove_transpose_constants", fromlist=["x"]).RemoveTransposeConstants()
    for _ in range(ctx.n(60, 400)):
        cols, rows = rng.choice([1, 2, 3, 4, 5]), rng.choice([1, 2, 3, 4, 6])
        arr = [rng.randrange(-50, 50) for _ in range(cols * rows)]
        res = list(rem.transpose_tuple(tuple(arr), cols, rows))
        tt.append(f"({zlist(arr)}, {zlit(cols)}, {zlit(rows)}, {zlist(res)})")
        tmeta.append({"cols": cols, "rows": rows, "arr": arr})
        ctx.count({"transpose": [cols, rows]}, cols > 1 and rows > 1, f"tt{arr}{cols}", "L1:transpose_tuple")
    tp, tpm = [], []
    for _ in range(ctx.n(40, 300)):
        d0, d1, vals = gen_transpose_case(rng)
        try:
            res = run_transpose_pass(d0, d1, vals)
        except Exception as e:
            dis.append({"name": "L1:transpose-pass-raised", "case": [d0, d1], "detail": repr(e)[:200]})
            continue
        if res is None:
            dis.append({"name": "L1:transpose-pass-did-not-fold", "case": [d0, d1, vals]})
            continue
        tp.append(f"({zlist(vals)}, {zlit(d0)}, {zlit(d1)}, {zlist(res)})")
        tpm.append({"shape": [d0, d1], "values": vals, "result": res})
        ctx.count({"transpose-pass": [d0, d1]}, d0 != d1 and d0 > 1 and d1 > 1, f"tp{d0}{d1}{vals}", "L1:transpose_pass")
    sg, sgm = [], []
    for _ in range(ctx.n(60, 400)):
        sp = gen_space_program(rng)
        try:
            _, pairs = check_space_program(sp)
        except Exception as e:
            dis.append({"name": "L1:set-memory-space-raised", "case": sp["text"], "detail": repr(e)[:200]})
            continue
        if sp["vis"] in ("public", ""):
            for b, a in pairs:
                sg.append(f"({b}, {a})")
                sgm.append(sp["text"])
        ctx.count({"spaces": sp["text"][:200]}, True, "sp" + sp["text"], f"L1:spaces:{sp['vis'] or 'default'}")
    text = ("From Snax Require Import Base.Prelude Model.Tsl Model.C12Const Model.C12Casts.\n"
            f"Definition cases := {coqlist(cases)}.\n"
            "Definition oeqb (a b : option (option (list Z))) := match a, b with Some (Some x), Some (Some y) => "
            "list_eqb Z.eqb x y | Some None, Some None => true | None, None => true | _, _ => false end.\n"
            "Eval vm_compute in failing (fun c : layout * list Z * option (option (list Z)) => match c with (l, old, r) => "
            "oeqb (transform_constant old l) r end) cases.\n"
            "Eval vm_compute in failing (fun c : layout * list Z * option (option (list Z)) => match c with (l, old, r) => "
            "match r with Some (Some _) => mixed_radix_sorted l | _ => true end end) cases.\n"
            f"Definition tcases := {coqlist(tt)}.\n"
            "Eval vm_compute in failing (fun c : list Z * Z * Z * list Z => match c with (a, co, ro, r) => "
            "list_eqb Z.eqb (transpose_tuple a co ro) r end) tcases.\n"
            f"Definition pcases := {coqlist(tp)}.\n"
            "Eval vm_compute in failing (fun c : list Z * Z * Z * list Z => match c with (a, d0, d1, r) => "
            "list_eqb Z.eqb (transpose_tuple a d0 d1) r end) pcases.\n"
            f"Definition scases : list (mspace * mspace) := {coqlist(sg)}.\n"
            "Eval vm_compute in failing (fun c : mspace * mspace => mspace_eqb (func_space (fst c)) (snd c)) scases.\n")
    ok, out = vlib.coq_eval("c12const", text, timeout=600)
    lists = vlib.parse_all_eval_lists(out)
    if ok and len(lists) == 5:
        for idx in lists[3]:
            dis.append({"name": "L1:transpose_pass", "case": tpm[idx]})
        for idx in lists[4]:
            dis.append({"name": "L1:func_space", "case": sgm[idx], "coq_case": sg[idx]})
        lists = lists[:3]
    if not ok or len(lists) != 3:
        return dis + [{"name": "cases-file", "detail": out[-2000:]}]
    for idx in lists[0]:
        dis.append({"name": "L1:transform_constant", "case": metas[idx], "coq_case": cases[idx][:600]})
    for idx in lists[1]:
        dis.append({"name": "L1:dense_implies_mixed_radix_sorted", "case": metas[idx]})
    for idx in lists[2]:
        dis.append({"name": "L1:transpose_tuple", "case": tmeta[idx]})

    # ---- (b) programs
    n = ctx.n(100, 3000)
    pc, pm = [], []
    for p in CORPUS + [gen_program(rng) for _ in range(n)]:
        try:
            pfails, info = check_program(p)
        except ConvError as e:
            dis.append({"name": "L1:converter", "case": p, "detail": str(e)})
            continue
        except Exception as e:
            dis.append({"name": "L1:pass-raised", "case": p, "detail": repr(e)[:300]})
            continue
        after_c = canon_py(info["nargs"], info["after"])
        pc.append(f"({info['nargs']}%nat, {coq_items(info['before'])}, {coq_items(after_c)})")
        pm.append({"program": p, "text": info["text"], "fails": pfails})
        nt = any(it[0] == "copy" for it in _flat(info["after"])) and info["before"] != info["after"]
        ctx.count({"program": info["text"][:400]}, nt, "pg" + info["text"], f"L1:program:{p['style']}")
    texts, spans = [], []
    inside = 0
    SH = 150
    for i in range(0, len(pc), SH):
        texts.append("From Snax Require Import Base.Prelude Model.C12Casts.\n"
                     f"Definition cases := {coqlist(pc[i:i + SH])}.\n"
                     "Eval vm_compute in failing (fun c : nat * list item * list item => match c with (n, b, a) => "
                     "prog_eqb (canon n (realize_all b)) a end) cases.\n"
                     "Eval vm_compute in failing (fun c : nat * list item * list item => match c with (n, b, a) => "
                     "negb (all_steps_okb b) end) cases.\n")
        spans.append(i)
    for (ok, out), base in zip(vlib.coq_eval_many("c12pg_", texts, timeout=600), spans):
        lists = vlib.parse_all_eval_lists(out)
        if not ok or len(lists) != 2:
            return dis + [{"name": "cases-file", "detail": out[-2000:]}]
        for idx in lists[0]:
            dis.append({"name": "L1:realize", "case": pm[base + idx]["program"], "text": pm[base + idx]["text"],
                        "coq_case": pc[base + idx][:900]})
        # programs inside the decidable domain of C12_all_steps_equiv (all_steps_okb = true): the theorem says the
        # pass output is equivalent; a symbolic-execution failure on such a program contradicts it
        for idx in lists[1]:
            inside += 1
            if pm[base + idx]["fails"]:
                dis.append({"name": "L1:all_steps_equiv-contradicted", "case": pm[base + idx]["program"],
                            "text": pm[base + idx]["text"], "detail": pm[base + idx]["fails"][:1]})
    ctx.extra["programs_in_all_steps_okb_domain"] = inside
    ctx.extra["programs_generated_for_L1"] = len(pc)
    return dis


def _flat(items):
    for it in items:
        yield it
        if it[0] == "loop":
            yield from _flat(it[2])


# ==========================================================================================
# L2
# ==========================================================================================
def classify(progs):
    """For abstract `before` programs: (set of indices with bad_order, set with acc_output) by the Coq predicates."""
    if not progs:
        return set(), set(), set(), set(), set(), set()
    text = ("From Snax Require Import Base.Prelude Model.C12Casts.\n"
            f"Definition cases := {coqlist(coq_items(b) for b in progs)}.\n"
            "Eval vm_compute in failing (fun b => negb (bad_order b)) cases.\n"
            "Eval vm_compute in failing (fun b => negb (acc_output b)) cases.\n"
            "Eval vm_compute in failing (fun b => negb (bad_scope b)) cases.\n"
            "Eval vm_compute in failing (fun b => negb (bad_window b)) cases.\n"
            "Eval vm_compute in failing (fun b => negb (bad_nested b)) cases.\n"
            "Eval vm_compute in failing (fun b => negb (bad_nested_in b)) cases.\n")
    ok, out = vlib.coq_eval("c12cls", text, timeout=300)
    lists = vlib.parse_all_eval_lists(out)
    if not ok or len(lists) != 6:
        return set(), set(), set(), set(), set(), set()
    return tuple(set(x) for x in lists)


def search(ctx, deep=False):
    rng = ctx.rng
    raw = []
    for _ in range(ctx.n(100, 1000)):
        ts, mode = gen_dense_layout(rng)
        if not all(s is not None and b is not None for t in ts for (s, b) in t):
            continue
        bits = rng.choice([8, 16, 32])
        total = _prod(b for t in ts for (_, b) in t)
        vals = [rng.randrange(0, 120) for _ in range(total)]
        for what, detail in check_constant(ts, bits, vals):
            raw.append({"what": what, "layout": ts, "bits": bits, "values": vals, "detail": detail, "klass": None})
        ctx.count({"L2const": ts}, total > 1, f"l2c{ts}{vals}", "L2:const")
    for _ in range(ctx.n(60, 500)):
        d0, d1, vals = gen_transpose_case(rng)
        try:
            res = run_transpose_pass(d0, d1, vals)
        except Exception as e:
            res = None
            raw.append({"what": "transpose-pass-raised", "transpose": [d0, d1, vals], "detail": repr(e)[:200], "klass": None})
            continue
        want = [vals[j * d1 + i] for i in range(d1) for j in range(d0)]      # out[i][j] = in[j][i]
        if res != want:
            raw.append({"what": "transposed-constant", "transpose": [d0, d1, vals], "klass": None,
                        "detail": {"expected": want, "got": res}})
        ctx.count({"L2transpose": [d0, d1]}, d0 != d1, f"l2t{d0}{d1}{vals}", "L2:transpose_pass")
    for _ in range(ctx.n(80, 600)):
        sp = gen_space_program(rng)
        try:
            fails, _ = check_space_program(sp)
        except Exception as e:
            fails = [("set-memory-space-raised", {"error": repr(e)[:200]})]
        for what, detail in fails:
            raw.append({"what": what, "space_program": sp, "text": sp["text"], "detail": detail, "klass": None})
        ctx.count({"L2spaces": sp["text"][:200]}, True, "l2s" + sp["text"], f"L2:spaces:{sp['vis'] or 'default'}")
    for _ in range(ctx.n(24, 200)):
        gc = gen_global_case(rng)
        try:
            fails, decided = check_global_case(gc)
        except Exception as e:
            fails, decided = [("global-case-pass-raised", {"error": repr(e)[:200]})], 0
        for what, detail in fails:
            raw.append({"what": what, "global_case": gc, "text": global_case_text(gc), "detail": detail, "klass": None})
        ctx.count({"L2global": [gc["r0"], gc["second"]], "consumers_decided": decided}, decided > 0,
                  f"l2g{gc['r0']}{gc['second']}{decided}", f"L2:global:{gc['second']}:decided{decided}")
    n = ctx.n(160, 4000) * (3 if deep else 1)
    pend = []
    for p in CORPUS + [gen_program(rng) for _ in range(n)]:
        try:
            fails, info = check_program(p)
            fails = fails + check_spaces(p)
        except Exception as e:
            fails, info = [("harness-or-pass-crash", {"error": repr(e)[:300]})], {"before": [], "text": program_text(p)}
        ctx.count({"L2": info["text"][:300], "failures": len(fails)}, True, "l2" + info["text"], f"L2:program:{p['style']}")
        for what, detail in fails:
            pend.append(({"what": what, "program": p, "text": info["text"], "detail": detail, "klass": None}, info["before"]))
    bad, acc, scope, window, nested, nested_in = classify([b for (_, b) in pend])
    for k, (f, _) in enumerate(pend):
        if f["what"] in ("observation", "final-contents"):
            if k in scope:
                f["klass"] = CLASS_SCOPE
            elif k in window:
                f["klass"] = CLASS_WINDOW
            elif k in nested:
                f["klass"] = CLASS_NESTED
            elif k in nested_in:
                f["klass"] = CLASS_NESTED_IN
        raw.append(f)
    seen, out = set(), []
    for f in sorted(raw, key=lambda f: len(f.get("text", ""))):
        key = (f["what"], f["klass"])
        if key not in seen:
            seen.add(key)
            out.append(f)
    return out


def replay_known(ctx, entry):
    p = entry["witness"]
    fails, info = check_program(p)
    if not any(w in ("observation", "final-contents") for (w, _) in fails):
        return False
    bad, acc, scope, window, nested, nested_in = classify([info["before"]])
    if entry["class"] == CLASS_NESTED:
        return 0 in nested
    if entry["class"] == CLASS_NESTED_IN:
        return 0 in nested_in and 0 not in nested and 0 not in window and 0 not in scope
    if entry["class"] == CLASS_WINDOW:
        return 0 in window
    if entry["class"] == CLASS_SCOPE:
        return 0 in scope
    return False


def replay(ctx, obj):
    f = obj.get("failure")
    if not f:
        print("no failing input recorded; broken obligations:", obj.get("no_longer_checks"))
        return 1
    if "transpose" in f:
        d0, d1, vals = f["transpose"]
        res = run_transpose_pass(d0, d1, vals)
        want = [vals[j * d1 + i] for i in range(d1) for j in range(d0)]
        print("shape", d0, "x", d1, "in", vals, "\nexpected", want, "\ngot     ", res)
        return 0 if res == want else 1
    if "space_program" in f:
        print(f["text"])
        fails, pairs = check_space_program(f["space_program"])
        print("signature spaces (before, after):", pairs)
        for r in fails:
            print("FAIL", r)
        return 1 if fails else 0
    if "program" in f:
        p = f["program"]
        print(program_text(p))
        fails, info = check_program(p)
        fails = fails + check_spaces(p)
        print("before :", info["before"])
        print("after  :", info["after"])
        for r in fails:
            print("FAIL", r)
        return 1 if fails else 0
    res = check_constant([[tuple(sb) for sb in t] for t in f["layout"]], f["bits"], f["values"])
    for r in res:
        print("FAIL", r)
    return 1 if res else 0


# witnesses of the known finding classes and regression shapes run first: write/read/write (former F22),
# accumulation (former F23), fill then accumulate (no copy-in, single copy-out), read then write, first
# writer inside a loop followed by a reader outside
CORPUS = [
    {"nargs": 1, "nallocs": 1, "style": "plain", "chain": False, "ret": "%m0",
     "body": [("gen", ["%a0"], "%m0", "plain")]},
    {"nargs": 3, "nallocs": 0, "style": "plain", "chain": False,
     "body": [("gen2", ["%a0"], ["%a1", "%a2"], ["plain", "acc"])]},
    {"nargs": 2, "nallocs": 0, "style": "plain", "chain": False,
     "body": [("gen", [], "%a0", "plain"), ("gen", ["%a1"], "%a0", "acc")]},
    {"nargs": 2, "nallocs": 0, "style": "explicit", "chain": True,
     "body": [("gen", ["%a0"], "%a1", "plain"), ("gen", ["%a1"], "%a0", "acc")]},
    {"nargs": 2, "nallocs": 0, "style": "explicit", "chain": False,
     "body": [("for", 2, [("gen", [], "%a0", "plain")]), ("gen", ["%a0"], "%a1", "plain")]},
    {"nargs": 2, "nallocs": 0, "style": "plain", "chain": False,
     "body": [("gen", [], "%a0", "plain"), ("gen", ["%a0"], "%a1", "plain"), ("gen", [], "%a0", "plain")]},
    {"nargs": 2, "nallocs": 0, "style": "plain", "chain": False, "body": [("gen", ["%a0"], "%a1", "acc")]},
    {"nargs": 2, "nallocs": 0, "style": "plain", "chain": False,
     "body": [("for", 3, [("gen", ["%a1"], "%a0", "plain")]), ("gen", ["%a1"], "%a1", "plain")]},
    {"nargs": 3, "nallocs": 0, "style": "explicit", "chain": True,
     "body": [("gen", ["%a0", "%a1"], "%a2", "plain"), ("for", 2, [("gen", ["%a2"], "%a0", "plain")])]},
]
