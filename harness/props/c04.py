"""C04 — CSR lowering writes every field to its declared register.

Part A (register maps):  hand model coq/Model/C04AddrMap.v of the accelerators' field lists and
`generate_acc_op()` dictionaries as functions of a streamer configuration; L1 = exact comparison
of the model with real accelerator objects built from generated StreamerConfiguration objects;
L2 = injectivity / name-address agreement checked directly on the real dictionaries.
Part B (lowering): see `c04_lower.py` (imported below when present).
"""
from __future__ import annotations

import itertools

import vlib
from vlib import coqlist, zlit

PROPERTY = "C04"
MODEL_TARGETS = ["Model/C04AddrMap.vo", "Model/C04Csr.vo", "Model/C04Rocc.vo", "Model/C04Gemmx.vo"]
RULE = ("part A: streamer configurations with 1-30 streamers (>26 exercises the name truncation), 0-7 temporal "
        "dims, 0-3 spatial dims, every subset of {address-remap, channel-mask, byte-mask, broadcast, transpose} plus "
        "0-3 DMA extensions (real classes and synthetic names / csr lengths 0-5, duplicate names in the malformed "
        "stream), both system types, for snax_alu / snax_gemmx (n in -2..40) / snax_xdma / snax_phs (0-12 switches) / "
        "snax_hwpe_mult; the default configurations and a small exhaustive grid run first. A case is non-trivial "
        "when the configuration has >= 2 streamers or an option; distinct = distinct (accelerator, configuration). "
        "part B: accfg programs (setup/launch/await over 1-2 accelerators, nested scf.for / scf.if carrying state, "
        "pure value chains) generated directly and as outputs of the real trace-states + dedup + overlap pipeline, "
        "lowered by the real convert-accfg-to-csr and read back as csrw/csrr/loop structure.")
TRUSTED_BASE = [
    "Coq 8.16.1 kernel + vm_compute (no native_compute)",
    "hand models coq/Model/C04AddrMap.v (accelerator field lists / address dictionaries) and coq/Model/C04Csr.v "
    "(CSR instruction IR, machine, lowering), tied by L1 in this harness on every run",
    "harness/props/c04.py: generators, Coq-literal printers, the structural reader of lowered xDSL IR "
    "(llvm.inline_asm csrw/csrr, scf.for/if/while), PHS PE stub (only sym_name / get_true_switches are used by "
    "SNAXPHSAccelerator.__init__); harness/xdsl_compat.py; xDSL 0.70 parser/rewriter",
]
ASSUMPTIONS = [
    "hardware meaning of the reserved registers (busy / performance counter after the streamer launch field, xDMA "
    "multicast pointers, HWPE clear register 0x3c5) is taken from the comments in the code",
    "inline-asm constraint strings, the four nops and the i32 index_cast are not modelled (DESIGN.md C04 'not covered')",
    "RoCC: instruction operands are checked against the inferred state; soundness of inference is C07",
]
ALLOWED_AXIOMS: list[str] = []


# ------------------------------------------------------------------------------------------ part A
def _streamer_mod():
    from snaxc.accelerators.streamers import streamers as S
    from snaxc.accelerators.streamers import extensions as E
    return S, E


_SYN = {}


def _syn_ext(name: str, csr_len: int):
    """A synthetic StreamerExtension subclass (name, csr_length)."""
    S, E = _streamer_mod()
    key = (name, csr_len)
    if key not in _SYN:
        cls = type(f"Syn_{name}_{csr_len}", (E.StreamerExtension,), {
            "name": name, "csr_length": csr_len, "supported_kernel": None,
            "get_dma_extension_name": lambda self: self.name,
            "get_dma_extension_kernel": lambda self: None,
            "get_csr_values": lambda self, op: [0] * self.csr_length,
        })
        _SYN[key] = cls
    return _SYN[key]()


# an option is described as a tuple: ("a",) ("c",) ("bm",) ("b",) ("ext", name, len, is_transpose)
REAL_EXT = ["maxpool_ext", "memset_ext", "t", "add_ext", "add_ext_long", "rescale_down_ext", "rescale_up_ext"]


def mk_opt(o):
    S, E = _streamer_mod()
    if o[0] == "a":
        return S.HasAddressRemap()
    if o[0] == "c":
        return S.HasChannelMask()
    if o[0] == "bm":
        return S.HasByteMask()
    if o[0] == "b":
        return S.HasBroadcast()
    _, name, ln, tr = o
    real = {"maxpool_ext": E.MaxPoolExtension, "memset_ext": E.MemSetExtension, "t": E.TransposeExtension,
            "add_ext": E.AddExtension, "add_ext_long": E.AddLongExtension,
            "rescale_down_ext": E.RescaleDownExtension, "rescale_up_ext": E.RescaleUpExtension}
    if name in real and real[name]().csr_length == ln and tr == (name == "t"):
        return real[name]()
    assert not tr
    return _syn_ext(name, ln)


def real_ext_desc(name):
    S, E = _streamer_mod()
    o = mk_opt(("ext", name, {"rescale_down_ext": 4, "rescale_up_ext": 4}.get(name, 1), name == "t"))
    return ("ext", o.name, o.csr_length, isinstance(o, E.TransposeExtension))


def mk_cfg(cfg):
    """cfg = (streamers, xdma) with streamers = [(temporal flags str list, spatial ints, opts)]"""
    S, _ = _streamer_mod()
    sts = [S.Streamer(S.StreamerType.Reader, list(t), list(sp), [mk_opt(o) for o in opts]) for (t, sp, opts) in cfg[0]]
    return S.StreamerConfiguration(sts, S.StreamerSystemType.DmaExt if cfg[1] else S.StreamerSystemType.Regular)


def cfg_of_real(sc):
    """Describe a real StreamerConfiguration (used for the default configurations)."""
    S, E = _streamer_mod()
    sts = []
    for s in sc.streamers:
        opts = []
        for o in s.opts:
            if isinstance(o, S.HasAddressRemap):
                opts.append(("a",))
            elif isinstance(o, S.HasChannelMask):
                opts.append(("c",))
            elif isinstance(o, S.HasByteMask):
                opts.append(("bm",))
            elif isinstance(o, S.HasBroadcast):
                opts.append(("b",))
            elif isinstance(o, E.StreamerExtension):
                opts.append(("ext", o.name, o.csr_length, isinstance(o, E.TransposeExtension)))
            else:
                raise ValueError(f"unknown streamer option {o!r}")
        sts.append(([str(f.value) for f in s.temporal_dims], list(s.spatial_dims), opts))
    return (sts, sc.system_type() == S.StreamerSystemType.DmaExt)


def gen_opts(rng, malformed=False):
    opts = []
    for o in (("a",), ("c",), ("bm",), ("b",)):
        if rng.random() < 0.35:
            opts.append(o)
    if rng.random() < 0.3:
        opts.append(real_ext_desc("t"))
    ne = rng.choice([0, 0, 0, 1, 1, 2, 3])
    names = []
    for _ in range(ne):
        if rng.random() < 0.5:
            d = real_ext_desc(rng.choice(REAL_EXT))
        else:
            d = ("ext", rng.choice(["x", "y", "ext_1", "q_0", "bound", "zz"]), rng.choice([0, 1, 1, 2, 3, 5]), False)
        if d[1] in names and not malformed:
            continue
        names.append(d[1])
        opts.append(d)
    rng.shuffle(opts)
    if malformed and opts and rng.random() < 0.5:
        opts.append(rng.choice(opts))      # duplicated option object kind
    return opts


def gen_cfg(rng, malformed=False):
    ns = rng.choice([1, 1, 2, 2, 3, 3, 4, 5, 6, 8, 12]) if not malformed else rng.choice([1, 2, 25, 26, 27, 30])
    sts = []
    for _ in range(ns):
        t = [rng.choice("nnnir") for _ in range(rng.choice([0, 1, 1, 2, 3, 3, 4, 5, 6, 7]))]
        sp = [rng.choice([1, 2, 4, 8, 16]) for _ in range(rng.choice([0, 1, 1, 1, 2, 2, 3]))]
        sts.append((t, sp, gen_opts(rng, malformed)))
    return (sts, rng.random() < 0.35)


def grid_cfgs():
    """small exhaustive grid: 1-2 streamers x temporal 1-2 x spatial 1-2 x all subsets of the 5 builtin options"""
    base_opts = [("a",), ("c",), ("bm",), ("b",), ("ext", "t", 1, True)]
    out = []
    for r in range(len(base_opts) + 1):
        for sub in itertools.combinations(base_opts, r):
            for nt in (1, 2):
                for xd in (False, True):
                    out.append(([(["n"] * nt, [8], list(sub))], xd))
                    out.append(([(["n"] * nt, [8, 4], list(sub)), (["r", "n"], [8], list(sub)[:2])], xd))
    return out


class _StubPE:
    """SNAXPHSAccelerator.__init__ reads pe.properties['sym_name'] and pe.get_true_switches() only."""

    def __init__(self, name, nsw):
        from xdsl.dialects.builtin import StringAttr
        self.properties = {"sym_name": StringAttr(name)}
        self._nsw = nsw

    def get_true_switches(self):
        return self._nsw


class _StubSpec:
    def __init__(self, sc):
        self._sc = sc

    def get_streamer_config(self):
        return self._sc


def build_acc(kind, cfg, param):
    sc = mk_cfg(cfg) if cfg is not None else None
    if kind == "alu":
        from snaxc.accelerators.snax_alu import SNAXAluAccelerator
        return SNAXAluAccelerator(sc)
    if kind == "gemmx":
        from snaxc.accelerators.snax_gemmx import SNAXGEMMXAccelerator
        return SNAXGEMMXAccelerator(sc, n=param)
    if kind == "xdma":
        from snaxc.accelerators.snax_xdma import SNAXXDMAAccelerator
        return SNAXXDMAAccelerator(sc)
    if kind == "phs":
        from snaxc.accelerators.snax_phs import SNAXPHSAccelerator
        return SNAXPHSAccelerator(_StubPE("phs_acc", param), _StubSpec(sc))
    if kind == "hwpe":
        from snaxc.accelerators.snax_hwpe_mult import SNAXHWPEMultAccelerator
        return SNAXHWPEMultAccelerator()
    raise ValueError(kind)


def view_of(acc):
    op = acc.generate_acc_op()
    return {
        "fields_tuple": [str(x) for x in acc.fields],
        "launch_tuple": [str(x) for x in acc.launch_fields],
        "fields": [(k, int(v.value.data)) for k, v in op.field_items()],
        "launch": [(k, int(v.value.data)) for k, v in op.launch_field_items()],
        "barrier": int(op.barrier.value.data),
    }


def cstr(s: str) -> str:
    assert '"' not in s and "\\" not in s and all(32 <= ord(ch) < 127 for ch in s), s
    return f'"{s}"%string'


def coq_opt(o):
    return {"a": "OAddrRemap", "c": "OChanMask", "bm": "OByteMask", "b": "OBroadcast"}.get(o[0]) or \
        f"(OExt {cstr(o[1])} {int(o[2])}%nat {'true' if o[3] else 'false'})"


def coq_cfg(cfg):
    fl = {"n": "FlNormal", "i": "FlIrrelevant", "r": "FlReuse"}
    sts = coqlist("(mkStreamer " + coqlist(fl[f] for f in t) + " " + vlib.zlist(sp) + " " +
                  coqlist(coq_opt(o) for o in opts) + ")" for (t, sp, opts) in cfg[0])
    return f"(mkCfg {sts} {'true' if cfg[1] else 'false'})"


class NameTable:
    """Each distinct name is shipped once per cases file; views refer to it by index (C04AddrMap.decode_view)."""

    def __init__(self):
        self.idx: dict[str, int] = {}

    def __call__(self, name: str) -> str:
        if name not in self.idx:
            self.idx[name] = len(self.idx)
        return zlit(self.idx[name])

    def coq(self) -> str:
        return coqlist(cstr(k) for k in self.idx)


def coq_view(v, T):
    d = lambda dd: coqlist(f"({T(k)}, {zlit(a)})" for k, a in dd)
    return ("(mkView " + coqlist(T(x) for x in v["fields_tuple"]) + " " + coqlist(T(x) for x in v["launch_tuple"]) +
            " " + d(v["fields"]) + " " + d(v["launch"]) + " " + zlit(v["barrier"]) + ")")


def nontrivial_cfg(cfg):
    return cfg is not None and (len(cfg[0]) >= 2 or any(o for (_, _, o) in cfg[0]))


def partA_cases(ctx, malformed_share=0.15):
    """yield (kind, cfg, param) — defaults, grid, random."""
    rng = ctx.rng
    from snaxc.accelerators import snax_alu, snax_gemmx, snax_xdma
    cases = [("hwpe", None, None),
             ("alu", cfg_of_real(snax_alu.default_streamer), None),
             ("gemmx", cfg_of_real(snax_gemmx.default_streamer), 8),
             ("xdma", cfg_of_real(snax_xdma.default_streamer), None),
             ("phs", cfg_of_real(snax_alu.default_streamer), 3)]
    grid = grid_cfgs()
    if not ctx.thorough:
        grid = rng.sample(grid, 24)
    for g in grid:
        k = rng.choice(["alu", "gemmx", "xdma", "phs"])
        cases.append((k, g, {"gemmx": rng.choice([1, 4, 8, 16]), "phs": rng.choice([0, 1, 8])}.get(k)))
    for n in range(-2, 41) if ctx.thorough else (-2, -1, 0, 1, 2, 3, 4, 5, 7, 8, 9, 16, 33, 40):
        cases.append(("gemmx", gen_cfg(rng), n))
    for nsw in range(0, 13) if ctx.thorough else (0, 1, 2, 5, 12):
        cases.append(("phs", gen_cfg(rng), nsw))
    for _ in range(ctx.n(70, 3000)):
        k = rng.choice(["alu", "gemmx", "xdma", "phs"])
        cfg = gen_cfg(rng, malformed=rng.random() < malformed_share)
        cases.append((k, cfg, {"gemmx": rng.choice([1, 2, 3, 4, 5, 8, 12, 16, 32]),
                               "phs": rng.choice([0, 1, 2, 3, 4, 8])}.get(k)))
    return cases


TESTS_A = {
    "alu": ("scfg * rawview", "fun c => view_matches (alu_fields (fst c)) (alu_launch_fields (fst c)) (alu_map (fst c)) (decode_view T (snd c))"),
    "gemmx": ("scfg * Z * rawview", "fun c => match c with (cf, n, v) => view_matches (gemmx_fields cf n) (gemmx_launch_fields cf) (gemmx_map cf n) (decode_view T v) end"),
    "xdma": ("scfg * rawview", "fun c => view_matches (xdma_fields (fst c)) (xdma_launch_fields (fst c)) (xdma_map (fst c)) (decode_view T (snd c))"),
    "phs": ("scfg * nat * rawview", "fun c => match c with (cf, n, v) => view_matches (phs_fields cf n) (phs_launch_fields cf) (phs_map cf n) (decode_view T v) end"),
    "hwpe": ("rawview", "fun v => view_matches hwpe_fields hwpe_launch_fields hwpe_map (decode_view T v)"),
}


def correspondence_A(ctx):
    cases = {k: [] for k in TESTS_A}
    crashed = []
    for kind, cfg, param in partA_cases(ctx):
        try:
            v = view_of(build_acc(kind, cfg, param))
        except Exception as e:  # the constructor itself failing is a disagreement with the (total) model
            crashed.append({"name": "L1:addrmap-crash", "kind": kind, "cfg": cfg, "param": param, "error": repr(e)[:300]})
            continue
        cases[kind].append({"kind": kind, "cfg": cfg, "param": param, "impl": v})
        ctx.count({"L1": "addrmap", "kind": kind, "n_streamers": len(cfg[0]) if cfg else 0, "param": param,
                   "n_fields": len(v["fields"])}, nontrivial_cfg(cfg) or kind == "hwpe", f"A{kind}{cfg}{param}", f"addrmap:{kind}")
    texts = []
    order = []
    for k, (ty, fn) in TESTS_A.items():
        chunk = 25
        for i in range(0, len(cases[k]), chunk):
            T = NameTable()
            lits = []
            for c in cases[k][i:i + chunk]:
                vv = coq_view(c["impl"], T)
                if k == "hwpe":
                    lits.append(vv)
                elif k == "gemmx":
                    lits.append(f"({coq_cfg(c['cfg'])}, {zlit(c['param'])}, {vv})")
                elif k == "phs":
                    lits.append(f"({coq_cfg(c['cfg'])}, {int(c['param'])}%nat, {vv})")
                else:
                    lits.append(f"({coq_cfg(c['cfg'])}, {vv})")
            texts.append("From Snax Require Import Base.Prelude Model.C04AddrMap.\nFrom Coq Require Import String.\n"
                         f"Definition T : list string := {T.coq()}.\n"
                         f"Definition cs : list ({ty}) := {coqlist(lits)}.\n"
                         f"Eval vm_compute in failing ({fn}) cs.\n")
            order.append((k, i))
    dis = list(crashed)
    for (k, off), (ok, out) in zip(order, vlib.coq_eval_many("c04a", texts, timeout=600, par=8)):
        lists = vlib.parse_all_eval_lists(out)
        if not ok or len(lists) != 1:
            dis.append({"name": f"L1:addrmap:{k}:cases-file", "detail": out[-1500:]})
            continue
        for idx in lists[0]:
            dis.append(dict(name=f"L1:addrmap:{k}", **cases[k][off + idx]))
    return dis


def check_view_injective(kind, cfg, param, v, acc):
    """L2 on the implementation: the property itself. Returns list of (what, detail)."""
    fails = []
    addrs = [a for _, a in v["fields"]] + [a for _, a in v["launch"]] + [v["barrier"]]
    # reserved registers as documented in the code: two behind the streamer launch field(s) (busy, perf counter);
    # xdma: the multicast gap and the two registers before the barrier; hwpe: 0x3c5 (written by its barrier)
    reserved = []
    if kind in ("alu", "gemmx", "phs"):
        ls = [a for k, a in v["launch"] if k in ("launch_streamer", "launch_start")]
        if ls:
            reserved = [max(ls) + 1, max(ls) + 2]
    elif kind == "xdma":
        ls = [a for _, a in v["launch"]]
        reserved = list(range(0x3C0 + 4, 0x3C0 + 2 + 2 * 16)) + ([max(ls) + 1, max(ls) + 2] if ls else [])
    elif kind == "hwpe":
        reserved = [0x3C5]
    alla = addrs + reserved
    if len(set(alla)) != len(alla):
        dup = sorted({a for a in alla if alla.count(a) > 1})
        who = {a: [k for k, x in v["fields"] + v["launch"] if x == a] + (["<barrier>"] if v["barrier"] == a else []) +
               (["<reserved>"] if a in reserved else []) for a in dup}
        fails.append(("address_collision", {"duplicates": who}))
    # every name of acc.fields / acc.launch_fields (what SetupOp / LaunchOp are built with) is declared
    fd, ld = dict(v["fields"]), dict(v["launch"])
    miss = [f for f in v["fields_tuple"] if f not in fd] + [f for f in v["launch_tuple"] if f not in ld]
    if miss:
        fails.append(("field_without_address", {"missing": miss[:10]}))
    extra = [f for f in fd if f not in v["fields_tuple"]] + [f for f in ld if f not in v["launch_tuple"]]
    if extra:
        fails.append(("address_without_field", {"extra": extra[:10]}))
    wf = cfg is None or (len(cfg[0]) <= 26 and all(_distinct_ext(o) for (_, _, o) in cfg[0]))
    if wf and (len(set(v["fields_tuple"])) != len(v["fields_tuple"]) or len(v["fields"]) != len(v["fields_tuple"])):
        fails.append(("duplicate_field_name", {"n_tuple": len(v["fields_tuple"]), "n_dict": len(v["fields"])}))
    return fails


def _distinct_ext(opts):
    names = [o[1] for o in opts if o[0] == "ext" and o[2] > 0]
    return len(names) == len(set(names)) and not any(n in ("sstride", "bound", "tstride") for n in names)


def search_A(ctx, deep):
    fails = []
    for kind, cfg, param in partA_cases(ctx, malformed_share=0.1):
        if kind == "gemmx" and param is not None and param < 0:
            continue   # outside gemmx_wf (nb_mults < 0): see Props/C04.v
        try:
            acc = build_acc(kind, cfg, param)
            v = view_of(acc)
        except Exception as e:
            fails.append({"what": "constructor_crash", "kind": kind, "cfg": cfg, "param": param, "detail": repr(e)[:300], "klass": None})
            continue
        if kind == "xdma" and len(v["fields_tuple"]) < 4:
            continue   # outside xdma_wf (fewer than four fields in front of the multicast gap)
        for what, detail in check_view_injective(kind, cfg, param, v, acc):
            fails.append({"what": what, "kind": kind, "cfg": cfg, "param": param, "detail": detail, "klass": None})
        ctx.count({"L2": "addrmap", "kind": kind, "param": param}, nontrivial_cfg(cfg) or kind == "hwpe", f"L2A{kind}{cfg}{param}", f"L2:addrmap:{kind}")
    return fails


# ------------------------------------------------------------------------------------------ driver
import props.c04_lower as _B
import props.c04_rocc as _R
import props.c04_gemmx as _G


def correspondence(ctx):
    dis = correspondence_A(ctx)
    dis += _B.correspondence_B(ctx)
    dis += _R.correspondence_R(ctx)
    dis += _G.correspondence_G(ctx)
    return dis


def _dedup(fails):
    seen, out = set(), []
    for f in fails:
        k = (f["what"], f.get("kind"), f["klass"])
        if k not in seen:
            seen.add(k)
            out.append(f)
    return out


def search(ctx, deep=False):
    fails = search_A(ctx, deep)
    fails += _B.search_B(ctx, deep)
    fails += _R.search_R(ctx, deep)
    fails += _G.search_G(ctx, deep)
    return _dedup(fails)


def replay_known(ctx, entry):
    if entry.get("class") == "rocc_partial_first_setup":
        return _R.replay_known(ctx, entry)
    return _B.replay_known(ctx, entry)


def replay(ctx, obj):
    f = obj.get("failure")
    if not f:
        print("no failing input recorded; broken obligations:")
        for b in obj.get("no_longer_checks", []):
            print("  ", b.get("kind"), b.get("name"), str(b.get("detail"))[:1500])
        return 1
    if f.get("part") == "B":
        return _B.replay(ctx, f)
    if f.get("part") == "R":
        return _R.replay(ctx, f)
    if f.get("part") == "G":
        return _G.replay(ctx, f)
    cfg = f.get("cfg")
    if cfg is not None:
        cfg = ([(list(t), list(sp), [tuple(o) for o in opts]) for (t, sp, opts) in cfg[0]], cfg[1])
    acc = build_acc(f["kind"], cfg, f.get("param"))
    v = view_of(acc)
    print("accelerator:", f["kind"], "param:", f.get("param"))
    print("fields:", v["fields"])
    print("launch:", v["launch"], "barrier:", v["barrier"])
    res = check_view_injective(f["kind"], cfg, f.get("param"), v, acc)
    for r in res:
        print("FAIL", r)
    return 1 if res else 0
